#!/bin/sh
# Builds the whole framework from files on disk (offline): generated Coq files, every .vo, the
# extracted model + OCaml driver, and the Rust harness against /repo with the hooks enabled.
set -e
cd "$(dirname "$0")"
export CARGO_NET_OFFLINE=true
python3 tools/rs2v.py --repo "${VERIF_REPO:-/repo}" --out coq/Gen
( cd coq && coq_makefile -f _CoqProject -o Makefile >/dev/null && timeout 3000 make -j16 >/dev/null )
python3 - <<'PY'
import sys
sys.path.insert(0, 'tools')
import vlib
for f in (vlib.build_driver(), vlib.build_harness()):
    if f is not None:
        print(f.what, f.detail[-3000:])
        sys.exit(1)
print("setup ok")
PY
