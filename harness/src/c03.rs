//! C03 (implementation side, two real threads in lock step): a pointer stored in an AtomicWeak, a Weak value,
//! and a WeakSnapshot inside its still active critical section keep the object's memory block allocated.
//! The dealloc hook (site 1100) records every freed block; a block freed while one of those references
//! exists is a violation.  The AtomicWeak cells are not part of the Rc.v model (C09 models the cell word,
//! not the block), so this stream is monitor-only.
//!
//! Choreography (for k = 0..8 epoch advances between the last strong release and the reader's pin, and for each
//! variant): the object is held by one Rc and by one weak share stored in an AtomicWeak.
//!   0: drop the Rc, advance k epochs; reader pins, loads a WeakSnapshot from the cell, clears the cell;
//!      a helper thread runs collection rounds while the reader stays pinned; the block must not be freed;
//!      then the reader turns the snapshot into a Weak (`counted`), unpins, more rounds: still not freed while
//!      the Weak lives; drop it: now the block must be freed.
//!   1: same, but the Rc is dropped only after the reader has loaded (destruction comes due inside the section).
//!   2: no cell clearing: a Weak taken from the cell's snapshot outlives the cell's own share.
//!   3: the weak side from zero: Weak -> snapshot -> drop the Weak (count 0, try_dealloc deferred) -> counted().
use crate::rc::node;
use crate::util::Out;
use circ::{AtomicWeak, Rc, Weak};
use std::sync::atomic::Ordering::SeqCst;
use std::sync::Mutex;

static FREED: Mutex<Vec<usize>> = Mutex::new(Vec::new());

fn hook(site: u32, a: usize, _b: usize) {
    if site == 1100 {
        FREED.lock().unwrap().push(a);
    }
}

fn freed(addr: usize) -> bool {
    FREED.lock().unwrap().contains(&addr)
}

fn round() {
    let g = circ::cs();
    g.flush();
    drop(g);
}

fn helper_rounds(n: usize) {
    std::thread::spawn(move || {
        for _ in 0..n {
            round();
        }
    })
    .join()
    .unwrap();
}

fn block_of<T>(w: &Weak<T>) -> usize {
    circ::verif::weak::weak_word(w) & !7usize & !(0xFusize << 60)
}

pub fn run(out_path: &str, _seed: u64, thorough: bool) -> (u64, u64, u64) {
    circ::verif::ebr::set_tuning(64, 1);
    circ::verif::set_hook(Some(hook));
    let mut out = Out::create(out_path);
    let (mut checks, mut fails) = (0u64, 0u64);
    let reps = if thorough { 6 } else { 2 };
    for rep in 0..reps {
        for variant in 0..4u32 {
            for k in 0..9usize {
                for _ in 0..(rep + 3) {
                    round();
                }
                FREED.lock().unwrap().clear();
                let rc = Rc::new(node(1));
                let w0 = rc.downgrade();
                let addr = block_of(&w0);
                let cell: AtomicWeak<crate::rc::Node> = AtomicWeak::from(w0);
                let mut problems: Vec<String> = vec![];
                let mut rc_opt = Some(rc);
                if variant != 1 {
                    drop(rc_opt.take());
                }
                for _ in 0..k {
                    round();
                }
                // the reader's critical section
                let g = circ::cs();
                let ws = cell.load(SeqCst, &g);
                if variant == 1 {
                    drop(rc_opt.take());
                }
                let kept: Option<Weak<crate::rc::Node>> = match variant {
                    0 | 1 => {
                        cell.store(Weak::null(), SeqCst, &g);
                        None
                    }
                    2 => None,
                    _ => {
                        // weak side from zero: a Weak from the snapshot, the cell cleared, that Weak dropped again
                        let w = ws.counted();
                        cell.store(Weak::null(), SeqCst, &g);
                        drop(w);
                        None
                    }
                };
                let _ = kept;
                helper_rounds(8);
                checks += 1;
                if freed(addr) {
                    problems.push("the block was freed while a WeakSnapshot of it was inside its still active critical section".to_string());
                }
                // turn the snapshot into an owner (touches the count word: only if the block is still there)
                let w2 = if freed(addr) { None } else { Some(ws.counted()) };
                drop(g);
                helper_rounds(8);
                for _ in 0..6 {
                    round();
                }
                checks += 1;
                if w2.is_some() && freed(addr) {
                    problems.push("the block was freed while a Weak created from the WeakSnapshot was alive".to_string());
                }
                if variant == 2 {
                    checks += 1;
                    if !freed(addr) {
                        // the cell still holds its share as well: fine; clear it now
                    }
                    let g2 = circ::cs();
                    cell.store(Weak::null(), SeqCst, &g2);
                    drop(g2);
                    helper_rounds(6);
                    if w2.is_some() && freed(addr) {
                        problems.push("the block was freed while a Weak was alive (after the AtomicWeak released its share)".to_string());
                    }
                }
                if let Some(w) = &w2 {
                    // upgrade must fail cleanly (the object is destructed by now) and touch allocated memory
                    if !freed(addr) {
                        checks += 1;
                        if w.upgrade().is_some() {
                            problems.push("Weak::upgrade succeeded on a destructed object".to_string());
                        }
                    }
                }
                drop(w2);
                drop(cell);
                helper_rounds(8);
                for _ in 0..8 {
                    round();
                }
                checks += 1;
                let n = FREED.lock().unwrap().iter().filter(|&&a| a == addr).count();
                if problems.is_empty() && n != 1 {
                    // (skipped after a violation: the probe itself may have avoided touching the block)
                    problems.push(format!("after every reference was released the block was freed {} times", n));
                }
                for p in problems {
                    fails += 1;
                    out.line(&format!("PROPFAIL C03 variant {} with {} epoch advances before the reader pins (rep {}): {}", variant, k, rep, p));
                    if p.contains("freed") && p.contains("times") {
                        out.line(&format!("PROPFAIL C04 variant {} k {}: {}", variant, k, p));
                    }
                }
            }
        }
    }
    out.line(&format!("# c03 checks={} failures={}", checks, fails));
    out.finish();
    circ::verif::set_hook(None);
    (checks, checks, fails)
}
