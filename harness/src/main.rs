mod pure;
mod util;

use util::arg;

fn main() {
    let args: Vec<String> = std::env::args().collect();
    let cmd = args.get(1).map(|s| s.as_str()).unwrap_or("");
    let seed: u64 = arg(&args, "--seed").and_then(|s| s.parse().ok()).unwrap_or(1);
    let thorough = arg(&args, "--tier").map_or(false, |t| t == "thorough");
    let out = arg(&args, "--out").unwrap_or_else(|| "/dev/stdout".to_string());
    match cmd {
        "pure" => {
            let (lines, props, fails) = pure::run(&out, seed, thorough);
            println!("pure: lines={} property_checks={} property_failures={}", lines, props, fails);
        }
        _ => {
            eprintln!("usage: circ-verif-harness <pure> [--seed N] [--tier quick|thorough] [--out FILE]");
            std::process::exit(2);
        }
    }
}
