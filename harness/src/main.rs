mod cell;
mod chain;
mod api;
mod c03;
mod c15;
mod casrestamp;
mod conc;
mod d9;
mod ebr;
mod ebrstall;
mod guardseq;
mod list;
mod liststress;
mod pure;
#[global_allocator]
static GLOBAL: util::CountingAlloc = util::CountingAlloc;

mod queue;
mod once;
mod regleak;
mod tlsref;
mod rc;
mod sched;
mod traits;
mod util;

use util::arg;

fn main() {
    let args: Vec<String> = std::env::args().collect();
    let cmd = args.get(1).map(|s| s.as_str()).unwrap_or("");
    let seed: u64 = arg(&args, "--seed").and_then(|s| s.parse().ok()).unwrap_or(1);
    let thorough = arg(&args, "--tier").map_or(false, |t| t == "thorough");
    let out = arg(&args, "--out").unwrap_or_else(|| "/dev/stdout".to_string());
    match cmd {
        "pure" => {
            let (lines, props, fails) = pure::run(&out, seed, thorough);
            println!("pure: lines={} property_checks={} property_failures={}", lines, props, fails);
        }
        "ebr-d8" => {
            let n: usize = arg(&args, "--cases").and_then(|s| s.parse().ok()).unwrap_or(2000);
            let mut o = util::Out::create(&out);
            let mut rng = util::Rng::new(seed);
            let mut hits = 0;
            let (cap, g0, progs) = ebr::d8_program();
            for _ in 0..n {
                let (line, mon) = ebr::run_case(cap, g0, &progs, &mut rng, if n == 1 { ebr::Sched::D8 } else { ebr::Sched::Random });
                if !mon.is_empty() {
                    hits += 1;
                    o.line(&line);
                    for m in mon {
                        o.line(&m);
                    }
                }
            }
            o.finish();
            println!("ebr-d8: schedules={} violating={}", n, hits);
        }
        "ebr" => {
            let n: usize = arg(&args, "--cases").and_then(|s| s.parse().ok()).unwrap_or(if thorough { 5000 } else { 300 });
            let mut o = util::Out::create(&out);
            let mut rng = util::Rng::new(seed);
            let mut fails = 0;
            {
                // corpus: the directed schedule of finding D8 (guard taken by a running destructor)
                let (cap, g0, progs) = ebr::d8_program();
                let (line, mon) = ebr::run_case(cap, g0, &progs, &mut rng, ebr::Sched::D8);
                o.line(&line);
                for m in mon {
                    fails += 1;
                    o.line(&format!("{} [corpus d8_nested_guard_flush_during_collection]", m));
                }
            }
            for _ in 0..n {
                let (cap, g0, progs) = if rng.chance(1, 12) { ebr::gen_burst_program(&mut rng) } else { ebr::gen_program(&mut rng, thorough) };
                let (line, mon) = ebr::run_case(cap, g0, &progs, &mut rng, ebr::Sched::Random);
                o.line(&line);
                for m in mon {
                    fails += 1;
                    o.line(&m);
                }
            }
            let lines = o.finish();
            println!("ebr: cases={} lines={} monitor_failures={}", n, lines, fails);
        }
        "rc" => {
            let n: usize = arg(&args, "--cases").and_then(|s| s.parse().ok()).unwrap_or(if thorough { 5000 } else { 300 });
            let mut o = util::Out::create(&out);
            let mut rng = util::Rng::new(seed);
            let mut fails = 0;
            // finding D13: a 14-epoch-old link timestamp aliases to "two ahead" in one cascade and is read as ancient by
            // a second cascade one epoch behind; a pinned reader holds the shared child (C02)
            for (name, age) in [("d13_aliased_stamp_two_cascades_age14", 14usize), ("d13_aliased_stamp_two_cascades_age30", 30), ("d13_control_age13", 13), ("d13_control_age15", 15)] {
                let (p, watch, site, nth, phases) = rc::f6_program(age);
                let (line, mon) = rc::run_case_phased(&p, &mut rng, watch, site, nth, phases, 64);
                o.line(&line);
                for m in mon {
                    fails += 1;
                    o.line(&format!("{} [corpus {}]", m, name));
                }
            }
            for (name, p, trig, manual) in rc::corpus_triggered() {
                let (line, mon) = rc::run_case_triggered(&p, &mut rng, trig, manual);
                o.line(&line);
                for m in mon {
                    fails += 1;
                    o.line(&format!("{} [corpus {}]", m, name));
                }
            }
            for (name, p, script, manual) in rc::corpus() {
                let (line, mon) = rc::run_case_tuned(&p, &mut rng, Some(script), Some(manual));
                o.line(&line);
                for m in mon {
                    fails += 1;
                    o.line(&format!("{} [corpus {}]", m, name));
                }
            }
            for _ in 0..n {
                let p = match rng.below(6) {
                    0 | 1 => rc::gen_chain_program(&mut rng, thorough),
                    2 => match rng.below(3) { 0 => rc::gen_weak_program(&mut rng, thorough), 1 => rc::gen_bulk_program(&mut rng, thorough), _ => rc::gen_cas_program(&mut rng, thorough) },
                    _ => rc::gen_program(&mut rng, thorough),
                };
                let (line, mon) = rc::run_case(&p, &mut rng, None);
                o.line(&line);
                for m in mon {
                    fails += 1;
                    o.line(&m);
                }
            }
            let lines = o.finish();
            println!("rc: cases={} lines={} monitor_failures={}", n, lines, fails);
        }
        "queue" | "list" => {
            let n: usize = arg(&args, "--cases").and_then(|s| s.parse().ok()).unwrap_or(if thorough { 20000 } else { 300 });
            let mut o = util::Out::create(&out);
            let mut rng = util::Rng::new(seed);
            let mut fails = 0;
            if cmd == "queue" {
                // corpus first: a conditional pop that loses many races in a row (never empty) must still succeed
                let mut corpus = vec![];
                for (m, k) in [(16usize, 14usize), (24, 22), (13, 12), (40, 36)] {
                    corpus.push(queue::run_case_starve(m, k, &mut rng));
                }
                corpus.push(queue::run_case_stale_predicate(&mut rng));
                corpus.push(queue::run_case_tail_lag(true, &mut rng));
                corpus.push(queue::run_case_tail_lag(false, &mut rng));
                for (line, mon) in corpus {
                    o.line(&line);
                    for m in mon {
                        fails += 1;
                        o.line(&m);
                    }
                }
            }
            for _ in 0..n {
                let (line, mon) = if cmd == "queue" {
                    if rng.chance(1, 4) {
                        let (p, m) = queue::gen_contended(&mut rng, thorough);
                        queue::run_case_prefill(&p, &mut rng, None, m)
                    } else {
                        let p = queue::gen_program(&mut rng, thorough);
                        queue::run_case(&p, &mut rng, None)
                    }
                } else {
                    let p = list::gen_program(&mut rng, thorough);
                    list::run_case(&p, &mut rng, None)
                };
                o.line(&line);
                for m in mon {
                    fails += 1;
                    o.line(&m);
                }
            }
            let lines = o.finish();
            println!("{}: cases={} lines={} monitor_failures={}", cmd, n, lines, fails);
        }
        "pause-upgrade" => {
            circ::verif::ebr::set_tuning(64, 64);
            let mut o = util::Out::create(&out);
            let (mut props, mut fails) = (0u64, 0u64);
            chain::pause_upgrade(&mut o, &mut props, &mut fails);
            o.finish();
            println!("pause-upgrade: property_checks={} property_failures={}", props, fails);
        }
        "reg-leak" => {
            let (checks, _, fails) = regleak::run(&out, seed, thorough);
            println!("reg-leak: checks={} property_failures={}", checks, fails);
        }
        "d9" => {
            let n: usize = arg(&args, "--chain").and_then(|s| s.parse().ok()).unwrap_or(1000);
            let (adv, bad) = d9::run(n);
            println!("d9: chain={} epochs_advanced_during_first_subtree={} second_child_destructed_under_pinned_snapshot={}", n, adv, bad);
        }
        "guard-replay" => {
            let input = std::fs::read_to_string(arg(&args, "--in").expect("--in FILE")).unwrap();
            guardseq::replay(input.trim());
        }
        "guard" => {
            let (lines, props, fails) = guardseq::run(&out, seed, thorough);
            println!("guard: lines={} property_checks={} property_failures={}", lines, props, fails);
        }
        "ebr-stall" => {
            let n: usize = arg(&args, "--cases").and_then(|s| s.parse().ok()).unwrap_or(if thorough { 6000 } else { 600 });
            let (stalls, steps, fails) = ebrstall::run(&out, seed, thorough, n);
            println!("ebr-stall: cases={} steps={} cases_with_stalled_traversal={} property_failures={}", n, steps, stalls, fails);
        }
        "rc-f6" => {
            let age: usize = arg(&args, "--age").and_then(|s| s.parse().ok()).unwrap_or(14);
            let mut o = util::Out::create(&out);
            let mut rng = util::Rng::new(seed);
            let (p, watch, site, nth, phases) = rc::f6_program(age);
            let (line, mon) = rc::run_case_phased(&p, &mut rng, watch, site, nth, phases, 64);
            o.line(&line);
            let nf = mon.len();
            for m in mon {
                o.line(&m);
            }
            o.finish();
            println!("rc-f6: age={} monitor_failures={}", age, nf);
        }
        "list-stress" => {
            let (cycles, _c, fails) = liststress::run(&out, seed, thorough);
            println!("list-stress: register_exit_cycles={} property_failures={}", cycles, fails);
        }
        "api" => {
            let (checks, _p, fails) = api::run(&out, seed, thorough);
            println!("api: property_checks={} property_failures={}", checks, fails);
        }
        "cas-restamp" => {
            let (checks, _p, fails) = casrestamp::run(&out, seed, thorough);
            println!("cas-restamp: property_checks={} property_failures={}", checks, fails);
        }
        "once" => {
            let n: usize = arg(&args, "--cases").and_then(|s| s.parse().ok()).unwrap_or(0);
            let (lines, checks, fails) = once::run(&out, seed, thorough, n);
            println!("once: lines={} property_checks={} property_failures={}", lines, checks, fails);
        }
        "tls-ref" => {
            let (checks, _p, fails) = tlsref::run(&out, seed, thorough);
            println!("tls-ref: property_checks={} property_failures={}", checks, fails);
        }
        "c03" => {
            let (checks, _p, fails) = c03::run(&out, seed, thorough);
            println!("c03: property_checks={} property_failures={}", checks, fails);
        }
        "c15" => {
            let n: usize = arg(&args, "--cases").and_then(|s| s.parse().ok()).unwrap_or(if thorough { 400 } else { 60 });
            let (deferred, props, fails) = c15::run(&out, seed, thorough, n);
            println!("c15: cases={} deferred_functions={} property_checks={} property_failures={}", n, deferred, props, fails);
        }
        "chain" => {
            let (lines, props, fails) = chain::run(&out, seed, thorough);
            println!("chain: lines={} property_checks={} property_failures={}", lines, props, fails);
        }
        "stack-probe" => {
            let n: usize = arg(&args, "--chain").and_then(|s| s.parse().ok()).unwrap_or(100000);
            let st: usize = arg(&args, "--stack").and_then(|s| s.parse().ok()).unwrap_or(2 << 20);
            let kind = arg(&args, "--kind").unwrap_or_else(|| "chain".to_string());
            let ok = if kind == "chain" { chain::stack_probe(n, st) } else { chain::stack_probe_kind(&kind, n, st) };
            println!("stack-probe: kind={} nodes={} stack={} ok={}", kind, n, st, ok);
            std::process::exit(if ok { 0 } else { 1 });
        }
        "traits" => {
            let (lines, props, fails) = traits::run(&out, seed, thorough);
            println!("traits: lines={} property_checks={} property_failures={}", lines, props, fails);
        }
        "cell" => {
            match arg(&args, "--kind").as_deref() {
                Some("strong") => cell::FORCE_KIND.store(1, std::sync::atomic::Ordering::Relaxed),
                Some("weak") => cell::FORCE_KIND.store(2, std::sync::atomic::Ordering::Relaxed),
                _ => {}
            }
            let n: usize = arg(&args, "--cases").and_then(|s| s.parse().ok()).unwrap_or(if thorough { 200 } else { 300 });
            let mut o = util::Out::create(&out);
            let mut rng = util::Rng::new(seed);
            let (mut fails, mut discarded, mut strong, mut weak) = (0, 0, 0, 0);
            let (mut ok, mut err, mut retry) = (0, 0, 0);
            let mut epochs = std::collections::BTreeSet::new();
            let mut done = 0;
            while done < n {
                let p = cell::gen_program(&mut rng, thorough);
                let (line, mon) = cell::run_case(&p, &mut rng, None);
                if line.is_empty() {
                    discarded += 1;
                    if discarded > 10 * n + 100 {
                        eprintln!("cell: too many discarded cases");
                        std::process::exit(1);
                    }
                    continue;
                }
                done += 1;
                if p.strong {
                    strong += 1;
                } else {
                    weak += 1;
                }
                if let Some(e) = line.split_whitespace().nth(2).and_then(|s| s.parse::<u64>().ok()) {
                    epochs.insert(e % 16);
                }
                let (a, b, c) = cell::line_stats(&line);
                ok += a;
                err += b;
                retry += c;
                o.line(&line);
                for m in mon {
                    fails += 1;
                    o.line(&m);
                }
            }
            let lines = o.finish();
            println!(
                "cell: cases={} lines={} monitor_failures={} discarded={} strong={} weak={} epochs_mod16={} cas_ok={} cas_err={} ts_retries={}",
                n,
                lines,
                fails,
                discarded,
                strong,
                weak,
                epochs.len(),
                ok,
                err,
                retry
            );
        }
        _ => {
            eprintln!("usage: circ-verif-harness <pure|ebr|queue|list|cell|traits> [--seed N] [--tier quick|thorough] [--out FILE]");
            std::process::exit(2);
        }
    }
}
