mod conc;
mod ebr;
mod list;
mod pure;
mod queue;
mod sched;
mod util;

use util::arg;

fn main() {
    let args: Vec<String> = std::env::args().collect();
    let cmd = args.get(1).map(|s| s.as_str()).unwrap_or("");
    let seed: u64 = arg(&args, "--seed").and_then(|s| s.parse().ok()).unwrap_or(1);
    let thorough = arg(&args, "--tier").map_or(false, |t| t == "thorough");
    let out = arg(&args, "--out").unwrap_or_else(|| "/dev/stdout".to_string());
    match cmd {
        "pure" => {
            let (lines, props, fails) = pure::run(&out, seed, thorough);
            println!("pure: lines={} property_checks={} property_failures={}", lines, props, fails);
        }
        "ebr" => {
            let n: usize = arg(&args, "--cases").and_then(|s| s.parse().ok()).unwrap_or(if thorough { 5000 } else { 300 });
            let mut o = util::Out::create(&out);
            let mut rng = util::Rng::new(seed);
            let mut fails = 0;
            for _ in 0..n {
                let (cap, g0, progs) = ebr::gen_program(&mut rng, thorough);
                let (line, mon) = ebr::run_case(cap, g0, &progs, &mut rng, ebr::Sched::Random);
                o.line(&line);
                for m in mon {
                    fails += 1;
                    o.line(&m);
                }
            }
            let lines = o.finish();
            println!("ebr: cases={} lines={} monitor_failures={}", n, lines, fails);
        }
        "queue" | "list" => {
            let n: usize = arg(&args, "--cases").and_then(|s| s.parse().ok()).unwrap_or(if thorough { 20000 } else { 300 });
            let mut o = util::Out::create(&out);
            let mut rng = util::Rng::new(seed);
            let mut fails = 0;
            for _ in 0..n {
                let (line, mon) = if cmd == "queue" {
                    let p = queue::gen_program(&mut rng, thorough);
                    queue::run_case(&p, &mut rng, None)
                } else {
                    let p = list::gen_program(&mut rng, thorough);
                    list::run_case(&p, &mut rng, None)
                };
                o.line(&line);
                for m in mon {
                    fails += 1;
                    o.line(&m);
                }
            }
            let lines = o.finish();
            println!("{}: cases={} lines={} monitor_failures={}", cmd, n, lines, fails);
        }
        _ => {
            eprintln!("usage: circ-verif-harness <pure> [--seed N] [--tier quick|thorough] [--out FILE]");
            std::process::exit(2);
        }
    }
}
