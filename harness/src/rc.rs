//! M3 correspondence: the reference-counting protocol of utils.rs / strong.rs / weak.rs (count
//! words, recursive destruction, AtomicRc cells and link fields) on the default collector under
//! the cooperative scheduler.  Yield sites 100..130 and the operation-start site 1 are enabled;
//! EBR-internal, queue and list sites are masked, so pins, unpins and whole collections happen
//! inside steps and WHICH deferred function runs WHEN is an oracle for the model (the recorded
//! observations drive the replay, see coq/Rc.v).
//!
//! Program encoding: `g0 ncells nobj <nobj initial count words>` then per thread
//! `-1 nvars <kind obj>* nops <len opcode args..>*`  (kind 1 = Rc, 2 = Weak, 0 = empty).
use crate::conc::{case_line, sched_of, Canon};
use crate::sched::{self, policy};
use crate::util::Rng;
use circ::verif::{ebr, strong as vs, weak as vw};
use circ::{AtomicRc, Guard, NewRcIter, Rc, RcObject, Snapshot, Weak, WeakSnapshot};
use std::collections::HashMap;
use std::sync::atomic::{AtomicUsize, Ordering, Ordering::SeqCst};
use std::sync::{mpsc, Arc};

pub const NSLOTS: usize = 8;
const POISON: usize = 0xDEAD_DEAD;

pub static DROPS: AtomicUsize = AtomicUsize::new(0);

static SERIAL: AtomicUsize = AtomicUsize::new(1);

pub struct Node {
    serial: usize,
    id: std::cell::Cell<usize>,
    pub next: AtomicRc<Node>,
    pub other: AtomicRc<Node>,
}
unsafe impl Sync for Node {}
unsafe impl RcObject for Node {
    fn pop_edges(&mut self, out: &mut Vec<Rc<Self>>) {
        out.push(self.next.take());
        out.push(self.other.take());
    }
}
impl Drop for Node {
    fn drop(&mut self) {
        self.id.set(POISON);
        DROPS.fetch_add(1, Ordering::SeqCst);
    }
}
pub fn node(id: usize) -> Node {
    Node { serial: SERIAL.fetch_add(1, Ordering::SeqCst), id: std::cell::Cell::new(id), next: AtomicRc::null(), other: AtomicRc::null() }
}

fn enabled(site: u32) -> bool {
    site == 1 || (100..=130).contains(&site)
}

#[derive(Clone, Debug)]
pub struct Prog {
    pub g0: usize,
    pub ncells: usize,
    pub nobj: usize,
    /// per thread: initial slots (kind, obj) and operations (opcode, args)
    pub threads: Vec<(Vec<(u8, usize)>, Vec<Vec<i64>>)>,
}

enum Slot {
    None,
    Rc(Rc<Node>),
    Weak(Weak<Node>),
    Snap(Snapshot<'static, Node>),
    WSnap(WeakSnapshot<'static, Node>),
    Iter(NewRcIter<Node>),
}

fn addr_of_word(w: usize) -> usize {
    w & !7usize & !(0xFusize << 60)
}
fn ts_of_word(w: usize) -> usize {
    w >> 60
}

pub fn gen_program(rng: &mut Rng, thorough: bool) -> Prog {
    let g0 = rng.below(20) as usize;
    let nobj = 1 + rng.below(3) as usize;
    let ncells = rng.below(3) as usize;
    let nt = 1 + rng.below(if thorough { 4 } else { 3 }) as usize;
    let use_links = ncells > 0 || rng.chance(1, 2);
    let mut threads = vec![];
    for tix in 0..nt {
        let mut init = vec![];
        let mut kinds: Vec<u8> = vec![0; NSLOTS]; // generator's view: 0 none 1 rc 2 weak 3 snap 4 wsnap 5 iter 6 maybe
        for j in 0..nobj {
            if j % nt == tix {
                kinds[init.len()] = 1;
                init.push((1u8, j + 1));
            }
        }
        let nv = rng.below(3) as usize;
        for _ in 0..nv {
            let kd = if rng.chance(2, 3) { 1 } else { 2 };
            kinds[init.len()] = kd;
            init.push((kd, 1 + rng.below(nobj as u64) as usize));
        }
        let nops = 2 + rng.below(if thorough { 16 } else { 9 }) as usize;
        let mut ops: Vec<Vec<i64>> = vec![];
        let mut depth = 0usize;
        let pick = |rng: &mut Rng, kinds: &Vec<u8>, want: &[u8]| -> Option<usize> {
            let c: Vec<usize> = (0..NSLOTS).filter(|&i| want.contains(&kinds[i])).collect();
            if c.is_empty() {
                None
            } else {
                Some(*rng.pick(&c))
            }
        };
        // a cell: a root cell, or a field of a node this thread can reach through an Rc / Snapshot
        let pick_cell = |rng: &mut Rng, kinds: &Vec<u8>| -> Option<(i64, i64, i64)> {
            let via: Vec<usize> = (0..NSLOTS).filter(|&i| kinds[i] == 1 || kinds[i] == 3).collect();
            if ncells > 0 && (via.is_empty() || rng.chance(1, 2)) {
                Some((0, rng.below(ncells as u64) as i64, 0))
            } else if !via.is_empty() {
                Some((1, *rng.pick(&via) as i64, rng.below(2) as i64))
            } else {
                None
            }
        };
        for _ in 0..nops {
            let r = rng.below(if use_links { 130 } else { 100 });
            let free: Vec<usize> = (0..NSLOTS).filter(|&i| kinds[i] == 0).collect();
            let dst = if free.is_empty() { None } else { Some(*rng.pick(&free)) };
            match r {
                0..=5 => {
                    if let Some(d) = dst {
                        ops.push(vec![0, d as i64]);
                        kinds[d] = 1;
                    }
                }
                6..=8 => {
                    let n = rng.below(4) as usize;
                    let start = (0..NSLOTS).find(|&i| (i..i + n).all(|j| j < NSLOTS && kinds[j] == 0));
                    if let Some(s0) = start {
                        ops.push(vec![1, n as i64, s0 as i64]);
                        for j in s0..s0 + n {
                            kinds[j] = 1;
                        }
                    }
                }
                9..=11 => {
                    if let Some(d) = dst {
                        ops.push(vec![2, rng.below(4) as i64, d as i64]);
                        kinds[d] = 5;
                    }
                }
                12..=15 => {
                    if let (Some(i), Some(d)) = (pick(rng, &kinds, &[5]), dst) {
                        ops.push(vec![3, i as i64, d as i64]);
                        kinds[d] = 1; // maybe none at run time: operations on it are then no-ops
                    }
                }
                16..=17 => {
                    if let Some(i) = pick(rng, &kinds, &[5]) {
                        if depth > 0 && rng.chance(1, 2) {
                            ops.push(vec![4, i as i64]);
                        } else {
                            ops.push(vec![5, i as i64]);
                        }
                        kinds[i] = 0;
                    }
                }
                18..=25 => {
                    if let (Some(a), Some(d)) = (pick(rng, &kinds, &[1]), dst) {
                        ops.push(vec![6, a as i64, d as i64]);
                        kinds[d] = 1;
                    }
                }
                26..=40 => {
                    if let Some(a) = pick(rng, &kinds, &[1]) {
                        if depth > 0 && rng.chance(1, 3) {
                            ops.push(vec![8, a as i64]);
                        } else {
                            ops.push(vec![7, a as i64]);
                        }
                        kinds[a] = 0;
                    }
                }
                41..=46 => {
                    if let (Some(a), Some(d)) = (pick(rng, &kinds, &[1]), dst) {
                        ops.push(vec![9, a as i64, d as i64]);
                        kinds[d] = 2;
                    }
                }
                47..=48 => {
                    if let Some(a) = pick(rng, &kinds, &[1]) {
                        let n = rng.below(3) as usize;
                        let start = (0..NSLOTS).find(|&i| (i..i + n).all(|j| j < NSLOTS && kinds[j] == 0));
                        if let Some(s0) = start {
                            ops.push(vec![10, a as i64, n as i64, s0 as i64]);
                            for j in s0..s0 + n {
                                kinds[j] = 2;
                            }
                        }
                    }
                }
                49..=51 => {
                    if let (Some(a), Some(d)) = (pick(rng, &kinds, &[2]), dst) {
                        ops.push(vec![11, a as i64, d as i64]);
                        kinds[d] = 2;
                    }
                }
                52..=59 => {
                    if let Some(a) = pick(rng, &kinds, &[2]) {
                        ops.push(vec![12, a as i64]);
                        kinds[a] = 0;
                    }
                }
                60..=70 => {
                    if let (Some(a), Some(d)) = (pick(rng, &kinds, &[2]), dst) {
                        ops.push(vec![13, a as i64, d as i64]);
                        kinds[d] = 1;
                    }
                }
                71..=74 if depth > 0 => {
                    if let (Some(a), Some(d)) = (pick(rng, &kinds, &[1]), dst) {
                        ops.push(vec![14, a as i64, d as i64]);
                        kinds[d] = 3;
                    }
                }
                75..=77 if depth > 0 => {
                    if let (Some(a), Some(d)) = (pick(rng, &kinds, &[3]), dst) {
                        ops.push(vec![15, a as i64, d as i64]);
                        kinds[d] = 1;
                    }
                }
                78..=79 if depth > 0 => {
                    if let (Some(a), Some(d)) = (pick(rng, &kinds, &[3]), dst) {
                        ops.push(vec![16, a as i64, d as i64]);
                        kinds[d] = 4;
                    }
                }
                80..=82 if depth > 0 => {
                    if let (Some(a), Some(d)) = (pick(rng, &kinds, &[4]), dst) {
                        ops.push(vec![17, a as i64, d as i64]);
                        kinds[d] = 2;
                    }
                }
                83..=86 if depth > 0 => {
                    if let (Some(a), Some(d)) = (pick(rng, &kinds, &[4]), dst) {
                        ops.push(vec![18, a as i64, d as i64]);
                        kinds[d] = 3;
                    }
                }
                87..=89 if depth > 0 => {
                    if let (Some(a), Some(d)) = (pick(rng, &kinds, &[2]), dst) {
                        ops.push(vec![19, a as i64, d as i64]);
                        kinds[d] = 4;
                    }
                }
                90..=93 => {
                    ops.push(vec![20]);
                    depth += 1;
                }
                94 if depth == 0 => {
                    ops.push(vec![25, 1 + rng.below(4) as i64]);
                }
                95..=98 if depth > 0 => {
                    ops.push(vec![21]);
                    depth -= 1;
                    if depth == 0 {
                        for k in kinds.iter_mut() {
                            if *k == 3 || *k == 4 {
                                *k = 0;
                            }
                        }
                    }
                }
                // ---- cells and links
                100..=107 if depth > 0 => {
                    if let (Some((ck, a, b)), Some(d)) = (pick_cell(rng, &kinds), dst) {
                        ops.push(vec![30, ck, a, b, d as i64]);
                        kinds[d] = 3;
                    }
                }
                108..=116 if depth > 0 => {
                    if let (Some((ck, a, b)), Some(src)) = (pick_cell(rng, &kinds), pick(rng, &kinds, &[1])) {
                        if !(ck == 1 && a == src as i64) {
                            ops.push(vec![31, ck, a, b, src as i64]);
                            kinds[src] = 0;
                        }
                    }
                }
                117..=121 => {
                    if let (Some((ck, a, b)), Some(src)) = (pick_cell(rng, &kinds), pick(rng, &kinds, &[1])) {
                        if !(ck == 1 && a == src as i64) {
                            // the previous content comes back into the slot the new pointer was taken from
                            ops.push(vec![32, ck, a, b, src as i64, src as i64]);
                        }
                    }
                }
                122..=129 if depth > 0 => {
                    if let (Some((ck, a, b)), Some(e), Some(src), Some(d)) =
                        (pick_cell(rng, &kinds), pick(rng, &kinds, &[3]), pick(rng, &kinds, &[1]), dst)
                    {
                        if !(ck == 1 && a == src as i64) {
                            ops.push(vec![33, ck, a, b, e as i64, src as i64, d as i64]);
                            // success: d holds an Rc and src is empty; failure: d holds a snapshot, src keeps its Rc.
                            // The generator cannot know: both become "maybe" slots (operations on them are no-ops
                            // when the kind does not fit)
                            kinds[d] = 6;
                            kinds[src] = 6;
                        }
                    }
                }
                _ => {}
            }
        }
        // release everything: guards first (snapshots die), then handles ("maybe" slots are dropped as Rc:
        // a no-op when they hold something else; leftovers are released after the recorded part)
        for _ in 0..depth {
            ops.push(vec![21]);
        }
        for i in 0..NSLOTS {
            match kinds[i] {
                1 | 6 => ops.push(vec![7, i as i64]),
                2 => ops.push(vec![12, i as i64]),
                5 => ops.push(vec![5, i as i64]),
                _ => {}
            }
        }
        threads.push((init, ops));
    }
    Prog { g0, ncells, nobj, threads }
}

/// structured programs around the weak side and the token protocol: one object; thread 0 holds the only Rc and a
/// Weak, takes a WeakSnapshot inside a critical section, releases the Rc (count 0, try_destruct pending) and then
/// upgrades / counts from the snapshot while the other threads run collection rounds, upgrade their own Weak, or
/// release the last weak owner and re-create one from a WeakSnapshot (increment from zero on both counters).
pub fn gen_weak_program(rng: &mut Rng, _thorough: bool) -> Prog {
    let nt = 2 + rng.below(2) as usize;
    let mut t0: Vec<Vec<i64>> = vec![];
    // slots of thread 0: 0 = Rc(obj 1), 1 = Weak(obj 1)
    if rng.chance(1, 3) {
        t0.push(vec![25, 1 + rng.below(3) as i64]);
    }
    t0.push(vec![20]);
    t0.push(vec![19, 1, 2]); // slot2 := Weak::snapshot
    let variant = rng.below(6);
    match variant {
        0 | 1 => {
            t0.push(vec![7, 0]); // last Rc gone: count 0, try_destruct deferred
            t0.push(vec![18, 2, 3]); // WeakSnapshot::upgrade (token protocol of is_not_destructed)
            if variant == 1 {
                t0.push(vec![15, 3, 4]); // Snapshot::counted
            }
            t0.push(vec![21]);
            if variant == 1 {
                t0.push(vec![25, 2]);
                t0.push(vec![7, 4]);
            }
            t0.push(vec![12, 1]);
        }
        2 => {
            t0.push(vec![18, 2, 3]); // upgrade while the Rc is alive (stamp only)
            t0.push(vec![7, 0]);
            t0.push(vec![15, 3, 4]);
            t0.push(vec![21]);
            t0.push(vec![7, 4]);
            t0.push(vec![12, 1]);
        }
        3 | 4 => {
            // the weak side from zero: release the Rc and the Weak, keep only the WeakSnapshot, then counted()
            t0.push(vec![7, 0]);
            t0.push(vec![12, 1]);
            t0.push(vec![17, 2, 4]); // WeakSnapshot::counted -> Weak in slot 4 (increment_weak, maybe from zero)
            if variant == 4 {
                t0.push(vec![18, 2, 3]);
            }
            t0.push(vec![21]);
            t0.push(vec![25, 3]);
            t0.push(vec![13, 4, 5]); // Weak::upgrade (fails once the object is destructed)
            t0.push(vec![7, 5]);
            t0.push(vec![12, 4]);
        }
        _ => {
            t0.push(vec![21]);
            t0.push(vec![7, 0]);
            t0.push(vec![13, 1, 3]); // Weak::upgrade racing with the pending attempt (D6)
            t0.push(vec![25, 2]);
            t0.push(vec![7, 3]);
            t0.push(vec![12, 1]);
        }
    }
    t0.push(vec![25, 4]);
    let mut threads = vec![(vec![(1u8, 1usize), (2u8, 1usize)], t0)];
    for _ in 1..nt {
        // slot 0 = Weak(obj 1)
        let mut ops: Vec<Vec<i64>> = vec![];
        for _ in 0..(1 + rng.below(3)) {
            match rng.below(5) {
                0 | 1 => ops.push(vec![25, 1 + rng.below(4) as i64]),
                2 => {
                    ops.push(vec![13, 0, 1]); // Weak::upgrade
                    ops.push(vec![7, 1]);
                }
                3 => {
                    ops.push(vec![20]);
                    ops.push(vec![19, 0, 2]);
                    ops.push(vec![18, 2, 3]);
                    if rng.chance(1, 2) {
                        ops.push(vec![15, 3, 1]);
                    }
                    ops.push(vec![21]);
                    ops.push(vec![7, 1]);
                }
                _ => {
                    ops.push(vec![20]);
                    ops.push(vec![19, 0, 2]);
                    ops.push(vec![12, 0]); // release this thread's Weak ...
                    ops.push(vec![17, 2, 0]); // ... and re-create it from the snapshot
                    ops.push(vec![21]);
                }
            }
        }
        ops.push(vec![12, 0]);
        ops.push(vec![25, 3]);
        threads.push((vec![(2u8, 1usize)], ops));
    }
    Prog { g0: rng.below(20) as usize, ncells: 0, nobj: 1, threads }
}

/// structured programs around AtomicRc::compare_exchange / swap on a root cell (both public CAS variants are
/// exercised: the harness alternates): successful and failing exchanges, the returned previous owner and the
/// `current` snapshot of a failure are used afterwards, a second thread loads / counts / exchanges concurrently.
pub fn gen_cas_program(rng: &mut Rng, _thorough: bool) -> Prog {
    let mut t0: Vec<Vec<i64>> = vec![];
    t0.push(vec![0, 0]); // a
    t0.push(vec![0, 1]); // b
    t0.push(vec![20]);
    t0.push(vec![31, 0, 0, 0, 0]); // cell0 := a
    let rounds = 1 + rng.below(3);
    for _ in 0..rounds {
        t0.push(vec![30, 0, 0, 0, 2]); // slot2 := snapshot(cell0)
        if rng.chance(1, 3) {
            // make the expected value stale: somebody (we) swap first
            t0.push(vec![0, 4]);
            t0.push(vec![32, 0, 0, 0, 4, 4]); // swap: previous content comes back into slot 4
            t0.push(vec![7, 4]);
        }
        t0.push(vec![33, 0, 0, 0, 2, 1, 3]); // CAS(cell0, expected = slot2, desired = slot1) -> slot3
        // success: slot3 = Rc(previous), slot1 empty; failure: slot3 = Snapshot(current), slot1 keeps its Rc
        t0.push(vec![15, 3, 5]); // counted (only if slot3 is a snapshot)
        t0.push(vec![7, 5]);
        t0.push(vec![7, 3]); // drop the previous owner (only if slot3 is an Rc)
        t0.push(vec![21]);
        t0.push(vec![20]);
        t0.push(vec![7, 1]);
        t0.push(vec![0, 1]); // a fresh desired value for the next round
        t0.push(vec![30, 0, 0, 0, 6]);
        t0.push(vec![21]);
        t0.push(vec![20]);
    }
    t0.push(vec![21]);
    t0.push(vec![7, 1]);
    // empty the cell
    t0.push(vec![20]);
    t0.push(vec![24, 7]);
    t0.push(vec![32, 0, 0, 0, 7, 7]);
    t0.push(vec![21]);
    t0.push(vec![7, 7]);
    t0.push(vec![25, 4]);
    let mut threads = vec![(vec![], t0)];
    let nt = 1 + rng.below(2) as usize;
    for _ in 0..nt {
        let mut ops: Vec<Vec<i64>> = vec![];
        for _ in 0..(1 + rng.below(3)) {
            ops.push(vec![20]);
            ops.push(vec![30, 0, 0, 0, 0]);
            match rng.below(3) {
                0 => {
                    ops.push(vec![15, 0, 1]);
                    ops.push(vec![21]);
                    ops.push(vec![7, 1]);
                }
                1 => {
                    ops.push(vec![0, 1]);
                    ops.push(vec![33, 0, 0, 0, 0, 1, 2]);
                    ops.push(vec![7, 2]);
                    ops.push(vec![21]);
                    ops.push(vec![7, 1]);
                }
                _ => ops.push(vec![21]),
            }
            ops.push(vec![25, 1 + rng.below(2) as i64]);
        }
        threads.push((vec![], ops));
    }
    Prog { g0: rng.below(20) as usize, ncells: 1, nobj: 0, threads }
}

/// structured programs around the bulk constructors (C10): new_many / new_many_iter with a prefix consumed, then
/// abort (inside a critical section) or drop of the iterator, weak_many, and release of the owners in random order,
/// with collection rounds in between and a second thread doing rounds.
pub fn gen_bulk_program(rng: &mut Rng, _thorough: bool) -> Prog {
    let mut t0: Vec<Vec<i64>> = vec![];
    let c = rng.below(5) as i64; // count 0..4
    t0.push(vec![2, c, 0]); // slot0 := new_many_iter(obj, c)
    let take = rng.below((c + 2) as u64) as usize; // may ask for more than there is
    let mut got = vec![];
    for j in 0..take.min(4) {
        t0.push(vec![3, 0, (1 + j) as i64]);
        got.push(1 + j);
    }
    if rng.chance(1, 2) {
        t0.push(vec![20]);
        t0.push(vec![4, 0]); // abort(guard)
        t0.push(vec![21]);
    } else {
        t0.push(vec![5, 0]); // drop(iter)
    }
    if rng.chance(1, 2) {
        t0.push(vec![25, 1 + rng.below(4) as i64]);
    }
    // weak_many on one of the yielded owners
    if !got.is_empty() && rng.chance(1, 2) {
        let n = rng.below(3) as i64;
        t0.push(vec![10, got[0] as i64, n, 5]);
        for j in 0..n {
            if rng.chance(1, 2) {
                t0.push(vec![13, 5 + j, 7]); // upgrade one of them
                t0.push(vec![7, 7]);
            }
        }
        // shuffle-ish release
        for j in (0..n).rev() {
            t0.push(vec![12, 5 + j]);
        }
    }
    while !got.is_empty() {
        let i = rng.below(got.len() as u64) as usize;
        let s0 = got.remove(i);
        t0.push(vec![7, s0 as i64]);
        if rng.chance(1, 3) {
            t0.push(vec![25, 1 + rng.below(3) as i64]);
        }
    }
    // new_many::<n> in a second object
    let n = rng.below(4) as i64;
    t0.push(vec![1, n, 1]);
    for j in (0..n).rev() {
        t0.push(vec![7, 1 + j]);
    }
    t0.push(vec![25, 4]);
    let t1 = vec![vec![25, 1 + rng.below(3) as i64], vec![25, 2]];
    Prog { g0: rng.below(20) as usize, ncells: 0, nobj: 0, threads: vec![(vec![], t0), (vec![], t1)] }
}

/// structured programs: thread 0 builds a chain (optionally a small tree) of fresh nodes, publishes the
/// head in root cell 0, ages it, unlinks and drops it so that the recursive destruction runs inside the
/// recorded part; the other threads read the structure, keep extra owners / weak pointers to inner
/// nodes and upgrade them while the cascade runs.
pub fn gen_chain_program(rng: &mut Rng, thorough: bool) -> Prog {
    let k = 2 + rng.below(if thorough { 5 } else { 4 }) as usize; // nodes, slots 0..k-1 (k <= 6)
    let nt = 1 + rng.below(3) as usize;
    let mut t0: Vec<Vec<i64>> = vec![];
    for i in 0..k {
        t0.push(vec![0, i as i64]);
    }
    // extra handles on inner nodes, kept in slots 6 / 7
    let keep_rc = if rng.chance(1, 3) { Some(1 + rng.below((k - 1) as u64) as usize) } else { None };
    let keep_weak = if rng.chance(1, 2) { Some(1 + rng.below((k - 1) as u64) as usize) } else { None };
    if let Some(j) = keep_rc {
        t0.push(vec![6, j as i64, 6]);
    }
    if let Some(j) = keep_weak {
        t0.push(vec![9, j as i64, 7]);
    }
    t0.push(vec![20]);
    let tree = k >= 4 && rng.chance(1, 3);
    if tree {
        // node 0 gets two children (1 and 2); the rest hangs below node 1 as a chain
        for i in (3..k).rev() {
            t0.push(vec![31, 1, (i - 1) as i64, 0, i as i64]);
        }
        // 3.. hangs under 2? keep it simple: chain 1 -> 3 -> 4 ..., so relink: field0 of node 1 := node 3 was done by the loop when i-1 = 2; fix below
        t0.clear();
        for i in 0..k {
            t0.push(vec![0, i as i64]);
        }
        if let Some(j) = keep_rc {
            t0.push(vec![6, j as i64, 6]);
        }
        if let Some(j) = keep_weak {
            t0.push(vec![9, j as i64, 7]);
        }
        t0.push(vec![20]);
        // chain below node 2: 2 -> 3 -> ... -> k-1 (built from the tail)
        for i in (3..k).rev() {
            t0.push(vec![31, 1, (i - 1) as i64, 0, i as i64]);
        }
        t0.push(vec![31, 1, 0, 1, 2]); // 0.other := 2
        t0.push(vec![31, 1, 0, 0, 1]); // 0.next := 1
    } else {
        for i in (1..k).rev() {
            t0.push(vec![31, 1, (i - 1) as i64, 0, i as i64]);
        }
    }
    let publish = nt > 1 || rng.chance(1, 2);
    if publish {
        t0.push(vec![31, 0, 0, 0, 0]); // root cell 0 := head
    }
    t0.push(vec![21]);
    t0.push(vec![25, 3 + rng.below(3) as i64]); // age the links
    if publish {
        t0.push(vec![24, 0]); // Rc::null into slot 0
        t0.push(vec![32, 0, 0, 0, 0, 0]); // swap: head comes back into slot 0
    }
    t0.push(vec![7, 0]); // drop the head
    t0.push(vec![25, 4 + rng.below(4) as i64]); // the cascade runs here
    t0.push(vec![25, 4]);
    if keep_weak.is_some() {
        t0.push(vec![13, 7, 5]); // upgrade the inner weak
        t0.push(vec![7, 5]);
        t0.push(vec![12, 7]);
    }
    if keep_rc.is_some() {
        t0.push(vec![7, 6]);
        t0.push(vec![25, 6]);
    }
    let mut threads = vec![(vec![], t0)];
    for _ in 1..nt {
        // readers: load the head from the root cell, walk one link, take snapshots / counted refs / weak refs
        let mut ops: Vec<Vec<i64>> = vec![];
        let rounds = 1 + rng.below(3);
        for _ in 0..rounds {
            ops.push(vec![20]);
            ops.push(vec![30, 0, 0, 0, 0]); // slot0 := snapshot of root cell 0
            ops.push(vec![30, 1, 0, 0, 1]); // slot1 := snapshot of head.next
            match rng.below(4) {
                0 => {
                    ops.push(vec![15, 1, 2]); // counted
                    ops.push(vec![21]);
                    ops.push(vec![7, 2]);
                }
                1 => {
                    ops.push(vec![16, 1, 2]); // weak snapshot
                    ops.push(vec![17, 2, 3]); // counted weak
                    ops.push(vec![21]);
                    ops.push(vec![25, 2]);
                    ops.push(vec![13, 3, 4]); // upgrade later
                    ops.push(vec![7, 4]);
                    ops.push(vec![12, 3]);
                }
                2 => {
                    ops.push(vec![16, 1, 2]);
                    ops.push(vec![18, 2, 3]); // WeakSnapshot::upgrade
                    ops.push(vec![21]);
                }
                _ => {
                    ops.push(vec![30, 1, 1, 0, 2]); // one more hop
                    ops.push(vec![21]);
                }
            }
            ops.push(vec![25, 1 + rng.below(3) as i64]);
        }
        threads.push((vec![], ops));
    }
    Prog { g0: rng.below(20) as usize, ncells: 1, nobj: 0, threads }
}

pub fn encode(p: &Prog, words: &[u64]) -> Vec<i64> {
    let mut out = vec![p.g0 as i64, p.ncells as i64, p.nobj as i64];
    out.extend(words.iter().map(|&w| w as i64));
    for (init, ops) in &p.threads {
        out.push(-1);
        out.push(init.len() as i64);
        for &(k, o) in init {
            out.extend([k as i64, o as i64]);
        }
        out.push(ops.len() as i64);
        for op in ops {
            out.push(op.len() as i64);
            out.extend(op.iter().copied());
        }
    }
    out
}

fn advance_default_epoch_to(target: usize) {
    // each cs/flush/drop round advances the global epoch by one when nobody else is pinned
    let mut guard_rounds = 0;
    while (ebr::default_epoch_data() >> 1) < target && guard_rounds < 10_000 {
        let g = circ::cs();
        g.flush();
        drop(g);
        guard_rounds += 1;
    }
}

struct SendBox<T>(T);
unsafe impl<T> Send for SendBox<T> {}
impl<T> SendBox<T> {
    fn into_inner(self) -> T {
        self.0
    }
}

pub struct Cells(Vec<AtomicRc<Node>>);
unsafe impl Sync for Cells {}
unsafe impl Send for Cells {}

/// offsets of the two link fields inside the allocation (RcInner<Node>), measured on a sample
fn field_offsets() -> (usize, usize) {
    let r = Rc::new(node(0));
    let base = addr_of_word(vs::rc_word(&r));
    let n = r.as_ref().unwrap();
    let o = (&n.next as *const _ as usize - base, &n.other as *const _ as usize - base);
    drop(r);
    o
}

pub fn run_case(p: &Prog, rng: &mut Rng, script: Option<Vec<usize>>) -> (String, Vec<String>) {
    run_case_tuned(p, rng, script, None)
}

/// A directed schedule: run `watch` alone until it has passed yield site `site` for the `nth` time, then run
/// `other` for `steps` steps, then `watch` to its end, then everybody else.
#[derive(Clone, Copy)]
pub struct Trigger {
    pub watch: usize,
    pub site: u32,
    pub nth: usize,
    pub other: usize,
    pub steps: usize,
}

thread_local! {
    static TRIGGER: std::cell::Cell<Option<Trigger>> = const { std::cell::Cell::new(None) };
    /// multi-phase variant: after `watch` passed `site` for the nth time run (thread, steps) phases in order
    static PHASES: std::cell::RefCell<Option<(usize, u32, usize, Vec<(usize, usize)>)>> = const { std::cell::RefCell::new(None) };
}

/// Directed schedule with several phases: `watch` runs alone until it has passed yield site `site` `nth` times;
/// then each `(thread, steps)` of `phases` in order; then `watch` to its end; then everybody else.
pub fn run_case_phased(p: &Prog, rng: &mut Rng, watch: usize, site: u32, nth: usize, phases: Vec<(usize, usize)>, manual: usize) -> (String, Vec<String>) {
    PHASES.with(|t| *t.borrow_mut() = Some((watch, site, nth, phases)));
    let r = run_case_tuned(p, rng, None, Some(manual));
    PHASES.with(|t| *t.borrow_mut() = None);
    r
}

pub fn run_case_triggered(p: &Prog, rng: &mut Rng, trig: Trigger, manual: usize) -> (String, Vec<String>) {
    TRIGGER.with(|t| t.set(Some(trig)));
    let r = run_case_tuned(p, rng, None, Some(manual));
    TRIGGER.with(|t| t.set(None));
    r
}

pub fn run_case_tuned(p: &Prog, rng: &mut Rng, script: Option<Vec<usize>>, manual: Option<usize>) -> (String, Vec<String>) {
    sched::install();
    let (off_next, off_other) = field_offsets();
    // drain what the sample left behind
    for _ in 0..8 {
        let g = circ::cs();
        g.flush();
        drop(g);
    }
    let base = ebr::default_epoch_data() >> 1;
    advance_default_epoch_to(base + p.g0);
    let g_start = ebr::default_epoch_data() >> 1;
    DROPS.store(0, Ordering::SeqCst);
    let allocs0 = sched::ALLOCS.load(Ordering::SeqCst);
    let deallocs0 = sched::DEALLOCS.load(Ordering::SeqCst);
    // how often decrement_strong flushes (MANUAL_EVENTS_BETWEEN_COLLECT): small values make collections,
    // hence deferred destructions, happen inside the recorded part
    let picked = *rng.pick(&[1usize, 1, 2, 3, 64]);
    ebr::set_tuning(64, manual.unwrap_or(picked));
    let mut canon = Canon::new();
    let cells = Arc::new(Cells((0..p.ncells).map(|_| AtomicRc::null()).collect()));
    let mut cell_addr: HashMap<usize, i64> = HashMap::new();
    for (i, c) in cells.0.iter().enumerate() {
        cell_addr.insert(c as *const _ as usize, i as i64);
    }
    // prelude: the shared objects and every thread's initial handles
    let masters: Vec<Rc<Node>> = (0..p.nobj).map(|i| Rc::new(node(i + 1))).collect();
    for m in &masters {
        canon.fresh(addr_of_word(vs::rc_word(m)));
    }
    let mut inits: Vec<SendBox<Vec<Slot>>> = vec![];
    for (init, _) in &p.threads {
        let mut slots: Vec<Slot> = (0..NSLOTS).map(|_| Slot::None).collect();
        for (i, &(k, o)) in init.iter().enumerate() {
            slots[i] = match k {
                1 => Slot::Rc(masters[o - 1].clone()),
                2 => Slot::Weak(masters[o - 1].downgrade()),
                _ => Slot::None,
            };
        }
        inits.push(SendBox(slots));
    }
    // the creator's references are released now (every object is still owned by some thread's handle);
    // the initial count words are read after that
    let mut words: Vec<u64> = vec![];
    {
        let mut ms: Vec<Option<Rc<Node>>> = masters.into_iter().map(Some).collect();
        for j in 0..ms.len() {
            let probe: Option<&Rc<Node>> = inits.iter().flat_map(|b| b.0.iter()).find_map(|s| match s {
                Slot::Rc(r) if addr_of_word(vs::rc_word(r)) == addr_of_word(vs::rc_word(ms[j].as_ref().unwrap())) => Some(r),
                _ => None,
            });
            let probe = probe.expect("every object is owned by a thread") as *const Rc<Node>;
            drop(ms[j].take());
            words.push(vs::rc_count_word(unsafe { &*probe }));
        }
    }
    let (tx, rx) = mpsc::channel::<(usize, Vec<String>, SendBox<(Vec<Slot>, Vec<Guard>)>)>();
    let mut bodies: Vec<Box<dyn FnOnce() + Send>> = vec![];
    for (tid, ((_, ops), slots)) in p.threads.iter().cloned().zip(inits.into_iter()).enumerate() {
        let tx = tx.clone();
        let cells = cells.clone();
        bodies.push(Box::new(move || {
            let mut slots = slots.into_inner();
            let mut guards: Vec<Guard> = vec![];
            let mut mon: Vec<String> = vec![];
            sched::arm(true);
            for op in &ops {
                run_op(tid, op, &mut slots, &mut guards, &cells, &mut mon);
            }
            sched::obs(1, 9, 0);
            sched::arm(false);
            // leftovers (handles the program did not release, e.g. after a skipped operation) are handed
            // to the main thread and released only after EVERY thread has finished its recorded part
            let _ = tx.send((tid, mon, SendBox((slots, guards))));
        }));
    }
    drop(tx);
    let nt = p.threads.len();
    let trig = TRIGGER.with(|t| t.get());
    let phased = PHASES.with(|t| t.borrow().clone());
    let res = match script {
        Some(s) => sched::run(bodies, enabled, 400_000, &mut policy::scripted(s)),
        None if phased.is_some() => {
            let (watch, site, nth, phases) = phased.unwrap();
            let mut fired_at: Option<usize> = None;
            let mut chooser = move |r: &[usize], _k: usize, trace: &[sched::Step]| {
                let pos = |t: usize| r.iter().position(|&q| q == t);
                if fired_at.is_none() {
                    let seen = trace.iter().filter(|st| st.tid == watch && st.obs.iter().any(|o| o.0 == site)).count();
                    if seen >= nth {
                        fired_at = Some(trace.len());
                    }
                }
                match fired_at {
                    None => pos(watch).unwrap_or(0),
                    Some(at) => {
                        // steps taken since the trigger, per phase in order
                        let mut idx = at;
                        for &(t, n) in &phases {
                            let mut taken = 0;
                            while idx < trace.len() && taken < n {
                                if trace[idx].tid == t {
                                    taken += 1;
                                    idx += 1;
                                } else {
                                    break;
                                }
                            }
                            if taken < n {
                                if let Some(i) = pos(t) {
                                    return i;
                                }
                                // that thread finished early: next phase
                            }
                        }
                        pos(watch).unwrap_or(0)
                    }
                }
            };
            sched::run_observed(bodies, enabled, 400_000, &mut chooser)
        }
        None if trig.is_some() => {
            let tg = trig.unwrap();
            let mut fired_at: Option<usize> = None;
            let mut chooser = move |r: &[usize], _k: usize, trace: &[sched::Step]| {
                let pos = |t: usize| r.iter().position(|&q| q == t);
                if fired_at.is_none() {
                    let seen = trace.iter().filter(|st| st.tid == tg.watch && st.obs.iter().any(|o| o.0 == tg.site)).count();
                    if seen >= tg.nth {
                        fired_at = Some(trace.len());
                    }
                }
                match fired_at {
                    None => pos(tg.watch).unwrap_or(0),
                    Some(at) => {
                        let done = trace[at..].iter().filter(|st| st.tid == tg.other).count();
                        if done < tg.steps {
                            if let Some(i) = pos(tg.other) {
                                return i;
                            }
                        }
                        pos(tg.watch).unwrap_or(0)
                    }
                }
            };
            sched::run_observed(bodies, enabled, 400_000, &mut chooser)
        }
        None => {
            if rng.chance(1, 2) {
                sched::run(bodies, enabled, 400_000, &mut policy::uniform(rng))
            } else {
                let mut pol = policy::pct(rng, nt, 150, 4);
                sched::run(bodies, enabled, 400_000, &mut pol)
            }
        }
    };
    let mut monitor: Vec<String> = vec![];
    let mut leftovers = vec![];
    for (_, m, l) in rx.iter() {
        monitor.extend(m);
        leftovers.push(l);
    }
    // canonicalise
    let cw = |canon: &Canon, w: usize| -> i64 { canon.get(addr_of_word(w)) * 16 + ts_of_word(w) as i64 };
    let cell_of = |canon: &Canon, addr: usize| -> i64 {
        if let Some(&i) = cell_addr.get(&addr) {
            return i;
        }
        let a = canon.get(addr.wrapping_sub(off_next));
        if a > 0 {
            return 1000 + 2 * a;
        }
        let b = canon.get(addr.wrapping_sub(off_other));
        if b > 0 {
            return 1000 + 2 * b + 1;
        }
        -1
    };
    let mut steps: Vec<Vec<(u32, i64, u64)>> = vec![];
    let mut allocs = p.nobj;
    let mut dealloc_seen: HashMap<i64, usize> = HashMap::new();
    let mut dropped_at: HashMap<i64, usize> = HashMap::new();
    for (k, st) in res.trace.iter().enumerate() {
        let mut out = vec![];
        for &(site, a, b) in &st.obs {
            match site {
                1 | 2000 => out.push((site, a as i64, b as u64)),
                2100 => out.push((site, 0, b as u64)),
                2001 => out.push((site, canon.get(a), 0)),
                2002 => out.push((site, cw(&canon, a), 0)),
                1103 => {
                    allocs += 1;
                    let id = canon.fresh(a);
                    out.push((site, id, b as u64));
                }
                120 => out.push((site, 0, 0)),
                1120 => out.push((site, 0, b as u64)),
                121 => out.push((site, cell_of(&canon, a), 0)),
                122 | 123 | 1022 => out.push((site, cell_of(&canon, a), cw(&canon, b) as u64)),
                100..=119 | 130 | 1000..=1021 | 1100..=1102 | 1108 | 1130 | 1132 => {
                    let id = canon.get(a);
                    if site == 1100 {
                        *dealloc_seen.entry(id).or_insert(0) += 1;
                    }
                    if site == 1102 {
                        dropped_at.entry(id).or_insert(k);
                    }
                    // any access to a block after its deallocation is a use after free
                    if (100..=119).contains(&site) && dealloc_seen.get(&id).copied().unwrap_or(0) > 0 {
                        monitor.push(format!("PROPFAIL C03 step {}: site {} touches the count word of object {} after its block was freed", k, site, id));
                    }
                    out.push((site, id, b as u64));
                }
                _ => {}
            }
        }
        steps.push(out);
    }
    // C05 (monotonicity): no upgrade of an object succeeds in a step after the step in which its payload was dropped
    {
        let mut cur: HashMap<usize, (i64, i64)> = HashMap::new(); // thread -> (opcode, primary object)
        for (k, st) in steps.iter().enumerate() {
            let t = res.trace[k].tid;
            for &(site, a, b) in st {
                if site == 1 {
                    cur.insert(t, (a, 0));
                } else if site == 2001 {
                    if let Some(c) = cur.get_mut(&t) {
                        c.1 = a;
                    }
                } else if site == 2000 && (a == 13 || a == 18) && b == 1u64 {
                    if let Some(&(_, o)) = cur.get(&t) {
                        if o != 0 {
                            if let Some(&kd) = dropped_at.get(&o) {
                                if kd < k {
                                    monitor.push(format!(
                                        "PROPFAIL C05 step {}: upgrade of object {} succeeded although its destructor ran at step {}",
                                        k, o, kd
                                    ));
                                }
                            }
                        }
                    }
                }
            }
        }
    }
    // C02 (trace level): an object whose Snapshot a thread obtained inside its current critical section
    // (load, failed-CAS current, Rc::snapshot, successful WeakSnapshot::upgrade) is neither destructed
    // nor freed before that critical section ends
    {
        let nt = p.threads.len();
        let mut depth = vec![0i64; nt];
        let mut held: Vec<Vec<i64>> = vec![vec![]; nt];
        let mut cur: Vec<(i64, i64)> = vec![(0, 0); nt]; // (opcode, primary object) of the operation in progress
        let mut last_ptr: Vec<i64> = vec![0; nt];
        for (k, st) in steps.iter().enumerate() {
            let t = res.trace[k].tid;
            for &(site, a, b) in st {
                match site {
                    1 => {
                        cur[t] = (a, 0);
                        last_ptr[t] = 0;
                        if a == 21 && depth[t] == 1 {
                            held[t].clear();
                        }
                    }
                    2001 => cur[t].1 = a,
                    2002 => last_ptr[t] = a / 16,
                    2000 => {
                        let (opc, prim) = cur[t];
                        match opc {
                            20 => depth[t] += 1,
                            21 => depth[t] -= 1,
                            30 => {
                                if last_ptr[t] != 0 {
                                    held[t].push(last_ptr[t]);
                                }
                            }
                            33 if b == 0 => {
                                if last_ptr[t] != 0 {
                                    held[t].push(last_ptr[t]);
                                }
                            }
                            14 => {
                                if prim != 0 && depth[t] > 0 {
                                    held[t].push(prim);
                                }
                            }
                            18 if b == 1 => {
                                if prim != 0 {
                                    held[t].push(prim);
                                }
                            }
                            _ => {}
                        }
                    }
                    1101 | 1102 | 1100 => {
                        for q in 0..nt {
                            if depth[q] > 0 && held[q].contains(&a) {
                                monitor.push(format!(
                                    "PROPFAIL C02 step {}: object {} is {} (site {}) while thread {} holds a Snapshot of it obtained in its still active critical section",
                                    k, a, if site == 1100 { "freed" } else { "destructed" }, site, q
                                ));
                            }
                        }
                    }
                    _ => {}
                }
            }
        }
        monitor.sort();
        monitor.dedup();
    }
    // release leftovers and the root cells, then drain the collector: every object destructed once,
    // every block freed
    for l in leftovers {
        let (mut slots, mut guards) = l.into_inner();
        for s in slots.iter_mut() {
            if matches!(s, Slot::Snap(_) | Slot::WSnap(_)) {
                *s = Slot::None;
            }
        }
        slots.clear();
        while let Some(g) = guards.pop() {
            // a guard of another (finished) thread: forget it, its participant is gone with the thread
            std::mem::forget(g);
        }
    }
    drop(cells);
    let mut rounds = 0;
    let blocks_alive = |a0: usize, d0: usize| (sched::ALLOCS.load(Ordering::SeqCst) - a0) - (sched::DEALLOCS.load(Ordering::SeqCst) - d0);
    while (DROPS.load(Ordering::SeqCst) < allocs || blocks_alive(allocs0, deallocs0) > 0) && rounds < 64 {
        let g = circ::cs();
        g.flush();
        drop(g);
        rounds += 1;
    }
    if blocks_alive(allocs0, deallocs0) != 0 {
        monitor.push(format!(
            "PROPFAIL C04 at quiescence: {} blocks allocated but {} freed after {} collection rounds",
            sched::ALLOCS.load(Ordering::SeqCst) - allocs0,
            sched::DEALLOCS.load(Ordering::SeqCst) - deallocs0,
            rounds
        ));
    }
    let drops = DROPS.load(Ordering::SeqCst);
    if drops != allocs {
        monitor.push(format!(
            "PROPFAIL C04 at quiescence: {} objects allocated, {} destructors ran after {} collection rounds",
            allocs, drops, rounds
        ));
    }
    if res.panicked.iter().any(|&x| x) {
        monitor.push("PROPFAIL C01 a model thread panicked".to_string());
    }
    let mut enc = encode(p, &words);
    enc[0] = g_start as i64;
    (case_line("rc", &enc, &sched_of(&res.trace), &steps), monitor)
}

fn obj_addr(s: &Slot) -> usize {
    match s {
        Slot::Rc(r) => addr_of_word(vs::rc_word(r)),
        Slot::Weak(w) => addr_of_word(vw::weak_word(w)),
        Slot::Snap(s) => addr_of_word(vs::snapshot_word(*s)),
        Slot::WSnap(s) => addr_of_word(vw::weak_snapshot_word(*s)),
        Slot::Iter(_) | Slot::None => 0,
    }
}

/// generated programs stay acyclic: a field of node X may only receive a pointer to a node allocated
/// after X (serial numbers are in allocation order, like the canonical ids of the model)
fn store_ok(ck: i64, holder: Option<usize>, new: &Rc<Node>) -> bool {
    if ck == 0 {
        return true;
    }
    match (holder, new.as_ref()) {
        (_, None) => true,
        (Some(h), Some(n)) => h < n.serial,
        (None, _) => false,
    }
}

fn holder_serial(ck: i64, a: i64, slots: &[Slot]) -> Option<usize> {
    if ck == 0 {
        return None;
    }
    match &slots[a as usize] {
        Slot::Rc(r) => r.as_ref().map(|n| n.serial),
        Slot::Snap(s) => s.as_ref().map(|n| n.serial),
        _ => None,
    }
}

/// the cell designated by (ck, a, b), reached through a root index or a non-null Rc / Snapshot
fn get_cell(ck: i64, a: i64, b: i64, slots: &[Slot], cells: &Cells, mon: &mut Vec<String>) -> Option<*const AtomicRc<Node>> {
    if ck == 0 {
        return cells.0.get(a as usize).map(|c| c as *const _);
    }
    let n: Option<*const Node> = match &slots[a as usize] {
        Slot::Rc(r) => {
            let n = r.as_ref();
            if let Some(n) = n {
                if n.id.get() == POISON {
                    mon.push("PROPFAIL C01 a field is reached through an Rc whose object was destructed".to_string());
                    return None;
                }
            }
            n.map(|n| n as *const Node)
        }
        Slot::Snap(s) => {
            let n = s.as_ref();
            if let Some(n) = n {
                if n.id.get() == POISON {
                    mon.push("PROPFAIL C02 a field is reached through a Snapshot whose object was destructed inside its critical section".to_string());
                    return None;
                }
            }
            n.map(|n| n as *const Node)
        }
        _ => None,
    };
    n.map(|n| unsafe { if b == 0 { &(*n).next as *const _ } else { &(*n).other as *const _ } })
}

fn run_op(_tid: usize, op: &[i64], slots: &mut Vec<Slot>, guards: &mut Vec<Guard>, cells: &Arc<Cells>, mon: &mut Vec<String>) {
    let opc = op[0];
    let a1 = op.get(1).copied().unwrap_or(0);
    sched::obs(1, opc as usize, a1 as usize);
    let prim = if (3..=19).contains(&opc) { obj_addr(&slots[a1 as usize]) } else { 0 };
    sched::obs(2001, prim, 0);
    let mut res = 0usize;
    let take = |slots: &mut Vec<Slot>, i: usize| std::mem::replace(&mut slots[i], Slot::None);
    // an operation is a no-op unless its destination slot(s) are empty (a handle is never overwritten)
    let free = |slots: &Vec<Slot>, d: i64, n: i64| (d..d + n).all(|j| matches!(slots.get(j as usize), Some(Slot::None)));
    let dst_free = match opc {
        0 | 24 => free(slots, op[1], 1),
        1 => free(slots, op[2], op[1]),
        2 | 3 | 6 | 9 | 11 | 13..=19 => free(slots, op[2], 1),
        10 => free(slots, op[3], op[2]),
        30 => free(slots, op[4], 1),
        32 => op[4] == op[5] || free(slots, op[5], 1),
        33 => free(slots, op[6], 1),
        _ => true,
    };
    let opc_run = if dst_free { opc } else { -1 };
    match opc_run {
        0 => {
            slots[a1 as usize] = Slot::Rc(Rc::new(node(7777)));
        }
        1 => {
            let n = a1 as usize;
            let d = op[2] as usize;
            let rcs: Vec<Rc<Node>> = match n {
                0 => Rc::new_many::<0>(node(7777)).into_iter().collect(),
                1 => Rc::new_many::<1>(node(7777)).into_iter().collect(),
                2 => Rc::new_many::<2>(node(7777)).into_iter().collect(),
                _ => Rc::new_many::<3>(node(7777)).into_iter().collect(),
            };
            if n > 0 {
                let w = vs::rc_count_word(&rcs[0]);
                if circ::verif::rc::state_strong(w) as usize != n {
                    mon.push(format!("PROPFAIL C10 new_many::<{}> created an object with strong count {}", n, circ::verif::rc::state_strong(w)));
                }
            }
            if rcs.len() != n {
                mon.push(format!("PROPFAIL C10 new_many::<{}> returned {} pointers", n, rcs.len()));
            }
            for (j, r) in rcs.into_iter().enumerate() {
                slots[d + j] = Slot::Rc(r);
            }
        }
        2 => {
            let it = Rc::new_many_iter(node(7777), a1 as usize);
            slots[op[2] as usize] = Slot::Iter(it);
        }
        3 => {
            let d = op[2] as usize;
            let r = match &mut slots[a1 as usize] {
                Slot::Iter(it) => Some(it.next()),
                _ => None,
            };
            match r {
                Some(Some(rc)) => {
                    slots[d] = Slot::Rc(rc);
                    res = 1;
                }
                Some(None) => slots[d] = Slot::None,
                None => {}
            }
        }
        4 => {
            if let Slot::Iter(_) = slots[a1 as usize] {
                if let Slot::Iter(it) = take(slots, a1 as usize) {
                    it.abort(guards.last().expect("abort without guard"));
                }
            }
        }
        5 => {
            if let Slot::Iter(_) = slots[a1 as usize] {
                drop(take(slots, a1 as usize));
            }
        }
        6 => {
            let r = match &slots[a1 as usize] {
                Slot::Rc(r) => Some(r.clone()),
                _ => None,
            };
            if let Some(r) = r {
                slots[op[2] as usize] = Slot::Rc(r);
                res = 1;
            }
        }
        7 => {
            if let Slot::Rc(_) = slots[a1 as usize] {
                drop(take(slots, a1 as usize));
            }
        }
        8 => {
            if let Slot::Rc(_) = slots[a1 as usize] {
                if let Slot::Rc(r) = take(slots, a1 as usize) {
                    r.finalize(guards.last().expect("finalize without guard"));
                }
            }
        }
        9 => {
            let w = match &slots[a1 as usize] {
                Slot::Rc(r) => Some(r.downgrade()),
                _ => None,
            };
            if let Some(w) = w {
                slots[op[2] as usize] = Slot::Weak(w);
                res = 1;
            }
        }
        10 => {
            let n = op[2] as usize;
            let d = op[3] as usize;
            let ws: Option<Vec<Weak<Node>>> = match &slots[a1 as usize] {
                Slot::Rc(r) => Some(match n {
                    0 => r.weak_many::<0>().into_iter().collect(),
                    1 => r.weak_many::<1>().into_iter().collect(),
                    _ => r.weak_many::<2>().into_iter().collect(),
                }),
                _ => None,
            };
            if let Some(ws) = ws {
                if let Slot::Rc(r) = &slots[a1 as usize] {
                    if ws.len() != n {
                        mon.push(format!("PROPFAIL C10 weak_many::<{}> returned {} pointers", n, ws.len()));
                    }
                    for w in &ws {
                        if addr_of_word(vw::weak_word(w)) != addr_of_word(vs::rc_word(r)) || (w.is_null() != r.is_null()) {
                            mon.push("PROPFAIL C10 weak_many returned a pointer that does not refer to the receiver".to_string());
                        }
                    }
                }
                for (j, w) in ws.into_iter().enumerate() {
                    slots[d + j] = Slot::Weak(w);
                }
            }
        }
        11 => {
            let w = match &slots[a1 as usize] {
                Slot::Weak(w) => Some(w.clone()),
                _ => None,
            };
            if let Some(w) = w {
                slots[op[2] as usize] = Slot::Weak(w);
                res = 1;
            }
        }
        12 => {
            if let Slot::Weak(_) = slots[a1 as usize] {
                drop(take(slots, a1 as usize));
            }
        }
        13 => {
            let r = match &slots[a1 as usize] {
                Slot::Weak(w) => Some(w.upgrade()),
                _ => None,
            };
            match r {
                Some(Some(rc)) => {
                    // C01: a freshly upgraded reference must see a live payload
                    if let Some(o) = rc.as_ref() {
                        if o.id.get() == POISON {
                            mon.push("PROPFAIL C01 Weak::upgrade returned a reference to a destructed object".to_string());
                        }
                    }
                    slots[op[2] as usize] = Slot::Rc(rc);
                    res = 1;
                }
                Some(None) => slots[op[2] as usize] = Slot::None,
                None => {}
            }
        }
        14 => {
            let s = match (&slots[a1 as usize], guards.last()) {
                (Slot::Rc(r), Some(g)) => Some(unsafe { std::mem::transmute::<Snapshot<'_, Node>, Snapshot<'static, Node>>(r.snapshot(g)) }),
                _ => None,
            };
            if let Some(s) = s {
                slots[op[2] as usize] = Slot::Snap(s);
            }
        }
        15 => {
            let r = match &slots[a1 as usize] {
                Slot::Snap(s) => Some(s.counted()),
                _ => None,
            };
            if let Some(r) = r {
                slots[op[2] as usize] = Slot::Rc(r);
                res = 1;
            }
        }
        16 => {
            let s = match &slots[a1 as usize] {
                Slot::Snap(s) => Some(s.downgrade()),
                _ => None,
            };
            if let Some(s) = s {
                slots[op[2] as usize] = Slot::WSnap(s);
            }
        }
        17 => {
            let w = match &slots[a1 as usize] {
                Slot::WSnap(s) => Some(s.counted()),
                _ => None,
            };
            if let Some(w) = w {
                slots[op[2] as usize] = Slot::Weak(w);
                res = 1;
            }
        }
        18 => {
            let r = match &slots[a1 as usize] {
                Slot::WSnap(s) => Some(s.upgrade()),
                _ => None,
            };
            match r {
                Some(Some(s)) => {
                    if let Some(o) = s.as_ref() {
                        if o.id.get() == POISON {
                            mon.push("PROPFAIL C05 WeakSnapshot::upgrade returned a snapshot of a destructed object".to_string());
                        }
                    }
                    slots[op[2] as usize] = Slot::Snap(s);
                    res = 1;
                }
                Some(None) => slots[op[2] as usize] = Slot::None,
                None => {}
            }
        }
        19 => {
            let s = match (&slots[a1 as usize], guards.last()) {
                (Slot::Weak(w), Some(g)) => Some(unsafe { std::mem::transmute::<WeakSnapshot<'_, Node>, WeakSnapshot<'static, Node>>(w.snapshot(g)) }),
                _ => None,
            };
            if let Some(s) = s {
                slots[op[2] as usize] = Slot::WSnap(s);
            }
        }
        20 => {
            let first = guards.is_empty();
            let g = circ::cs();
            if first {
                sched::obs(2100, 0, ebr::local_info(&g)[3]);
            }
            guards.push(g);
        }
        21 => {
            if guards.len() == 1 {
                for s in slots.iter_mut() {
                    if matches!(s, Slot::Snap(_) | Slot::WSnap(_)) {
                        *s = Slot::None;
                    }
                }
            }
            drop(guards.pop());
        }
        24 => {
            slots[a1 as usize] = Slot::Rc(Rc::null());
        }
        25 => {
            for _ in 0..a1 {
                let g = circ::cs();
                g.flush();
                drop(g);
            }
        }
        30 => {
            // load
            let (ck, a, b, d) = (op[1], op[2], op[3], op[4] as usize);
            let c = get_cell(ck, a, b, slots, cells, mon);
            if let (Some(c), Some(g)) = (c, guards.last()) {
                let s = unsafe { (*c).load(SeqCst, g) };
                let s: Snapshot<'static, Node> = unsafe { std::mem::transmute(s) };
                sched::obs(2002, vs::snapshot_word(s), 0);
                slots[d] = Slot::Snap(s);
            }
        }
        31 => {
            let (ck, a, b, src) = (op[1], op[2], op[3], op[4] as usize);
            let c = get_cell(ck, a, b, slots, cells, mon);
            let okk = match &slots[src] {
                Slot::Rc(r) => store_ok(ck, holder_serial(ck, a, slots), r),
                _ => false,
            };
            if let (Some(c), true, true) = (c, !guards.is_empty(), okk) {
                if let Slot::Rc(r) = take(slots, src) {
                    unsafe { (*c).store(r, SeqCst, guards.last().unwrap()) };
                }
            }
        }
        32 => {
            let (ck, a, b, src, d) = (op[1], op[2], op[3], op[4] as usize, op[5] as usize);
            let c = get_cell(ck, a, b, slots, cells, mon);
            let okk = match &slots[src] {
                Slot::Rc(r) => store_ok(ck, holder_serial(ck, a, slots), r),
                _ => false,
            };
            if let (Some(c), true) = (c, okk) {
                if let Slot::Rc(r) = take(slots, src) {
                    let old = unsafe { (*c).swap(r, SeqCst) };
                    sched::obs(2002, vs::rc_word(&old), 0);
                    slots[d] = Slot::Rc(old);
                }
            }
        }
        33 => {
            let (ck, a, b, e, src, d) = (op[1], op[2], op[3], op[4] as usize, op[5] as usize, op[6] as usize);
            let c = get_cell(ck, a, b, slots, cells, mon);
            let exp = match &slots[e] {
                Slot::Snap(s) => Some(*s),
                _ => None,
            };
            let okk = match &slots[src] {
                Slot::Rc(r) => store_ok(ck, holder_serial(ck, a, slots), r),
                _ => false,
            };
            if let (Some(c), true, Some(exp), true) = (c, !guards.is_empty(), exp, okk) {
                if let Slot::Rc(des) = take(slots, src) {
                    let g: &'static Guard = unsafe { &*(guards.last().unwrap() as *const Guard) };
                    // the two public variants share their protocol (no spurious failure on this target): alternate
                    static WHICH: AtomicUsize = AtomicUsize::new(0);
                    let weak_variant = WHICH.fetch_add(1, Ordering::Relaxed) % 2 == 1;
                    let r = if weak_variant {
                        unsafe { (*c).compare_exchange_weak(exp, des, SeqCst, SeqCst, g) }
                    } else {
                        unsafe { (*c).compare_exchange(exp, des, SeqCst, SeqCst, g) }
                    };
                    match r {
                        Ok(old) => {
                            sched::obs(2002, vs::rc_word(&old), 0);
                            slots[d] = Slot::Rc(old);
                            res = 1;
                        }
                        Err(err) => {
                            sched::obs(2002, vs::snapshot_word(err.current), 0);
                            slots[src] = Slot::Rc(err.desired);
                            slots[d] = Slot::Snap(err.current);
                        }
                    }
                }
            }
        }
        _ => {}
    }
    // C01 / C02 on every reference of this thread: the payload must be live
    for s in slots.iter() {
        match s {
            Slot::Rc(r) => {
                if let Some(o) = r.as_ref() {
                    if o.id.get() == POISON {
                        mon.push(format!("PROPFAIL C01 after operation {}: an owned Rc refers to a destructed object", opc));
                    }
                }
            }
            Slot::Snap(sn) => {
                if let Some(o) = sn.as_ref() {
                    if o.id.get() == POISON {
                        mon.push(format!("PROPFAIL C02 after operation {}: a Snapshot refers to a destructed object inside its critical section", opc));
                    }
                }
            }
            _ => {}
        }
    }
    sched::obs(2000, opc as usize, res);
}

/// Hand-written choreographies (program + schedule script), run before the random stream.
/// Each is a regression witness of a defect found by this framework or a targeted attack on a property.
/// Candidate finding F6: a link timestamp exactly 14 epochs old aliases to "curr + 2" in the cascade's modular
/// window, wins the merge and overwrites a fresh stamp of a shared child; a second cascade that read the epoch one
/// step earlier decodes that residue as ancient, brings the count to zero and the child is reclaimed at once
/// although a pinned reader loaded it from a cell that was unlinked only one epoch ago.
/// objects: 1 = P_A, 2 = P_B, 3 = o.  `age` = epochs between storing P_A's link and cascade A (14 = the alias).
pub fn f6_program(age: usize) -> (Prog, usize, u32, usize, Vec<(usize, usize)>) {
    assert!(age >= 13);
    let t0 = (
        vec![(1u8, 1usize), (1u8, 2usize), (1u8, 3usize)],
        vec![
            vec![20], vec![6, 2, 5], vec![6, 2, 6], vec![31, 1, 0, 0, 5], vec![21], // P_A.next := o   (epoch e0)
            vec![25, 1],
            vec![20], vec![31, 1, 1, 0, 6], vec![31, 0, 0, 0, 2], vec![21], // P_B.next := o, cell0 := o   (e0+1)
            vec![25, (age - 5) as i64], // -> e0+age-4
            vec![7, 1],   // drop P_B at c-4
            vec![25, 1],  // seal, -> c-3
            vec![7, 0],   // drop P_A at c-3
            vec![25, 1],  // seal, -> c-2
            vec![25, 1],  // -> c-1: P_B's try_destruct runs here (this thread is cascade B) <- trigger inside
            vec![25, 3],
        ],
    );
    let t1 = (vec![], vec![vec![20], vec![30, 0, 0, 0, 0], vec![21], vec![25, 3]]); // reader: holds the Snapshot, never touches it again
    let t2 = (vec![], vec![vec![20], vec![24, 1], vec![32, 0, 0, 0, 1, 1], vec![21], vec![7, 1]]); // unlinker
    let t3 = (vec![], vec![vec![25, 1]]); // advances to c and runs cascade A
    let prog = Prog { g0: 3, ncells: 1, nobj: 3, threads: vec![t0, t1, t2, t3] };
    (prog, 0, 117, 1, vec![(1, 4), (2, 30), (3, 60)])
}

/// directed choreographies (schedule given by a trigger instead of a fixed script)
pub fn corpus_triggered() -> Vec<(&'static str, Prog, Trigger, usize)> {
    let mut out = vec![];
    // an upgrade lands between the cascade's load of a child's count word (site 115) and its CAS (site 130):
    // the cascade must hand the child back to a deferred try_destruct, not destruct it (C05 / C01; finding D4)
    for (name, weak_snapshot) in [("d4_upgrade_inside_cascade_window", false), ("d4_wsnap_upgrade_inside_cascade_window", true)] {
        // objects: 1 = G (parent), 2 = P (child); thread 0 owns both, thread 1 holds a Weak to P
        let t0 = (
            vec![(1u8, 1usize), (1u8, 2usize)],
            vec![vec![20], vec![31, 1, 0, 0, 1], vec![21], vec![25, 4], vec![7, 0], vec![25, 2], vec![25, 6], vec![25, 4]],
        );
        let t1 = if weak_snapshot {
            (vec![(2u8, 2usize)], vec![vec![20], vec![19, 0, 1], vec![18, 1, 2], vec![15, 2, 3], vec![21], vec![7, 3], vec![12, 0], vec![25, 4]])
        } else {
            (vec![(2u8, 2usize)], vec![vec![13, 0, 1], vec![7, 1], vec![12, 0], vec![25, 4]])
        };
        let steps = if weak_snapshot { 6 } else { 3 };
        out.push((name, Prog { g0: 4, ncells: 0, nobj: 2, threads: vec![t0, t1] }, Trigger { watch: 0, site: 115, nth: 2, other: 1, steps }, 64));
    }
    // an upgrade lands between try_destruct's load of the count word (site 113) and its CAS (site 114): the retry
    // must look at the count again (C01 / C05; the token protocol of finding D6)
    for (name, steps) in [("d6_upgrade_between_td_load_and_cas", 3usize), ("d6_upgrade_completed_between_td_load_and_cas", 4)] {
        let t0 = (vec![(1u8, 1usize)], vec![vec![7, 0], vec![25, 6], vec![25, 6], vec![25, 6]]);
        let t1 = (vec![(2u8, 1usize)], vec![vec![13, 0, 1], vec![25, 0], vec![7, 1], vec![12, 0], vec![25, 4]]);
        out.push((name, Prog { g0: 3, ncells: 0, nobj: 1, threads: vec![t0, t1] }, Trigger { watch: 0, site: 113, nth: 1, other: 1, steps }, 64));
    }
    // a child C with two owners: an old, already dropped parent P (destruction pending) and root cell 0.  A reader
    // pins after P was dropped, loads C from the cell; C is then unlinked from the cell (a NON-final decrement,
    // 2 -> 1) and P's destruction runs: the stamp left by that decrement is what keeps the cascade from
    // destructing C under the reader (C02; run at four alignments of the epoch)
    for (name, g0) in [("c02_unlink_then_cascade_a", 0usize), ("c02_unlink_then_cascade_b", 5), ("c02_unlink_then_cascade_c", 10), ("c02_unlink_then_cascade_d", 15)] {
        let t0 = (
            vec![(1u8, 1usize), (1u8, 2usize)],
            vec![
                vec![20], vec![6, 1, 5], vec![31, 1, 0, 0, 1], vec![31, 0, 0, 0, 5], vec![21], vec![25, 4], vec![7, 0], vec![25, 2],
                vec![20], // <- the reader pins and loads here
                vec![24, 6], vec![32, 0, 0, 0, 6, 6], vec![21], vec![7, 6], vec![25, 3], vec![25, 2],
            ],
        );
        let t1 = (vec![], vec![vec![20], vec![30, 0, 0, 0, 0], vec![15, 0, 1], vec![21], vec![7, 1], vec![25, 4]]);
        out.push((name, Prog { g0, ncells: 1, nobj: 2, threads: vec![t0, t1] }, Trigger { watch: 0, site: 1, nth: 9, other: 1, steps: 4 }, 64));
    }
    // the weak count goes 1 -> 0 (a try_dealloc is deferred) between the load of increment_weak (site 103) and its
    // fetch_add (site 105): the token for the pending try_dealloc is owed because of what the FETCH_ADD observed, not
    // the load (C03; seed C03/6a).  Thread 0 destructs the object, takes a WeakSnapshot from its Weak, drops the Weak
    // and calls counted(); thread 1 drops the last other Weak inside the window.
    {
        let t0 = (
            vec![(1u8, 1usize), (2u8, 1usize)],
            vec![vec![7, 0], vec![25, 6], vec![20], vec![19, 1, 2], vec![12, 1], vec![17, 2, 3], vec![21], vec![25, 6], vec![25, 4], vec![12, 3], vec![25, 4]],
        );
        let t1 = (vec![(2u8, 1usize)], vec![vec![12, 0], vec![25, 2]]);
        for (name, steps) in [("c03_counted_from_zero_between_load_and_add", 4usize), ("c03_counted_from_zero_between_load_and_add_b", 3)] {
            out.push((name, Prog { g0: 3, ncells: 0, nobj: 1, threads: vec![t0.clone(), t1.clone()] }, Trigger { watch: 0, site: 103, nth: 1, other: 1, steps }, 64));
        }
    }
    out
}

pub fn corpus() -> Vec<(&'static str, Prog, Vec<usize>, usize)> {
    let mut out = vec![];
    // D6: Weak::upgrade between its two additions while the pending destruction attempt runs (C01)
    {
        let t0 = (vec![(2u8, 1usize)], vec![vec![13, 0, 1], vec![25, 0], vec![7, 1], vec![12, 0]]);
        let t1 = (vec![(1u8, 1usize)], vec![vec![7, 0], vec![25, 6], vec![25, 6], vec![25, 6]]);
        let mut script = vec![0, 1, 1, 1, 1, 1, 0, 0];
        script.extend(std::iter::repeat(1).take(300));
        script.extend(std::iter::repeat(0).take(100));
        out.push(("d6_upgrade_between_additions", Prog { g0: 0, ncells: 0, nobj: 1, threads: vec![t0, t1] }, script, 64));
    }
    // same race, the upgrader finishes after the first attempt consumed its token but before the next one
    {
        let t0 = (vec![(2u8, 1usize)], vec![vec![13, 0, 1], vec![25, 0], vec![25, 0], vec![7, 1], vec![12, 0]]);
        let t1 = (vec![(1u8, 1usize)], vec![vec![7, 0], vec![25, 6], vec![25, 6], vec![25, 6], vec![25, 6]]);
        let mut script = vec![0, 1, 1, 1, 1, 1, 0, 0];
        script.extend(std::iter::repeat(1).take(7));
        script.extend(std::iter::repeat(0).take(3));
        script.extend(std::iter::repeat(1).take(300));
        script.extend(std::iter::repeat(0).take(100));
        out.push(("d6_upgrade_token_consumed", Prog { g0: 3, ncells: 0, nobj: 1, threads: vec![t0, t1] }, script, 64));
    }
    // D5: WeakSnapshot::upgrade of an object whose count is non-zero must protect it for the rest of the
    // critical section, also against the recursive destruction that starts from an old, unlinked parent (C02)
    {
        // objects: 1 = G (parent), 2 = P (child).  thread 0 owns both, thread 1 holds a Weak to P.
        let t0 = (
            vec![(1u8, 1usize), (1u8, 2usize)],
            vec![vec![20], vec![31, 1, 0, 0, 1], vec![21], vec![25, 4], vec![7, 0], vec![25, 2], vec![25, 6], vec![25, 4]],
        );
        let t1 = (
            vec![(2u8, 2usize)],
            vec![vec![20], vec![19, 0, 1], vec![18, 1, 2], vec![16, 2, 3], vec![21], vec![12, 0]],
        );
        let mut script = vec![0, 1];
        script.extend(std::iter::repeat(0).take(11));
        script.extend(std::iter::repeat(1).take(4));
        script.extend(std::iter::repeat(0).take(120));
        script.extend(std::iter::repeat(1).take(40));
        out.push(("d5_weak_snapshot_upgrade_then_cascade", Prog { g0: 2, ncells: 0, nobj: 2, threads: vec![t0, t1] }, script, 64));
    }
    // D4: a child destructed by the cascade must refuse upgrades afterwards (C05 / C01)
    {
        let t0 = (
            vec![(1u8, 1usize), (1u8, 2usize)],
            vec![vec![9, 1, 5], vec![20], vec![31, 1, 0, 0, 1], vec![21], vec![25, 5], vec![7, 0], vec![25, 8], vec![25, 4],
                 vec![13, 5, 6], vec![7, 6], vec![12, 5]],
        );
        let script: Vec<usize> = std::iter::repeat(0).take(400).collect();
        // a failed upgrade leaves its addition in the count word: the NEXT upgrade must fail as well (C05)
        let t0b = (
            vec![(1u8, 1usize), (2u8, 1usize)],
            vec![vec![7, 0], vec![25, 6], vec![13, 1, 2], vec![7, 2], vec![13, 1, 3], vec![7, 3], vec![13, 1, 4], vec![7, 4], vec![12, 1], vec![25, 4]],
        );
        // a node whose FIRST outgoing edge is null and whose second one owns a child: the cascade must go on past the
        // null edge and release the child (C06 / C04; seed C06/2b turned `continue` into `break`)
        let t0c = (
            vec![(1u8, 1usize), (1u8, 2usize)],
            vec![vec![20], vec![31, 1, 0, 1, 1], vec![21], vec![25, 5], vec![7, 1], vec![7, 0], vec![25, 8], vec![25, 4]],
        );
        out.push(("c06_null_first_edge_then_child", Prog { g0: 1, ncells: 0, nobj: 2, threads: vec![t0c] }, script.clone(), 64));
        out.push(("c05_repeated_upgrade_after_destruction", Prog { g0: 2, ncells: 0, nobj: 1, threads: vec![t0b] }, script.clone(), 64));
        out.push(("d4_upgrade_after_cascade", Prog { g0: 5, ncells: 0, nobj: 2, threads: vec![t0] }, script, 64));
    }
    // D7: a dropper stalled between reading the epoch and publishing its stamp must not make a child
    // look old to the cascade while a pinned reader holds it (C02).  P has two parents: G (unlinked, its
    // destruction pending) and H (live, published in root cell 0), plus an extra owner held by the dropper.
    {
        // objects: 1 = G, 2 = H, 3 = P
        let t0 = (
            vec![(1u8, 1usize), (1u8, 2usize), (1u8, 3usize)],
            vec![
                vec![20], vec![6, 2, 5], vec![31, 1, 0, 0, 2], vec![31, 1, 1, 0, 5], vec![31, 0, 0, 0, 1], vec![21], vec![25, 4],
                // (dropper reads the epoch and stalls here)
                vec![25, 3], vec![7, 0], vec![25, 2],
                // (reader pins, loads H and P)
                vec![20], vec![30, 0, 0, 0, 3], vec![24, 4], vec![31, 1, 3, 0, 4], vec![21],
                // (the stalled dropper publishes its stamp)
                vec![25, 3], vec![25, 3],
            ],
        );
        let t1 = (vec![(1u8, 3usize)], vec![vec![7, 0]]);
        let t2 = (vec![], vec![vec![20], vec![30, 0, 0, 0, 0], vec![30, 1, 0, 0, 1], vec![16, 1, 2], vec![21]]);
        let mut script = vec![0, 1, 2];
        script.extend(std::iter::repeat(0).take(14));
        script.extend([1, 1]);
        script.extend(std::iter::repeat(0).take(6));
        script.extend([2, 2, 2, 2, 2]);
        script.extend(std::iter::repeat(0).take(10));
        script.extend([1, 1]);
        script.extend(std::iter::repeat(0).take(200));
        script.extend(std::iter::repeat(2).take(40));
        script.extend(std::iter::repeat(1).take(40));
        out.push(("d7_stalled_dropper_stale_stamp", Prog { g0: 7, ncells: 1, nobj: 3, threads: vec![t0, t1, t2] }, script, 64));
    }
    out
}
