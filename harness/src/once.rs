//! OnceLock (src/ebr_impl/sync/once_lock.rs, the cell behind the default collector) against OnceLock.v.
//! Real threads call `get_or_init` on a fresh cell; the closure of each call announces itself and then waits on a
//! gate, which is the only point of a call the harness can hold.  An event sequence (2*t = thread t starts its call
//! and runs until it is inside its closure, blocked, or back; 2*t+1 = the closure of thread t is released) is run on
//! the implementation, and the extracted model (`OnceLock.once_line`) evaluates the same events:
//!   `@once n v_0..v_{n-1} events.. => closure executions after every event, bad flag (always 0), result of every thread`
//! Model-independent monitor: the closure runs at most once per cell, all calls return the same value, and that value
//! is the one the executed closure produced (PROPFAIL C15 / C20 lines).
use crate::util::{Out, Rng};
use circ::verif::ebr::VOnceLock;
use std::sync::atomic::{AtomicUsize, Ordering::SeqCst};
use std::sync::mpsc::{channel, Receiver, Sender};
use std::sync::Arc;
use std::time::Duration;

enum Msg {
    InClosure(usize),
    Returned(usize, i64),
}

fn case(n: usize, vals: &[i64], events: &[usize]) -> (Vec<usize>, Vec<i64>, Vec<String>) {
    let cell: Arc<VOnceLock<i64>> = Arc::new(VOnceLock::new());
    let runs = Arc::new(AtomicUsize::new(0));
    let (tx, rx): (Sender<Msg>, Receiver<Msg>) = channel();
    let mut gates: Vec<Option<Sender<()>>> = (0..n).map(|_| None).collect();
    let mut handles = vec![];
    let mut started = vec![false; n];
    let mut in_closure = vec![false; n];
    let mut ret: Vec<i64> = vec![-2; n];
    let mut after: Vec<usize> = vec![];
    let mut problems = vec![];
    let absorb = |m: Msg, in_closure: &mut Vec<bool>, ret: &mut Vec<i64>| match m {
        Msg::InClosure(t) => in_closure[t] = true,
        Msg::Returned(t, v) => {
            in_closure[t] = false;
            ret[t] = v
        }
    };
    for &e in events {
        let t = e / 2;
        if e % 2 == 0 {
            if !started[t] {
                started[t] = true;
                let (gtx, grx) = channel::<()>();
                gates[t] = Some(gtx);
                let (c, r, txx, v) = (cell.clone(), runs.clone(), tx.clone(), vals[t]);
                handles.push(std::thread::spawn(move || {
                    let got = *c.get_or_init(|| {
                        r.fetch_add(1, SeqCst);
                        let _ = txx.send(Msg::InClosure(t));
                        let _ = grx.recv();
                        v
                    });
                    let _ = txx.send(Msg::Returned(t, got));
                }));
                // the thread reaches its closure, returns, or blocks on the Once: wait for a message from it
                // while another call is inside its (gated) closure this one must block: give it a moment to show
                // otherwise; when nobody is, it will enter its closure or return: wait for that positively
                let limit = if in_closure.iter().any(|b| *b) { 60 } else { 5000 };
                let deadline = std::time::Instant::now() + Duration::from_millis(limit);
                loop {
                    match rx.recv_timeout(deadline.saturating_duration_since(std::time::Instant::now())) {
                        Ok(m) => {
                            let mine = matches!(&m, Msg::InClosure(x) | Msg::Returned(x, _) if *x == t);
                            absorb(m, &mut in_closure, &mut ret);
                            if mine {
                                break;
                            }
                        }
                        Err(_) => break, // blocked
                    }
                }
            }
        } else if in_closure[t] {
            if let Some(g) = gates[t].take() {
                let _ = g.send(());
            }
            in_closure[t] = false; // released: its return is awaited like everybody else's
            // t returns, then every started thread that was blocked wakes up and returns (or enters its own closure
            // if the cell lets it: then it stays gated, like in the model)
            let deadline = std::time::Instant::now() + Duration::from_millis(20000);
            loop {
                let pending = (0..n).any(|q| started[q] && ret[q] == -2 && !in_closure[q]);
                if !pending {
                    break;
                }
                match rx.recv_timeout(deadline.saturating_duration_since(std::time::Instant::now())) {
                    Ok(m) => absorb(m, &mut in_closure, &mut ret),
                    Err(_) => {
                        problems.push("a call stayed blocked after the initialising closure had returned".to_string());
                        break;
                    }
                }
            }
        }
        after.push(runs.load(SeqCst));
    }
    // release whatever is still gated so that the threads can be joined
    for q in 0..n {
        if let Some(g) = gates[q].take() {
            let _ = g.send(());
        }
    }
    drop(tx);
    for h in handles {
        let _ = h.join();
    }
    // every thread has finished: whatever it reported last is in the channel
    while let Ok(m) = rx.try_recv() {
        absorb(m, &mut in_closure, &mut ret);
    }
    let total = runs.load(SeqCst);
    if total > 1 {
        problems.push(format!("the initialising closure ran {} times on one cell", total));
    }
    let got: Vec<i64> = ret.iter().cloned().filter(|v| *v != -2).collect();
    if got.windows(2).any(|w| w[0] != w[1]) {
        problems.push(format!("calls on one cell returned different values {:?}", got));
    }
    (after, ret, problems)
}

pub fn run(out_path: &str, seed: u64, thorough: bool, cases: usize) -> (u64, u64, u64) {
    let mut out = Out::create(out_path);
    let mut rng = Rng::new(seed ^ 0x0ce10c);
    let (mut lines, mut checks, mut fails) = (0u64, 0u64, 0u64);
    let ncases = if cases > 0 { cases } else if thorough { 400 } else { 60 };
    for c in 0..ncases {
        let n = 2 + (rng.next() % 4) as usize;
        let vals: Vec<i64> = (0..n).map(|i| 10 * (i as i64 + 1) + (rng.next() % 7) as i64).collect();
        // events: every thread starts once, in a random order; the thread inside the closure is released at a random
        // moment (directed case 0: everybody starts while the first one is still inside its closure)
        let mut order: Vec<usize> = (0..n).collect();
        for i in (1..n).rev() {
            let j = (rng.next() % (i as u64 + 1)) as usize;
            order.swap(i, j);
        }
        let mut events: Vec<usize> = vec![];
        let release_after = if c % 3 == 0 { n } else { 1 + (rng.next() % n as u64) as usize };
        for (i, t) in order.iter().enumerate() {
            events.push(2 * t);
            if i + 1 == release_after {
                events.push(2 * order[0] + 1);
            }
        }
        // release attempts for everybody (no-ops in the model unless a thread is inside its closure)
        for t in 0..n {
            events.push(2 * t + 1);
        }
        let (after, ret, problems) = case(n, &vals, &events);
        checks += 1;
        for p in problems {
            fails += 1;
            out.line(&format!("PROPFAIL C15 OnceLock case {} ({} threads, events {:?}): {}", c, n, events, p));
            out.line(&format!("PROPFAIL C20 OnceLock case {} ({} threads, events {:?}): {}", c, n, events, p));
        }
        let mut l = format!("@once {}", n);
        for v in &vals {
            l.push_str(&format!(" {}", v));
        }
        for e in &events {
            l.push_str(&format!(" {}", e));
        }
        l.push_str(" =>");
        for a in &after {
            l.push_str(&format!(" {}", a));
        }
        l.push_str(" 0");
        for r in &ret {
            l.push_str(&format!(" {}", r));
        }
        out.line(&l);
        lines += 1;
    }
    out.line(&format!("# once cases={} property_checks={} failures={}", ncases, checks, fails));
    out.finish();
    (lines, checks, fails)
}
