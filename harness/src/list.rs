//! M5 correspondence: the intrusive registry list of ebr_impl/sync/list.rs under the cooperative
//! scheduler, list yield sites 50..56 enabled; one private collector, one guard per thread held for
//! the whole case.
//!
//! Program encoding (per thread, flattened): `-1` starts a thread, then ops:
//!   0 id     insert a new element with this id
//!   1 k      delete the k-th element this thread inserted (each at most once)
//!   2        one traversal
use crate::conc::{case_line, sched_of, Canon};
use crate::sched::{self, policy};
use crate::util::Rng;
use circ::verif::ebr::{Collector, VList};
use std::sync::Arc;

fn enabled(site: u32) -> bool {
    site == 1 || (50..=56).contains(&site)
}

#[derive(Clone, Debug)]
pub enum Op {
    Insert(usize),
    Delete(usize),
    Traverse,
}

pub fn gen_program(rng: &mut Rng, thorough: bool) -> Vec<Vec<Op>> {
    let nt = 2 + rng.below(if thorough { 3 } else { 2 }) as usize;
    let mut next_id = 1usize;
    (0..nt)
        .map(|_| {
            let n = 1 + rng.below(if thorough { 7 } else { 5 }) as usize;
            let mut inserted = 0usize;
            let mut deleted: Vec<bool> = vec![];
            let mut ops = vec![];
            for _ in 0..n {
                let live: Vec<usize> = (0..inserted).filter(|&k| !deleted[k]).collect();
                match rng.below(10) {
                    0..=3 => {
                        ops.push(Op::Insert(next_id));
                        next_id += 1;
                        inserted += 1;
                        deleted.push(false);
                    }
                    4..=6 if !live.is_empty() => {
                        let k = *rng.pick(&live);
                        deleted[k] = true;
                        ops.push(Op::Delete(k));
                    }
                    _ => ops.push(Op::Traverse),
                }
            }
            ops
        })
        .collect()
}

pub fn encode(prog: &[Vec<Op>]) -> Vec<i64> {
    let mut out = vec![];
    for t in prog {
        out.push(-1);
        for op in t {
            match op {
                Op::Insert(id) => out.extend([0, *id as i64]),
                Op::Delete(k) => out.extend([1, *k as i64]),
                Op::Traverse => out.push(2),
            }
        }
    }
    out
}

pub fn run_case(prog: &[Vec<Op>], rng: &mut Rng, script: Option<Vec<usize>>) -> (String, Vec<String>) {
    let collector = Collector::new();
    let list = Arc::new(VList::new());
    let mut bodies: Vec<Box<dyn FnOnce() + Send>> = vec![];
    for ops in prog.iter().cloned() {
        let list = list.clone();
        let c = collector.clone();
        bodies.push(Box::new(move || {
            let h = c.register();
            let g = h.pin();
            sched::arm(true);
            let mut mine: Vec<usize> = vec![];
            for op in ops {
                match op {
                    Op::Insert(id) => {
                        sched::obs(1, 0, id);
                        let a = list.insert(id, &g);
                        mine.push(a);
                        sched::obs(2000, 0, 0);
                    }
                    Op::Delete(k) => {
                        sched::obs(1, 1, k);
                        unsafe { list.delete(mine[k], &g) };
                        sched::obs(2000, 1, 0);
                    }
                    Op::Traverse => {
                        sched::obs(1, 2, 0);
                        let (ok, ids) = match list.traverse(&g) {
                            Ok(v) => (1, v),
                            Err(v) => (0, v),
                        };
                        sched::obs(2002, ok, ids.len());
                        for id in ids {
                            sched::obs(2003, id, 0);
                        }
                    }
                }
            }
            sched::obs(1, 9, 0);
            sched::arm(false);
            // every element must be deleted before the list is dropped: mark the remaining ones
            // (outside the recorded part: the scheduler treats site 52 as enabled, so do it under the schedule too)
            drop(g);
            drop(h);
        }));
    }
    let nt = prog.len();
    let res = match script {
        Some(s) => sched::run(bodies, enabled, 100_000, &mut policy::scripted(s)),
        None => {
            if rng.chance(1, 2) {
                sched::run(bodies, enabled, 100_000, &mut policy::uniform(rng))
            } else {
                let mut p = policy::pct(rng, nt, 80, 3);
                sched::run(bodies, enabled, 100_000, &mut p)
            }
        }
    };
    // the list asserts on drop that every entry is marked; leak it instead (entries are tiny)
    std::mem::forget(list);
    let mut canon = Canon::new();
    let mut steps: Vec<Vec<(u32, i64, i64)>> = vec![];
    let mut monitor = vec![];
    for st in &res.trace {
        let mut out = vec![];
        for &(site, a, b) in &st.obs {
            match site {
                1 | 2000 | 2002 | 2003 => out.push((site, a as i64, b as i64)),
                1257 => {
                    let id = canon.fresh(a);
                    out.push((site, id, b as i64));
                }
                1256 => out.push((site, a as i64, 0)),
                1250 | 1254 => out.push((site, canon.get(a), b as i64)),
                50..=56 | 1255 => out.push((site, canon.get(a), canon.get(b))),
                _ => {}
            }
        }
        steps.push(out);
    }
    if res.panicked.iter().any(|&p| p) {
        monitor.push("PROPFAIL C18 a model thread panicked".to_string());
    }
    (case_line("list", &encode(prog), &sched_of(&res.trace), &steps), monitor)
}
