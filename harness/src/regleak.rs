//! C18, last clause ("removed entries are unlinked and freed exactly once"): the record of a participant that has
//! left is unlinked by a later traversal and its memory is returned after the grace period.  Freed twice shows up as
//! a crash of the list / list-stress streams; freed NEVER is what this stream looks for: a counting global allocator
//! (util::CountingAlloc) tracks the live heap blocks whose alignment is at least a cache line (participant records
//! and collector globals are the only such blocks the crate allocates), threads register with a private collector,
//! pin once and leave, and a surviving participant drives traversals and collection rounds.  Afterwards the number of
//! live cache-line aligned blocks must be back at the baseline.
use crate::util::{Out, BIG_ALLOCS, BIG_LIVE};
use circ::verif::ebr::{self, Collector};
use std::sync::atomic::Ordering::SeqCst;

pub fn run(out_path: &str, _seed: u64, thorough: bool) -> (u64, u64, u64) {
    ebr::set_tuning(64, 64);
    let mut out = Out::create(out_path);
    let (mut checks, mut fails) = (0u64, 0u64);
    let bursts = if thorough { 200 } else { 25 };
    for &per_burst in &[1usize, 8] {
        let collector = Collector::new();
        let hm = collector.register();
        // warm up: the survivor's own record and the collector's global exist from here on
        for _ in 0..4 {
            let g = hm.pin();
            g.flush();
            drop(g);
        }
        let base_live = BIG_LIVE.load(SeqCst);
        let base_allocs = BIG_ALLOCS.load(SeqCst);
        for _ in 0..bursts {
            let mut hs = vec![];
            for _ in 0..per_burst {
                let c = collector.clone();
                hs.push(std::thread::spawn(move || {
                    let h = c.register();
                    let g = h.pin();
                    drop(g);
                    drop(h);
                }));
            }
            for h in hs {
                let _ = h.join();
            }
            for _ in 0..6 {
                let g = hm.pin();
                let _ = ebr::try_advance(&collector, &g);
                g.flush();
                drop(g);
            }
        }
        let mut rounds = 0;
        while BIG_LIVE.load(SeqCst) > base_live && rounds < 2000 {
            let g = hm.pin();
            let _ = ebr::try_advance(&collector, &g);
            g.flush();
            drop(g);
            rounds += 1;
        }
        let registered = BIG_ALLOCS.load(SeqCst) - base_allocs;
        let left = BIG_LIVE.load(SeqCst) - base_live;
        checks += 1;
        if left > 0 {
            fails += 1;
            out.line(&format!(
                "PROPFAIL C18 {} of {} participant records of threads that have left were never freed ({} threads per burst, {} bursts, {} further traversal+collection rounds of a surviving participant)",
                left, registered, per_burst, bursts, rounds
            ));
        }
        out.line(&format!("# reg-leak per_burst={} bursts={} records_allocated={} left_allocated={} extra_rounds={}", per_burst, bursts, registered, left, rounds));
        drop(hm);
        drop(collector);
    }
    out.finish();
    (checks, checks, fails)
}
