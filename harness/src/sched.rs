//! Cooperative scheduler: model threads are OS threads, exactly one runs at a time.
//!
//! A model thread blocks at every enabled *yield site* (hook sites below 1000, placed immediately
//! before an access to a shared word).  One scheduled *step* is: the released thread logs the
//! yield site it was blocked at, performs the access and runs on until it reaches its next enabled
//! yield site (or finishes).  Observation sites (>= 1000) are appended to the current step.
use std::cell::Cell;
use std::sync::{Arc, Condvar, Mutex, OnceLock};

#[derive(Clone, Debug)]
pub struct Step {
    pub tid: usize,
    pub obs: Vec<(u32, usize, usize)>,
}

#[derive(Clone, Copy, PartialEq, Debug)]
enum TS {
    AtYield,
    Running,
    Done,
}

struct Inner {
    running: Option<usize>,
    state: Vec<TS>,
    trace: Vec<Step>,
    record: bool,
    enabled: fn(u32) -> bool,
    panicked: Vec<bool>,
    active: bool,
}

struct Shared {
    mu: Mutex<Inner>,
    cv: Condvar,
}

static SHARED: OnceLock<Arc<Shared>> = OnceLock::new();

thread_local! {
    static ME: Cell<usize> = const { Cell::new(usize::MAX) };
    static ARMED: Cell<bool> = const { Cell::new(false) };
}

/// Model threads start unarmed (hooks are ignored) so that set-up and tear-down code
/// (registration, final unpin) is not part of the case.
pub fn arm(on: bool) {
    ARMED.with(|a| a.set(on));
}

fn shared() -> &'static Arc<Shared> {
    SHARED.get_or_init(|| {
        Arc::new(Shared {
            mu: Mutex::new(Inner {
                running: None,
                state: vec![],
                trace: vec![],
                record: true,
                enabled: |_| true,
                panicked: vec![],
                active: false,
            }),
            cv: Condvar::new(),
        })
    })
}

/// Process-wide event counters (every thread, armed or not): block allocations and deallocations.
pub static ALLOCS: std::sync::atomic::AtomicUsize = std::sync::atomic::AtomicUsize::new(0);
pub static DEALLOCS: std::sync::atomic::AtomicUsize = std::sync::atomic::AtomicUsize::new(0);

/// The process-global hook installed into `circ::verif`.
pub fn hook(site: u32, a: usize, b: usize) {
    if site == 1103 {
        ALLOCS.fetch_add(1, std::sync::atomic::Ordering::SeqCst);
    } else if site == 1100 {
        DEALLOCS.fetch_add(1, std::sync::atomic::Ordering::SeqCst);
    }
    let me = ME.with(|m| m.get());
    if me == usize::MAX || !ARMED.with(|a| a.get()) {
        return;
    }
    let sh = shared();
    let mut g = sh.mu.lock().unwrap();
    if !g.active {
        return;
    }
    if site < 1000 {
        if !(g.enabled)(site) {
            return;
        }
        // hand the baton back and wait for our turn
        g.state[me] = TS::AtYield;
        g.running = None;
        sh.cv.notify_all();
        while g.running != Some(me) {
            g = sh.cv.wait(g).unwrap();
        }
        g.state[me] = TS::Running;
    }
    if g.record {
        if let Some(step) = g.trace.last_mut() {
            step.obs.push((site, a, b));
        }
    }
}

/// Installs the hook (idempotent).
pub fn install() {
    circ::verif::set_hook(Some(hook));
}

/// Logs an observation from harness code running on a model thread.
pub fn obs(site: u32, a: usize, b: usize) {
    hook(site, a, b)
}

/// Current model thread id (usize::MAX outside model threads).
pub fn me() -> usize {
    ME.with(|m| m.get())
}

pub struct RunResult {
    pub trace: Vec<Step>,
    pub panicked: Vec<bool>,
    pub truncated: bool,
}

/// Runs the given thread bodies under the cooperative scheduler.
/// `choose(runnable, step_index)` returns an index into `runnable`.
pub fn run(
    bodies: Vec<Box<dyn FnOnce() + Send + 'static>>,
    enabled: fn(u32) -> bool,
    max_steps: usize,
    choose: &mut dyn FnMut(&[usize], usize) -> usize,
) -> RunResult {
    run_observed(bodies, enabled, max_steps, &mut |r, k, _| choose(r, k))
}

/// Like `run`, but the chooser also sees the trace recorded so far (for directed schedules).
pub fn run_observed(
    bodies: Vec<Box<dyn FnOnce() + Send + 'static>>,
    enabled: fn(u32) -> bool,
    max_steps: usize,
    choose: &mut dyn FnMut(&[usize], usize, &[Step]) -> usize,
) -> RunResult {
    install();
    let sh = shared().clone();
    let n = bodies.len();
    {
        let mut g = sh.mu.lock().unwrap();
        g.running = None;
        g.state = vec![TS::AtYield; n];
        g.trace = vec![];
        g.record = true;
        g.enabled = enabled;
        g.panicked = vec![false; n];
        g.active = true;
    }
    let mut handles = vec![];
    for (tid, body) in bodies.into_iter().enumerate() {
        let sh2 = sh.clone();
        handles.push(
            std::thread::Builder::new()
                .name(format!("model-{}", tid))
                .spawn(move || {
                    ME.with(|m| m.set(tid));
                    {
                        let mut g = sh2.mu.lock().unwrap();
                        while g.running != Some(tid) {
                            g = sh2.cv.wait(g).unwrap();
                        }
                        g.state[tid] = TS::Running;
                    }
                    let r = std::panic::catch_unwind(std::panic::AssertUnwindSafe(body));
                    let mut g = sh2.mu.lock().unwrap();
                    if r.is_err() {
                        g.panicked[tid] = true;
                    }
                    g.state[tid] = TS::Done;
                    g.running = None;
                    ME.with(|m| m.set(usize::MAX));
                    ARMED.with(|a| a.set(false));
                    sh2.cv.notify_all();
                })
                .unwrap(),
        );
    }
    let mut steps = 0usize;
    let mut truncated = false;
    let mut rr = 0usize;
    loop {
        let mut g = sh.mu.lock().unwrap();
        while g.running.is_some() {
            g = sh.cv.wait(g).unwrap();
        }
        let runnable: Vec<usize> = (0..n).filter(|&t| g.state[t] == TS::AtYield).collect();
        if runnable.is_empty() {
            break;
        }
        let t = if steps < max_steps {
            let k = choose(&runnable, steps, &g.trace);
            runnable[k % runnable.len()]
        } else {
            // drain without recording, round-robin (lock-free code terminates under a fair schedule)
            if !truncated {
                truncated = true;
                g.record = false;
            }
            rr += 1;
            runnable[rr % runnable.len()]
        };
        if g.record {
            g.trace.push(Step { tid: t, obs: vec![] });
        }
        steps += 1;
        g.running = Some(t);
        sh.cv.notify_all();
    }
    for h in handles {
        let _ = h.join();
    }
    let mut g = sh.mu.lock().unwrap();
    g.active = false;
    RunResult {
        trace: std::mem::take(&mut g.trace),
        panicked: g.panicked.clone(),
        truncated,
    }
}

/// Schedule policies over a PRNG.
pub mod policy {
    use crate::util::Rng;

    /// uniform random among runnable threads
    pub fn uniform(rng: &mut Rng) -> impl FnMut(&[usize], usize) -> usize + '_ {
        move |r, _| rng.below(r.len() as u64) as usize
    }

    /// PCT-like: random priorities, a few change points where the running thread is demoted
    pub fn pct(rng: &mut Rng, nthreads: usize, horizon: usize, changes: usize) -> impl FnMut(&[usize], usize) -> usize {
        let mut prio: Vec<u64> = (0..nthreads).map(|_| rng.next() >> 8).collect();
        let mut cps: Vec<usize> = (0..changes).map(|_| rng.below(horizon.max(1) as u64) as usize).collect();
        cps.sort();
        let mut low = 0u64;
        move |r, step| {
            let best = *r.iter().max_by_key(|&&t| prio[t]).unwrap();
            if cps.contains(&step) {
                prio[best] = low;
                low = low.wrapping_add(0); // all demoted threads share the lowest band; ties by id
            }
            let best = *r.iter().max_by_key(|&&t| (prio[t], t)).unwrap();
            r.iter().position(|&t| t == best).unwrap()
        }
    }

    /// follow an explicit list of thread ids (falling back to the first runnable)
    pub fn scripted(script: Vec<usize>) -> impl FnMut(&[usize], usize) -> usize {
        move |r, step| {
            let want = script.get(step).copied().unwrap_or(usize::MAX);
            r.iter().position(|&t| t == want).unwrap_or(0)
        }
    }
}
