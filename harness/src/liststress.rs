//! C18, free-running stress (no cooperative scheduler): the scheduler-driven streams treat every hooked access as
//! one atomic instruction; a change that splits a read-modify-write inside a primitive (e.g. the mark of
//! `Entry::delete` becoming load + store) is invisible to them.  Here real threads register next to each other
//! and exit together in bursts while collector threads keep traversing the participant list (try_advance); a hook
//! follows every entry through insert (site 50) and unlink+finalize (site 1255).  An entry that is finalized
//! twice without having been inserted again in between, or a pinned participant overlooked by an advance,
//! is a violation.  Probabilistic by nature: the evidence reports how many register/exit cycles ran.
use crate::util::Out;
use circ::verif::ebr::{self, Collector};
use std::collections::HashMap;
use std::sync::atomic::{AtomicBool, AtomicUsize, Ordering::SeqCst};
use std::sync::{Arc, Barrier, Mutex};

static EVENTS: Mutex<Option<HashMap<usize, u8>>> = Mutex::new(None);
static DOUBLE: AtomicUsize = AtomicUsize::new(0);
static GHOST: AtomicUsize = AtomicUsize::new(0);

fn hook(site: u32, a: usize, _b: usize) {
    if site == 50 || site == 1255 {
        let mut g = EVENTS.lock().unwrap();
        if let Some(m) = g.as_mut() {
            let st = m.entry(a).or_insert(0);
            if site == 50 {
                *st = 1;
            } else {
                match *st {
                    1 => *st = 2,
                    2 => {
                        DOUBLE.fetch_add(1, SeqCst);
                    }
                    _ => {
                        GHOST.fetch_add(1, SeqCst);
                    }
                }
            }
        }
    }
}

pub fn run(out_path: &str, _seed: u64, thorough: bool) -> (u64, u64, u64) {
    let secs = if thorough { 60 } else { 6 };
    *EVENTS.lock().unwrap() = Some(HashMap::new());
    DOUBLE.store(0, SeqCst);
    GHOST.store(0, SeqCst);
    circ::verif::set_hook(Some(hook));
    ebr::set_tuning(64, 64);
    let collector = Collector::new();
    let stop = Arc::new(AtomicBool::new(false));
    let skew_violations = Arc::new(AtomicUsize::new(0));
    let cycles = Arc::new(AtomicUsize::new(0));
    let mut joins = vec![];
    // a participant that stays pinned for a while and checks the skew
    for _ in 0..2 {
        let c = collector.clone();
        let stop = stop.clone();
        let bad = skew_violations.clone();
        joins.push(std::thread::spawn(move || {
            let h = c.register();
            while !stop.load(SeqCst) {
                let g = h.pin();
                let e = ebr::local_info(&g)[3];
                for _ in 0..200 {
                    let now = ebr::collector_epoch(&c) >> 1;
                    if now > e + 1 {
                        bad.fetch_add(1, SeqCst);
                    }
                    std::hint::spin_loop();
                }
                drop(g);
            }
        }));
    }
    // collectors: traverse the list all the time
    for _ in 0..4 {
        let c = collector.clone();
        let stop = stop.clone();
        joins.push(std::thread::spawn(move || {
            let h = c.register();
            while !stop.load(SeqCst) {
                let g = h.pin();
                let _ = ebr::try_advance(&c, &g);
                g.flush();
                drop(g);
            }
        }));
    }
    // bursts of short-lived participants registering next to each other and exiting together
    let t0 = std::time::Instant::now();
    while t0.elapsed().as_secs() < secs {
        let n = 8;
        let bar = Arc::new(Barrier::new(n));
        let mut burst = vec![];
        for _ in 0..n {
            let c = collector.clone();
            let bar = bar.clone();
            let cy = cycles.clone();
            burst.push(std::thread::spawn(move || {
                bar.wait();
                for _ in 0..20 {
                    let h = c.register();
                    let g = h.pin();
                    drop(g);
                    drop(h);
                    cy.fetch_add(1, SeqCst);
                }
            }));
        }
        for b in burst {
            let _ = b.join();
        }
    }
    stop.store(true, SeqCst);
    for j in joins {
        let _ = j.join();
    }
    circ::verif::set_hook(None);
    *EVENTS.lock().unwrap() = None;
    let mut out = Out::create(out_path);
    let (d, gh, sk) = (DOUBLE.load(SeqCst), GHOST.load(SeqCst), skew_violations.load(SeqCst));
    let mut fails = 0u64;
    if d > 0 {
        fails += 1;
        out.line(&format!("PROPFAIL C18 {} participant entries were unlinked and finalized a second time without being inserted again (free-running stress, {} register/exit cycles)", d, cycles.load(SeqCst)));
    }
    if gh > 0 {
        fails += 1;
        out.line(&format!("PROPFAIL C18 {} entries were finalized that were never seen inserted (free-running stress)", gh));
    }
    if sk > 0 {
        fails += 1;
        out.line(&format!("PROPFAIL C18 a pinned participant saw the global epoch more than one ahead of its own {} times (free-running stress)", sk));
        out.line(&format!("PROPFAIL C14 a pinned participant saw the global epoch more than one ahead of its own {} times (free-running stress)", sk));
    }
    out.line(&format!("# list-stress seconds={} register_exit_cycles={} double_finalize={} skew_violations={}", secs, cycles.load(SeqCst), d, sk));
    out.finish();
    (cycles.load(SeqCst) as u64, 3, fails)
}
