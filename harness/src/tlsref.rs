//! References released during thread tear-down (implementation side, real threads and real thread-local destructors).
//! The guarantees of C01/C02/C03/C04/C07 do not stop when a thread exits: what a thread-local destructor releases -
//! also after the thread's own `HANDLE` is gone, when `cs()` has to fall back to a temporary participant - goes
//! through the same deferral as anywhere else.  Scenarios (each for the three initialisation orders of the thread's
//! `HANDLE` relative to the user's thread-local):
//!   snap : a reader is pinned and holds a Snapshot of an object whose last Rc the exiting thread's destructor
//!          drops: the object must not be destructed (C02, C01) nor its block freed while the reader stays pinned;
//!   weak : the object is already destructed; the reader holds a WeakSnapshot (loaded from an AtomicWeak that was
//!          cleared since); the destructor drops the last Weak: the block must not be freed while the reader stays
//!          pinned (C03); afterwards it must be freed exactly once (C04);
//!   chain: the destructor drops the head of a chain of N nodes (N = 200 000): the thread must exit without
//!          overflowing its stack (C07) and every node must be destructed and freed exactly once after a bounded
//!          number of collection rounds (C04).
use crate::rc::{node, Node};
use crate::util::Out;
use circ::{AtomicRc, AtomicWeak, Rc, Weak};
use std::cell::RefCell;
use std::sync::atomic::Ordering::SeqCst;
use std::sync::mpsc::channel;
use std::sync::Mutex;

static FREED: Mutex<Vec<usize>> = Mutex::new(Vec::new());
static DESTRUCTED: Mutex<Vec<usize>> = Mutex::new(Vec::new());
static COUNT_FREED: std::sync::atomic::AtomicUsize = std::sync::atomic::AtomicUsize::new(0);
static COUNT_DESTR: std::sync::atomic::AtomicUsize = std::sync::atomic::AtomicUsize::new(0);
static RECORD: std::sync::atomic::AtomicBool = std::sync::atomic::AtomicBool::new(true);

fn hook(site: u32, a: usize, _b: usize) {
    if site == 1100 {
        COUNT_FREED.fetch_add(1, SeqCst);
        if RECORD.load(SeqCst) {
            FREED.lock().unwrap().push(a);
        }
    } else if site == 1102 {
        COUNT_DESTR.fetch_add(1, SeqCst);
        if RECORD.load(SeqCst) {
            DESTRUCTED.lock().unwrap().push(a);
        }
    }
}

fn freed(addr: usize) -> usize {
    FREED.lock().unwrap().iter().filter(|&&a| a == addr).count()
}
fn destructed(addr: usize) -> usize {
    DESTRUCTED.lock().unwrap().iter().filter(|&&a| a == addr).count()
}

fn round() {
    let g = circ::cs();
    g.flush();
    drop(g);
}

enum Held {
    Strong(Rc<Node>),
    Weak(Weak<Node>),
}

struct Keeper(Vec<Held>);
impl Drop for Keeper {
    fn drop(&mut self) {
        // runs as a thread-local destructor: before or after the thread's HANDLE is destroyed, depending on the order
        while let Some(h) = self.0.pop() {
            drop(h);
        }
    }
}

thread_local! {
    static KEEP: RefCell<Option<Keeper>> = const { RefCell::new(None) };
}

/// the exiting thread: stores `held` in its thread-local in the given order relative to HANDLE, then exits
fn exiting_thread(order: u32, held: Vec<Held>) -> bool {
    let (tx, rx) = channel();
    let j = std::thread::spawn(move || {
        let t = std::thread::spawn(move || match order {
            0 => {
                drop(circ::cs());
                KEEP.with(|k| *k.borrow_mut() = Some(Keeper(held)));
            }
            1 => {
                KEEP.with(|k| *k.borrow_mut() = Some(Keeper(Vec::new())));
                drop(circ::cs());
                KEEP.with(|k| k.borrow_mut().as_mut().unwrap().0 = held);
            }
            _ => {
                KEEP.with(|k| *k.borrow_mut() = Some(Keeper(held)));
            }
        });
        let _ = tx.send(t.join().is_ok());
    });
    let ok = matches!(rx.recv_timeout(std::time::Duration::from_secs(60)), Ok(true));
    if ok {
        let _ = j.join();
    }
    ok
}

fn block_of_rc(r: &Rc<Node>) -> usize {
    let w = r.downgrade();
    let a = circ::verif::weak::weak_word(&w) & !7usize & !(0xFusize << 60);
    drop(w);
    a
}

pub fn run(out_path: &str, _seed: u64, thorough: bool) -> (u64, u64, u64) {
    circ::verif::ebr::set_tuning(64, 1);
    circ::verif::set_hook(Some(hook));
    let mut out = Out::create(out_path);
    let (mut checks, mut fails) = (0u64, 0u64);
    let mut fail = |out: &mut Out, props: &[&str], msg: String| {
        for p in props {
            out.line(&format!("PROPFAIL {} thread tear-down: {}", p, msg));
        }
    };
    for order in 0..3u32 {
        for ages in [0usize, 1, 2, 3, 5] {
            // ---- snap
            RECORD.store(true, SeqCst);
            FREED.lock().unwrap().clear();
            DESTRUCTED.lock().unwrap().clear();
            let rc = Rc::new(node(7));
            let addr = block_of_rc(&rc);
            let cell = AtomicRc::from(rc.clone());
            for _ in 0..ages {
                round();
            }
            {
                let g = circ::cs();
                let snap = cell.load(SeqCst, &g);
                // the cell gives up its share under the reader's guard; the exiting thread owns the last one
                cell.store(Rc::null(), SeqCst, &g);
                let ok = exiting_thread(order, vec![Held::Strong(rc)]);
                std::thread::spawn(|| {
                    for _ in 0..12 {
                        round();
                    }
                })
                .join()
                .unwrap();
                checks += 1;
                if !ok {
                    fails += 1;
                    fail(&mut out, &["C20", "C02", "C01"], format!("order {}: the exiting thread panicked or hung (snap)", order));
                }
                if destructed(addr) > 0 || freed(addr) > 0 {
                    fails += 1;
                    fail(&mut out, &["C02", "C01", "C13", "C20"], format!("order {} age {}: an object whose last Rc was dropped by a thread-local destructor was destructed ({}x) / freed ({}x) while a reader pinned since before the thread started still holds a Snapshot of it", order, ages, destructed(addr), freed(addr)));
                } else {
                    // the snapshot is still usable
                    let _ = snap.as_ref().is_some();
                }
                drop(g);
            }
            for _ in 0..40 {
                round();
            }
            checks += 1;
            if destructed(addr) != 1 || freed(addr) != 1 {
                fails += 1;
                fail(&mut out, &["C04"], format!("order {} age {}: after the reader left, the object released at thread exit was destructed {} and freed {} times (snap)", order, ages, destructed(addr), freed(addr)));
            }
            drop(cell);

            // ---- weak
            FREED.lock().unwrap().clear();
            DESTRUCTED.lock().unwrap().clear();
            let rc = Rc::new(node(8));
            let w = rc.downgrade();
            let addr = circ::verif::weak::weak_word(&w) & !7usize & !(0xFusize << 60);
            let wcell: AtomicWeak<Node> = AtomicWeak::from(rc.downgrade());
            drop(rc);
            for _ in 0..(6 + ages) {
                round();
            }
            checks += 1;
            if destructed(addr) != 1 {
                // not a failure of this scenario's subject; it only means the set-up did not reach the state wanted
                out.line(&format!("# tls-ref weak order {} age {}: object not destructed after the set-up rounds ({}x)", order, ages, destructed(addr)));
            }
            {
                let g = circ::cs();
                let ws = wcell.load(SeqCst, &g);
                wcell.store(Weak::null(), SeqCst, &g);
                let ok = exiting_thread(order, vec![Held::Weak(w)]);
                std::thread::spawn(|| {
                    for _ in 0..12 {
                        round();
                    }
                })
                .join()
                .unwrap();
                checks += 1;
                if !ok {
                    fails += 1;
                    fail(&mut out, &["C20", "C03"], format!("order {}: the exiting thread panicked or hung (weak)", order));
                }
                if freed(addr) > 0 {
                    fails += 1;
                    fail(&mut out, &["C03", "C13", "C20"], format!("order {} age {}: the block of an object whose last Weak was dropped by a thread-local destructor was freed while a reader pinned since before holds a WeakSnapshot of it", order, ages));
                } else {
                    // counted() touches the count word: only while the block is there
                    let w2 = ws.counted();
                    drop(w2);
                }
                drop(g);
            }
            for _ in 0..40 {
                round();
            }
            checks += 1;
            if freed(addr) != 1 {
                fails += 1;
                fail(&mut out, &["C04", "C03"], format!("order {} age {}: after every weak reference was released the block was freed {} times (weak)", order, ages, freed(addr)));
            }
            drop(wcell);
        }
        // ---- chain
        RECORD.store(false, SeqCst);
        let n = if thorough { 400_000usize } else { 200_000 };
        for _ in 0..8 {
            round();
        }
        let (d0, f0) = (COUNT_DESTR.load(SeqCst), COUNT_FREED.load(SeqCst));
        let mut head: Rc<Node> = Rc::new(node(0));
        for i in 1..n {
            let nn = Rc::new(node(i));
            {
                let g = circ::cs();
                nn.as_ref().unwrap().next.store(head, SeqCst, &g);
            }
            head = nn;
        }
        for _ in 0..6 {
            round();
        }
        let ok = exiting_thread(order, vec![Held::Strong(head)]);
        checks += 1;
        if !ok {
            fails += 1;
            fail(&mut out, &["C07", "C20"], format!("order {}: the thread that released a chain of {} nodes from its thread-local destructor panicked or hung", order, n));
        }
        let mut rounds = 0usize;
        let bound = 16 * (n / 1024) + 400;
        while COUNT_DESTR.load(SeqCst) - d0 < n && rounds < bound {
            round();
            rounds += 1;
        }
        for _ in 0..8 {
            round();
        }
        checks += 1;
        let (dd, ff) = (COUNT_DESTR.load(SeqCst) - d0, COUNT_FREED.load(SeqCst) - f0);
        if dd != n || ff != n {
            fails += 1;
            fail(&mut out, &["C04", "C07"], format!("order {}: of a chain of {} nodes released by a thread-local destructor, {} were destructed and {} freed after {} collection rounds", order, n, dd, ff, rounds));
        }
        out.line(&format!("# tls-ref order {}: chain of {} nodes released at thread exit, reclaimed in {} rounds", order, n, rounds));
    }
    out.line(&format!("# tls-ref checks={} failures={}", checks, fails));
    out.finish();
    circ::verif::set_hook(None);
    (checks, checks, fails)
}
