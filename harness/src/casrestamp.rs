//! C08 / C09, implementation side, two directed families the cell stream cannot produce (it keeps the global epoch
//! constant during a case, and its payload has alignment 8):
//!
//! restamp: a compare_exchange whose `expected` is stale in the epoch bits only must succeed no matter how often the
//!   link is re-stamped under it.  Thread A is held at the yield site in front of its k-th hardware CAS (site 123 for
//!   AtomicRc, 126 for AtomicWeak); each time, a helper advances the global epoch (A stays pinned, so by one at most;
//!   later rounds use a second cell written in advance at other epochs) and re-writes the SAME pointer and tag into the
//!   cell (compare_exchange_tag with the tag it already has / store of the same pointer), which gives the link a new
//!   timestamp.  The operation must still return Ok (strong variants; the weak variant may fail spuriously but then
//!   must report a `current` that is NOT ptr_eq to `expected` - or succeed on retry by the caller).
//!
//! small-align: tags of a payload with alignment 1 and 4.  The link points to the count block, whose alignment is at
//!   least 8, so three tag bits are available whatever the payload: every tag 0..7 written by with_tag /
//!   compare_exchange_tag / store / swap must be read back by tag() and by a load of the cell.
use crate::util::Out;
use circ::{AtomicRc, AtomicWeak, Rc, RcObject, Weak};
use std::sync::atomic::Ordering::SeqCst;
use std::sync::atomic::{AtomicUsize, Ordering};
use std::sync::mpsc::{channel, Receiver, Sender};
use std::sync::Mutex;

struct P8 {
    _v: u64,
}
unsafe impl RcObject for P8 {
    fn pop_edges(&mut self, _out: &mut Vec<Rc<Self>>) {}
}
struct P1(#[allow(dead_code)] u8);
unsafe impl RcObject for P1 {
    fn pop_edges(&mut self, _out: &mut Vec<Rc<Self>>) {}
}
#[repr(align(4))]
struct P4(#[allow(dead_code)] u8);
unsafe impl RcObject for P4 {
    fn pop_edges(&mut self, _out: &mut Vec<Rc<Self>>) {}
}

static WATCH_SITE: AtomicUsize = AtomicUsize::new(0);
static HITS: AtomicUsize = AtomicUsize::new(0);
static MAX_HELP: AtomicUsize = AtomicUsize::new(0);
static HELPED: AtomicUsize = AtomicUsize::new(0);
static CHAN: Mutex<Option<(Sender<usize>, Receiver<()>)>> = Mutex::new(None);
thread_local! { static IS_A: std::cell::Cell<bool> = const { std::cell::Cell::new(false) }; }

fn hook(site: u32, _a: usize, _b: usize) {
    if site as usize == WATCH_SITE.load(Ordering::SeqCst) && IS_A.with(|x| x.get()) {
        let n = HITS.fetch_add(1, Ordering::SeqCst) + 1;
        if n >= 2 && n <= 1 + MAX_HELP.load(Ordering::SeqCst) {
            // in front of the n-th hardware CAS: let the helper re-stamp the link, wait until it has
            let g = CHAN.lock().unwrap();
            if let Some((tx, rx)) = g.as_ref() {
                HELPED.fetch_add(1, Ordering::SeqCst);
                let _ = tx.send(n);
                let _ = rx.recv();
            }
        }
    }
}

fn round() {
    let g = circ::cs();
    g.flush();
    drop(g);
}

pub fn run(out_path: &str, _seed: u64, thorough: bool) -> (u64, u64, u64) {
    let mut out = Out::create(out_path);
    let (mut checks, mut fails) = (0u64, 0u64);
    circ::verif::set_hook(Some(hook));
    let reps = if thorough { 12 } else { 3 };
    // ---------------- restamp, AtomicRc: variants 0 = compare_exchange, 1 = compare_exchange_tag
    for rep in 0..reps {
        for variant in 0..2u32 {
            for helps in 1..=3usize {
                for _ in 0..(rep + 1) {
                    round();
                }
                let obj = Rc::new(P8 { _v: 1 });
                let stale = obj.clone(); // an Rc never stored: its snapshot carries timestamp 0
                // the link is written through store(), i.e. stamped with the current epoch; make sure that stamp is not 0
                while (circ::verif::ebr::default_epoch_data() >> 1) % 16 == 0 {
                    round();
                }
                let cell = std::sync::Arc::new(AtomicRc::null());
                {
                    let g = circ::cs();
                    cell.store(obj, SeqCst, &g);
                }
                let desired = Rc::new(P8 { _v: 2 });
                let (to_helper, from_a) = channel::<usize>();
                let (to_a, from_helper) = channel::<()>();
                *CHAN.lock().unwrap() = Some((to_helper, from_helper));
                WATCH_SITE.store(123, Ordering::SeqCst);
                HITS.store(0, Ordering::SeqCst);
                MAX_HELP.store(helps, Ordering::SeqCst);
                let c2 = cell.clone();
                let helper = std::thread::spawn(move || {
                    // each request: move the epoch if possible, then write the same pointer and tag again
                    while let Ok(_n) = from_a.recv() {
                        round();
                        round();
                        {
                            let g = circ::cs();
                            let cur = c2.load(SeqCst, &g);
                            let _ = c2.compare_exchange_tag(cur, cur.tag(), SeqCst, SeqCst, &g);
                        }
                        let _ = to_a.send(());
                    }
                });
                let c3 = cell.clone();
                let a = std::thread::spawn(move || {
                    IS_A.with(|x| x.set(true));
                    let g = circ::cs();
                    let expected = stale.snapshot(&g);
                    let r = if variant == 0 {
                        match c3.compare_exchange(expected, desired, SeqCst, SeqCst, &g) {
                            Ok(_old) => None,
                            Err(e) => Some(e.current.ptr_eq(expected)),
                        }
                    } else {
                        drop(desired);
                        match c3.compare_exchange_tag(expected, 1, SeqCst, SeqCst, &g) {
                            Ok(_) => None,
                            Err(e) => Some(e.current.ptr_eq(expected)),
                        }
                    };
                    IS_A.with(|x| x.set(false));
                    drop(g);
                    drop(stale);
                    r
                });
                let res = a.join().unwrap();
                *CHAN.lock().unwrap() = None;
                let _ = helper.join();
                checks += 1;
                if let Some(same) = res {
                    fails += 1;
                    out.line(&format!(
                        "PROPFAIL C08 AtomicRc::{} returned Err although the cell held the expected pointer and tag during the whole call (only the epoch bits were rewritten, {} time(s)); reported current ptr_eq expected: {} (rep {})",
                        if variant == 0 { "compare_exchange" } else { "compare_exchange_tag" }, helps, same, rep));
                }
            }
        }
    }
    // ---------------- restamp, AtomicWeak::compare_exchange
    for rep in 0..reps {
        for helps in 1..=3usize {
            for _ in 0..(rep + 1) {
                round();
            }
            let obj = Rc::new(P8 { _v: 3 });
            let w_stale: Weak<P8> = obj.downgrade();
            while (circ::verif::ebr::default_epoch_data() >> 1) % 16 == 0 {
                round();
            }
            let cell = std::sync::Arc::new(AtomicWeak::from(obj.downgrade()));
            let other = Rc::new(P8 { _v: 4 });
            let desired = other.downgrade();
            let (to_helper, from_a) = channel::<usize>();
            let (to_a, from_helper) = channel::<()>();
            *CHAN.lock().unwrap() = Some((to_helper, from_helper));
            WATCH_SITE.store(126, Ordering::SeqCst);
            HITS.store(0, Ordering::SeqCst);
            MAX_HELP.store(helps, Ordering::SeqCst);
            let c2 = cell.clone();
            let obj2 = obj.clone();
            let helper = std::thread::spawn(move || {
                while let Ok(n) = from_a.recv() {
                    round();
                    round();
                    {
                        // the same pointer again, from a source with different epoch bits: alternately a Weak made
                        // from an AtomicRc link written now (stamped) and a fresh downgrade (stamp 0)
                        let g = circ::cs();
                        if n % 2 == 0 {
                            let link = AtomicRc::null();
                            link.store(obj2.clone(), SeqCst, &g);
                            let w = link.load(SeqCst, &g).downgrade().counted();
                            c2.store(w, SeqCst, &g);
                        } else {
                            c2.store(obj2.downgrade(), SeqCst, &g);
                        }
                    }
                    let _ = to_a.send(());
                }
                drop(obj2);
            });
            let c3 = cell.clone();
            let a = std::thread::spawn(move || {
                IS_A.with(|x| x.set(true));
                let g = circ::cs();
                // expected: the same object with foreign epoch bits (through a link written at this epoch)
                let link = AtomicRc::null();
                link.store(w_stale.upgrade().unwrap(), SeqCst, &g);
                let expected = link.load(SeqCst, &g).downgrade();
                let r = match c3.compare_exchange(expected, desired, SeqCst, SeqCst, &g) {
                    Ok(_old) => None,
                    Err(e) => Some(e.current.ptr_eq(expected)),
                };
                IS_A.with(|x| x.set(false));
                drop(g);
                drop(link);
                drop(w_stale);
                r
            });
            let res = a.join().unwrap();
            *CHAN.lock().unwrap() = None;
            let _ = helper.join();
            checks += 1;
            if let Some(same) = res {
                fails += 1;
                out.line(&format!(
                    "PROPFAIL C09 AtomicWeak::compare_exchange returned Err although the cell held the expected pointer and tag during the whole call (only the epoch bits were rewritten, {} time(s)); reported current ptr_eq expected: {} (rep {})",
                    helps, same, rep));
            }
            drop(obj);
            drop(other);
        }
    }
    circ::verif::set_hook(None);
    // ---------------- small alignment: every tag 0..7 survives every way of writing it
    macro_rules! small {
        ($T:ty, $mk:expr, $name:expr) => {{
            for tag in 0..8usize {
                let g = circ::cs();
                let r: Rc<$T> = Rc::new($mk);
                checks += 1;
                let t1 = r.clone().with_tag(tag);
                if t1.tag() != tag {
                    fails += 1;
                    out.line(&format!("PROPFAIL C11 payload {}: Rc::with_tag({}).tag() = {}", $name, tag, t1.tag()));
                    out.line(&format!("PROPFAIL C08 payload {}: Rc::with_tag({}).tag() = {}", $name, tag, t1.tag()));
                }
                let cell = AtomicRc::from(t1);
                let s = cell.load(SeqCst, &g);
                if s.tag() != tag {
                    fails += 1;
                    out.line(&format!("PROPFAIL C08 payload {}: a cell built from a pointer tagged {} loads tag {}", $name, tag, s.tag()));
                }
                for newtag in 0..8usize {
                    checks += 1;
                    let cur = cell.load(SeqCst, &g);
                    match cell.compare_exchange_tag(cur, newtag, SeqCst, SeqCst, &g) {
                        Ok(_) => {
                            let got = cell.load(SeqCst, &g).tag();
                            if got != newtag {
                                fails += 1;
                                out.line(&format!("PROPFAIL C08 payload {}: compare_exchange_tag(.., {}) reported Ok but the cell now holds tag {}", $name, newtag, got));
                            }
                        }
                        Err(_) => {
                            fails += 1;
                            out.line(&format!("PROPFAIL C08 payload {}: uncontended compare_exchange_tag(.., {}) failed", $name, newtag));
                        }
                    }
                }
                // swap / store keep the tag of the pointer they are given
                let t2 = r.clone().with_tag(7 - tag);
                let old = cell.swap(t2, SeqCst);
                drop(old);
                checks += 1;
                if cell.load(SeqCst, &g).tag() != 7 - tag {
                    fails += 1;
                    out.line(&format!("PROPFAIL C08 payload {}: swap of a pointer tagged {} left tag {}", $name, 7 - tag, cell.load(SeqCst, &g).tag()));
                }
                cell.store(r.clone().with_tag(tag), SeqCst, &g);
                if cell.load(SeqCst, &g).tag() != tag {
                    fails += 1;
                    out.line(&format!("PROPFAIL C08 payload {}: store of a pointer tagged {} left tag {}", $name, tag, cell.load(SeqCst, &g).tag()));
                }
                // the weak side
                let w = r.downgrade().with_tag(tag);
                checks += 1;
                if w.tag() != tag {
                    fails += 1;
                    out.line(&format!("PROPFAIL C09 payload {}: Weak::with_tag({}).tag() = {}", $name, tag, w.tag()));
                    out.line(&format!("PROPFAIL C11 payload {}: Weak::with_tag({}).tag() = {}", $name, tag, w.tag()));
                }
                let wc = AtomicWeak::from(w);
                let cur = wc.load(SeqCst, &g);
                if wc.compare_exchange_tag(cur, 7 - tag, SeqCst, SeqCst, &g).is_err() || wc.load(SeqCst, &g).tag() != 7 - tag {
                    fails += 1;
                    out.line(&format!("PROPFAIL C09 payload {}: AtomicWeak::compare_exchange_tag(.., {}) did not leave that tag", $name, 7 - tag));
                }
                drop(wc);
                drop(cell);
                drop(r);
                drop(g);
            }
        }};
    }
    small!(P1, P1(1), "align 1");
    small!(P4, P4(1), "align 4");
    small!(P8, P8 { _v: 9 }, "align 8");
    for _ in 0..8 {
        round();
    }
    out.line(&format!("# cas-restamp checks={} failures={} restamps_inside_a_cas={}", checks, fails, HELPED.load(Ordering::SeqCst)));
    out.finish();
    (checks, checks, fails)
}
