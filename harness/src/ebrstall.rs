//! C18 / C14 glue: try_advance's handling of a participant-list traversal that loses a race with
//! unregistering participants (IterError::Stalled).  Real collector, EBR sites AND list sites are yield
//! points.  Participants, in registration order (so the list is head -> U.. -> A -> P):
//!   P  pins and stays pinned for the whole case (it sits at the tail of the list);
//!   A  pins and calls try_advance a few times;
//!   U* register, then drop their handle (finalize marks their entry) at scheduler-chosen moments.
//! Monitor (model-independent): while P is pinned at epoch e the global epoch stays within {e, e+1}
//! (C14), i.e. no advance overlooks the registered pinned participant P (C18).
//! Output lines are comments (`# ...`) plus PROPFAIL lines; the number of cases in which a traversal
//! actually stalled (site 56) is reported as coverage.
use crate::sched::{self, policy};
use crate::util::{Out, Rng};
use circ::verif::ebr::{self, Collector};

fn enabled(site: u32) -> bool {
    site == 1 || (10..=23).contains(&site) || (50..=56).contains(&site)
}

pub struct Outcome {
    pub stalled: bool,
    pub fails: Vec<String>,
    pub steps: usize,
}

pub fn run_case(rng: &mut Rng, nu: usize, tries: usize, script: Option<Vec<usize>>) -> Outcome {
    ebr::set_tuning(64, 64);
    let collector = Collector::new();
    let h0 = collector.register();
    for _ in 0..rng.below(5) {
        let g = h0.pin();
        g.flush();
        drop(g);
    }
    let nt = 2 + nu;
    let mut bodies: Vec<Box<dyn FnOnce() + Send>> = vec![];
    // thread 0 = P
    {
        let c = collector.clone();
        let rounds = 6 + 4 * nu + 4 * tries;
        bodies.push(Box::new(move || {
            let h = c.register();
            let g = h.pin();
            sched::arm(true);
            sched::obs(1, 0, 0);
            let e = ebr::local_info(&g)[3];
            sched::obs(2030, e, 0);
            for _ in 0..rounds {
                sched::obs(1, 7, 0);
                let now = ebr::collector_epoch(&c) >> 1;
                sched::obs(2031, e, now);
            }
            sched::obs(1, 1, 0);
            sched::arm(false);
            drop(g);
            drop(h);
        }));
    }
    // thread 1 = A
    {
        let c = collector.clone();
        bodies.push(Box::new(move || {
            let h = c.register();
            {
                // before the case proper: one legitimate advance (P is pinned at the current epoch e, nobody else
                // is pinned), so that from now on P lags by one and NO further advance is allowed while it stays pinned
                let g = h.pin();
                let _ = ebr::try_advance(&c, &g);
                drop(g);
            }
            sched::arm(true);
            sched::obs(1, 0, 0);
            for _ in 0..tries {
                let g = h.pin();
                sched::obs(1, 5, 0);
                let _ = ebr::try_advance(&c, &g);
                drop(g);
            }
            sched::arm(false);
            drop(h);
        }));
    }
    for u in 0..nu {
        let c = collector.clone();
        bodies.push(Box::new(move || {
            let h = c.register();
            sched::arm(true);
            sched::obs(1, 8, u);
            // unregister: finalize pins, hands the bag over, marks the entry deleted, unpins
            drop(h);
            sched::obs(1, 9, u);
            sched::arm(false);
        }));
    }
    let res = {
        let mut inner: Box<dyn FnMut(&[usize], usize) -> usize> = match script {
            Some(s) => Box::new(policy::scripted(s)),
            None => {
                if rng.chance(1, 2) {
                    let mut r2 = Rng::new(rng.next());
                    Box::new(move |r: &[usize], _| r2.below(r.len() as u64) as usize)
                } else {
                    Box::new(policy::pct(rng, nt, 120, 5))
                }
            }
        };
        // registration happens before `arm`, in thread start order: start P, A, then the U's in REVERSE index
        // order is irrelevant -- the first step of each thread runs its registration; force P first, then A.
        let mut chooser = move |r: &[usize], step: usize, _t: &[sched::Step]| {
            if step < nt {
                return r.iter().position(|&t| t == step).unwrap_or(0);
            }
            inner(r, step)
        };
        sched::run_observed(bodies, enabled, 50_000, &mut chooser)
    };
    let mut fails = vec![];
    let mut stalled = false;
    let mut p_done = false;
    for (k, st) in res.trace.iter().enumerate() {
        for &(site, a, b) in &st.obs {
            if site == 56 {
                stalled = true;
            }
            if site == 1 && st.tid == 0 && a == 1 {
                p_done = true;
            }
            if site == 2031 && !p_done && b > a + 1 {
                fails.push(format!(
                    "step {}: participant P is pinned at epoch {} (registered before the advancer, at the tail of the list) but the global epoch is {}",
                    k, a, b
                ));
            }
        }
    }
    if res.panicked.iter().any(|&p| p) {
        fails.push("a thread panicked".to_string());
    }
    fails.truncate(1);
    drop(h0);
    Outcome { stalled, fails, steps: res.trace.len() }
}

/// A participant that stays pinned and calls try_advance itself several times: the first call may advance
/// (everybody pinned is at the current epoch), every further call must see the caller itself lagging.
pub fn run_self_case(rng: &mut Rng, nu: usize) -> Outcome {
    ebr::set_tuning(64, 64);
    let collector = Collector::new();
    let h0 = collector.register();
    for _ in 0..rng.below(5) {
        let g = h0.pin();
        g.flush();
        drop(g);
    }
    let nt = 1 + nu;
    let mut bodies: Vec<Box<dyn FnOnce() + Send>> = vec![];
    {
        let c = collector.clone();
        bodies.push(Box::new(move || {
            let h = c.register();
            sched::arm(true);
            sched::obs(1, 0, 0);
            let g = h.pin();
            let e = ebr::local_info(&g)[3];
            for _ in 0..4 {
                sched::obs(1, 5, 0);
                let _ = ebr::try_advance(&c, &g);
                let now = ebr::collector_epoch(&c) >> 1;
                sched::obs(2031, e, now);
            }
            sched::obs(1, 1, 0);
            sched::arm(false);
            drop(g);
            drop(h);
        }));
    }
    for u in 0..nu {
        let c = collector.clone();
        bodies.push(Box::new(move || {
            let h = c.register();
            sched::arm(true);
            sched::obs(1, 8, u);
            let g = h.pin();
            drop(g);
            drop(h);
            sched::obs(1, 9, u);
            sched::arm(false);
        }));
    }
    let mut r2 = Rng::new(rng.next());
    let mut chooser = move |r: &[usize], step: usize, _t: &[sched::Step]| {
        if step < nt {
            return r.iter().position(|&t| t == step).unwrap_or(0);
        }
        r2.below(r.len() as u64) as usize
    };
    let res = sched::run_observed(bodies, enabled, 50_000, &mut chooser);
    let mut fails = vec![];
    let mut stalled = false;
    for (k, st) in res.trace.iter().enumerate() {
        for &(site, a, b) in &st.obs {
            if site == 56 {
                stalled = true;
            }
            if site == 2031 && b > a + 1 {
                fails.push(format!("step {}: the participant calling try_advance is itself pinned at epoch {} but the global epoch is {}", k, a, b));
            }
        }
    }
    if res.panicked.iter().any(|&p| p) {
        fails.push("a thread panicked".to_string());
    }
    fails.truncate(1);
    drop(h0);
    Outcome { stalled, fails, steps: res.trace.len() }
}

pub fn run(out_path: &str, seed: u64, thorough: bool, cases: usize) -> (u64, u64, u64) {
    let mut out = Out::create(out_path);
    let mut rng = Rng::new(seed);
    let (mut stalls, mut fails, mut steps) = (0u64, 0u64, 0u64);
    for ci in 0..cases {
        let nu = 2 + rng.below(if thorough { 4 } else { 3 }) as usize;
        let tries = 2 + rng.below(3) as usize;
        let o = if ci % 5 == 4 { run_self_case(&mut rng, nu - 2) } else { run_case(&mut rng, nu, tries, None) };
        steps += o.steps as u64;
        if o.stalled {
            stalls += 1;
        }
        for f in &o.fails {
            fails += 1;
            out.line(&format!("PROPFAIL C18 case {} (unregistering participants={}, try_advance calls={}, traversal stalled={}): {}", ci, nu, tries, o.stalled, f));
            out.line(&format!("PROPFAIL C14 case {} (unregistering participants={}, try_advance calls={}, traversal stalled={}): {}", ci, nu, tries, o.stalled, f));
        }
    }
    out.line(&format!("# ebr-stall cases={} steps={} cases_with_a_stalled_traversal={}", cases, steps, stalls));
    out.finish();
    (stalls, steps, fails)
}
