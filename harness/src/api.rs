//! Ownership ledger over the PUBLIC API surface (implementation side, single thread, deterministic): every
//! constructor, conversion (`From` impls), accessor that returns `Self`, cell operation and destructor of
//! Rc / Snapshot / AtomicRc / Weak / WeakSnapshot / AtomicWeak is called once on a fresh object and the strong and
//! weak fields of the count word are compared with what the operation promises (a reference created = one share
//! added, a reference consumed = one share released, a conversion by value = no change).  At the end every
//! reference is released: the destructor must have run once and the block must have been freed once.
//! This is the glue around the modelled core: the models (Rc.v, Cell.v) start below these one-line wrappers.
use crate::rc::{node, Node, DROPS};
use crate::util::Out;
use circ::verif::rc as vw;
use circ::{AtomicRc, AtomicWeak, Rc, Snapshot, Weak, WeakSnapshot};
use std::sync::atomic::Ordering::SeqCst;
use std::sync::Mutex;

static FREED: Mutex<Vec<usize>> = Mutex::new(Vec::new());
fn hook(site: u32, a: usize, _b: usize) {
    if site == 1100 {
        FREED.lock().unwrap().push(a);
    }
}
fn round() {
    let g = circ::cs();
    g.flush();
    drop(g);
}

struct Ledger {
    fails: Vec<(String, &'static [&'static str])>,
    checks: u64,
}
impl Ledger {
    /// `weak_probe` keeps the block allocated; the weak field includes the strong side's implicit share
    fn counts(&mut self, what: &str, probe: &Weak<Node>, strong: u32, weak: u32, props: &'static [&'static str]) {
        self.checks += 1;
        let w = circ::verif::weak::weak_count_word(probe);
        let (s, k) = (vw::state_strong(w), vw::state_weak(w));
        if s != strong || k != weak {
            self.fails.push((format!("after {}: strong/weak fields are {}/{} but the references in existence own {}/{}", what, s, k, strong, weak), props));
        }
    }
    fn expect(&mut self, what: &str, ok: bool, props: &'static [&'static str]) {
        self.checks += 1;
        if !ok {
            self.fails.push((what.to_string(), props));
        }
    }
}

const STRONG: &[&str] = &["C01", "C04", "C10"];
const CELL: &[&str] = &["C01", "C04", "C08"];
const WEAKP: &[&str] = &["C03", "C04"];
const WCELL: &[&str] = &["C03", "C04", "C09"];

pub fn run(out_path: &str, _seed: u64, _thorough: bool) -> (u64, u64, u64) {
    circ::verif::ebr::set_tuning(64, 64);
    circ::verif::set_hook(Some(hook));
    let mut out = Out::create(out_path);
    let mut lg = Ledger { fails: vec![], checks: 0 };
    for pass in 0..3 {
        for _ in 0..(4 + pass) {
            round();
        }
        FREED.lock().unwrap().clear();
        DROPS.store(0, SeqCst);
        let g = circ::cs();
        // ---------------- strong side
        let a = Rc::new(node(1));
        let probe = a.downgrade();
        let block = circ::verif::weak::weak_word(&probe) & !7usize & !(0xFusize << 60);
        lg.counts("Rc::new, Rc::downgrade", &probe, 1, 2, STRONG);
        let b = a.clone();
        lg.counts("Rc::clone", &probe, 2, 2, STRONG);
        let b = b.with_tag(1);
        lg.counts("Rc::with_tag", &probe, 2, 2, STRONG);
        lg.expect("Rc::with_tag(1) lost the tag or the referent", b.tag() == 1 && b.as_ref().map(|n| n as *const Node) == a.as_ref().map(|n| n as *const Node), &["C11", "C01"]);
        let s: Snapshot<Node> = a.snapshot(&g);
        lg.counts("Rc::snapshot", &probe, 2, 2, STRONG);
        let s1 = s.with_tag(2);
        lg.counts("Snapshot::with_tag", &probe, 2, 2, STRONG);
        lg.expect("Snapshot::with_tag(2) lost the tag", s1.tag() == 2, &["C11"]);
        let c = s.counted();
        lg.counts("Snapshot::counted", &probe, 3, 2, STRONG);
        let c2: Rc<Node> = Rc::from(s);
        lg.counts("From<Snapshot> for Rc", &probe, 4, 2, STRONG);
        let cell = AtomicRc::from(c);
        lg.counts("From<Rc> for AtomicRc (by value)", &probe, 4, 2, CELL);
        let cell2 = AtomicRc::from(&a);
        lg.counts("From<&Rc> for AtomicRc", &probe, 5, 2, CELL);
        let l = cell.load(SeqCst, &g);
        lg.counts("AtomicRc::load", &probe, 5, 2, CELL);
        lg.expect("AtomicRc::load returned another object", l.as_ref().map(|n| n as *const Node) == a.as_ref().map(|n| n as *const Node), CELL);
        cell.store(c2, SeqCst, &g);
        lg.counts("AtomicRc::store of a second owner of the object already stored", &probe, 4, 2, CELL);
        let old = cell.swap(b, SeqCst);
        lg.counts("AtomicRc::swap", &probe, 4, 2, CELL);
        drop(old);
        lg.counts("drop(Rc) returned by swap", &probe, 3, 2, CELL);
        let mut cell3 = AtomicRc::from(&a);
        lg.counts("From<&Rc> for AtomicRc (2)", &probe, 4, 2, CELL);
        let t = cell3.take();
        lg.counts("AtomicRc::take", &probe, 4, 2, CELL);
        drop(t);
        drop(cell3);
        lg.counts("drop of the taken Rc and of the emptied AtomicRc", &probe, 3, 2, CELL);
        // compare_exchange: success, failure, weak variant, tag variant
        let d = a.clone();
        let cur = cell2.load(SeqCst, &g);
        match cell2.compare_exchange(cur, d, SeqCst, SeqCst, &g) {
            Ok(prev) => {
                lg.counts("compare_exchange (success)", &probe, 4, 2, CELL);
                drop(prev);
            }
            Err(e) => {
                lg.expect("compare_exchange with the loaded value as expected failed", false, CELL);
                drop(e.desired);
            }
        }
        lg.counts("drop of the previous owner", &probe, 3, 2, CELL);
        let d = a.clone();
        match cell2.compare_exchange(Snapshot::null(), d, SeqCst, SeqCst, &g) {
            Ok(prev) => {
                lg.expect("compare_exchange with a null expected value succeeded on a non-null cell", false, CELL);
                drop(prev);
            }
            Err(e) => {
                lg.counts("compare_exchange (failure: desired comes back)", &probe, 4, 2, CELL);
                drop(e.desired);
            }
        }
        let d = a.clone();
        let cur = cell2.load(SeqCst, &g);
        match cell2.compare_exchange_weak(cur, d, SeqCst, SeqCst, &g) {
            Ok(prev) => {
                lg.counts("compare_exchange_weak (success)", &probe, 4, 2, CELL);
                lg.expect("compare_exchange_weak returned something else than the previous content", prev.as_ref().map(|n| n as *const Node) == a.as_ref().map(|n| n as *const Node), CELL);
                drop(prev);
            }
            Err(e) => drop(e.desired), // weak CAS may fail spuriously on some targets
        }
        lg.counts("after compare_exchange_weak", &probe, 3, 2, CELL);
        let cur = cell2.load(SeqCst, &g);
        let r = cell2.compare_exchange_tag(cur, 1, SeqCst, SeqCst, &g);
        lg.expect("compare_exchange_tag with the loaded value as expected failed", r.is_ok(), CELL);
        lg.counts("compare_exchange_tag", &probe, 3, 2, CELL);
        lg.expect("compare_exchange_tag did not set the tag", cell2.load(SeqCst, &g).tag() == 1, CELL);
        let f = a.clone();
        f.finalize(&g);
        lg.counts("Rc::finalize", &probe, 3, 2, STRONG);
        // ---------------- weak side (the strong owner `a` keeps the object alive)
        let w = probe.clone();
        lg.counts("Weak::clone", &probe, 3, 3, WEAKP);
        let w = w.with_tag(1);
        lg.counts("Weak::with_tag", &probe, 3, 3, WEAKP);
        lg.expect("Weak::with_tag(1) lost the tag", w.tag() == 1, &["C11"]);
        let ws: WeakSnapshot<Node> = probe.snapshot(&g);
        lg.counts("Weak::snapshot", &probe, 3, 3, WEAKP);
        let w2 = ws.counted();
        lg.counts("WeakSnapshot::counted", &probe, 3, 4, WEAKP);
        let w3: Weak<Node> = Weak::from(ws);
        lg.counts("From<WeakSnapshot> for Weak", &probe, 3, 5, WEAKP);
        let w4: Weak<Node> = Weak::from(a.snapshot(&g));
        lg.counts("From<Snapshot> for Weak", &probe, 3, 6, WEAKP);
        let ws2: WeakSnapshot<Node> = WeakSnapshot::from(a.snapshot(&g));
        lg.counts("From<Snapshot> for WeakSnapshot", &probe, 3, 6, WEAKP);
        let up = ws2.upgrade();
        lg.expect("WeakSnapshot::upgrade of a live object failed", up.map(|s| !s.is_null()).unwrap_or(false), &["C05"]);
        lg.counts("WeakSnapshot::upgrade (live object)", &probe, 3, 6, WEAKP);
        let wc = AtomicWeak::from(w2);
        lg.counts("From<Weak> for AtomicWeak (by value)", &probe, 3, 6, WCELL);
        let wc2 = AtomicWeak::from(&probe);
        lg.counts("From<&Weak> for AtomicWeak", &probe, 3, 7, WCELL);
        let wc3: AtomicWeak<Node> = AtomicWeak::from(&a);
        lg.counts("From<&Rc> for AtomicWeak", &probe, 3, 8, WCELL);
        let wl = wc.load(SeqCst, &g);
        lg.counts("AtomicWeak::load", &probe, 3, 8, WCELL);
        wc.store(w3, SeqCst, &g);
        lg.counts("AtomicWeak::store of a second weak owner of the object already stored", &probe, 3, 7, WCELL);
        let oldw = wc.swap(w4, SeqCst);
        lg.counts("AtomicWeak::swap", &probe, 3, 7, WCELL);
        drop(oldw);
        lg.counts("drop(Weak) returned by swap", &probe, 3, 6, WCELL);
        let dw = probe.clone();
        let curw = wc2.load(SeqCst, &g);
        match wc2.compare_exchange(curw, dw, SeqCst, SeqCst, &g) {
            Ok(prev) => {
                lg.counts("AtomicWeak::compare_exchange (success)", &probe, 3, 7, WCELL);
                drop(prev);
            }
            Err(e) => {
                lg.expect("AtomicWeak::compare_exchange with the loaded value as expected failed", false, WCELL);
                drop(e.desired);
            }
        }
        lg.counts("drop of the previous weak owner", &probe, 3, 6, WCELL);
        let dw = probe.clone();
        match wc2.compare_exchange(WeakSnapshot::null(), dw, SeqCst, SeqCst, &g) {
            Ok(prev) => {
                lg.expect("AtomicWeak::compare_exchange with a null expected value succeeded on a non-null cell", false, WCELL);
                drop(prev);
            }
            Err(e) => {
                lg.counts("AtomicWeak::compare_exchange (failure)", &probe, 3, 7, WCELL);
                drop(e.desired);
            }
        }
        let curw = wc2.load(SeqCst, &g);
        let rt = wc2.compare_exchange_tag(curw, 1, SeqCst, SeqCst, &g);
        lg.expect("AtomicWeak::compare_exchange_tag with the loaded value as expected failed", rt.is_ok(), WCELL);
        lg.counts("AtomicWeak::compare_exchange_tag", &probe, 3, 6, WCELL);
        let r1 = probe.upgrade();
        lg.expect("Weak::upgrade of a live object failed", r1.as_ref().map(|r| !r.is_null()).unwrap_or(false), &["C05"]);
        lg.counts("Weak::upgrade", &probe, 4, 6, &["C05", "C01"]);
        drop(r1);
        let _ = wl;
        // null pointers
        let nu: Option<Rc<Node>> = Weak::<Node>::null().upgrade();
        lg.expect("Weak::null().upgrade() is not Some(null)", nu.map(|r| r.is_null()).unwrap_or(false), &["C05"]);
        let nu2 = Weak::<Node>::null().with_tag(1).upgrade();
        lg.expect("a tagged null Weak does not upgrade to a null Rc", nu2.map(|r| r.is_null()).unwrap_or(false), &["C05"]);
        let nus = WeakSnapshot::<Node>::null().upgrade();
        lg.expect("WeakSnapshot::null().upgrade() is not Some(null)", nus.map(|s| s.is_null()).unwrap_or(false), &["C05"]);
        let nd = Rc::<Node>::null().downgrade();
        lg.expect("Rc::null().downgrade() is not null", nd.is_null(), &["C05"]);
        // ---------------- release everything
        drop(w);
        drop(wc);
        drop(wc2);
        drop(wc3);
        lg.counts("drop of the weak handles and AtomicWeak cells", &probe, 3, 2, WCELL);
        drop(cell);
        drop(cell2);
        lg.counts("drop of the AtomicRc cells", &probe, 1, 2, CELL);
        drop(g);
        for _ in 0..6 {
            round();
        }
        lg.expect("the object was destructed although an Rc is alive", DROPS.load(SeqCst) == 0 && a.as_ref().is_some(), &["C01"]);
        drop(a);
        for _ in 0..8 {
            round();
        }
        lg.expect("the destructor did not run exactly once after the last Rc was dropped", DROPS.load(SeqCst) == 1, &["C04"]);
        lg.expect("the block was freed although a Weak is alive", !FREED.lock().unwrap().contains(&block), &["C03"]);
        lg.expect("Weak::upgrade succeeded after destruction", probe.upgrade().is_none(), &["C05"]);
        lg.expect("Weak::upgrade succeeded after destruction (second call)", probe.upgrade().is_none(), &["C05"]);
        drop(probe);
        for _ in 0..8 {
            round();
        }
        let n = FREED.lock().unwrap().iter().filter(|&&x| x == block).count();
        lg.expect(&format!("the block was freed {} times after every reference was released", n), n == 1, &["C04", "C03"]);
    }
    // ---------------- accessors on tagged nulls and on pointers that carry a timestamp (C11): the timestamp bits are
    // invisible to every accessor, a tagged null is null for every handle type, every (mutable) dereference reaches the
    // object
    const ACC: &[&str] = &["C11"];
    {
        let g = circ::cs();
        for tag in 0..8usize {
            let r: Rc<Node> = Rc::null().with_tag(tag);
            let sn: Snapshot<Node> = Snapshot::null().with_tag(tag);
            let w: Weak<Node> = Weak::null().with_tag(tag);
            let ws: WeakSnapshot<Node> = WeakSnapshot::null().with_tag(tag);
            lg.expect(&format!("Rc::null().with_tag({}): is_null / tag / as_ref", tag), r.is_null() && r.tag() == tag && r.as_ref().is_none(), ACC);
            lg.expect(&format!("Snapshot::null().with_tag({}): is_null / tag / as_ref", tag), sn.is_null() && sn.tag() == tag && sn.as_ref().is_none(), ACC);
            lg.expect(&format!("Weak::null().with_tag({}): is_null / tag", tag), w.is_null() && w.tag() == tag, ACC);
            lg.expect(&format!("WeakSnapshot::null().with_tag({}): is_null / tag", tag), ws.is_null() && ws.tag() == tag, ACC);
            lg.expect(&format!("snapshot of Rc::null().with_tag({}) is not null or lost the tag", tag), r.snapshot(&g).is_null() && r.snapshot(&g).tag() == tag, ACC);
            // a tagged null stored in a cell and loaded back (it then also carries a timestamp)
            let cell: AtomicRc<Node> = AtomicRc::from(Rc::null().with_tag(tag));
            let l = cell.load(SeqCst, &g);
            lg.expect(&format!("tagged null (tag {}) loaded from an AtomicRc: is_null / tag / as_ref", tag), l.is_null() && l.tag() == tag && l.as_ref().is_none(), ACC);
            let wcell: AtomicWeak<Node> = AtomicWeak::from(Weak::null().with_tag(tag));
            let wl = wcell.load(SeqCst, &g);
            lg.expect(&format!("tagged null (tag {}) loaded from an AtomicWeak: is_null / tag", tag), wl.is_null() && wl.tag() == tag, ACC);
        }
        drop(g);
        // pointers with a non-zero timestamp: written into a cell after the epoch has moved on
        for round_no in 0..20usize {
            round();
            let g = circ::cs();
            let fresh = Rc::new(node(100 + round_no));
            let addr = fresh.as_ref().map(|n| n as *const Node as usize).unwrap_or(0);
            let cell: AtomicRc<Node> = AtomicRc::null();
            cell.store(fresh.with_tag(round_no & 7), SeqCst, &g);
            let sn = cell.load(SeqCst, &g);
            let via = |p: Option<&Node>| p.map(|n| n as *const Node as usize).unwrap_or(0);
            lg.expect("Snapshot loaded from a cell: as_ref / deref do not reach the object", via(sn.as_ref()) == addr && unsafe { sn.deref() } as *const Node as usize == addr, ACC);
            lg.expect("Snapshot loaded from a cell: tag changed or is_null", sn.tag() == (round_no & 7) && !sn.is_null(), ACC);
            lg.expect("Snapshot loaded from a cell: as_mut / deref_mut do not reach the object", unsafe { sn.as_mut() }.map(|n| n as *mut Node as usize) == Some(addr) && unsafe { sn.deref_mut() } as *mut Node as usize == addr, ACC);
            let mut back: Rc<Node> = cell.swap(Rc::null(), SeqCst);
            lg.expect("Rc swapped out of a cell: as_ref / deref do not reach the object", via(back.as_ref()) == addr && unsafe { back.deref() } as *const Node as usize == addr, ACC);
            lg.expect("Rc swapped out of a cell: as_mut / deref_mut do not reach the object", unsafe { back.as_mut() }.map(|n| n as *mut Node as usize) == Some(addr) && unsafe { back.deref_mut() } as *mut Node as usize == addr, ACC);
            lg.expect("Rc swapped out of a cell: tag changed or is_null", back.tag() == (round_no & 7) && !back.is_null(), ACC);
            let w = back.downgrade();
            let wcell: AtomicWeak<Node> = AtomicWeak::null();
            wcell.store(w.with_tag((round_no + 1) & 7), SeqCst, &g);
            let wl = wcell.load(SeqCst, &g);
            lg.expect("WeakSnapshot loaded from a cell: tag changed or is_null", wl.tag() == ((round_no + 1) & 7) && !wl.is_null(), ACC);
            lg.expect("WeakSnapshot loaded from a cell does not upgrade to the object", wl.upgrade().map(|s| via(s.as_ref())) == Some(addr), ACC);
            let wb: Weak<Node> = wcell.swap(Weak::null(), SeqCst);
            lg.expect("Weak swapped out of a cell: tag changed or is_null", wb.tag() == ((round_no + 1) & 7) && !wb.is_null(), ACC);
            lg.expect("Weak swapped out of a cell does not upgrade to the object", wb.upgrade().map(|r| via(r.as_ref())) == Some(addr), ACC);
            drop(wb);
            drop(back);
            drop(g);
        }
    }
    // ---------------- bulk constructors through the Iterator interface: whatever adaptor consumes the iterator, every
    // share is either yielded (and then owned by the caller) or released, and the object is destructed exactly once
    const BULK: &[&str] = &["C10", "C04", "C01"];
    for scenario in 0..14u32 {
        for count in [0usize, 1, 2, 3, 5] {
            for _ in 0..4 {
                round();
            }
            DROPS.store(0, SeqCst);
            let mut kept: Vec<Rc<Node>> = vec![];
            let mut it = Rc::new_many_iter(node(7), count);
            let what = match scenario {
                0 => { drop(it); "drop of the unconsumed iterator".to_string() }
                1 => { { let g = circ::cs(); it.abort(&g); } "abort of the unconsumed iterator".to_string() }
                2 => { kept.extend(it); "full consumption".to_string() }
                3 => { if let Some(r) = it.next() { kept.push(r); } drop(it); "next() then drop".to_string() }
                4 => { if let Some(r) = it.next() { kept.push(r); } { let g = circ::cs(); it.abort(&g); } "next() then abort".to_string() }
                5 => { if let Some(r) = it.nth(1) { kept.push(r); } drop(it); "nth(1) then drop".to_string() }
                6 => { if let Some(r) = it.nth(count) { kept.push(r); } drop(it); "nth(count) (past the end) then drop".to_string() }
                7 => { if let Some(r) = it.nth(count + 3) { kept.push(r); } { let g = circ::cs(); it.abort(&g); } "nth(count+3) then abort".to_string() }
                8 => { kept.extend(it.skip(2)); "skip(2)".to_string() }
                9 => { kept.extend(it.skip(count)); "skip(count)".to_string() }
                10 => { kept.extend(it.step_by(2)); "step_by(2)".to_string() }
                11 => { kept.extend(it.take(1)); "take(1)".to_string() }
                12 => { if let Some(r) = it.last() { kept.push(r); } "last()".to_string() }
                _ => { let n = it.count(); lg.expect(&format!("new_many_iter(_, {}).count() returned {}", count, n), n == count, BULK); "count()".to_string() }
            };
            // the owners the caller holds are what the strong field must say
            if let Some(r0) = kept.first() {
                let probe = r0.downgrade();
                lg.counts(&format!("Rc::new_many_iter(_, {}) consumed by {}: {} owners held", count, what, kept.len()), &probe, kept.len() as u32, 2, BULK);
                drop(probe);
            }
            lg.expect(&format!("Rc::new_many_iter(_, {}) consumed by {}: the object was destructed while {} owners are held", count, what, kept.len()),
                      kept.is_empty() || DROPS.load(SeqCst) == 0, BULK);
            drop(kept);
            for _ in 0..10 {
                round();
            }
            let d = DROPS.load(SeqCst);
            lg.expect(&format!("Rc::new_many_iter(_, {}) consumed by {}: after every owner was released the object was destructed {} times", count, what, d), d == 1, BULK);
        }
    }
    // new_many::<N>: N owners
    {
        for _ in 0..4 {
            round();
        }
        DROPS.store(0, SeqCst);
        let arr: [Rc<Node>; 3] = Rc::new_many(node(8));
        let probe = arr[0].downgrade();
        lg.counts("Rc::new_many::<3>", &probe, 3, 2, BULK);
        let ws: [Weak<Node>; 4] = arr[1].weak_many();
        lg.counts("Rc::weak_many::<4>", &probe, 3, 6, &["C10", "C03"]);
        drop(ws);
        lg.counts("drop of the array of Weak", &probe, 3, 2, &["C10", "C03"]);
        drop(arr);
        drop(probe);
        for _ in 0..10 {
            round();
        }
        lg.expect("Rc::new_many::<3>: the object was not destructed exactly once after the array was dropped", DROPS.load(SeqCst) == 1, BULK);
        // weak_many as the FIRST weak operation on an object
        DROPS.store(0, SeqCst);
        FREED.lock().unwrap().clear();
        let r = Rc::new(node(9));
        let ws: [Weak<Node>; 3] = r.weak_many();
        lg.counts("Rc::weak_many::<3> as the first weak operation", &ws[0], 1, 4, &["C10", "C03"]);
        let block = circ::verif::weak::weak_word(&ws[0]) & !7usize & !(0xFusize << 60);
        let [w0, w1, w2] = ws;
        drop(w0);
        drop(r);
        for _ in 0..10 {
            round();
        }
        lg.expect("the block was freed while two of the Weaks of weak_many are alive", !FREED.lock().unwrap().contains(&block), &["C03", "C10"]);
        lg.expect("upgrade of a Weak of weak_many after destruction", w1.upgrade().is_none(), &["C05"]);
        drop(w1);
        drop(w2);
        for _ in 0..10 {
            round();
        }
        let n = FREED.lock().unwrap().iter().filter(|&&x| x == block).count();
        lg.expect(&format!("weak_many: the block was freed {} times after every reference was released", n), n == 1, &["C04", "C03"]);
    }
    let mut nf = 0u64;
    for (what, props) in &lg.fails {
        for p in props.iter() {
            nf += 1;
            out.line(&format!("PROPFAIL {} public API ledger: {}", p, what));
        }
    }
    out.line(&format!("# api checks={} failures={}", lg.checks, lg.fails.len()));
    out.finish();
    circ::verif::set_hook(None);
    (lg.checks, lg.checks, nf)
}
