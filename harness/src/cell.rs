//! M7 correspondence: the atomic cells `AtomicRc` (src/strong.rs) and `AtomicWeak` (src/weak.rs)
//! under the cooperative scheduler, yield sites 121..=126 (+ site 1 "operation start") enabled.
//! The default collector is used (the public API pins through `circ::cs()`); every model thread
//! holds one guard for the whole case, so the global epoch is constant during the scheduled part
//! (verified per case; a case in which it moved is discarded).
//!
//! Case line: `cell <prog ints> | <sched> | <step> ; <step> ; ...`
//! prog ints: `kind E cid ctag cts` then per thread
//!            `-1 nh ns (id tag ts)*nh (id tag ts)*ns op-ints...`
//! op ints:   0 d Load | 1 h Store | 2 h Swap | 3 e h d Cas | 4 e h d CasWeak | 5 e tag d CasTag
//!            | 6 h e SnapOf | 7 e tag STag | 8 h tag HTag
//! Words are canonicalised to `8*id + tag + (ts << 60)` (u64), object ids 1..n in creation order.
use crate::sched::{self, policy};
use crate::util::Rng;
use circ::verif::ebr::default_epoch_data;
use circ::verif::rc::{state_strong, state_weak};
use circ::verif::strong::{atomic_rc_word, rc_count_word, rc_word, snapshot_word};
use circ::verif::weak::{atomic_weak_word, weak_snapshot_word, weak_word};
use circ::{AtomicRc, AtomicWeak, Guard, Rc, RcObject, Snapshot, Weak, WeakSnapshot};
use std::collections::HashMap;
use std::sync::atomic::{AtomicUsize, Ordering::SeqCst};
use std::sync::{Arc, Mutex};

const TS_SHIFT: u32 = 60;
const TS_MASK: usize = 0xF << TS_SHIFT;
const TAG_MASK: usize = 7;

fn enabled(site: u32) -> bool {
    site == 1 || (121..=126).contains(&site)
}

pub struct Obj {
    drops: Arc<AtomicUsize>,
}

impl Drop for Obj {
    fn drop(&mut self) {
        self.drops.fetch_add(1, SeqCst);
    }
}

unsafe impl RcObject for Obj {
    fn pop_edges(&mut self, _: &mut Vec<Rc<Self>>) {}
}

// ---------------------------------------------------------------------------------------------
// program description

#[derive(Clone, Debug)]
pub enum Op {
    Load(usize),
    Store(usize),
    Swap(usize),
    Cas(usize, usize, usize),
    CasWeak(usize, usize, usize),
    CasTag(usize, usize, usize),
    SnapOf(usize, usize),
    STag(usize, usize),
    HTag(usize, usize),
}

/// Where an owned handle (Rc for the strong kind, Weak for the weak kind) comes from.
#[derive(Clone, Debug)]
pub enum HSrc {
    /// `Rc::null()` / `Weak::null()`, optionally tagged
    Null(usize),
    /// `master.clone().with_tag(t)` / `master.downgrade().with_tag(t)`: timestamp 0
    Fresh { obj: usize, tag: usize },
    /// clone stamped through a temporary AtomicRc at prelude phase `stamps[slot].2`
    /// (weak kind: the downgrade of it, which carries the stamped word)
    Stamped { slot: usize },
    /// weak kind only: `Weak::from(aux[j].load(g))` (Snapshot -> Weak, carries aux[j]'s timestamp)
    FromAuxSnap { j: usize },
}

#[derive(Clone, Debug)]
pub enum CellSrc {
    Null,
    /// `AtomicRc::from(rc)` / `AtomicWeak::from(weak)`: the handle's word, unstamped
    From(HSrc),
    /// strong kind only: `AtomicRc::null()` + `store` at an earlier prelude phase
    StoreAt { obj: usize, tag: usize, phase: usize },
}

#[derive(Clone, Debug)]
pub enum SBase {
    Null,
    /// load of the cell under test (as the thread sees it when it starts)
    Cell,
    /// strong kind: `aux[j].load`
    Aux(usize),
    /// weak kind: `auxw[j].load`
    AuxW(usize),
    /// weak kind: `aux[j].load(g).downgrade()`
    AuxDown(usize),
    /// `hv[i].snapshot(g)`
    Handle(usize),
}

#[derive(Clone, Debug)]
pub struct SSrc {
    pub base: SBase,
    pub tag: Option<usize>,
}

#[derive(Clone, Debug)]
pub struct ThreadProg {
    pub hv: Vec<HSrc>,
    pub sv: Vec<SSrc>,
    pub ops: Vec<Op>,
}

#[derive(Clone, Debug)]
pub struct Prog {
    /// true = AtomicRc, false = AtomicWeak
    pub strong: bool,
    pub pre_rounds: usize,
    pub nobj: usize,
    /// epoch rounds after each prelude phase
    pub gaps: Vec<usize>,
    /// (obj, tag, phase) of every stamped clone
    pub stamps: Vec<(usize, usize, usize)>,
    /// extra AtomicRc cells: (obj, tag, phase), `AtomicRc::null()` + store at that phase
    pub aux: Vec<(usize, usize, usize)>,
    /// weak kind: extra AtomicWeak cells
    pub auxw: Vec<HSrc>,
    pub cell: CellSrc,
    pub threads: Vec<ThreadProg>,
}

struct Gen<'a> {
    rng: &'a mut Rng,
    strong: bool,
    nobj: usize,
    np: usize,
    fav_obj: usize,
    fav_tag: usize,
    naux: usize,
    stamps: Vec<(usize, usize, usize)>,
}

impl<'a> Gen<'a> {
    fn obj(&mut self) -> usize {
        if self.rng.chance(3, 5) {
            self.fav_obj
        } else {
            self.rng.below(self.nobj as u64) as usize
        }
    }
    fn tag(&mut self) -> usize {
        if self.rng.chance(3, 5) {
            self.fav_tag
        } else {
            self.rng.below(8) as usize
        }
    }
    /// tags of operations range over 0..=20 (truncation modulo 8 is exercised)
    fn op_tag(&mut self) -> usize {
        if self.rng.chance(1, 2) {
            let t = self.fav_tag + 8 * self.rng.below(3) as usize;
            if t <= 20 {
                t
            } else {
                self.fav_tag
            }
        } else {
            self.rng.below(21) as usize
        }
    }
    fn phase(&mut self) -> usize {
        self.rng.below(self.np as u64) as usize
    }
    fn stamped(&mut self) -> HSrc {
        let s = (self.obj(), self.tag(), self.phase());
        self.stamps.push(s);
        HSrc::Stamped { slot: self.stamps.len() - 1 }
    }
    fn hsrc(&mut self) -> HSrc {
        let n = if self.strong { 6 } else { 7 };
        match self.rng.below(n) {
            0 => {
                if self.rng.chance(1, 4) {
                    HSrc::Null(self.rng.below(8) as usize)
                } else {
                    HSrc::Null(0)
                }
            }
            1..=3 => HSrc::Fresh { obj: self.obj(), tag: self.tag() },
            4..=5 => self.stamped(),
            _ => HSrc::FromAuxSnap { j: self.rng.below(self.naux as u64) as usize },
        }
    }
}

/// 0 = both kinds, 1 = AtomicRc cells only, 2 = AtomicWeak cells only (set from `--kind`)
pub static FORCE_KIND: std::sync::atomic::AtomicUsize = std::sync::atomic::AtomicUsize::new(0);

pub fn gen_program(rng: &mut Rng, thorough: bool) -> Prog {
    let coin = rng.chance(1, 2);
    let strong = match FORCE_KIND.load(std::sync::atomic::Ordering::Relaxed) {
        1 => true,
        2 => false,
        _ => coin,
    };
    let pre_rounds = rng.below(6) as usize;
    let nobj = 1 + rng.below(4) as usize;
    let np = 1 + rng.below(3) as usize;
    let mut gaps: Vec<usize> = (0..np).map(|_| 1 + rng.below(3) as usize).collect();
    // the last gap may be empty: words stamped in the last phase then carry the epoch of the case
    gaps[np - 1] = rng.below(4) as usize;
    let fav_obj = rng.below(nobj as u64) as usize;
    let fav_tag = rng.below(8) as usize;
    let naux = 1 + rng.below(3) as usize;
    let mut g = Gen { rng, strong, nobj, np, fav_obj, fav_tag, naux, stamps: vec![] };

    // the cell mostly holds the favourite object with the favourite tag
    let cell = if strong {
        match g.rng.below(8) {
            0 => CellSrc::Null,
            1..=2 => CellSrc::From(HSrc::Fresh { obj: fav_obj, tag: fav_tag }),
            3..=4 => {
                let ph = g.phase();
                g.stamps.push((fav_obj, fav_tag, ph));
                CellSrc::From(HSrc::Stamped { slot: g.stamps.len() - 1 })
            }
            _ => CellSrc::StoreAt { obj: fav_obj, tag: fav_tag, phase: g.phase() },
        }
    } else {
        match g.rng.below(8) {
            0 => CellSrc::Null,
            1..=3 => CellSrc::From(HSrc::Fresh { obj: fav_obj, tag: fav_tag }),
            4..=6 => {
                let ph = g.phase();
                g.stamps.push((fav_obj, fav_tag, ph));
                CellSrc::From(HSrc::Stamped { slot: g.stamps.len() - 1 })
            }
            _ => CellSrc::From(HSrc::FromAuxSnap { j: g.rng.below(naux as u64) as usize }),
        }
    };
    let aux: Vec<(usize, usize, usize)> = (0..naux).map(|_| (g.obj(), g.tag(), g.phase())).collect();
    let auxw: Vec<HSrc> = if strong {
        vec![]
    } else {
        let n = g.rng.below(3) as usize;
        (0..n).map(|_| g.hsrc()).collect()
    };
    let nt = 2 + g.rng.below(if thorough { 3 } else { 2 }) as usize;
    let mut threads = vec![];
    for _ in 0..nt {
        let nh = 1 + g.rng.below(3) as usize;
        let ns = 1 + g.rng.below(3) as usize;
        let hv: Vec<HSrc> = (0..nh).map(|_| g.hsrc()).collect();
        let mut sv = vec![];
        for _ in 0..ns {
            let base = if strong {
                match g.rng.below(10) {
                    0 => SBase::Null,
                    1..=4 => SBase::Cell,
                    5..=7 => SBase::Aux(g.rng.below(naux as u64) as usize),
                    _ => SBase::Handle(g.rng.below(nh as u64) as usize),
                }
            } else {
                match g.rng.below(11) {
                    0 => SBase::Null,
                    1..=3 => SBase::Cell,
                    4..=5 if !auxw.is_empty() => SBase::AuxW(g.rng.below(auxw.len() as u64) as usize),
                    4..=8 => SBase::AuxDown(g.rng.below(naux as u64) as usize),
                    _ => SBase::Handle(g.rng.below(nh as u64) as usize),
                }
            };
            let tag = if g.rng.chance(1, 4) {
                Some(if g.rng.chance(1, 2) { g.tag() } else { g.op_tag() })
            } else {
                None
            };
            sv.push(SSrc { base, tag });
        }
        let nops = 1 + g.rng.below(if thorough { 7 } else { 4 }) as usize;
        let mut ops = vec![];
        let mut last_load: Option<usize> = None;
        for _ in 0..nops {
            let h = g.rng.below(nh as u64) as usize;
            let d = g.rng.below(ns as u64) as usize;
            let mut e = g.rng.below(ns as u64) as usize;
            if let Some(l) = last_load {
                if g.rng.chance(1, 2) {
                    e = l;
                }
            }
            let op = match g.rng.below(20) {
                0..=2 => {
                    last_load = Some(d);
                    Op::Load(d)
                }
                3..=4 => Op::Store(h),
                5..=6 => Op::Swap(h),
                7..=10 => Op::Cas(e, h, d),
                11..=13 => Op::CasWeak(e, h, d),
                14..=16 => Op::CasTag(e, g.op_tag(), d),
                17 => Op::SnapOf(h, d),
                18 => Op::STag(d, g.op_tag()),
                _ => Op::HTag(h, g.op_tag()),
            };
            ops.push(op);
        }
        threads.push(ThreadProg { hv, sv, ops });
    }
    let stamps = g.stamps;
    Prog { strong, pre_rounds, nobj, gaps, stamps, aux, auxw, cell, threads }
}

fn encode_ops(ops: &[Op], out: &mut Vec<i64>) {
    for op in ops {
        match *op {
            Op::Load(d) => out.extend([0, d as i64]),
            Op::Store(h) => out.extend([1, h as i64]),
            Op::Swap(h) => out.extend([2, h as i64]),
            Op::Cas(e, h, d) => out.extend([3, e as i64, h as i64, d as i64]),
            Op::CasWeak(e, h, d) => out.extend([4, e as i64, h as i64, d as i64]),
            Op::CasTag(e, t, d) => out.extend([5, e as i64, t as i64, d as i64]),
            Op::SnapOf(h, e) => out.extend([6, h as i64, e as i64]),
            Op::STag(e, t) => out.extend([7, e as i64, t as i64]),
            Op::HTag(h, t) => out.extend([8, h as i64, t as i64]),
        }
    }
}

// ---------------------------------------------------------------------------------------------
// model threads

struct ThreadOut<H> {
    hv: Vec<H>,
    init_h: Vec<usize>,
    init_s: Vec<usize>,
    e0: usize,
    e1: usize,
    fails: Vec<String>,
}

fn epoch_now() -> usize {
    default_epoch_data() >> 1
}

/// one epoch round on the main thread (nobody else is pinned): advances the global epoch by one
fn round() {
    let g = circ::cs();
    g.flush();
    drop(g);
}

fn base_strong<'g>(
    b: &SBase,
    cell: &AtomicRc<Obj>,
    aux: &[AtomicRc<Obj>],
    _auxw: &[AtomicWeak<Obj>],
    hv: &[Rc<Obj>],
    g: &'g Guard,
) -> Snapshot<'g, Obj> {
    match *b {
        SBase::Null => Snapshot::null(),
        SBase::Cell => cell.load(SeqCst, g),
        SBase::Aux(j) | SBase::AuxDown(j) => aux[j].load(SeqCst, g),
        SBase::AuxW(_) => Snapshot::null(),
        SBase::Handle(i) => hv[i].snapshot(g),
    }
}

fn base_weak<'g>(
    b: &SBase,
    cell: &AtomicWeak<Obj>,
    aux: &[AtomicRc<Obj>],
    auxw: &[AtomicWeak<Obj>],
    hv: &[Weak<Obj>],
    g: &'g Guard,
) -> WeakSnapshot<'g, Obj> {
    match *b {
        SBase::Null => WeakSnapshot::null(),
        SBase::Cell => cell.load(SeqCst, g),
        SBase::AuxW(j) => auxw[j].load(SeqCst, g),
        SBase::Aux(j) | SBase::AuxDown(j) => aux[j].load(SeqCst, g).downgrade(),
        SBase::Handle(i) => hv[i].snapshot(g),
    }
}

macro_rules! thread_body {
    ($name:ident, $H:ty, $Cell:ty, $hword:path, $sword:path, $base:path) => {
        #[allow(clippy::too_many_arguments)]
        fn $name(
            cell: Arc<$Cell>,
            aux: Arc<Vec<AtomicRc<Obj>>>,
            auxw: Arc<Vec<AtomicWeak<Obj>>>,
            hv0: Vec<$H>,
            ssrc: Vec<SSrc>,
            ops: Vec<Op>,
            out: Arc<Mutex<Option<ThreadOut<$H>>>>,
        ) -> Box<dyn FnOnce() + Send + 'static> {
            Box::new(move || {
                // ---- unarmed set-up
                let g = circ::cs();
                let e0 = epoch_now();
                let mut hv: Vec<$H> = hv0;
                let mut sv: Vec<_> = ssrc
                    .iter()
                    .map(|s| {
                        let b = $base(&s.base, &cell, &aux, &auxw, &hv, &g);
                        match s.tag {
                            Some(t) => b.with_tag(t),
                            None => b,
                        }
                    })
                    .collect();
                let init_h: Vec<usize> = hv.iter().map(|h| $hword(h)).collect();
                let init_s: Vec<usize> = sv.iter().map(|s| $sword(*s)).collect();
                let mut fails: Vec<String> = vec![];
                let strip = |w: usize| w & !TS_MASK;
                sched::arm(true);
                for (ip, op) in ops.iter().enumerate() {
                    match *op {
                        Op::Load(d) => {
                            sched::obs(1, 0, d);
                            sv[d] = cell.load(SeqCst, &g);
                            sched::obs(2000, 0, $sword(sv[d]));
                        }
                        Op::Store(h) => {
                            sched::obs(1, 1, h);
                            let v = std::mem::replace(&mut hv[h], <$H>::null());
                            sched::obs(2010, 0, $hword(&v));
                            cell.store(v, SeqCst, &g);
                            sched::obs(2000, 1, 0);
                        }
                        Op::Swap(h) => {
                            sched::obs(1, 2, h);
                            let v = std::mem::replace(&mut hv[h], <$H>::null());
                            sched::obs(2010, 0, $hword(&v));
                            hv[h] = cell.swap(v, SeqCst);
                            sched::obs(2000, 2, $hword(&hv[h]));
                        }
                        Op::Cas(e, h, d) | Op::CasWeak(e, h, d) => {
                            let weak = matches!(*op, Op::CasWeak(..));
                            sched::obs(1, if weak { 4 } else { 3 }, e);
                            let exp = sv[e];
                            let des = std::mem::replace(&mut hv[h], <$H>::null());
                            let r = if weak {
                                cell.compare_exchange_weak(exp, des, SeqCst, SeqCst, &g)
                            } else {
                                cell.compare_exchange(exp, des, SeqCst, SeqCst, &g)
                            };
                            match r {
                                Ok(rc) => {
                                    sched::obs(2001, 1, $hword(&rc));
                                    if rc.tag() != exp.tag() || strip($hword(&rc)) != strip($sword(exp)) {
                                        fails.push(format!(
                                            "op {} Cas Ok returned {:#x} but expected was {:#x}",
                                            ip,
                                            $hword(&rc),
                                            $sword(exp)
                                        ));
                                    }
                                    hv[h] = rc;
                                }
                                Err(err) => {
                                    sched::obs(2001, 0, $sword(err.current));
                                    sched::obs(2002, 0, $hword(&err.desired));
                                    if err.current.ptr_eq(exp) {
                                        fails.push(format!(
                                            "op {} Cas Err although current {:#x} ptr_eq expected {:#x}",
                                            ip,
                                            $sword(err.current),
                                            $sword(exp)
                                        ));
                                    }
                                    sv[d] = err.current;
                                    hv[h] = err.desired;
                                }
                            }
                        }
                        Op::CasTag(e, tag, d) => {
                            sched::obs(1, 5, e);
                            let exp = sv[e];
                            match cell.compare_exchange_tag(exp, tag, SeqCst, SeqCst, &g) {
                                Ok(s) => {
                                    sched::obs(2001, 1, $sword(s));
                                    if !s.ptr_eq(exp) {
                                        fails.push(format!(
                                            "op {} CasTag Ok value {:#x} not ptr_eq expected {:#x}",
                                            ip,
                                            $sword(s),
                                            $sword(exp)
                                        ));
                                    }
                                    sv[d] = s;
                                }
                                Err(err) => {
                                    sched::obs(2001, 0, $sword(err.current));
                                    sched::obs(2002, 0, $sword(err.desired));
                                    if err.current.ptr_eq(exp) {
                                        fails.push(format!(
                                            "op {} CasTag Err although current {:#x} ptr_eq expected {:#x}",
                                            ip,
                                            $sword(err.current),
                                            $sword(exp)
                                        ));
                                    }
                                    if err.desired.tag() != tag % 8 {
                                        fails.push(format!(
                                            "op {} CasTag Err desired tag {} != {} % 8",
                                            ip,
                                            err.desired.tag(),
                                            tag
                                        ));
                                    }
                                    sv[d] = err.current;
                                }
                            }
                        }
                        Op::SnapOf(h, e) => {
                            sched::obs(1, 6, h);
                            sv[e] = hv[h].snapshot(&g);
                            sched::obs(2000, 6, $sword(sv[e]));
                        }
                        Op::STag(e, tag) => {
                            sched::obs(1, 7, e);
                            sv[e] = sv[e].with_tag(tag);
                            sched::obs(2000, 7, $sword(sv[e]));
                            if sv[e].tag() != tag % 8 {
                                fails.push(format!("op {} STag tag() {} != {} % 8", ip, sv[e].tag(), tag));
                            }
                        }
                        Op::HTag(h, tag) => {
                            sched::obs(1, 8, h);
                            let v = std::mem::replace(&mut hv[h], <$H>::null());
                            hv[h] = v.with_tag(tag);
                            sched::obs(2000, 8, $hword(&hv[h]));
                            if hv[h].tag() != tag % 8 {
                                fails.push(format!("op {} HTag tag() {} != {} % 8", ip, hv[h].tag(), tag));
                            }
                        }
                    }
                }
                sched::obs(1, 9, 0);
                sched::arm(false);
                // ---- unarmed tear-down: the handles go back to main, nothing is dropped here
                let e1 = epoch_now();
                drop(sv);
                *out.lock().unwrap() = Some(ThreadOut { hv, init_h, init_s, e0, e1, fails });
                drop(g);
            })
        }
    };
}

thread_body!(body_strong, Rc<Obj>, AtomicRc<Obj>, rc_word, snapshot_word, base_strong);
thread_body!(body_weak, Weak<Obj>, AtomicWeak<Obj>, weak_word, weak_snapshot_word, base_weak);

// ---------------------------------------------------------------------------------------------
// canonicalisation

struct Ids {
    map: HashMap<usize, u64>,
    unknown: bool,
}

impl Ids {
    fn addr(w: usize) -> usize {
        w & !TS_MASK & !TAG_MASK
    }
    fn id(&mut self, w: usize) -> u64 {
        let a = Self::addr(w);
        if a == 0 {
            0
        } else if let Some(&i) = self.map.get(&a) {
            i
        } else {
            self.unknown = true;
            999_999
        }
    }
    fn triple(&mut self, w: usize) -> [i64; 3] {
        [self.id(w) as i64, (w & TAG_MASK) as i64, (w >> TS_SHIFT) as i64]
    }
    /// canonical word
    fn w(&mut self, w: usize) -> u64 {
        8 * self.id(w) + (w & TAG_MASK) as u64 + (((w >> TS_SHIFT) as u64) << 60)
    }
}

fn cell_line(prog: &[i64], sched: &[usize], steps: &[Vec<(u32, u64, u64)>]) -> String {
    let mut s = String::from("cell");
    for p in prog {
        s.push(' ');
        s.push_str(&p.to_string());
    }
    s.push_str(" |");
    for t in sched {
        s.push(' ');
        s.push_str(&t.to_string());
    }
    s.push_str(" |");
    for (i, st) in steps.iter().enumerate() {
        if i > 0 {
            s.push_str(" ;");
        }
        for (site, a, b) in st {
            s.push_str(&format!(" {} {} {}", site, a, b));
        }
    }
    s
}

/// (CAS successes, CAS failures, timestamp-only retries) of a case line
pub fn line_stats(line: &str) -> (usize, usize, usize) {
    let steps = line.rsplit('|').next().unwrap_or("");
    let (mut ok, mut err, mut retry) = (0, 0, 0);
    for st in steps.split(';') {
        let v: Vec<&str> = st.split_whitespace().collect();
        if v.len() == 3 && (v[0] == "123" || v[0] == "126") {
            retry += 1;
        }
        for c in v.chunks(3) {
            if c.len() == 3 && c[0] == "2001" {
                if c[1] == "1" {
                    ok += 1;
                } else {
                    err += 1;
                }
            }
        }
    }
    (ok, err, retry)
}

// ---------------------------------------------------------------------------------------------
// prelude helpers (main thread, sequential)

fn stamp_rc(master: &Rc<Obj>, tag: usize) -> Rc<Obj> {
    let g = circ::cs();
    let tmp: AtomicRc<Obj> = AtomicRc::null();
    tmp.store(master.clone().with_tag(tag), SeqCst, &g);
    let rc = tmp.swap(Rc::null(), SeqCst);
    drop(tmp);
    drop(g);
    rc
}

fn make_rc(src: &HSrc, masters: &[Rc<Obj>], stamped: &mut [Option<Rc<Obj>>]) -> Rc<Obj> {
    match *src {
        HSrc::Null(t) => Rc::null().with_tag(t),
        HSrc::Fresh { obj, tag } => masters[obj].clone().with_tag(tag),
        HSrc::Stamped { slot } => stamped[slot].take().expect("stamped slot used twice"),
        HSrc::FromAuxSnap { .. } => Rc::null(),
    }
}

fn make_weak(src: &HSrc, masters: &[Rc<Obj>], stamped: &mut [Option<Rc<Obj>>], aux: &[AtomicRc<Obj>]) -> Weak<Obj> {
    match *src {
        HSrc::Null(t) => Weak::null().with_tag(t),
        HSrc::Fresh { obj, tag } => masters[obj].downgrade().with_tag(tag),
        HSrc::Stamped { slot } => {
            let rc = stamped[slot].take().expect("stamped slot used twice");
            let w = rc.downgrade();
            drop(rc);
            w
        }
        HSrc::FromAuxSnap { j } => {
            let g = circ::cs();
            let w = Weak::from(aux[j].load(SeqCst, &g));
            drop(g);
            w
        }
    }
}

/// Runs one case.  Returns the case line and the monitor lines; a discarded case (the global epoch
/// moved during the scheduled part) returns an empty case line.
pub fn run_case(prog: &Prog, rng: &mut Rng, script: Option<Vec<usize>>) -> (String, Vec<String>) {
    let cid = if prog.strong { "C08" } else { "C09" };
    let mut monitor: Vec<String> = vec![];
    for _ in 0..prog.pre_rounds {
        round();
    }
    // ---- objects
    let drops: Vec<Arc<AtomicUsize>> = (0..prog.nobj).map(|_| Arc::new(AtomicUsize::new(0))).collect();
    let masters: Vec<Rc<Obj>> = drops.iter().map(|d| Rc::new(Obj { drops: d.clone() })).collect();
    let mut ids = Ids { map: HashMap::new(), unknown: false };
    for (i, m) in masters.iter().enumerate() {
        let w = rc_word(m);
        assert!(w & TAG_MASK == 0 && w & TS_MASK == 0, "fresh Rc word {:#x} is not 8-aligned / has a timestamp", w);
        ids.map.insert(w, (i + 1) as u64);
    }
    // ---- phases: everything whose word depends on the epoch it was written at
    let mut stamped: Vec<Option<Rc<Obj>>> = prog.stamps.iter().map(|_| None).collect();
    let mut aux_v: Vec<Option<AtomicRc<Obj>>> = prog.aux.iter().map(|_| None).collect();
    let mut cell_strong: Option<AtomicRc<Obj>> = None;
    for (ph, &gap) in prog.gaps.iter().enumerate() {
        for (slot, &(obj, tag, p)) in prog.stamps.iter().enumerate() {
            if p == ph {
                stamped[slot] = Some(stamp_rc(&masters[obj], tag));
            }
        }
        for (j, &(obj, tag, p)) in prog.aux.iter().enumerate() {
            if p == ph {
                let g = circ::cs();
                let a: AtomicRc<Obj> = AtomicRc::null();
                a.store(masters[obj].clone().with_tag(tag), SeqCst, &g);
                drop(g);
                aux_v[j] = Some(a);
            }
        }
        if let CellSrc::StoreAt { obj, tag, phase } = prog.cell {
            if prog.strong && phase == ph {
                let g = circ::cs();
                let a: AtomicRc<Obj> = AtomicRc::null();
                a.store(masters[obj].clone().with_tag(tag), SeqCst, &g);
                drop(g);
                cell_strong = Some(a);
            }
        }
        for _ in 0..gap {
            round();
        }
    }
    let aux: Arc<Vec<AtomicRc<Obj>>> = Arc::new(aux_v.into_iter().map(|a| a.expect("aux phase")).collect());
    // ---- epoch-independent parts
    let mut cell_s: Option<Arc<AtomicRc<Obj>>> = None;
    let mut cell_w: Option<Arc<AtomicWeak<Obj>>> = None;
    let mut auxw_v: Vec<AtomicWeak<Obj>> = vec![];
    if prog.strong {
        let c = match &prog.cell {
            CellSrc::Null => AtomicRc::null(),
            CellSrc::From(h) => AtomicRc::from(make_rc(h, &masters, &mut stamped)),
            CellSrc::StoreAt { .. } => cell_strong.take().expect("cell phase"),
        };
        cell_s = Some(Arc::new(c));
    } else {
        let c = match &prog.cell {
            CellSrc::Null | CellSrc::StoreAt { .. } => AtomicWeak::null(),
            CellSrc::From(h) => AtomicWeak::from(make_weak(h, &masters, &mut stamped, &aux)),
        };
        cell_w = Some(Arc::new(c));
        for h in &prog.auxw {
            auxw_v.push(AtomicWeak::from(make_weak(h, &masters, &mut stamped, &aux)));
        }
    }
    let auxw: Arc<Vec<AtomicWeak<Obj>>> = Arc::new(auxw_v);
    let cell_init = match (&cell_s, &cell_w) {
        (Some(c), _) => atomic_rc_word(c),
        (_, Some(c)) => atomic_weak_word(c),
        _ => unreachable!(),
    };
    let nt = prog.threads.len();
    let mut outs_s: Vec<Arc<Mutex<Option<ThreadOut<Rc<Obj>>>>>> = vec![];
    let mut outs_w: Vec<Arc<Mutex<Option<ThreadOut<Weak<Obj>>>>>> = vec![];
    let mut bodies: Vec<Box<dyn FnOnce() + Send>> = vec![];
    for tp in &prog.threads {
        if prog.strong {
            let hv0: Vec<Rc<Obj>> = tp.hv.iter().map(|h| make_rc(h, &masters, &mut stamped)).collect();
            let out = Arc::new(Mutex::new(None));
            outs_s.push(out.clone());
            bodies.push(body_strong(
                cell_s.clone().unwrap(),
                aux.clone(),
                auxw.clone(),
                hv0,
                tp.sv.clone(),
                tp.ops.clone(),
                out,
            ));
        } else {
            let hv0: Vec<Weak<Obj>> = tp.hv.iter().map(|h| make_weak(h, &masters, &mut stamped, &aux)).collect();
            let out = Arc::new(Mutex::new(None));
            outs_w.push(out.clone());
            bodies.push(body_weak(
                cell_w.clone().unwrap(),
                aux.clone(),
                auxw.clone(),
                hv0,
                tp.sv.clone(),
                tp.ops.clone(),
                out,
            ));
        }
    }
    debug_assert!(stamped.iter().all(|s| s.is_none()));
    // ---- the scheduled part
    let e_main = epoch_now();
    let res = match script {
        Some(s) => sched::run(bodies, enabled, 100_000, &mut policy::scripted(s)),
        None => {
            if rng.chance(1, 2) {
                sched::run(bodies, enabled, 100_000, &mut policy::uniform(rng))
            } else {
                let mut p = policy::pct(rng, nt, 40, 3);
                sched::run(bodies, enabled, 100_000, &mut p)
            }
        }
    };
    let e_after = epoch_now();
    let panicked = res.panicked.iter().any(|&p| p);
    if panicked {
        monitor.push(format!("PROPFAIL {} a model thread panicked", cid));
    }
    // ---- collect what the threads hand back
    let mut epochs_ok = e_after == e_main;
    let mut hv_s: Vec<Vec<Rc<Obj>>> = vec![];
    let mut hv_w: Vec<Vec<Weak<Obj>>> = vec![];
    let mut inits: Vec<(Vec<usize>, Vec<usize>)> = vec![];
    let mut complete = true;
    for t in 0..nt {
        macro_rules! take_out {
            ($outs:ident, $hvs:ident) => {
                match $outs[t].lock().unwrap().take() {
                    Some(o) => {
                        if o.e0 != e_main || o.e1 != e_main {
                            epochs_ok = false;
                        }
                        for f in o.fails {
                            monitor.push(format!("PROPFAIL {} thread {} {}", cid, t, f));
                        }
                        inits.push((o.init_h, o.init_s));
                        $hvs.push(o.hv);
                    }
                    None => complete = false,
                }
            };
        }
        if prog.strong {
            take_out!(outs_s, hv_s)
        } else {
            take_out!(outs_w, hv_w)
        }
    }
    // ---- per-step monitor: the word handed to swap/store is the one announced at 122/125 and the
    //      word returned by swap is the one observed at 1022/1025
    let mut pending: Vec<Option<usize>> = vec![None; nt];
    for (si, st) in res.trace.iter().enumerate() {
        let mut old: Option<usize> = None;
        for &(site, a, b) in &st.obs {
            match site {
                2010 => pending[st.tid] = Some(b),
                122 | 125 => {
                    if pending[st.tid] != Some(b) {
                        monitor.push(format!(
                            "PROPFAIL {} step {} thread {}: word {:#x} announced at site {} is not the handle passed ({:?})",
                            cid, si, st.tid, b, site, pending[st.tid]
                        ));
                    }
                }
                1022 | 1025 => old = Some(b),
                2000 if a == 2 => {
                    if old != Some(b) {
                        monitor.push(format!(
                            "PROPFAIL {} step {} thread {}: swap returned {:#x} but the link held {:?}",
                            cid, si, st.tid, b, old
                        ));
                    }
                }
                _ => {}
            }
        }
    }
    // ---- canonical case line
    let mut pints: Vec<i64> = vec![if prog.strong { 0 } else { 1 }, e_main as i64];
    pints.extend(ids.triple(cell_init));
    if complete {
        for (t, tp) in prog.threads.iter().enumerate() {
            let (ih, is) = &inits[t];
            pints.push(-1);
            pints.push(ih.len() as i64);
            pints.push(is.len() as i64);
            for &w in ih.iter().chain(is.iter()) {
                pints.extend(ids.triple(w));
            }
            encode_ops(&tp.ops, &mut pints);
        }
    }
    let mut steps: Vec<Vec<(u32, u64, u64)>> = vec![];
    for st in &res.trace {
        let mut out = vec![];
        for &(site, a, b) in &st.obs {
            match site {
                1 => out.push((site, a as u64, b as u64)),
                121 | 124 => out.push((site, 0, 0)),
                122 | 123 | 125 | 126 | 1022 | 1025 => out.push((site, 0, ids.w(b))),
                2000..=2002 => out.push((site, a as u64, ids.w(b))),
                _ => {}
            }
        }
        steps.push(out);
    }
    let sched: Vec<usize> = res.trace.iter().map(|s| s.tid).collect();
    let line = cell_line(&pints, &sched, &steps);
    if ids.unknown {
        monitor.push(format!("PROPFAIL {} a word with an unknown address was observed", cid));
    }
    if res.truncated {
        monitor.push(format!("PROPFAIL {} the case did not terminate within the step budget", cid));
    }
    // ---- (a) ownership: count words against the handles that are alive right now
    let mut strong_cnt = vec![0u32; prog.nobj + 1];
    let mut weak_cnt = vec![0u32; prog.nobj + 1];
    {
        let bump = |cnt: &mut Vec<u32>, w: usize| {
            let a = Ids::addr(w);
            if a != 0 {
                if let Some(&i) = ids.map.get(&a) {
                    cnt[i as usize] += 1;
                }
            }
        };
        for m in &masters {
            bump(&mut strong_cnt, rc_word(m));
        }
        for a in aux.iter() {
            bump(&mut strong_cnt, atomic_rc_word(a));
        }
        if let Some(c) = &cell_s {
            bump(&mut strong_cnt, atomic_rc_word(c));
        }
        for hv in &hv_s {
            for h in hv {
                bump(&mut strong_cnt, rc_word(h));
            }
        }
        if let Some(c) = &cell_w {
            bump(&mut weak_cnt, atomic_weak_word(c));
        }
        for a in auxw.iter() {
            bump(&mut weak_cnt, atomic_weak_word(a));
        }
        for hv in &hv_w {
            for h in hv {
                bump(&mut weak_cnt, weak_word(h));
            }
        }
    }
    if complete && !panicked {
        for (i, m) in masters.iter().enumerate() {
            let cw = rc_count_word(m);
            if state_strong(cw) != strong_cnt[i + 1] {
                monitor.push(format!(
                    "PROPFAIL {} object {}: strong count {} but {} live Rc handles",
                    cid,
                    i + 1,
                    state_strong(cw),
                    strong_cnt[i + 1]
                ));
            }
            if state_weak(cw) != 1 + weak_cnt[i + 1] {
                monitor.push(format!(
                    "PROPFAIL {} object {}: weak count {} but 1 + {} live Weak handles",
                    cid,
                    i + 1,
                    state_weak(cw),
                    weak_cnt[i + 1]
                ));
            }
        }
    }
    for (i, d) in drops.iter().enumerate() {
        if d.load(SeqCst) != 0 {
            monitor.push(format!(
                "PROPFAIL {} object {} destructed {} times while its master is alive",
                cid,
                i + 1,
                d.load(SeqCst)
            ));
        }
    }
    // ---- drop every owner, let the collector run, every object is destructed exactly once
    drop(hv_s);
    drop(hv_w);
    drop(outs_s);
    drop(outs_w);
    drop(cell_s);
    drop(cell_w);
    drop(aux);
    drop(auxw);
    drop(stamped);
    drop(masters);
    for _ in 0..8 {
        round();
    }
    if complete && !panicked {
        for (i, d) in drops.iter().enumerate() {
            let n = d.load(SeqCst);
            if n != 1 {
                monitor.push(format!(
                    "PROPFAIL {} object {} destructed {} times after all owners were dropped ({})",
                    cid,
                    i + 1,
                    n,
                    if n == 0 { "leaked owner" } else { "duplicated owner" }
                ));
            }
        }
    }
    if !epochs_ok && !panicked {
        return (String::new(), vec![format!("DISCARD epoch moved during the case (main {} .. {})", e_main, e_after)]);
    }
    (line, monitor)
}
