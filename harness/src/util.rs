//! Small utilities: deterministic PRNG, line output.
use std::io::Write;

// ---- counting allocator: live heap blocks whose alignment is at least a cache line (participant records, collector
// globals); everything else goes straight to the system allocator
pub static BIG_LIVE: std::sync::atomic::AtomicUsize = std::sync::atomic::AtomicUsize::new(0);
pub static BIG_ALLOCS: std::sync::atomic::AtomicUsize = std::sync::atomic::AtomicUsize::new(0);
pub struct CountingAlloc;
unsafe impl std::alloc::GlobalAlloc for CountingAlloc {
    unsafe fn alloc(&self, l: std::alloc::Layout) -> *mut u8 {
        if l.align() >= 64 {
            BIG_LIVE.fetch_add(1, std::sync::atomic::Ordering::SeqCst);
            BIG_ALLOCS.fetch_add(1, std::sync::atomic::Ordering::SeqCst);
        }
        std::alloc::System.alloc(l)
    }
    unsafe fn dealloc(&self, p: *mut u8, l: std::alloc::Layout) {
        if l.align() >= 64 {
            BIG_LIVE.fetch_sub(1, std::sync::atomic::Ordering::SeqCst);
        }
        std::alloc::System.dealloc(p, l)
    }
    unsafe fn alloc_zeroed(&self, l: std::alloc::Layout) -> *mut u8 {
        if l.align() >= 64 {
            BIG_LIVE.fetch_add(1, std::sync::atomic::Ordering::SeqCst);
            BIG_ALLOCS.fetch_add(1, std::sync::atomic::Ordering::SeqCst);
        }
        std::alloc::System.alloc_zeroed(l)
    }
    unsafe fn realloc(&self, p: *mut u8, l: std::alloc::Layout, n: usize) -> *mut u8 {
        std::alloc::System.realloc(p, l, n)
    }
}

#[derive(Clone)]
pub struct Rng(pub u64);

impl Rng {
    pub fn new(seed: u64) -> Self {
        Rng(seed.wrapping_mul(0x9E3779B97F4A7C15) ^ 0xD1B54A32D192ED03)
    }
    pub fn next(&mut self) -> u64 {
        // splitmix64
        self.0 = self.0.wrapping_add(0x9E3779B97F4A7C15);
        let mut z = self.0;
        z = (z ^ (z >> 30)).wrapping_mul(0xBF58476D1CE4E5B9);
        z = (z ^ (z >> 27)).wrapping_mul(0x94D049BB133111EB);
        z ^ (z >> 31)
    }
    pub fn below(&mut self, n: u64) -> u64 {
        if n == 0 {
            0
        } else {
            self.next() % n
        }
    }
    pub fn pick<'a, T>(&mut self, xs: &'a [T]) -> &'a T {
        &xs[self.below(xs.len() as u64) as usize]
    }
    pub fn chance(&mut self, num: u64, den: u64) -> bool {
        self.below(den) < num
    }
}

pub struct Out {
    w: std::io::BufWriter<std::fs::File>,
    pub lines: u64,
}

impl Out {
    pub fn create(path: &str) -> Self {
        Out {
            w: std::io::BufWriter::new(std::fs::File::create(path).expect("create output")),
            lines: 0,
        }
    }
    pub fn line(&mut self, s: &str) {
        self.w.write_all(s.as_bytes()).unwrap();
        self.w.write_all(b"\n").unwrap();
        self.lines += 1;
        if s.starts_with("PROPFAIL") {
            let _ = self.w.flush();     // a violation may be followed by a crash of the crate: keep the line
        }
    }
    pub fn finish(mut self) -> u64 {
        self.w.flush().unwrap();
        self.lines
    }
}

/// Parses `--key value` style arguments.
pub fn arg(args: &[String], key: &str) -> Option<String> {
    args.iter().position(|a| a == key).and_then(|i| args.get(i + 1).cloned())
}
