//! C15 (implementation side, free-running threads on a private collector): every deferred function runs
//! exactly once with its captured data intact -- from a thread-local bag, after a flush, after a bag
//! overflow, and when the deferring thread exits with garbage pending -- after a bounded number of
//! pin/flush/unpin rounds of a surviving thread.  Closure sizes/alignments cover inline and boxed storage.
use crate::util::{Out, Rng};
use circ::verif::ebr::{self, Collector};
use std::sync::atomic::{AtomicU32, Ordering::SeqCst};
use std::sync::Arc;

struct Table {
    ran: Vec<AtomicU32>,
    bad: AtomicU32,
}

#[repr(align(16))]
struct A16<const N: usize>([u8; N]);
#[repr(align(64))]
struct A64<const N: usize>([u8; N]);

fn pattern(id: usize, i: usize) -> u8 {
    (id.wrapping_mul(31).wrapping_add(i * 7) & 0xff) as u8
}

fn fill<const N: usize>(id: usize) -> [u8; N] {
    let mut a = [0u8; N];
    for (i, b) in a.iter_mut().enumerate() {
        *b = pattern(id, i);
    }
    a
}

fn check(id: usize, a: &[u8], t: &Table) {
    for (i, b) in a.iter().enumerate() {
        if *b != pattern(id, i) {
            t.bad.fetch_add(1, SeqCst);
            return;
        }
    }
}

macro_rules! defer_sized {
    ($g:expr, $t:expr, $id:expr, $n:expr, $wrap:ident) => {{
        let data = $wrap::<$n>(fill::<$n>($id));
        let t = $t.clone();
        let id = $id;
        unsafe {
            ebr::defer($g, move || {
                check(id, &data.0, &t);
                t.ran[id].fetch_add(1, SeqCst);
            })
        }
    }};
}

struct A1<const N: usize>([u8; N]);

/// kind selects capture size and alignment (inline storage holds 3 words = 24 bytes incl. the Arc and the id)
fn defer_kind(g: &circ::Guard, t: &Arc<Table>, id: usize, kind: u64) {
    match kind % 9 {
        0 => defer_sized!(g, t, id, 0, A1),
        1 => defer_sized!(g, t, id, 1, A1),
        2 => defer_sized!(g, t, id, 8, A1),
        3 => defer_sized!(g, t, id, 24, A1),
        4 => defer_sized!(g, t, id, 200, A1),
        5 => defer_sized!(g, t, id, 16, A16),
        6 => defer_sized!(g, t, id, 48, A16),
        7 => defer_sized!(g, t, id, 64, A64),
        _ => defer_sized!(g, t, id, 4096, A64),
    }
}

pub struct Case {
    pub threads: usize,
    pub per_thread: Vec<usize>,
    pub exit_mode: Vec<u64>,
}

/// returns (ids deferred, ids that ran != once, corrupted captures, rounds used)
pub fn run_case(rng: &mut Rng, thorough: bool) -> (usize, Vec<(usize, u32)>, u32, usize, String) {
    let c = Collector::new();
    let nthreads = 1 + rng.below(4) as usize;
    let mut per = vec![];
    let mut total = 0usize;
    for _ in 0..nthreads {
        // around the bag capacity (64): empty, partial, exactly full, overflowing several times
        let k = match rng.below(6) {
            0 => 0,
            1 => 1 + rng.below(10) as usize,
            2 => 63 + rng.below(3) as usize,
            3 => 64 * (1 + rng.below(3) as usize),
            4 => 100 + rng.below(if thorough { 2000 } else { 300 }) as usize,
            _ => rng.below(64) as usize,
        };
        per.push(k);
        total += k;
    }
    let table = Arc::new(Table { ran: (0..total).map(|_| AtomicU32::new(0)).collect(), bad: AtomicU32::new(0) });
    let mut desc = format!("threads={} per_thread={:?} modes=", nthreads, per);
    let mut joins = vec![];
    let mut base = 0usize;
    for ti in 0..nthreads {
        let k = per[ti];
        let mode = rng.below(5);
        let kinds: Vec<u64> = (0..k).map(|_| rng.below(9)).collect();
        desc.push_str(&format!("{} ", mode));
        let c2 = c.clone();
        let t2 = table.clone();
        let b = base;
        joins.push(std::thread::spawn(move || {
            let h = c2.register();
            let g = h.pin();
            for (j, kd) in kinds.iter().enumerate() {
                defer_kind(&g, &t2, b + j, *kd);
                if mode == 3 && j % 37 == 5 {
                    g.flush();
                }
            }
            match mode {
                0 => {
                    // plain exit: guard, then handle
                    drop(g);
                    drop(h);
                }
                1 => {
                    // handle dropped first; the guard keeps the participant alive until it is dropped
                    drop(h);
                    drop(g);
                }
                2 => {
                    // flush before leaving
                    g.flush();
                    drop(g);
                    drop(h);
                }
                3 => {
                    // a second guard and a re-pin in between
                    let g2 = h.pin();
                    drop(g);
                    drop(g2);
                    let g3 = h.pin();
                    drop(g3);
                    drop(h);
                }
                _ => {
                    // a clone of the guard's handle outlives the first one
                    let h2 = c2.register();
                    drop(g);
                    drop(h);
                    let g4 = h2.pin();
                    drop(g4);
                    drop(h2);
                }
            }
        }));
        base += k;
    }
    for j in joins {
        let _ = j.join();
    }
    // a surviving participant runs rounds
    let h = c.register();
    let mut rounds = 0usize;
    // every bag is sealed at an epoch <= now; each round may advance once and pops up to COLLECTS_TRIALS bags
    let bags = total / 32 + nthreads + 4;
    let bound = 8 + 2 * bags;
    while rounds < bound && table.ran.iter().any(|a| a.load(SeqCst) == 0) {
        let g = h.pin();
        g.flush();
        drop(g);
        rounds += 1;
    }
    // a few more rounds must not run anything twice
    for _ in 0..4 {
        let g = h.pin();
        g.flush();
        drop(g);
    }
    drop(h);
    let wrong: Vec<(usize, u32)> = table.ran.iter().enumerate().map(|(i, a)| (i, a.load(SeqCst))).filter(|(_, n)| *n != 1).collect();
    desc.push_str(&format!("bound={}", bound));
    (total, wrong, table.bad.load(SeqCst), rounds, desc)
}

// ---- closure storage sweep: closures of EVERY byte size around the inline/boxed boundary (3 words), with
// alignment 1, 2 and 4, so that sizes that are not a multiple of the word size are covered.  The closure captures
// nothing but its array: the id is encoded in the first element, the results go to statics.

static SWEEP_RAN: [AtomicU32; 256] = [const { AtomicU32::new(0) }; 256];
static SWEEP_BAD: AtomicU32 = AtomicU32::new(0);

fn defer_u8<const N: usize>(g: &circ::Guard, id: usize) {
    let mut a = [0u8; N];
    a[0] = id as u8;
    for (i, b) in a.iter_mut().enumerate().skip(1) {
        *b = pattern(id, i);
    }
    unsafe {
        ebr::defer(g, move || {
            let id = a[0] as usize;
            if a.iter().enumerate().skip(1).any(|(i, b)| *b != pattern(id, i)) {
                SWEEP_BAD.fetch_add(1, SeqCst);
            }
            SWEEP_RAN[id].fetch_add(1, SeqCst);
        })
    }
}
fn defer_u16<const N: usize>(g: &circ::Guard, id: usize) {
    let mut a = [0u16; N];
    a[0] = id as u16;
    for (i, b) in a.iter_mut().enumerate().skip(1) {
        *b = pattern(id, i) as u16 * 257;
    }
    unsafe {
        ebr::defer(g, move || {
            let id = a[0] as usize & 255;
            if a.iter().enumerate().skip(1).any(|(i, b)| *b != pattern(id, i) as u16 * 257) {
                SWEEP_BAD.fetch_add(1, SeqCst);
            }
            SWEEP_RAN[id].fetch_add(1, SeqCst);
        })
    }
}
fn defer_u32<const N: usize>(g: &circ::Guard, id: usize) {
    let mut a = [0u32; N];
    a[0] = id as u32;
    for (i, b) in a.iter_mut().enumerate().skip(1) {
        *b = pattern(id, i) as u32 * 0x01010101;
    }
    unsafe {
        ebr::defer(g, move || {
            let id = a[0] as usize & 255;
            if a.iter().enumerate().skip(1).any(|(i, b)| *b != pattern(id, i) as u32 * 0x01010101) {
                SWEEP_BAD.fetch_add(1, SeqCst);
            }
            SWEEP_RAN[id].fetch_add(1, SeqCst);
        })
    }
}

macro_rules! sweep {
    ($f:ident, $g:expr, $id:ident; $($n:literal),*) => { $( $f::<$n>($g, $id); $id += 1; )* };
}

/// returns (closures deferred, ran != 1, corrupted)
pub fn storage_sweep() -> (usize, usize, u32) {
    for a in SWEEP_RAN.iter() {
        a.store(0, SeqCst);
    }
    SWEEP_BAD.store(0, SeqCst);
    let mut id = 0usize;
    // filled by one thread, run by whoever collects (here: after the filling thread has exited)
    let h = std::thread::spawn(move || {
        let g = circ::cs();
        sweep!(defer_u8, &g, id; 1, 2, 3, 4, 5, 6, 7, 8, 9, 10, 11, 12, 13, 14, 15, 16, 17, 18, 19, 20, 21, 22, 23, 24, 25, 26, 27, 28, 29,
               30, 31, 32, 33, 34, 35, 36, 37, 38, 39, 40, 41, 47, 48, 49, 63, 64, 65, 100);
        sweep!(defer_u16, &g, id; 1, 2, 3, 4, 5, 6, 7, 8, 9, 10, 11, 12, 13, 14, 15, 16, 17, 18, 19, 20, 21, 25, 33);
        sweep!(defer_u32, &g, id; 1, 2, 3, 4, 5, 6, 7, 8, 9, 10, 11, 13, 17);
        drop(g);
        id
    });
    let n = h.join().unwrap();
    for _ in 0..400 {
        let g = circ::cs();
        g.flush();
        drop(g);
        if (0..n).all(|i| SWEEP_RAN[i].load(SeqCst) >= 1) {
            break;
        }
    }
    let wrong = (0..n).filter(|&i| SWEEP_RAN[i].load(SeqCst) != 1).count();
    (n, wrong, SWEEP_BAD.load(SeqCst))
}

// ---- "the collector's shared structures are touched only under a pin": a participant pushes a sealed bag (site 21),
// pops one (site 23) and scans the registry (site 18) only between publishing its announcement (site 11) and
// withdrawing it (sites 13, 14).  Also at thread exit: finalize pins before it hands the bag over.
// (keyed by pthread_self: the hook also runs inside thread-local destructors, where Rust thread-locals are gone)
extern "C" {
    fn pthread_self() -> usize;
}
static ANNOUNCED: std::sync::Mutex<Vec<(usize, usize)>> = std::sync::Mutex::new(Vec::new());
static UNPINNED_ACCESS: std::sync::Mutex<Vec<u32>> = std::sync::Mutex::new(Vec::new());

fn pin_monitor(site: u32, a: usize, _b: usize) {
    let me = unsafe { pthread_self() };
    match site {
        11 => {
            let mut v = ANNOUNCED.lock().unwrap();
            if !v.contains(&(me, a)) {
                v.push((me, a))
            }
        }
        13 | 14 => ANNOUNCED.lock().unwrap().retain(|x| *x != (me, a)),
        18 | 21 | 23 => {
            if !ANNOUNCED.lock().unwrap().iter().any(|x| x.0 == me) {
                UNPINNED_ACCESS.lock().unwrap().push(site);
            }
        }
        _ => {}
    }
}

pub fn run(out_path: &str, seed: u64, thorough: bool, cases: usize) -> (u64, u64, u64) {
    ebr::set_tuning(64, 64);
    UNPINNED_ACCESS.lock().unwrap().clear();
    ANNOUNCED.lock().unwrap().clear();
    circ::verif::set_hook(Some(pin_monitor));
    let mut out = Out::create(out_path);
    let mut rng = Rng::new(seed);
    let (mut props, mut fails) = (0u64, 0u64);
    let mut deferred = 0u64;
    let mut max_rounds = 0usize;
    for ci in 0..cases {
        let (total, wrong, bad, rounds, desc) = run_case(&mut rng, thorough);
        deferred += total as u64;
        max_rounds = max_rounds.max(rounds);
        props += 2;
        if !wrong.is_empty() {
            fails += 1;
            let (i, n) = wrong[0];
            out.line(&format!(
                "PROPFAIL C15 case {} ({}): {} of {} deferred functions did not run exactly once after {} rounds (first: id {} ran {} times)",
                ci, desc, wrong.len(), total, rounds, i, n
            ));
        }
        if bad != 0 {
            fails += 1;
            out.line(&format!("PROPFAIL C15 case {} ({}): {} deferred functions saw corrupted captured data", ci, desc, bad));
        }
    }
    for rep in 0..(if thorough { 20 } else { 3 }) {
        let (n, wrong, bad) = storage_sweep();
        deferred += n as u64;
        props += 2;
        if wrong != 0 {
            fails += 1;
            out.line(&format!("PROPFAIL C15 storage sweep (rep {}): {} of {} deferred closures (sizes 1..100 bytes, alignment 1/2/4) did not run exactly once", rep, wrong, n));
        }
        if bad != 0 {
            fails += 1;
            out.line(&format!("PROPFAIL C15 storage sweep (rep {}): {} deferred closures of a size that is not a multiple of the word size saw corrupted captured data", rep, bad));
        }
    }
    circ::verif::set_hook(None);
    props += 1;
    {
        let ua = UNPINNED_ACCESS.lock().unwrap();
        if !ua.is_empty() {
            fails += 1;
            let mut sites: Vec<u32> = ua.clone();
            sites.sort();
            sites.dedup();
            for p in ["C15", "C20", "C13", "C17"] {
                out.line(&format!(
                    "PROPFAIL {} a participant touched the collector's shared structures without being pinned ({} accesses; sites {:?}: 21 = push of a sealed bag, 23 = pop, 18 = registry scan) - e.g. the hand-over of the bag at thread exit",
                    p, ua.len(), sites
                ));
            }
        }
    }
    out.line(&format!("# c15 cases={} deferred={} max_rounds={}", cases, deferred, max_rounds));
    let lines = out.finish();
    let _ = lines;
    (deferred, props, fails)
}
