//! C15 (implementation side, free-running threads on a private collector): every deferred function runs
//! exactly once with its captured data intact -- from a thread-local bag, after a flush, after a bag
//! overflow, and when the deferring thread exits with garbage pending -- after a bounded number of
//! pin/flush/unpin rounds of a surviving thread.  Closure sizes/alignments cover inline and boxed storage.
use crate::util::{Out, Rng};
use circ::verif::ebr::{self, Collector};
use std::sync::atomic::{AtomicU32, Ordering::SeqCst};
use std::sync::Arc;

struct Table {
    ran: Vec<AtomicU32>,
    bad: AtomicU32,
}

#[repr(align(16))]
struct A16<const N: usize>([u8; N]);
#[repr(align(64))]
struct A64<const N: usize>([u8; N]);

fn pattern(id: usize, i: usize) -> u8 {
    (id.wrapping_mul(31).wrapping_add(i * 7) & 0xff) as u8
}

fn fill<const N: usize>(id: usize) -> [u8; N] {
    let mut a = [0u8; N];
    for (i, b) in a.iter_mut().enumerate() {
        *b = pattern(id, i);
    }
    a
}

fn check(id: usize, a: &[u8], t: &Table) {
    for (i, b) in a.iter().enumerate() {
        if *b != pattern(id, i) {
            t.bad.fetch_add(1, SeqCst);
            return;
        }
    }
}

macro_rules! defer_sized {
    ($g:expr, $t:expr, $id:expr, $n:expr, $wrap:ident) => {{
        let data = $wrap::<$n>(fill::<$n>($id));
        let t = $t.clone();
        let id = $id;
        unsafe {
            ebr::defer($g, move || {
                check(id, &data.0, &t);
                t.ran[id].fetch_add(1, SeqCst);
            })
        }
    }};
}

struct A1<const N: usize>([u8; N]);

/// kind selects capture size and alignment (inline storage holds 3 words = 24 bytes incl. the Arc and the id)
fn defer_kind(g: &circ::Guard, t: &Arc<Table>, id: usize, kind: u64) {
    match kind % 9 {
        0 => defer_sized!(g, t, id, 0, A1),
        1 => defer_sized!(g, t, id, 1, A1),
        2 => defer_sized!(g, t, id, 8, A1),
        3 => defer_sized!(g, t, id, 24, A1),
        4 => defer_sized!(g, t, id, 200, A1),
        5 => defer_sized!(g, t, id, 16, A16),
        6 => defer_sized!(g, t, id, 48, A16),
        7 => defer_sized!(g, t, id, 64, A64),
        _ => defer_sized!(g, t, id, 4096, A64),
    }
}

pub struct Case {
    pub threads: usize,
    pub per_thread: Vec<usize>,
    pub exit_mode: Vec<u64>,
}

/// returns (ids deferred, ids that ran != once, corrupted captures, rounds used)
pub fn run_case(rng: &mut Rng, thorough: bool) -> (usize, Vec<(usize, u32)>, u32, usize, String) {
    let c = Collector::new();
    let nthreads = 1 + rng.below(4) as usize;
    let mut per = vec![];
    let mut total = 0usize;
    for _ in 0..nthreads {
        // around the bag capacity (64): empty, partial, exactly full, overflowing several times
        let k = match rng.below(6) {
            0 => 0,
            1 => 1 + rng.below(10) as usize,
            2 => 63 + rng.below(3) as usize,
            3 => 64 * (1 + rng.below(3) as usize),
            4 => 100 + rng.below(if thorough { 2000 } else { 300 }) as usize,
            _ => rng.below(64) as usize,
        };
        per.push(k);
        total += k;
    }
    let table = Arc::new(Table { ran: (0..total).map(|_| AtomicU32::new(0)).collect(), bad: AtomicU32::new(0) });
    let mut desc = format!("threads={} per_thread={:?} modes=", nthreads, per);
    let mut joins = vec![];
    let mut base = 0usize;
    for ti in 0..nthreads {
        let k = per[ti];
        let mode = rng.below(5);
        let kinds: Vec<u64> = (0..k).map(|_| rng.below(9)).collect();
        desc.push_str(&format!("{} ", mode));
        let c2 = c.clone();
        let t2 = table.clone();
        let b = base;
        joins.push(std::thread::spawn(move || {
            let h = c2.register();
            let g = h.pin();
            for (j, kd) in kinds.iter().enumerate() {
                defer_kind(&g, &t2, b + j, *kd);
                if mode == 3 && j % 37 == 5 {
                    g.flush();
                }
            }
            match mode {
                0 => {
                    // plain exit: guard, then handle
                    drop(g);
                    drop(h);
                }
                1 => {
                    // handle dropped first; the guard keeps the participant alive until it is dropped
                    drop(h);
                    drop(g);
                }
                2 => {
                    // flush before leaving
                    g.flush();
                    drop(g);
                    drop(h);
                }
                3 => {
                    // a second guard and a re-pin in between
                    let g2 = h.pin();
                    drop(g);
                    drop(g2);
                    let g3 = h.pin();
                    drop(g3);
                    drop(h);
                }
                _ => {
                    // a clone of the guard's handle outlives the first one
                    let h2 = c2.register();
                    drop(g);
                    drop(h);
                    let g4 = h2.pin();
                    drop(g4);
                    drop(h2);
                }
            }
        }));
        base += k;
    }
    for j in joins {
        let _ = j.join();
    }
    // a surviving participant runs rounds
    let h = c.register();
    let mut rounds = 0usize;
    // every bag is sealed at an epoch <= now; each round may advance once and pops up to COLLECTS_TRIALS bags
    let bags = total / 32 + nthreads + 4;
    let bound = 8 + 2 * bags;
    while rounds < bound && table.ran.iter().any(|a| a.load(SeqCst) == 0) {
        let g = h.pin();
        g.flush();
        drop(g);
        rounds += 1;
    }
    // a few more rounds must not run anything twice
    for _ in 0..4 {
        let g = h.pin();
        g.flush();
        drop(g);
    }
    drop(h);
    let wrong: Vec<(usize, u32)> = table.ran.iter().enumerate().map(|(i, a)| (i, a.load(SeqCst))).filter(|(_, n)| *n != 1).collect();
    desc.push_str(&format!("bound={}", bound));
    (total, wrong, table.bad.load(SeqCst), rounds, desc)
}

pub fn run(out_path: &str, seed: u64, thorough: bool, cases: usize) -> (u64, u64, u64) {
    ebr::set_tuning(64, 64);
    let mut out = Out::create(out_path);
    let mut rng = Rng::new(seed);
    let (mut props, mut fails) = (0u64, 0u64);
    let mut deferred = 0u64;
    let mut max_rounds = 0usize;
    for ci in 0..cases {
        let (total, wrong, bad, rounds, desc) = run_case(&mut rng, thorough);
        deferred += total as u64;
        max_rounds = max_rounds.max(rounds);
        props += 2;
        if !wrong.is_empty() {
            fails += 1;
            let (i, n) = wrong[0];
            out.line(&format!(
                "PROPFAIL C15 case {} ({}): {} of {} deferred functions did not run exactly once after {} rounds (first: id {} ran {} times)",
                ci, desc, wrong.len(), total, rounds, i, n
            ));
        }
        if bad != 0 {
            fails += 1;
            out.line(&format!("PROPFAIL C15 case {} ({}): {} deferred functions saw corrupted captured data", ci, desc, bad));
        }
    }
    out.line(&format!("# c15 cases={} deferred={} max_rounds={}", cases, deferred, max_rounds));
    let lines = out.finish();
    let _ = lines;
    (deferred, props, fails)
}
