//! Common parts of the scheduler-driven correspondence cases: canonicalisation and line output.
use crate::sched::Step;
use std::collections::HashMap;

/// Renames addresses to small ids in order of registration. 0 stays 0 (null).
#[derive(Default)]
pub struct Canon {
    map: HashMap<usize, i64>,
    next: i64,
}

impl Canon {
    pub fn new() -> Self {
        Canon { map: HashMap::new(), next: 1 }
    }
    /// registers (or re-registers after reuse) an address as a fresh id
    pub fn fresh(&mut self, addr: usize) -> i64 {
        let id = self.next;
        self.next += 1;
        self.map.insert(addr, id);
        id
    }
    pub fn get(&self, addr: usize) -> i64 {
        if addr == 0 {
            0
        } else {
            *self.map.get(&addr).unwrap_or(&-1)
        }
    }
}

/// `model prog.. | sched.. | step ; step ; ..` with each step `site a b site a b ..`
pub fn case_line<A: std::fmt::Display, B: std::fmt::Display>(model: &str, prog: &[i64], sched: &[usize], steps: &[Vec<(u32, A, B)>]) -> String {
    let mut s = String::new();
    s.push_str(model);
    for p in prog {
        s.push(' ');
        s.push_str(&p.to_string());
    }
    s.push_str(" |");
    for t in sched {
        s.push(' ');
        s.push_str(&t.to_string());
    }
    s.push_str(" |");
    for (i, st) in steps.iter().enumerate() {
        if i > 0 {
            s.push_str(" ;");
        }
        for (site, a, b) in st {
            s.push_str(&format!(" {} {} {}", site, a, b));
        }
    }
    s
}

pub fn sched_of(trace: &[Step]) -> Vec<usize> {
    trace.iter().map(|s| s.tid).collect()
}
