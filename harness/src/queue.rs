//! M4 correspondence: the Michael-Scott queue of ebr_impl/sync/queue.rs under the cooperative
//! scheduler, queue yield sites 30..44 enabled, one private collector, one guard per thread held
//! for the whole case (so no node is reclaimed and no address is reused inside a case).
//!
//! Program encoding (per thread, flattened): `-1` starts a thread, then ops:
//!   0 v      push v
//!   1        try_pop
//!   2 c      try_pop_if(|x| x < c)
use crate::conc::{case_line, sched_of, Canon};
use crate::sched::{self, policy};
use crate::util::Rng;
use circ::verif::ebr::{Collector, VQueue};
use std::sync::Arc;

fn enabled(site: u32) -> bool {
    site == 1 || (30..=44).contains(&site)
}

#[derive(Clone, Debug)]
pub enum Op {
    Push(u64),
    Pop,
    PopIf(u64),
}

pub fn gen_program(rng: &mut Rng, thorough: bool) -> Vec<Vec<Op>> {
    let nt = 2 + rng.below(if thorough { 3 } else { 2 }) as usize;
    let mut next_val = 1u64;
    (0..nt)
        .map(|_| {
            let n = 1 + rng.below(if thorough { 6 } else { 4 }) as usize;
            (0..n)
                .map(|_| match rng.below(10) {
                    0..=4 => {
                        let v = next_val;
                        next_val += 1;
                        Op::Push(v)
                    }
                    5..=7 => Op::Pop,
                    _ => Op::PopIf(rng.below(next_val + 2)),
                })
                .collect()
        })
        .collect()
}

/// contended consumers: thread 0 fills the queue first (the schedule runs it alone until its pushes are done),
/// then several threads pop / conditionally pop at the same time
pub fn gen_contended(rng: &mut Rng, thorough: bool) -> (Vec<Vec<Op>>, usize) {
    let m = 3 + rng.below(if thorough { 5 } else { 3 }) as usize;
    let nt = 3 + rng.below(2) as usize;
    let mut t0: Vec<Op> = (1..=m as u64).map(Op::Push).collect();
    t0.push(Op::Pop);
    let mut prog = vec![t0];
    for _ in 1..nt {
        let n = 1 + rng.below(3) as usize;
        prog.push((0..n).map(|_| if rng.chance(1, 2) { Op::Pop } else { Op::PopIf(m as u64 + 1 + rng.below(2)) }).collect());
    }
    (prog, m)
}

pub fn encode(prog: &[Vec<Op>]) -> Vec<i64> {
    let mut out = vec![];
    for t in prog {
        out.push(-1);
        for op in t {
            match op {
                Op::Push(v) => out.extend([0, *v as i64]),
                Op::Pop => out.push(1),
                Op::PopIf(c) => out.extend([2, *c as i64]),
            }
        }
    }
    out
}

/// runs one case; returns the case line and the popped values per thread (for the FIFO monitor)
pub fn run_case(prog: &[Vec<Op>], rng: &mut Rng, script: Option<Vec<usize>>) -> (String, Vec<String>) {
    run_case_prefill(prog, rng, script, 0)
}

/// Starvation choreography for `try_pop_if`: thread 0 pushes m values and ends; thread 1 (the victim) calls
/// try_pop_if with a predicate every element satisfies; thread 2 (the thief) pops k < m times.  The director lets the
/// victim run up to its head CAS (site 42), lets the thief complete one pop, lets the victim lose the CAS, and so
/// on: the victim loses k races in a row while the queue is never empty.  It must keep trying and finally succeed:
/// an "empty" answer contradicts C17 (caught by the history monitor and by the model replay).
pub fn run_case_starve(m: usize, k: usize, rng: &mut Rng) -> (String, Vec<String>) {
    let prog: Vec<Vec<Op>> = vec![
        (1..=m as u64).map(Op::Push).collect(),
        vec![Op::PopIf(m as u64 + 5)],
        (0..k).map(|_| Op::Pop).collect(),
    ];
    run_case_inner(&prog, rng, None, m, true)
}

/// Stale-predicate choreography: the queue holds [1, 100]; the victim's try_pop_if(|x| x < 50) has evaluated its
/// predicate on 1 when the thief pops 1.  The victim must not remove 100 (its predicate rejects it).
pub fn run_case_stale_predicate(rng: &mut Rng) -> (String, Vec<String>) {
    let prog: Vec<Vec<Op>> = vec![vec![Op::Push(1), Op::Push(100)], vec![Op::PopIf(50)], vec![Op::Pop]];
    run_case_inner(&prog, rng, None, 2, true)
}

/// Tail-lag choreography: the producer has linked its node (site 33) but not yet swung the tail (site 34) when the
/// consumer removes that node; the consumer finds head == tail and tries to help (sites 38/39, 43/44) just after the
/// producer has swung the tail itself, so the helping CAS fails.  The element must still be returned.
pub fn run_case_tail_lag(conditional: bool, rng: &mut Rng) -> (String, Vec<String>) {
    let prog: Vec<Vec<Op>> = vec![vec![Op::Push(7)], vec![if conditional { Op::PopIf(50) } else { Op::Pop }]];
    run_case_full(&prog, rng, None, 0, Director::TailLag)
}

/// `prefill`: thread 0 runs alone until it has completed that many operations
pub fn run_case_prefill(prog: &[Vec<Op>], rng: &mut Rng, script: Option<Vec<usize>>, prefill: usize) -> (String, Vec<String>) {
    run_case_inner(prog, rng, script, prefill, false)
}

#[derive(Clone, Copy, PartialEq)]
enum Director {
    None,
    Starve,
    TailLag,
}

fn run_case_inner(prog: &[Vec<Op>], rng: &mut Rng, script: Option<Vec<usize>>, prefill: usize, starve: bool) -> (String, Vec<String>) {
    run_case_full(prog, rng, script, prefill, if starve { Director::Starve } else { Director::None })
}

fn run_case_full(prog: &[Vec<Op>], rng: &mut Rng, script: Option<Vec<usize>>, prefill: usize, director: Director) -> (String, Vec<String>) {
    let starve = director == Director::Starve;
    let collector = Collector::new();
    let q = Arc::new(VQueue::new());
    let sentinel = q.head_addr();
    let mut bodies: Vec<Box<dyn FnOnce() + Send>> = vec![];
    for ops in prog.iter().cloned() {
        let q = q.clone();
        let c = collector.clone();
        bodies.push(Box::new(move || {
            let h = c.register();
            let g = h.pin();
            sched::arm(true);
            for op in ops {
                match op {
                    Op::Push(v) => {
                        sched::obs(1, 0, v as usize);
                        q.push(v, &g);
                        sched::obs(2000, 2, 0);
                    }
                    Op::Pop => {
                        sched::obs(1, 1, 0);
                        match q.try_pop(&g) {
                            Some(v) => sched::obs(2000, 1, v as usize),
                            None => sched::obs(2000, 0, 0),
                        }
                    }
                    Op::PopIf(c) => {
                        sched::obs(1, 2, c as usize);
                        let r = q.try_pop_if(
                            |x| {
                                let r = *x < c;
                                sched::obs(2001, *x as usize, r as usize);
                                r
                            },
                            &g,
                        );
                        match r {
                            Some(v) => sched::obs(2000, 1, v as usize),
                            None => sched::obs(2000, 0, 0),
                        }
                    }
                }
            }
            // leave the critical section outside the recorded part
            sched::obs(1, 9, 0);
            sched::arm(false);
            drop(g);
            drop(h);
        }));
    }
    let nt = prog.len();
    let res = match script {
        Some(s) => sched::run(bodies, enabled, 100_000, &mut policy::scripted(s)),
        None if starve => {
            let mut chooser = move |r: &[usize], _k: usize, trace: &[sched::Step]| {
                let pick = |t: usize| r.iter().position(|&x| x == t);
                if let Some(i) = pick(0) {
                    return i; // fill the queue first
                }
                // the victim waits at its head CAS iff its last step began with site 41 (load of head.next)
                let at_cas = trace.iter().rev().find(|st| st.tid == 1).map(|st| st.obs.first().map(|o| o.0) == Some(41)).unwrap_or(false);
                let cas_done = trace.iter().filter(|st| st.tid == 1 && st.obs.first().map(|o| o.0) == Some(42)).count();
                let thief_pops = trace.iter().filter(|st| st.tid == 2).map(|st| st.obs.iter().filter(|o| o.0 == 2000).count()).sum::<usize>();
                if at_cas && thief_pops <= cas_done {
                    if let Some(i) = pick(2) {
                        return i;
                    }
                }
                pick(1).or(pick(2)).unwrap_or(0)
            };
            sched::run_observed(bodies, enabled, 100_000, &mut chooser)
        }
        None if director == Director::TailLag => {
            let mut chooser = move |r: &[usize], _k: usize, trace: &[sched::Step]| {
                let pick = |t: usize| r.iter().position(|&x| x == t);
                let first = |st: &sched::Step| st.obs.first().map(|o| o.0);
                let p_linked = trace.iter().any(|st| st.tid == 0 && first(st) == Some(33));
                let p_swung = trace.iter().any(|st| st.tid == 0 && first(st) == Some(34));
                // the consumer has loaded the tail (site 38 / 43 executed) and now waits at its helping CAS
                let c_at_help = trace.iter().rev().find(|st| st.tid == 1).map(|st| matches!(first(st), Some(38) | Some(43))).unwrap_or(false);
                if !p_linked {
                    return pick(0).or(pick(1)).unwrap_or(0);
                }
                if !p_swung {
                    if c_at_help {
                        return pick(0).or(pick(1)).unwrap_or(0); // the producer swings the tail now
                    }
                    return pick(1).or(pick(0)).unwrap_or(0);
                }
                pick(1).or(pick(0)).unwrap_or(0)
            };
            sched::run_observed(bodies, enabled, 100_000, &mut chooser)
        }
        None if prefill > 0 => {
            let mut r2 = Rng::new(rng.next());
            let mut chooser = move |r: &[usize], _k: usize, trace: &[sched::Step]| {
                let done = trace.iter().filter(|st| st.tid == 0).map(|st| st.obs.iter().filter(|o| o.0 == 2000).count()).sum::<usize>();
                if done < prefill {
                    if let Some(i) = r.iter().position(|&t| t == 0) {
                        return i;
                    }
                }
                r2.below(r.len() as u64) as usize
            };
            sched::run_observed(bodies, enabled, 100_000, &mut chooser)
        }
        None => {
            if rng.chance(1, 2) {
                sched::run(bodies, enabled, 100_000, &mut policy::uniform(rng))
            } else {
                let mut p = policy::pct(rng, nt, 60, 3);
                sched::run(bodies, enabled, 100_000, &mut p)
            }
        }
    };
    // canonicalise
    let mut canon = Canon::new();
    canon.fresh(sentinel);
    let mut steps: Vec<Vec<(u32, i64, i64)>> = vec![];
    let mut monitor = vec![];
    let mut pushed_order: Vec<i64> = vec![]; // by linearisation (successful CAS at site 33 detected via result)
    for st in &res.trace {
        let mut out = vec![];
        for &(site, a, b) in &st.obs {
            match site {
                1 | 2000 | 2001 => out.push((site, a as i64, b as i64)),
                1229 => {
                    let id = canon.fresh(a);
                    out.push((site, id, 0));
                }
                30..=44 | 1230..=1243 => out.push((site, canon.get(a), canon.get(b))),
                _ => {} // EBR-internal observations are not part of this model
            }
        }
        steps.push(out);
    }
    let _ = &mut pushed_order;
    monitor.extend(history_monitor(&res.trace));
    // conservation: what was pushed (push completed) and never returned by a pop must still be in the queue
    {
        let h = collector.register();
        let g = h.pin();
        let mut left: Vec<u64> = vec![];
        while let Some(v) = q.try_pop(&g) {
            left.push(v);
            if left.len() > 100_000 {
                break;
            }
        }
        drop(g);
        let mut popped: Vec<u64> = vec![];
        let mut pushed_done: Vec<u64> = vec![];
        for st in &res.trace {
            let mut cur_push: Option<u64> = None;
            for &(site, a, b) in &st.obs {
                if site == 1 && a == 0 {
                    cur_push = Some(b as u64);
                }
                if site == 2000 && a == 1 {
                    popped.push(b as u64);
                }
                let _ = cur_push;
            }
        }
        // completed pushes: a `1 0 v` observation later followed (same thread) by `2000 2 0`
        let nt = prog.len();
        for t in 0..nt {
            let mut pending: Option<u64> = None;
            for st in res.trace.iter().filter(|st| st.tid == t) {
                for &(site, a, b) in &st.obs {
                    if site == 1 && a == 0 {
                        pending = Some(b as u64);
                    } else if site == 2000 && a == 2 {
                        if let Some(v) = pending.take() {
                            pushed_done.push(v);
                        }
                    }
                }
            }
        }
        if !res.truncated && !res.panicked.iter().any(|&p| p) {
            for v in &pushed_done {
                if !popped.contains(v) && !left.contains(v) {
                    monitor.push(format!("PROPFAIL C17 value {} was pushed (the push completed) but no pop returned it and it is not in the queue at the end: lost element", v));
                }
            }
            for v in &left {
                if popped.contains(v) {
                    monitor.push(format!("PROPFAIL C17 value {} was returned by a pop and is still in the queue at the end", v));
                }
            }
        }
    }
    if res.panicked.iter().any(|&p| p) {
        monitor.push("PROPFAIL C17 a model thread panicked".to_string());
    }
    (case_line("queue", &encode(prog), &sched_of(&res.trace), &steps), monitor)
}


/// Model-independent checks of the recorded history against a sequential FIFO queue (necessary conditions of
/// linearizability, enough to exhibit: a conditional pop returning an element its predicate rejects, a lost or
/// duplicated element, a reordering, an "empty" answer while an acceptable element was in the queue all along).
fn history_monitor(trace: &[sched::Step]) -> Vec<String> {
    #[derive(Clone, Debug)]
    struct O {
        tid: usize,
        kind: usize, // 0 push, 1 pop, 2 pop_if
        arg: usize,
        res: Option<usize>, // popped value
        start: usize,
        end: usize,
    }
    let mut open: std::collections::HashMap<usize, O> = std::collections::HashMap::new();
    let mut ops: Vec<O> = vec![];
    for (k, st) in trace.iter().enumerate() {
        for &(site, a, b) in &st.obs {
            if site == 1 && a <= 2 {
                open.insert(st.tid, O { tid: st.tid, kind: a, arg: b, res: None, start: k, end: usize::MAX });
            } else if site == 2000 {
                if let Some(mut o) = open.remove(&st.tid) {
                    o.end = k;
                    if a == 1 {
                        o.res = Some(b);
                    }
                    ops.push(o);
                }
            }
        }
    }
    let mut out = vec![];
    let push_of = |v: usize| ops.iter().find(|o| o.kind == 0 && o.arg == v);
    // pushes still open at the end of the trace count as started
    let open_push = |v: usize| open.values().find(|o| o.kind == 0 && o.arg == v).map(|o| o.start);
    let popper = |v: usize| ops.iter().filter(|o| o.kind != 0 && o.res == Some(v)).collect::<Vec<_>>();
    for o in ops.iter().filter(|o| o.kind != 0) {
        if let Some(v) = o.res {
            let ps = push_of(v).map(|p| p.start).or(open_push(v));
            match ps {
                None => out.push(format!("PROPFAIL C17 thread {} popped {} which was never pushed", o.tid, v)),
                Some(s) if s > o.end => out.push(format!("PROPFAIL C17 thread {} popped {} before its push began", o.tid, v)),
                _ => {}
            }
            if popper(v).len() > 1 {
                out.push(format!("PROPFAIL C17 value {} was popped {} times", v, popper(v).len()));
            }
            if o.kind == 2 && v >= o.arg {
                out.push(format!("PROPFAIL C17 thread {}: try_pop_if(|x| x < {}) returned {} which its predicate rejects", o.tid, o.arg, v));
            }
        }
    }
    // FIFO: v1 pushed entirely before v2 => v2 is not removed unless v1 was removed first
    let pushes: Vec<&O> = ops.iter().filter(|o| o.kind == 0).collect();
    for p1 in &pushes {
        for p2 in &pushes {
            if p1.end < p2.start {
                let r1 = popper(p1.arg);
                let r2 = popper(p2.arg);
                if let Some(q2) = r2.first() {
                    match r1.first() {
                        None => out.push(format!("PROPFAIL C17 {} was pushed before {} but {} was popped (by thread {}) while {} never was", p1.arg, p2.arg, p2.arg, q2.tid, p1.arg)),
                        Some(q1) if q2.end < q1.start => out.push(format!("PROPFAIL C17 {} was pushed before {} but popped after it (FIFO order)", p1.arg, p2.arg)),
                        _ => {}
                    }
                }
            }
        }
    }
    // None although an acceptable element was in the queue during the whole call
    for o in ops.iter().filter(|o| o.kind != 0 && o.res.is_none()) {
        let present_throughout: Vec<usize> = pushes
            .iter()
            .filter(|p| p.end < o.start && popper(p.arg).iter().all(|q| q.start > o.end))
            .map(|p| p.arg)
            .collect();
        if present_throughout.is_empty() {
            continue;
        }
        // every element that may have been in the queue at some instant of the call
        let possibly: Vec<usize> = ops
            .iter()
            .filter(|p| p.kind == 0 && p.start < o.end && popper(p.arg).iter().all(|q| q.end > o.start))
            .map(|p| p.arg)
            .chain(open.values().filter(|p| p.kind == 0 && p.start < o.end).map(|p| p.arg))
            .collect();
        let acceptable = |v: usize| o.kind == 1 || v < o.arg;
        if possibly.iter().all(|&v| acceptable(v)) {
            out.push(format!(
                "PROPFAIL C17 thread {}: {} returned None although {:?} stayed in the queue during the whole call and every element it could have seen is acceptable",
                o.tid,
                if o.kind == 1 { "try_pop".to_string() } else { format!("try_pop_if(|x| x < {})", o.arg) },
                present_throughout
            ));
        }
    }
    out.truncate(3);
    out
}
