//! M4 correspondence: the Michael-Scott queue of ebr_impl/sync/queue.rs under the cooperative
//! scheduler, queue yield sites 30..44 enabled, one private collector, one guard per thread held
//! for the whole case (so no node is reclaimed and no address is reused inside a case).
//!
//! Program encoding (per thread, flattened): `-1` starts a thread, then ops:
//!   0 v      push v
//!   1        try_pop
//!   2 c      try_pop_if(|x| x < c)
use crate::conc::{case_line, sched_of, Canon};
use crate::sched::{self, policy};
use crate::util::Rng;
use circ::verif::ebr::{Collector, VQueue};
use std::sync::Arc;

fn enabled(site: u32) -> bool {
    site == 1 || (30..=44).contains(&site)
}

#[derive(Clone, Debug)]
pub enum Op {
    Push(u64),
    Pop,
    PopIf(u64),
}

pub fn gen_program(rng: &mut Rng, thorough: bool) -> Vec<Vec<Op>> {
    let nt = 2 + rng.below(if thorough { 3 } else { 2 }) as usize;
    let mut next_val = 1u64;
    (0..nt)
        .map(|_| {
            let n = 1 + rng.below(if thorough { 6 } else { 4 }) as usize;
            (0..n)
                .map(|_| match rng.below(10) {
                    0..=4 => {
                        let v = next_val;
                        next_val += 1;
                        Op::Push(v)
                    }
                    5..=7 => Op::Pop,
                    _ => Op::PopIf(rng.below(next_val + 2)),
                })
                .collect()
        })
        .collect()
}

pub fn encode(prog: &[Vec<Op>]) -> Vec<i64> {
    let mut out = vec![];
    for t in prog {
        out.push(-1);
        for op in t {
            match op {
                Op::Push(v) => out.extend([0, *v as i64]),
                Op::Pop => out.push(1),
                Op::PopIf(c) => out.extend([2, *c as i64]),
            }
        }
    }
    out
}

/// runs one case; returns the case line and the popped values per thread (for the FIFO monitor)
pub fn run_case(prog: &[Vec<Op>], rng: &mut Rng, script: Option<Vec<usize>>) -> (String, Vec<String>) {
    let collector = Collector::new();
    let q = Arc::new(VQueue::new());
    let sentinel = q.head_addr();
    let mut bodies: Vec<Box<dyn FnOnce() + Send>> = vec![];
    for ops in prog.iter().cloned() {
        let q = q.clone();
        let c = collector.clone();
        bodies.push(Box::new(move || {
            let h = c.register();
            let g = h.pin();
            sched::arm(true);
            for op in ops {
                match op {
                    Op::Push(v) => {
                        sched::obs(1, 0, v as usize);
                        q.push(v, &g);
                        sched::obs(2000, 2, 0);
                    }
                    Op::Pop => {
                        sched::obs(1, 1, 0);
                        match q.try_pop(&g) {
                            Some(v) => sched::obs(2000, 1, v as usize),
                            None => sched::obs(2000, 0, 0),
                        }
                    }
                    Op::PopIf(c) => {
                        sched::obs(1, 2, c as usize);
                        let r = q.try_pop_if(
                            |x| {
                                let r = *x < c;
                                sched::obs(2001, *x as usize, r as usize);
                                r
                            },
                            &g,
                        );
                        match r {
                            Some(v) => sched::obs(2000, 1, v as usize),
                            None => sched::obs(2000, 0, 0),
                        }
                    }
                }
            }
            // leave the critical section outside the recorded part
            sched::obs(1, 9, 0);
            sched::arm(false);
            drop(g);
            drop(h);
        }));
    }
    let nt = prog.len();
    let res = match script {
        Some(s) => sched::run(bodies, enabled, 100_000, &mut policy::scripted(s)),
        None => {
            if rng.chance(1, 2) {
                sched::run(bodies, enabled, 100_000, &mut policy::uniform(rng))
            } else {
                let mut p = policy::pct(rng, nt, 60, 3);
                sched::run(bodies, enabled, 100_000, &mut p)
            }
        }
    };
    // canonicalise
    let mut canon = Canon::new();
    canon.fresh(sentinel);
    let mut steps: Vec<Vec<(u32, i64, i64)>> = vec![];
    let mut monitor = vec![];
    let mut pushed_order: Vec<i64> = vec![]; // by linearisation (successful CAS at site 33 detected via result)
    for st in &res.trace {
        let mut out = vec![];
        for &(site, a, b) in &st.obs {
            match site {
                1 | 2000 | 2001 => out.push((site, a as i64, b as i64)),
                1229 => {
                    let id = canon.fresh(a);
                    out.push((site, id, 0));
                }
                30..=44 | 1230..=1243 => out.push((site, canon.get(a), canon.get(b))),
                _ => {} // EBR-internal observations are not part of this model
            }
        }
        steps.push(out);
    }
    let _ = &mut pushed_order;
    if res.panicked.iter().any(|&p| p) {
        monitor.push("PROPFAIL C17 a model thread panicked".to_string());
    }
    (case_line("queue", &encode(prog), &sched_of(&res.trace), &steps), monitor)
}
