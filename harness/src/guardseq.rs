//! Sequential guard / thread-lifetime streams (model M6, properties C16 and C20).
//!
//! `@guard <MAX_OBJECTS> <encoded program> => <observations>`: a random program of guard
//! operations is run on a fresh private `Collector` + `LocalHandle` in the current thread; after
//! every operation the 8 numbers of `handle_info` and the ids of the closures executed during the
//! operation are appended, terminated by -1.  The Coq function `GuardSeq.guard_line` must compute
//! exactly the part after `=>` from the part before it.
//!
//! `@tls <MAX_OBJECTS> <order> <api-kind>.. => <dropped> <destructed>`: a real thread whose
//! thread-local object's destructor calls the public API, with the participant handle initialised
//! before (order 0) / after (order 1) the user's thread-local, or not at all (order 2).
//! `GuardSeq.tls_line` computes the two counts.
//!
//! The properties C16 / C20 are also checked directly on the implementation; a violated check
//! writes a `PROPFAIL C16 ..` / `PROPFAIL C20 ..` line.
//!
//! Program encoding (same grammar for closure bodies, which address their own guards):
//!   1 = Cs | 2 i = DropGuard i | 3 i = Reactivate i | 4 i p = ReactivateAfter i (p=1: panics)
//!   5 i = Flush i | 6 i id n <n integers: body> = Defer | 7 = DropHandle | 8 = DropCollector
//!   9 = Probe (closure bodies only: the announced epoch e is reported as the pseudo id -(10+e))
use crate::util::{Out, Rng};
use circ::verif::ebr;
use std::mem::ManuallyDrop;
use std::panic::{catch_unwind, AssertUnwindSafe};
use std::sync::atomic::{AtomicUsize, Ordering};
use std::sync::Arc;

#[derive(Clone, Debug)]
pub enum Op {
    Cs,
    Drop(usize),
    React(usize),
    ReactAfter(usize, bool),
    Flush(usize),
    Defer(usize, i64, Vec<Op>),
    DropHandle,
    DropCollector,
    /// closure bodies only: report the announced epoch e as the pseudo id -(10 + e)
    Probe,
}

pub fn encode(ops: &[Op], out: &mut Vec<i64>) {
    for op in ops {
        match op {
            Op::Cs => out.push(1),
            Op::Drop(i) => out.extend([2, *i as i64]),
            Op::React(i) => out.extend([3, *i as i64]),
            Op::ReactAfter(i, p) => out.extend([4, *i as i64, *p as i64]),
            Op::Flush(i) => out.extend([5, *i as i64]),
            Op::Defer(i, id, body) => {
                let mut b = Vec::new();
                encode(body, &mut b);
                out.extend([6, *i as i64, *id, b.len() as i64]);
                out.extend(b);
            }
            Op::DropHandle => out.push(7),
            Op::DropCollector => out.push(8),
            Op::Probe => out.push(9),
        }
    }
}

/// Shared between the program and the closures it defers (raw pointer: the closures run in the
/// middle of `Guard::drop`, `reactivate`, ... of the very same participant).
struct Ctx {
    handle: ManuallyDrop<ebr::LocalHandle>,
    /// the participant is gone: closure bodies must not touch it any more
    dead: bool,
    executed: Vec<i64>,
    fails: Vec<String>,
    checks: u64,
}

struct Silent;

/// coverage counters of the `@guard` stream (printed by `run`)
pub static STATS: [AtomicUsize; 8] = [
    AtomicUsize::new(0), AtomicUsize::new(0), AtomicUsize::new(0), AtomicUsize::new(0),
    AtomicUsize::new(0), AtomicUsize::new(0), AtomicUsize::new(0), AtomicUsize::new(0),
];
const ST_NAMES: [&str; 8] = [
    "closures_run_in_collection", "with_nonempty_body", "closures_run_at_teardown", "react_sole_guard",
    "react_nested", "panicking_react_after", "finalize_in_last_unpin", "ops_inside_closures",
];
fn stat(i: usize) {
    STATS[i].fetch_add(1, Ordering::Relaxed);
}

unsafe fn info(ctx: *mut Ctx) -> [usize; 8] {
    ebr::handle_info(&(*ctx).handle)
}

unsafe fn check(ctx: *mut Ctx, ok: bool, what: impl FnOnce() -> String) {
    (*ctx).checks += 1;
    if !ok {
        let w = what();
        (*ctx).fails.push(w);
    }
}

/// One operation on the guard vector `lg` (the program's live guards or a closure's own guards).
unsafe fn exec(ctx: *mut Ctx, lg: &mut Vec<ebr_guard::Guard>, op: &Op) {
    match op {
        Op::Cs => {
            let g = (*ctx).handle.pin();
            lg.push(g);
        }
        Op::Drop(i) => {
            let g = lg.remove(*i);
            drop(g);
        }
        Op::React(i) => {
            let before = info(ctx);
            stat(if before[0] == 1 { 3 } else { 4 });
            lg[*i].reactivate();
            let after = info(ctx);
            check(ctx, after[2] == 1 && after[0] == before[0] && after[1] == before[1], || {
                format!("reactivate: before {:?} after {:?}", before, after)
            });
        }
        Op::ReactAfter(i, p) => {
            let before = info(ctx);
            let mut inside = [0usize; 8];
            let ins = &mut inside as *mut [usize; 8];
            stat(if before[0] == 1 { 3 } else { 4 });
            if *p {
                stat(5);
                let r = catch_unwind(AssertUnwindSafe(|| {
                    lg[*i].reactivate_after(|| {
                        *ins = info(ctx);
                        std::panic::panic_any(Silent);
                    })
                }));
                check(ctx, r.is_err(), || "reactivate_after: the panic was swallowed".to_string());
            } else {
                lg[*i].reactivate_after(|| {
                    *ins = info(ctx);
                });
            }
            let after = info(ctx);
            check(ctx, after[2] == 1 && after[0] == before[0] && after[1] == before[1], || {
                format!("reactivate_after(panics={}): before {:?} after {:?}", p, before, after)
            });
            // inside the closure the thread is unpinned iff this was the only guard
            let want_pinned = if before[0] == 1 { 0 } else { 1 };
            check(
                ctx,
                inside[2] == want_pinned && inside[0] == before[0] - 1 && inside[1] == before[1] + 1,
                || format!("reactivate_after(panics={}): before {:?} inside {:?}", p, before, inside),
            );
        }
        Op::Flush(i) => lg[*i].flush(),
        Op::Defer(i, id, body) => {
            let c = ctx as usize;
            let id = *id;
            let body = body.clone();
            ebr::defer(&lg[*i], move || run_closure(c as *mut Ctx, id, body));
        }
        Op::DropHandle => ManuallyDrop::drop(&mut (*ctx).handle),
        Op::DropCollector => unreachable!(),
        Op::Probe => {
            let e = info(ctx)[3] as i64;
            (*ctx).executed.push(-10 - e);
        }
    }
}

pub static TRACE: AtomicUsize = AtomicUsize::new(0);

unsafe fn run_closure(ctx: *mut Ctx, id: i64, body: Vec<Op>) {
    if TRACE.load(Ordering::Relaxed) != 0 && !(*ctx).dead {
        eprintln!("  closure {} starts: info {:?}", id, info(ctx));
    }
    (*ctx).executed.push(id);
    if (*ctx).dead {
        stat(2);
        return;
    }
    stat(0);
    if !body.is_empty() {
        stat(1);
    }
    let base = info(ctx)[0];
    let mut lg: Vec<ebr_guard::Guard> = Vec::new();
    for op in &body {
        exec(ctx, &mut lg, op);
        stat(7);
        if TRACE.load(Ordering::Relaxed) != 0 {
            eprintln!("    closure {} after {:?}: info {:?}", id, op, info(ctx));
        }
        // C16 inside a destructor: still pinned, guard_count = outer guards + the closure's own
        let inf = info(ctx);
        check(ctx, inf[2] == 1 && inf[0] == base + lg.len(), || {
            format!("inside closure {}: after {:?} info {:?} own guards {}", id, op, inf, lg.len())
        });
    }
    for g in lg.drain(..) {
        drop(g);
    }
}

mod ebr_guard {
    pub use circ::Guard;
}

/// Runs one program; returns the observations.
pub fn run_program(mo: usize, prog: &[Op], fails: &mut Vec<String>, checks: &mut u64) -> Vec<i64> {
    ebr::set_tuning(mo, 64);
    let collector = ebr::Collector::new();
    let handle = collector.register();
    let ctx = Box::into_raw(Box::new(Ctx {
        handle: ManuallyDrop::new(handle),
        dead: false,
        executed: Vec::new(),
        fails: Vec::new(),
        checks: 0,
    }));
    let mut coll = Some(collector);
    let mut live: Vec<ebr_guard::Guard> = Vec::new();
    let mut handle_alive = true;
    let mut freed = false;
    let mut obs: Vec<i64> = Vec::new();
    unsafe {
        for (k, op) in prog.iter().enumerate() {
            match op {
                Op::DropCollector => {
                    (*ctx).dead = true;
                    drop(coll.take());
                    freed = true;
                }
                Op::DropHandle => {
                    exec(ctx, &mut live, op);
                    handle_alive = false;
                }
                _ => {
                    if !handle_alive && live.len() == 1 && matches!(op, Op::Drop(_)) {
                        stat(6);
                    }
                    exec(ctx, &mut live, op)
                }
            }
            let inf = if freed { [0usize; 8] } else { info(ctx) };
            if TRACE.load(Ordering::Relaxed) != 0 {
                eprintln!("op #{} {:?}: info {:?} epoch {}", k, op, inf, coll.as_ref().map_or(0, |c| ebr::collector_epoch(c) >> 1));
            }
            obs.extend(inf.iter().map(|x| *x as i64));
            obs.extend((*ctx).executed.drain(..));
            obs.push(-1);
            if !freed {
                // C16 at every operation boundary
                check(
                    ctx,
                    (inf[2] == 1) == (inf[0] > 0)
                        && inf[0] == live.len()
                        && inf[1] == handle_alive as usize
                        && inf[4] == 0,
                    || format!("op #{} {:?}: info {:?} live guards {} handle {}", k, op, inf, live.len(), handle_alive),
                );
            }
        }
        assert!(live.is_empty() && freed, "generated programs end with the tear-down sequence");
        let c = Box::from_raw(ctx);
        fails.extend(c.fails.iter().cloned());
        *checks += c.checks;
    }
    obs
}

/// Decodes an encoded program (inverse of `encode`).
pub fn decode(xs: &[i64]) -> Vec<Op> {
    let mut ops = Vec::new();
    let mut i = 0;
    while i < xs.len() {
        match xs[i] {
            1 => { ops.push(Op::Cs); i += 1; }
            2 => { ops.push(Op::Drop(xs[i + 1] as usize)); i += 2; }
            3 => { ops.push(Op::React(xs[i + 1] as usize)); i += 2; }
            4 => { ops.push(Op::ReactAfter(xs[i + 1] as usize, xs[i + 2] != 0)); i += 3; }
            5 => { ops.push(Op::Flush(xs[i + 1] as usize)); i += 2; }
            6 => {
                let n = xs[i + 3] as usize;
                ops.push(Op::Defer(xs[i + 1] as usize, xs[i + 2], decode(&xs[i + 4..i + 4 + n])));
                i += 4 + n;
            }
            7 => { ops.push(Op::DropHandle); i += 1; }
            8 => { ops.push(Op::DropCollector); i += 1; }
            9 => { ops.push(Op::Probe); i += 1; }
            _ => panic!("bad encoding"),
        }
    }
    ops
}

/// Replays one `@guard` input (MAX_OBJECTS followed by the encoded program) with tracing.
pub fn replay(input: &str) {
    let xs: Vec<i64> = input.split_whitespace().map(|x| x.parse().unwrap()).collect();
    let prog = decode(&xs[1..]);
    TRACE.store(1, Ordering::Relaxed);
    let (mut fails, mut checks) = (Vec::new(), 0);
    let obs = run_program(xs[0] as usize, &prog, &mut fails, &mut checks);
    println!("{}", fmt_ints(&obs));
    for f in fails {
        println!("PROPFAIL C16 {}", f);
    }
}

// ---------------------------------------------------------------------------------------------
// program generator
// ---------------------------------------------------------------------------------------------
struct Gen<'a> {
    rng: &'a mut Rng,
    next_id: i64,
    thorough: bool,
}

impl<'a> Gen<'a> {
    fn id(&mut self) -> i64 {
        self.next_id += 1;
        self.next_id
    }

    /// a closure body: addresses its own guards; may leave guards behind (dropped at the end)
    fn body(&mut self, depth: u32) -> Vec<Op> {
        let mut ops = Vec::new();
        if self.rng.chance(2, 5) {
            return ops;
        }
        let len = 1 + self.rng.below(if self.thorough { 8 } else { 5 });
        let mut m = 0usize;
        let probes = self.rng.chance(1, 2);
        if probes {
            ops.push(Op::Probe);
        }
        for _ in 0..len {
            if m == 0 {
                ops.push(Op::Cs);
                m += 1;
                continue;
            }
            if probes && matches!(ops.last(), Some(Op::Flush(_)) | Some(Op::Defer(..))) {
                ops.push(Op::Probe);
            }
            let i = self.rng.below(m as u64) as usize;
            match self.rng.below(12) {
                0 | 1 => {
                    ops.push(Op::Cs);
                    m += 1;
                }
                2 | 3 => {
                    ops.push(Op::Drop(i));
                    m -= 1;
                }
                4 => ops.push(Op::React(i)),
                5 => ops.push(Op::ReactAfter(i, self.rng.chance(1, 2))),
                6 | 7 => ops.push(Op::Flush(i)),
                _ => {
                    let id = self.id();
                    let b = if depth < 2 && self.rng.chance(1, 3) { self.body(depth + 1) } else { Vec::new() };
                    ops.push(Op::Defer(i, id, b));
                }
            }
        }
        if probes {
            ops.push(Op::Probe);
        }
        ops
    }

    fn program(&mut self) -> Vec<Op> {
        let mut ops = Vec::new();
        let target = if self.thorough { 30 + self.rng.below(170) } else { 8 + self.rng.below(40) } as usize;
        let mut n = 0usize; // live guards
        let mut handle = true;
        // probability (in 1/64) that the handle is dropped early, while guards are live
        let early_handle = self.rng.chance(1, 4);
        let max_depth = 1 + self.rng.below(5) as usize;
        while ops.len() < target {
            if n == 0 && !handle {
                break; // finalized
            }
            if n == 0 {
                ops.push(Op::Cs);
                n += 1;
                continue;
            }
            let i = self.rng.below(n as u64) as usize;
            let last = n - 1;
            match self.rng.below(32) {
                0..=4 => {
                    if handle && n < max_depth {
                        ops.push(Op::Cs);
                        n += 1;
                    }
                }
                5..=8 => {
                    // mostly well-bracketed (drop the youngest), sometimes any
                    let j = if self.rng.chance(2, 3) { last } else { i };
                    ops.push(Op::Drop(j));
                    n -= 1;
                }
                9 | 10 => ops.push(Op::React(i)),
                11 | 12 => ops.push(Op::ReactAfter(i, self.rng.chance(1, 2))),
                13..=15 => ops.push(Op::Flush(i)),
                16..=22 => {
                    let id = self.id();
                    let b = if self.rng.chance(1, 2) { self.body(0) } else { Vec::new() };
                    ops.push(Op::Defer(i, id, b));
                }
                23..=26 => {
                    // a collection round: flush and leave the critical section completely
                    ops.push(Op::Flush(i));
                    if handle || self.rng.chance(1, 8) {
                        let mut order: Vec<usize> = Vec::new();
                        let mut m = n;
                        while m > 0 {
                            let j = if self.rng.chance(1, 2) { m - 1 } else { self.rng.below(m as u64) as usize };
                            order.push(j);
                            m -= 1;
                        }
                        for j in order {
                            ops.push(Op::Drop(j));
                        }
                        n = 0;
                    }
                }
                27 => {
                    // a burst of leaf closures (bag overflows; thorough: reaches the 64-th defer)
                    let k = if self.thorough && self.rng.chance(1, 3) { 60 + self.rng.below(80) } else { 2 + self.rng.below(8) };
                    for _ in 0..k {
                        let id = self.id();
                        ops.push(Op::Defer(i, id, Vec::new()));
                    }
                }
                28 if handle && !early_handle && self.rng.chance(1, 2) => {
                    // two bursts in the same epoch, separated by leaving the critical section
                    // without a collection: advance_count must survive the re-pin
                    for part in 0..2 {
                        let k = 20 + self.rng.below(40);
                        for _ in 0..k {
                            let id = self.id();
                            ops.push(Op::Defer(self.rng.below(n as u64) as usize, id, Vec::new()));
                        }
                        if part == 0 {
                            while n > 0 {
                                ops.push(Op::Drop(n - 1));
                                n -= 1;
                            }
                            ops.push(Op::Cs);
                            n = 1;
                        }
                    }
                }
                28 => {
                    if handle && early_handle {
                        ops.push(Op::DropHandle);
                        handle = false;
                    }
                }
                _ => {
                    // reactivation as the sole guard right away
                    if n == 1 {
                        ops.push(Op::React(0));
                    } else {
                        ops.push(Op::ReactAfter(i, false));
                    }
                }
            }
        }
        // tear-down: every order of dropping the remaining guards relative to the handle
        let handle_first = self.rng.chance(1, 3);
        if handle && handle_first {
            ops.push(Op::DropHandle);
            handle = false;
        }
        while n > 0 {
            let j = self.rng.below(n as u64) as usize;
            if self.rng.chance(1, 4) {
                ops.push(Op::Flush(j));
            }
            ops.push(Op::Drop(j));
            n -= 1;
        }
        if handle {
            ops.push(Op::DropHandle);
        }
        ops.push(Op::DropCollector);
        ops
    }
}

fn fmt_ints(v: &[i64]) -> String {
    let mut s = String::with_capacity(v.len() * 3);
    for (i, x) in v.iter().enumerate() {
        if i > 0 {
            s.push(' ');
        }
        s.push_str(&x.to_string());
    }
    s
}

// ---------------------------------------------------------------------------------------------
// C20: real threads, thread-local destructors
// ---------------------------------------------------------------------------------------------
pub struct Payload(Arc<AtomicUsize>);
impl Drop for Payload {
    fn drop(&mut self) {
        self.0.fetch_add(1, Ordering::SeqCst);
    }
}
unsafe impl circ::RcObject for Payload {
    fn pop_edges(&mut self, _out: &mut Vec<circ::Rc<Self>>) {}
}

struct UserObj {
    kinds: Vec<u32>,
    counter: Arc<AtomicUsize>,
    rcs: Vec<circ::Rc<Payload>>,
    dropped: Arc<AtomicUsize>,
}

/// number of payload objects api-kind `k` releases (must agree with GuardSeq.tls_kind_objects)
pub fn kind_objects(k: u32) -> usize {
    match k {
        2 => 3,
        3 => 2,
        4 => 2,
        5 => 1,
        6 => 5,
        _ => 0,
    }
}

impl UserObj {
    fn take(&mut self) -> circ::Rc<Payload> {
        self.dropped.fetch_add(1, Ordering::SeqCst);
        self.rcs.pop().expect("enough prepared objects")
    }
}

impl Drop for UserObj {
    fn drop(&mut self) {
        let kinds = self.kinds.clone();
        for k in kinds {
            match k {
                0 => {
                    let g = circ::cs();
                    drop(g);
                }
                1 => {
                    let g = circ::cs();
                    g.flush();
                    drop(g);
                }
                2 => {
                    for _ in 0..3 {
                        let r = self.take();
                        drop(r);
                    }
                }
                3 => {
                    for _ in 0..2 {
                        self.dropped.fetch_add(1, Ordering::SeqCst);
                        let r = circ::Rc::new(Payload(self.counter.clone()));
                        drop(r);
                    }
                }
                4 => {
                    // nested guards, dropped out of order, objects released under them
                    let g1 = circ::cs();
                    let g2 = circ::cs();
                    drop(self.take());
                    drop(g1);
                    drop(self.take());
                    g2.flush();
                    drop(g2);
                }
                5 => {
                    let mut g = circ::cs();
                    drop(self.take());
                    g.flush();
                    // (finding D11: before a2e37e2 a debug build aborted here: acquire_handle asserted handle_count >= 1)
                    g.reactivate();
                    g.reactivate_after(|| ());
                    drop(g);
                }
                6 => {
                    // several flushes interleaved with releases (each release pins on its own)
                    for _ in 0..5 {
                        drop(self.take());
                        let g = circ::cs();
                        g.flush();
                        drop(g);
                    }
                }
                _ => {}
            }
        }
    }
}

thread_local! {
    static USER: std::cell::RefCell<Option<UserObj>> = const { std::cell::RefCell::new(None) };
}

/// Runs one thread scenario; returns (dropped, destructed, failure description, early).
/// `early`: objects released by the thread (all of them from its thread-local destructor or its body, i.e. after the
/// reader below had pinned) that were destructed while that reader's critical section was still active.
fn tls_case(order: u32, kinds: &[u32]) -> (usize, usize, Option<String>, usize) {
    let counter = Arc::new(AtomicUsize::new(0));
    let dropped = Arc::new(AtomicUsize::new(0));
    // a reader that is inside a critical section before the thread starts and until after it has exited: nothing the
    // thread releases may be destructed meanwhile (C13), whatever guard its tear-down code obtained from cs()
    let (ready_tx, ready_rx) = std::sync::mpsc::channel();
    let (rel_tx, rel_rx) = std::sync::mpsc::channel::<()>();
    let reader = std::thread::spawn(move || {
        let g = circ::cs();
        let _ = ready_tx.send(());
        let _ = rel_rx.recv();
        drop(g);
    });
    let _ = ready_rx.recv();
    let (c2, d2, k2) = (counter.clone(), dropped.clone(), kinds.to_vec());
    let (tx, rx) = std::sync::mpsc::channel();
    let joiner = std::thread::spawn(move || {
        let t = std::thread::spawn(move || {
            let need: usize = k2.iter().map(|k| if *k == 3 { 0 } else { kind_objects(*k) }).sum();
            let make = |c: &Arc<AtomicUsize>| (0..need).map(|_| circ::Rc::new(Payload(c.clone()))).collect::<Vec<_>>();
            let obj = |rcs| UserObj { kinds: k2.clone(), counter: c2.clone(), rcs, dropped: d2.clone() };
            match order {
                0 => {
                    // HANDLE first, then the user's thread-local: the user's destructor runs first
                    drop(circ::cs());
                    let rcs = make(&c2);
                    USER.with(|u| *u.borrow_mut() = Some(obj(rcs)));
                }
                1 => {
                    // user's thread-local first: HANDLE is destroyed before the user's destructor
                    USER.with(|u| *u.borrow_mut() = Some(obj(Vec::new())));
                    drop(circ::cs());
                    let rcs = make(&c2);
                    USER.with(|u| u.borrow_mut().as_mut().unwrap().rcs = rcs);
                }
                _ => {
                    // HANDLE never initialised by the thread body
                    let rcs = make(&c2);
                    USER.with(|u| *u.borrow_mut() = Some(obj(rcs)));
                }
            }
        });
        let _ = tx.send(t.join().is_ok());
    });
    let fail = match rx.recv_timeout(std::time::Duration::from_secs(20)) {
        Ok(true) => {
            let _ = joiner.join();
            None
        }
        Ok(false) => {
            let _ = joiner.join();
            Some("the thread panicked".to_string())
        }
        Err(_) => Some("deadlock: the thread did not exit within 20 s".to_string()),
    };
    // while the reader is still pinned: collection rounds of the main thread must not destruct anything
    for _ in 0..30 {
        let g = circ::cs();
        g.flush();
        drop(g);
    }
    let early = counter.load(Ordering::SeqCst);
    let _ = rel_tx.send(());
    let _ = reader.join();
    let want = dropped.load(Ordering::SeqCst);
    // the main thread collects
    let mut rounds = 0;
    while counter.load(Ordering::SeqCst) < want && rounds < 400 {
        let g = circ::cs();
        g.flush();
        drop(g);
        rounds += 1;
    }
    (want, counter.load(Ordering::SeqCst), fail, early)
}

pub fn run(out_path: &str, seed: u64, thorough: bool) -> (u64, u64, u64) {
    let mut out = Out::create(out_path);
    let mut rng = Rng::new(seed ^ 0x6a09e667f3bcc908);
    let mut checks = 0u64;
    let mut nfail = 0u64;
    let prev_hook = std::panic::take_hook();
    std::panic::set_hook(Box::new(move |pi| {
        if pi.payload().downcast_ref::<Silent>().is_none() {
            prev_hook(pi);
        }
    }));
    let nprog = if thorough { 400 } else { 600 };
    // the three example programs of GuardSeqP.v (ex1, ex2 + tear-down, ex3) come first
    let round = || vec![Op::Cs, Op::Flush(0), Op::Drop(0)];
    let ex1 = vec![Op::Cs, Op::Cs, Op::Cs, Op::Drop(0), Op::Drop(1), Op::Drop(0), Op::DropHandle, Op::DropCollector];
    let ex2 = vec![
        Op::Cs, Op::Cs, Op::React(0), Op::ReactAfter(1, true), Op::Drop(0), Op::React(0), Op::ReactAfter(0, true),
        Op::Drop(0), Op::DropHandle, Op::DropCollector,
    ];
    let mut ex3 = vec![
        Op::Cs,
        Op::Defer(0, 1, vec![
            Op::Cs, Op::Flush(0), Op::Defer(0, 2, vec![Op::Cs, Op::Cs, Op::Drop(0)]), Op::React(0), Op::Drop(0),
        ]),
        Op::Flush(0),
        Op::Drop(0),
    ];
    for _ in 0..7 {
        ex3.extend(round());
    }
    ex3.extend([Op::DropHandle, Op::DropCollector]);
    // ex4: a destructor that pins and flushes twice during the collection; the probes show that
    // its announcement does not move under its own guard (commit ca508ba)
    let mut ex4 = vec![
        Op::Cs,
        Op::Defer(0, 1, vec![Op::Probe, Op::Cs, Op::Flush(0), Op::Probe, Op::Flush(0), Op::Probe, Op::Drop(0)]),
        Op::Defer(0, 2, vec![Op::Probe]),
        Op::Flush(0),
        Op::Drop(0),
    ];
    for _ in 0..4 {
        ex4.extend(round());
    }
    ex4.extend([Op::DropHandle, Op::DropCollector]);
    let mut fixed = vec![ex4, ex3, ex2, ex1];
    for _ in 0..nprog {
        let mut mo = *rng.pick(&[2usize, 2, 3, 3, 4, 5, 64]);
        let prog = if let Some(p) = fixed.pop() {
            mo = 2;
            p
        } else {
            let mut g = Gen { rng: &mut rng, next_id: 0, thorough };
            g.program()
        };
        let mut enc = Vec::new();
        encode(&prog, &mut enc);
        let mut fails = Vec::new();
        let obs = run_program(mo, &prog, &mut fails, &mut checks);
        out.line(&format!("@guard {} {} => {}", mo, fmt_ints(&enc), fmt_ints(&obs)));
        for f in fails {
            nfail += 1;
            out.line(&format!("PROPFAIL C16 maxobj={} program=[{}]: {}", mo, fmt_ints(&enc), f));
        }
    }
    let st: Vec<String> = (0..8).map(|i| format!("{}={}", ST_NAMES[i], STATS[i].load(Ordering::Relaxed))).collect();
    println!("guard coverage: programs={} {}", nprog, st.join(" "));
    // C20
    let mut scen: Vec<(usize, u32, Vec<u32>)> = Vec::new();
    for mo in [64usize, 2] {
        for order in 0..3u32 {
            for k in 0..7u32 {
                scen.push((mo, order, vec![k]));
            }
        }
    }
    let extra = if thorough { 120 } else { 30 };
    for _ in 0..extra {
        let mo = *rng.pick(&[64usize, 2, 3]);
        let order = rng.below(3) as u32;
        let n = 2 + rng.below(3);
        let kinds = (0..n).map(|_| rng.below(7) as u32).collect();
        scen.push((mo, order, kinds));
    }
    for (mo, order, kinds) in scen {
        ebr::set_tuning(mo, if mo == 64 { 64 } else { 2 });
        let (want, got, fail, early) = tls_case(order, &kinds);
        let ks: Vec<i64> = kinds.iter().map(|k| *k as i64).collect();
        out.line(&format!("@tls {} {} {} => {} {}", mo, order, fmt_ints(&ks), want, got));
        checks += 3;
        if let Some(f) = fail {
            nfail += 1;
            out.line(&format!("PROPFAIL C20 maxobj={} order={} kinds=[{}]: {}", mo, order, fmt_ints(&ks), f));
        }
        if early != 0 {
            for pid in ["C20", "C13", "C16"] {
                nfail += 1;
                out.line(&format!(
                    "PROPFAIL {} maxobj={} order={} kinds=[{}]: {} objects released during the tear-down of a thread were destructed while a critical section of another thread, active since before that thread started, was still active",
                    pid, mo, order, fmt_ints(&ks), early
                ));
            }
        }
        if got != want {
            nfail += 1;
            out.line(&format!(
                "PROPFAIL C20 maxobj={} order={} kinds=[{}]: leak: {} objects released from thread-local destructors, {} destructed after 400 collection rounds",
                mo, order, fmt_ints(&ks), want, got
            ));
        }
    }
    ebr::set_tuning(64, 64);
    let _ = std::panic::take_hook();
    let lines = out.finish();
    (lines, checks, nfail)
}
