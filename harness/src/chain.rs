//! C06 / C07: destruction of long chains (sequential, default collector).
//! For each case: bring the epoch to a chosen residue, build a chain of n nodes (optionally with an extra
//! owner on node k), drop the head, then run collection rounds and record after which rounds how many
//! nodes were destructed.  Output: `@chain n k stl sth g1 g2 .. => p1 p2 ..` (pass sizes at the epochs at
//! which they happened), compared with the model's prediction (coq/RcChain.v), plus direct checks of C06.
use crate::rc::{node, Node, DROPS};
use crate::util::{Out, Rng};
use circ::verif::ebr;
use circ::Rc;
use std::sync::atomic::Ordering::SeqCst;

fn round() {
    let g = circ::cs();
    g.flush();
    drop(g);
}

fn epoch() -> usize {
    ebr::default_epoch_data() >> 1
}

/// builds head -> ... -> tail (n nodes), returns (head, extra owner of node k if k > 0)
fn build(n: usize, k: usize) -> (Rc<Node>, Option<Rc<Node>>) {
    let mut head: Rc<Node> = Rc::null();
    let mut extra = None;
    let g = circ::cs();
    for i in (1..=n).rev() {
        let nd = Rc::new(node(i));
        unsafe { nd.deref() }.next.store(head, SeqCst, &g);
        if i == k {
            extra = Some(nd.clone());
        }
        head = nd;
    }
    drop(g);
    (head, extra)
}

/// Resurrection at a pause of the cascade.  Whenever a pass stops - at the depth cap or at a node whose stamps look
/// recent - the next node has count 0, is not DESTRUCTED and has exactly one pending destruction attempt: a
/// `Weak::upgrade` may legitimately revive it.  The attempt, when it runs, must then leave the node (and everything
/// behind it) alone until the new owner is gone; afterwards everything is still reclaimed exactly once.
pub fn pause_upgrade(out: &mut Out, props: &mut u64, fails: &mut u64) {
    for (n, residue) in [(2300usize, 0usize), (1100, 7), (2300, 12)] {
        for _ in 0..6 {
            round();
        }
        while epoch() % 16 != residue {
            round();
        }
        let mut head: Rc<Node> = Rc::null();
        let mut weaks: Vec<circ::Weak<Node>> = Vec::with_capacity(n);
        {
            let g = circ::cs();
            for i in (1..=n).rev() {
                let nd = Rc::new(node(i));
                unsafe { nd.deref() }.next.store(head, SeqCst, &g);
                weaks.push(nd.downgrade());
                head = nd;
            }
        }
        weaks.reverse(); // weaks[i] refers to the node at position i (0 = head)
        round();
        round();
        DROPS.store(0, SeqCst);
        drop(head);
        let mut last = 0usize;
        let mut rounds = 0usize;
        let mut pauses = 0usize;
        let mut cap_pauses = 0usize;
        let mut bad: Option<String> = None;
        while DROPS.load(SeqCst) < n && rounds < 4000 && bad.is_none() {
            round();
            rounds += 1;
            let now = DROPS.load(SeqCst);
            if now > last && now < n {
                // a pass has just ended at node `now` (0-based): revive it
                let pass = now - last;
                last = now;
                pauses += 1;
                if pass == 1024 {
                    cap_pauses += 1;
                }
                *props += 1;
                match weaks[now].upgrade() {
                    Some(rc) if !rc.is_null() => {
                        for _ in 0..14 {
                            round();
                        }
                        let d = DROPS.load(SeqCst);
                        if d != now {
                            bad = Some(format!("chain of {} (residue {}): after a pass of {} nodes the next node (position {}) was revived by Weak::upgrade, yet {} more nodes were destructed while the upgraded Rc owns it", n, residue, pass, now, d - now));
                        }
                        drop(rc);
                    }
                    _ => {
                        // legitimate only if the node is already being destructed; then it must be gone soon
                    }
                }
            }
        }
        for _ in 0..40 {
            round();
        }
        *props += 1;
        let d = DROPS.load(SeqCst);
        if bad.is_none() && d != n {
            bad = Some(format!("chain of {} (residue {}): {} nodes destructed after every owner was released ({} pauses with a revived node)", n, residue, d, pauses));
        }
        if let Some(b) = bad {
            *fails += 1;
            for pid in ["C01", "C05", "C07", "C04"] {
                out.line(&format!("PROPFAIL {} {}", pid, b));
            }
        }
        out.line(&format!("# pause-upgrade n={} residue={} pauses={} at_the_depth_cap={} rounds={}", n, residue, pauses, cap_pauses, rounds));
        drop(weaks);
        for _ in 0..8 {
            round();
        }
    }
}

pub struct Outcome {
    pub passes: Vec<(usize, usize)>, // (epoch after the round, nodes destructed in that round)
    pub rounds: usize,
    pub destructed: usize,
    pub advances: usize, // global-epoch advances between dropping the head and the last destructor
}

pub fn destroy_chain(n: usize, k: usize, residue: usize, max_rounds: usize) -> (Outcome, usize, usize, Option<Rc<Node>>) {
    // drain leftovers, then align the epoch
    for _ in 0..6 {
        round();
    }
    while epoch() % 16 != residue {
        round();
    }
    let (head, extra) = build(n, k);
    let stl = epoch() % 16;
    round();
    round();
    DROPS.store(0, SeqCst);
    let sth = epoch() % 16;
    let g_drop = epoch();
    let mut g_last = g_drop;
    drop(head);
    let expected = if k == 0 { n } else { k - 1 };
    let mut passes = vec![];
    let mut rounds = 0;
    let mut last = 0;
    while DROPS.load(SeqCst) < expected && rounds < max_rounds {
        round();
        rounds += 1;
        let now = DROPS.load(SeqCst);
        if now > last {
            passes.push((epoch(), now - last));
            last = now;
            g_last = epoch();
        }
    }
    (Outcome { passes, rounds, destructed: last, advances: g_last - g_drop }, stl, sth, extra)
}

pub fn run(out_path: &str, seed: u64, thorough: bool) -> (u64, u64, u64) {
    ebr::set_tuning(64, 64);
    let mut out = Out::create(out_path);
    let mut rng = Rng::new(seed);
    let mut props = 0u64;
    let mut fails = 0u64;
    let mut sizes: Vec<usize> = vec![1, 2, 3, 17, 1023, 1024, 1025, 2048, 2049, 5000];
    if thorough {
        sizes.extend([100_000, 1_000_000]);
    }
    let cap = 1024usize;
    for &n in &sizes {
        let residues: Vec<usize> = if n <= 5000 { (0..16).collect() } else { vec![rng.below(16) as usize] };
        for &res in &residues {
            let ks: Vec<usize> = if n >= 3 && n <= 5000 { vec![0, 1 + rng.below(n as u64) as usize] } else { vec![0] };
            for &k in &ks {
                // a pass runs every grace period (3 advances); in every cycle of 16 epochs at least one pass
                // reclaims a full segment of DEPTH_CAP nodes (the others may stall on the 4-bit stamp window)
                let bound = 16 * (n / cap) + 24;
                let (o, stl, sth, extra) = destroy_chain(n, k, res, 4 * bound + 40);
                if std::env::var("CHAIN_STATS").is_ok() {
                    eprintln!("n={} k={} res={} advances={} rounds={} passes={}", n, k, res, o.advances, o.rounds, o.passes.len());
                }
                let expected = if k == 0 { n } else { k - 1 };
                let mut line = format!("@chain {} {} {} {}", n, k, stl, sth);
                for (g, _) in &o.passes {
                    line.push_str(&format!(" {}", g));
                }
                line.push_str(" =>");
                for (_, p) in &o.passes {
                    line.push_str(&format!(" {}", p));
                }
                if n <= 5000 {
                    out.line(&line);
                }
                props += 3;
                if o.destructed != expected {
                    fails += 1;
                    out.line(&format!(
                        "PROPFAIL C06 chain of {} (extra owner on node {}): {} nodes destructed after {} rounds, expected {}",
                        n, k, o.destructed, o.rounds, expected
                    ));
                }
                if o.advances > bound {
                    fails += 1;
                    out.line(&format!(
                        "PROPFAIL C06 chain of {}: {} epoch advances between dropping the head and the last destructor, more than 16*(n/1024)+24 = {}",
                        n, o.advances, bound
                    ));
                }
                // a node that is still referenced survives, and so does everything behind it
                if let Some(e) = &extra {
                    let alive = e.as_ref().map(|x| x as *const Node as usize != 0).unwrap_or(false);
                    let w = circ::verif::strong::rc_count_word(e);
                    if !alive || circ::verif::rc::state_strong(w) != 1 || circ::verif::rc::state_destructed(w) {
                        fails += 1;
                        out.line(&format!("PROPFAIL C06 the externally held node {} of a chain of {} did not survive intact (count word {:#x})", k, n, w));
                    }
                }
                drop(extra);
                // everything is reclaimed in the end (C04 / C07: no node lost by the depth cap)
                let mut r = 0;
                while DROPS.load(SeqCst) < n && r < 4 * bound + 40 {
                    round();
                    r += 1;
                }
                if DROPS.load(SeqCst) != n {
                    fails += 1;
                    out.line(&format!("PROPFAIL C07 chain of {}: only {} nodes reclaimed in the end", n, DROPS.load(SeqCst)));
                }
            }
        }
    }
    age_grid(&mut out, &mut props, &mut fails);
    pause_upgrade(&mut out, &mut props, &mut fails);
    let lines = out.finish();
    (lines, props, fails)
}

/// End-to-end decision grid (C12's "decision site", C06, and the premise of C02): R -> A -> B.  R is dropped at
/// epoch e; j rounds later A's link is overwritten (fresh timestamp) and an extra owner of A is released (fresh
/// stamp on A); R is destructed by its deferred try_destruct at e+3 and the cascade reaches A with a merged stamp
/// of true age 3-j.  A (and B below it) may be destructed in that same pass only if that age is at least the
/// grace period of the collector (3 epochs); if it is 3..13 they must be.
pub fn age_grid(out: &mut Out, props: &mut u64, fails: &mut u64) {
    for res in 0..16usize {
        for j in 0..=3usize {
            for _ in 0..6 {
                round();
            }
            while epoch() % 16 != res {
                round();
            }
            let g = circ::cs();
            let b = Rc::new(node(3));
            let a = Rc::new(node(2));
            unsafe { a.deref() }.next.store(b, SeqCst, &g);
            let a_extra = a.clone();
            let r = Rc::new(node(1));
            unsafe { r.deref() }.next.store(a, SeqCst, &g);
            drop(g);
            // age every stamp beyond the threshold first
            for _ in 0..4 {
                round();
            }
            DROPS.store(0, SeqCst);
            let e_drop = epoch();
            drop(r);
            for _ in 0..j {
                round();
            }
            // touch A: new link to a fresh B' (the old B is released: one more fresh stamp), then release the extra owner
            let e_mod = epoch();
            {
                let g = circ::cs();
                let b2 = Rc::new(node(4));
                unsafe { a_extra.deref() }.next.store(b2, SeqCst, &g);
                drop(g);
            }
            drop(a_extra);
            // run rounds until R is destructed; note what else went in the same pass
            let mut rounds = 0;
            let mut same_pass = 0usize;
            let mut e_pass = 0usize;
            let before = DROPS.load(SeqCst); // the old B may already be gone? (no: it is deferred like any root)
            let _ = before;
            let mut seen_r = false;
            while rounds < 12 {
                let d0 = DROPS.load(SeqCst);
                round();
                rounds += 1;
                let d1 = DROPS.load(SeqCst);
                // R is the first root deferred (at e_drop): it is destructed in the first round that destructs anything
                if !seen_r && d1 > d0 {
                    seen_r = true;
                    same_pass = d1 - d0;
                    e_pass = epoch();
                    break;
                }
            }
            *props += 2;
            let age = e_pass as i64 - e_mod as i64;
            if std::env::var("CHAIN_STATS").is_ok() {
                eprintln!("grid res={} j={} e_drop={} e_mod={} e_pass={} age={} same_pass={}", res, j, e_drop, e_mod, e_pass, age, same_pass);
            }
            // in the pass that destructs R: R itself (1); A and the new B' follow only if the merged stamp is old.
            // (the old B was released at e_mod: its own deferred try_destruct cannot run before e_mod + 3)
            if seen_r && age < 3 && same_pass > 1 {
                *fails += 1;
                out.line(&format!(
                    "PROPFAIL C12 decision site: residue {} R dropped at epoch {}, A stamped at epoch {}, cascade at epoch {}: a node whose stamp has true age {} was destructed in the same pass ({} nodes)",
                    res, e_drop, e_mod, e_pass, age, same_pass
                ));
            }
            if seen_r && (3..=13).contains(&age) && j == 0 && same_pass < 3 {
                *fails += 1;
                out.line(&format!(
                    "PROPFAIL C06 decision site: residue {} cascade at epoch {} reached a node whose stamps have true age {} (unambiguously old) but deferred it ({} nodes in the pass)",
                    res, e_pass, age, same_pass
                ));
            }
            if !seen_r {
                *fails += 1;
                out.line(&format!("PROPFAIL C06 decision site: residue {} the root dropped at epoch {} was not destructed within 12 rounds", res, e_drop));
            }
            // drain
            for _ in 0..10 {
                round();
            }
        }
    }
}

/// C07 runtime part: destroy a chain of n nodes on a thread with the given stack size (bytes); run in a
/// child process because a stack overflow aborts.
pub fn stack_probe(n: usize, stack: usize) -> bool {
    ebr::set_tuning(64, 64);
    let h = std::thread::Builder::new()
        .stack_size(stack)
        .spawn(move || {
            let (o, _, _, _) = destroy_chain(n, 0, 0, 40 * (n / 1024 + 1) + 80);
            o.destructed == n
        })
        .unwrap();
    h.join().unwrap_or(false)
}


// ---- other shapes for the stack probes (C07): what matters is how deep the stack gets, whatever the shape

static WIDE_DROPS: std::sync::atomic::AtomicUsize = std::sync::atomic::AtomicUsize::new(0);

/// a payload that owns other objects through plain fields: they are released by `Drop`, not by `pop_edges`
struct Blob(#[allow(dead_code)] [u64; 4]);
unsafe impl circ::RcObject for Blob {
    fn pop_edges(&mut self, _out: &mut Vec<Rc<Self>>) {}
}
impl Drop for Blob {
    fn drop(&mut self) {
        WIDE_DROPS.fetch_add(1, SeqCst);
    }
}
struct File {
    blob: Rc<Blob>,
}
unsafe impl circ::RcObject for File {
    fn pop_edges(&mut self, _out: &mut Vec<Rc<Self>>) {}
}
impl Drop for File {
    fn drop(&mut self) {
        WIDE_DROPS.fetch_add(1, SeqCst);
        let _ = &self.blob;
    }
}
struct Dir {
    files: Vec<Rc<File>>,
}
unsafe impl circ::RcObject for Dir {
    fn pop_edges(&mut self, _out: &mut Vec<Rc<Self>>) {}
}
impl Drop for Dir {
    fn drop(&mut self) {
        WIDE_DROPS.fetch_add(1, SeqCst);
        let _ = self.files.len();
    }
}

static FAT_DROPS: std::sync::atomic::AtomicUsize = std::sync::atomic::AtomicUsize::new(0);

/// a list node with a large inline payload (4 KiB): the stack a cascade needs must not depend on the size of the
/// objects it destroys (a destructor that moves the payload to the stack before dropping it multiplies the frame)
struct FatNode {
    next: circ::AtomicRc<FatNode>,
    payload: [u64; 512],
}
unsafe impl circ::RcObject for FatNode {
    fn pop_edges(&mut self, out: &mut Vec<Rc<Self>>) {
        out.push(self.next.take());
    }
}
impl Drop for FatNode {
    fn drop(&mut self) {
        std::hint::black_box(&self.payload);
        FAT_DROPS.fetch_add(1, SeqCst);
    }
}

/// `wide`: one directory of n files, each owning a blob, all released from destructors (every release is a
/// decrement_strong issued while a collection is running).  `comb`: a root with w children, each the head of a
/// chain of l nodes: the depth cap is hit w times while the cascade is deep, so the re-deferrals overflow the bag.
pub fn stack_probe_kind(kind: &str, n: usize, stack: usize) -> bool {
    ebr::set_tuning(64, 64);
    let kind = kind.to_string();
    let h = std::thread::Builder::new()
        .stack_size(stack)
        .spawn(move || match kind.as_str() {
            "wide" => {
                WIDE_DROPS.store(0, SeqCst);
                let files: Vec<Rc<File>> = (0..n).map(|_| Rc::new(File { blob: Rc::new(Blob([7; 4])) })).collect();
                let d = Rc::new(Dir { files });
                for _ in 0..3 {
                    round();
                }
                drop(d);
                let want = 2 * n + 1;
                let mut r = 0;
                while WIDE_DROPS.load(SeqCst) < want && r < 40 * (n / 32 + 1) + 200 {
                    round();
                    r += 1;
                }
                WIDE_DROPS.load(SeqCst) == want
            }
            "fat" => {
                FAT_DROPS.store(0, SeqCst);
                for _ in 0..6 {
                    round();
                }
                let g = circ::cs();
                let mut head: Rc<FatNode> = Rc::null();
                for i in 0..n {
                    let nd = Rc::new(FatNode { next: circ::AtomicRc::null(), payload: [i as u64; 512] });
                    unsafe { nd.deref() }.next.store(head, SeqCst, &g);
                    head = nd;
                }
                drop(g);
                for _ in 0..4 {
                    round();
                }
                drop(head);
                let mut r = 0;
                while FAT_DROPS.load(SeqCst) < n && r < 60 * (n / 1024 + 1) + 200 {
                    round();
                    r += 1;
                }
                FAT_DROPS.load(SeqCst) == n
            }
            _ => {
                // comb: w = n / 1500 teeth of 1500 nodes
                let l = 1500usize;
                let w = (n / l).max(2);
                for _ in 0..6 {
                    round();
                }
                DROPS.store(0, SeqCst);
                let g = circ::cs();
                // the root keeps its teeth in a chain of "spine" nodes: spine_i.next = spine_{i+1}, spine_i.other = tooth_i
                let mut spine: Rc<Node> = Rc::null();
                for _ in 0..w {
                    let mut tooth: Rc<Node> = Rc::null();
                    for i in 0..l {
                        let nd = Rc::new(node(i + 1));
                        unsafe { nd.deref() }.next.store(tooth, SeqCst, &g);
                        tooth = nd;
                    }
                    let sp = Rc::new(node(0));
                    unsafe { sp.deref() }.other.store(tooth, SeqCst, &g);
                    unsafe { sp.deref() }.next.store(spine, SeqCst, &g);
                    spine = sp;
                }
                drop(g);
                for _ in 0..4 {
                    round();
                }
                drop(spine);
                let want = w * (l + 1);
                let mut r = 0;
                while DROPS.load(SeqCst) < want && r < 60 * (want / 1024 + 1) + 200 {
                    round();
                    r += 1;
                }
                DROPS.load(SeqCst) == want
            }
        })
        .unwrap();
    h.join().unwrap_or(false)
}
