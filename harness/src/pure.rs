//! Pure differential stream (models M1): prints `name args.. => result` lines for the shimmed
//! word-level functions over exhaustive grids and seeded random inputs, and checks the
//! properties C11 / C12 (and the machine-level part of C14) directly on the implementation
//! (lines starting with PROPFAIL).
use crate::util::{Out, Rng};
use circ::verif::{ebr, rc};

const S29: u64 = (1 << 29) - 1;

fn mkword(strong: u64, weak: u64, weaked: u64, destructed: u64, epoch: u64) -> u64 {
    strong | (weak << 29) | (weaked << 58) | (destructed << 59) | (epoch << 60)
}

struct Ctx {
    out: Out,
    propfail: u64,
    props: u64,
}

impl Ctx {
    fn emit(&mut self, name: &str, args: &[i128], res: i128) {
        let mut s = String::with_capacity(64);
        s.push_str(name);
        for a in args {
            s.push(' ');
            s.push_str(&a.to_string());
        }
        s.push_str(" => ");
        s.push_str(&res.to_string());
        self.out.line(&s);
    }
    fn prop(&mut self, ok: bool, prop: &str, what: impl FnOnce() -> String) {
        self.props += 1;
        if !ok {
            self.propfail += 1;
            let w = what();
            self.out.line(&format!("PROPFAIL {} {}", prop, w));
        }
    }
}

fn acc(w: u64) -> [u64; 5] {
    [
        rc::state_strong(w) as u64,
        rc::state_weak(w) as u64,
        rc::state_weaked(w) as u64,
        rc::state_destructed(w) as u64,
        rc::state_epoch(w) as u64,
    ]
}

fn state_word(c: &mut Ctx, w: u64, rng: &mut Rng) {
    let a = acc(w);
    c.emit("strong", &[w as i128], a[0] as i128);
    c.emit("weak", &[w as i128], a[1] as i128);
    c.emit("weaked", &[w as i128], a[2] as i128);
    c.emit("destructed", &[w as i128], a[3] as i128);
    c.emit("epoch", &[w as i128], a[4] as i128);
    let same_except = |c: &mut Ctx, name: &str, arg: u64, w2: u64, idx: usize, want: u64| {
        let b = acc(w2);
        for i in 0..5 {
            let expect = if i == idx { want } else { a[i] };
            c.prop(b[i] == expect, "C12", || {
                format!(
                    "{}({:#x},{}) = {:#x}: field {} is {} but must be {}",
                    name, w, arg, w2, i, b[i], expect
                )
            });
        }
    };
    // with_epoch
    for e in [0usize, 1, 7, 15, 16, 17, 31, (1 << 60) + 3, usize::MAX, rng.next() as usize] {
        let w2 = rc::state_with_epoch(w, e);
        c.emit("with_epoch", &[w as i128, e as i128], w2 as i128);
        same_except(c, "with_epoch", e as u64, w2, 4, (e % 16) as u64);
    }
    // add_strong within range
    let room = S29 - a[0];
    for v in [0u64, 1, 2, room / 2, room.saturating_sub(1), room] {
        if v <= room {
            let w2 = rc::state_add_strong(w, v as u32);
            c.emit("add_strong", &[w as i128, v as i128], w2 as i128);
            same_except(c, "add_strong", v, w2, 0, a[0] + v);
        }
    }
    for v in [0u64, 1, a[0] / 2, a[0].saturating_sub(1), a[0]] {
        if v <= a[0] {
            let w2 = rc::state_sub_strong(w, v as u32);
            c.emit("sub_strong", &[w as i128, v as i128], w2 as i128);
            same_except(c, "sub_strong", v, w2, 0, a[0] - v);
        }
    }
    let wroom = S29 - a[1];
    for v in [0u64, 1, 2, wroom / 2, wroom] {
        if v <= wroom {
            let w2 = rc::state_add_weak(w, v as u32);
            c.emit("add_weak", &[w as i128, v as i128], w2 as i128);
            same_except(c, "add_weak", v, w2, 1, a[1] + v);
        }
    }
    for b in [false, true] {
        let w2 = rc::state_with_destructed(w, b);
        c.emit("with_destructed", &[w as i128, b as i128], w2 as i128);
        same_except(c, "with_destructed", b as u64, w2, 3, b as u64);
        let w3 = rc::state_with_weaked(w, b);
        c.emit("with_weaked", &[w as i128, b as i128], w3 as i128);
        same_except(c, "with_weaked", b as u64, w3, 2, b as u64);
    }
}

fn decode(c: i128, a: i128) -> i128 {
    c + 2 - (c + 2 - a).rem_euclid(16)
}

fn modular(c: &mut Ctx, tier_thorough: bool, rng: &mut Rng) {
    // (b) the reclaim-now comparison, as called by dispose_general_node:
    //     Modular::new(curr+1).le(stamp, curr-3)
    let mut currs: Vec<i128> = (0..80).collect();
    for base in [1i128 << 16, 1 << 32, 1 << 40, (1 << 61) - 40, (1 << 62) - 100] {
        for d in -20..=20 {
            currs.push(base + d);
        }
    }
    for _ in 0..(if tier_thorough { 2000 } else { 200 }) {
        currs.push((rng.next() >> 3) as i128);
    }
    for &curr in &currs {
        // the primitive comparison against every threshold position b = curr - d, d = 0..8
        for age in -2i128..=64 {
            let s = curr - age;
            if s < 0 {
                continue;
            }
            let a = s % 16;
            for d in 0..=8i128 {
                let b = curr - d;
                let r = rc::modular_le(curr as isize + 1, a as isize, b as isize);
                c.emit("m_le", &[curr + 1, a, b], r as i128);
                // le(a, b) must never say "a is at least as old as b" when the true stamp is newer
                c.prop(!r || s <= b, "C12", || {
                    format!("Modular::new({}).le({}, {}) = true but the true stamp {} is newer than {}", curr + 1, a, b, s, b)
                });
                c.prop(!(s <= b && age <= 13) || r, "C12", || {
                    format!("Modular::new({}).le({}, {}) = false but the stamp {} (age {}) is unambiguously older", curr + 1, a, b, s, age)
                });
            }
        }
    }
    // merged stamp: exhaustive over residues for curr in a window, plus large epochs
    let mut mc: Vec<i128> = (14..78).collect();
    mc.extend([(1i128 << 32) + 5, (1 << 61) + 11]);
    if tier_thorough {
        for _ in 0..64 {
            mc.push(14 + (rng.next() >> 4) as i128);
        }
    }
    for &curr in &mc {
        for a in 0..16i128 {
            for b in 0..16i128 {
                for d in 0..16i128 {
                    let r = rc::modular_max(curr as isize + 1, &[a as isize, b as isize, d as isize]) as i128;
                    c.emit("merged", &[curr, a, b, d], r);
                    let want = decode(curr, a).max(decode(curr, b)).max(decode(curr, d));
                    c.prop(r.rem_euclid(16) == want.rem_euclid(16), "C12", || {
                        format!("merged stamp at curr={} of residues ({},{},{}) is {} but the most recent is {}", curr, a, b, d, r, want)
                    });
                }
            }
        }
    }
    // small epochs (stamps cannot exceed curr+2)
    for curr in 0..14i128 {
        for a in 0..=(curr + 2).min(15) {
            for b in 0..=(curr + 2).min(15) {
                let r = rc::modular_max(curr as isize + 1, &[a as isize, b as isize, a as isize]) as i128;
                c.emit("merged", &[curr, a, b, a], r);
            }
        }
    }
    for &curr in &[0i128, 5, 100, 1 << 40] {
        for v in -20..=(curr + 1).min(40) {
            c.emit("m_trans", &[curr + 1, v], rc::modular_trans(curr as isize + 1, v as isize) as i128);
            c.emit("m_inver", &[curr + 1, v], rc::modular_inver(curr as isize + 1, v as isize) as i128);
        }
    }
}

fn tagged(c: &mut Ctx, tier_thorough: bool, rng: &mut Rng) {
    for k in 0..=12u32 {
        let unit = 1usize << k;
        let mut addrs = vec![0usize, unit, unit * 5, (0x5555_5555_5000usize >> k) << k, (1usize << 60) - unit];
        let mut tags = vec![0usize, 1, unit - 1, unit, unit + 1, usize::MAX, 0xAAAA_AAAA_AAAA_AAAA];
        let n_rand = if tier_thorough { 24 } else { 4 };
        for _ in 0..n_rand {
            addrs.push(((rng.next() as usize) & ((1usize << 60) - 1)) >> k << k);
            tags.push(rng.next() as usize);
        }
        let tss: Vec<usize> = (0..18).chain([usize::MAX, 1usize << 63]).collect();
        c.emit("low_bits", &[k as i128], ebr::tagged_op(k, 7, 0, 0) as i128);
        for &a in &addrs {
            for &tag in &tags {
                for &ts in &tss {
                    let p1 = ebr::tagged_op(k, 3, a, tag);
                    c.emit("with_tag", &[k as i128, a as i128, tag as i128], p1 as i128);
                    let p = ebr::tagged_op(k, 4, p1, ts);
                    c.emit("with_high_tag", &[k as i128, p1 as i128, ts as i128], p as i128);
                    let t = ebr::tagged_op(k, 0, p, 0);
                    let h = ebr::tagged_op(k, 1, p, 0);
                    let raw = ebr::tagged_op(k, 2, p, 0);
                    let nul = ebr::tagged_op(k, 5, p, 0);
                    let fmt = ebr::tagged_op(k, 8, p, 0);
                    c.emit("tag", &[k as i128, p as i128], t as i128);
                    c.emit("high_tag", &[k as i128, p as i128], h as i128);
                    c.emit("as_raw", &[k as i128, p as i128], raw as i128);
                    c.emit("is_null", &[k as i128, p as i128], nul as i128);
                    c.prop(t == tag & (unit - 1), "C11", || format!("k={} a={:#x} tag={:#x} ts={}: tag() = {:#x}", k, a, tag, ts, t));
                    c.prop(raw == a, "C11", || format!("k={} a={:#x} tag={:#x} ts={}: as_raw() = {:#x}", k, a, tag, ts, raw));
                    c.prop(h == ts % 16, "C11", || format!("k={} a={:#x} tag={:#x} ts={}: high_tag() = {}", k, a, tag, ts, h));
                    c.prop((nul == 1) == (a == 0), "C11", || format!("k={} a={:#x} tag={:#x} ts={}: is_null() = {}", k, a, tag, ts, nul));
                    c.prop(fmt == a, "C11", || format!("k={} a={:#x} tag={:#x} ts={}: formatted as {:#x}", k, a, tag, ts, fmt));
                    // re-tag, re-stamp
                    let tag2 = tags[(ts + 1) % tags.len()];
                    let q = ebr::tagged_op(k, 3, p, tag2);
                    c.emit("with_tag", &[k as i128, p as i128, tag2 as i128], q as i128);
                    c.prop(
                        ebr::tagged_op(k, 0, q, 0) == tag2 & (unit - 1) && ebr::tagged_op(k, 2, q, 0) == a && ebr::tagged_op(k, 1, q, 0) == ts % 16,
                        "C11",
                        || format!("k={} p={:#x} with_tag({:#x}) = {:#x} corrupts address/timestamp/tag", k, p, tag2, q),
                    );
                    let ts2 = (ts * 7 + 3) % 16;
                    let r = ebr::tagged_op(k, 4, p, ts2);
                    let eq = ebr::tagged_op(k, 6, p, r);
                    c.emit("ptr_eq", &[k as i128, p as i128, r as i128], eq as i128);
                    c.prop(
                        eq == 1 && ebr::tagged_op(k, 0, r, 0) == t && ebr::tagged_op(k, 2, r, 0) == a && ebr::tagged_op(k, 5, r, 0) == nul,
                        "C11",
                        || format!("k={} p={:#x} restamped to {} = {:#x}: timestamp visible", k, p, ts2, r),
                    );
                    // ptr_eq against a different tag / address
                    let other = ebr::tagged_op(k, 4, ebr::tagged_op(k, 3, addrs[(ts + 2) % addrs.len()], tag2), ts2);
                    let eq2 = ebr::tagged_op(k, 6, p, other);
                    c.emit("ptr_eq", &[k as i128, p as i128, other as i128], eq2 as i128);
                    let same = ebr::tagged_op(k, 2, other, 0) == a && ebr::tagged_op(k, 0, other, 0) == t;
                    c.prop((eq2 == 1) == same, "C11", || format!("k={} ptr_eq({:#x},{:#x}) = {} but address/tag equal = {}", k, p, other, eq2, same));
                }
            }
        }
    }
}

fn epochs(c: &mut Ctx, rng: &mut Rng) {
    let mut ds: Vec<usize> = vec![0, 1, 2, 3, 4, 5, 6, 7, 100, 101, usize::MAX, usize::MAX - 1, usize::MAX - 2, 1 << 63, (1 << 63) + 1];
    for _ in 0..40 {
        ds.push(rng.next() as usize);
    }
    for &d in &ds {
        for op in 1..=5u32 {
            let name = ["", "e_is_pinned", "e_pinned", "e_unpinned", "e_successor", "e_value"][op as usize];
            c.emit(name, &[d as i128], ebr::epoch_op(op, d, 0) as i128);
        }
        for &x in &ds {
            c.emit("e_wrapping_sub", &[d as i128, x as i128], ebr::epoch_op(0, d, x) as isize as i128);
            c.emit("is_expired", &[x as i128, d as i128], ebr::is_expired(d, x) as i128);
        }
    }
    // true-epoch view: epoch value g (unpinned data 2g), bag sealed at e
    for g in 0..40usize {
        for e in 0..=g {
            let r = ebr::is_expired(2 * g, 2 * e);
            c.emit("is_expired", &[(2 * e) as i128, (2 * g) as i128], r as i128);
        }
    }
}

pub fn run(out_path: &str, seed: u64, thorough: bool) -> (u64, u64, u64) {
    let mut c = Ctx { out: Out::create(out_path), propfail: 0, props: 0 };
    let mut rng = Rng::new(seed);
    for (name, v) in rc::CONSTS.iter() {
        c.emit(&format!("const_{}", name), &[], *v as i128);
    }
    c.emit("const_HIGH_TAG_WIDTH", &[], ebr::HIGH_TAG_WIDTH_V as i128);
    let t = ebr::tuning();
    c.emit("const_MAX_OBJECTS", &[], t[0] as i128);
    c.emit("const_MANUAL_EVENTS_BETWEEN_COLLECT", &[], t[1] as i128);
    c.emit("const_COLLECTS_TRIALS", &[], t[2] as i128);
    c.emit("const_COUNTS_BETWEEN_ADVANCE", &[], t[3] as i128);
    for n in [0u32, 1, 2, 3, 64, (1 << 29) - 1] {
        c.emit("alloc_word", &[n as i128], rc::alloc_word(n) as i128);
    }
    // count words: boundary grid, then random
    let fs = [0u64, 1, 2, S29 - 1, S29];
    for &s in &fs {
        for &k in &fs {
            for wd in 0..2 {
                for d in 0..2 {
                    for e in [0u64, 1, 7, 14, 15] {
                        state_word(&mut c, mkword(s, k, wd, d, e), &mut rng);
                    }
                }
            }
        }
    }
    for _ in 0..(if thorough { 20000 } else { 1500 }) {
        let w = rng.next();
        state_word(&mut c, w, &mut rng);
    }
    modular(&mut c, thorough, &mut rng);
    tagged(&mut c, thorough, &mut rng);
    epochs(&mut c, &mut rng);
    let (pf, pr) = (c.propfail, c.props);
    let lines = c.out.finish();
    (lines, pr, pf)
}
