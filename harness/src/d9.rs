//! Reproduction attempt for a suspected defect (D9): dispose_general_node reads the global epoch once
//! per invocation and keeps using that value (its modular window) for ALL children.  While the first
//! child's subtree is being disposed (the disposing thread re-pins every 128 disposals) the epoch may
//! advance several times; a stamp written on the second child during that time falls outside the stale
//! window, is decoded as ancient, and the child is reclaimed immediately although a pinned thread
//! holds a Snapshot of it (C02).
use circ::verif::{ebr, strong as vs};
use circ::{AtomicRc, Rc, RcObject};
use std::sync::atomic::{AtomicBool, AtomicUsize, Ordering::SeqCst};
use std::sync::{Arc, Condvar, Mutex};

static DROPPED_C: AtomicBool = AtomicBool::new(false);
static C_ADDR: AtomicUsize = AtomicUsize::new(0);
static R_ADDR: AtomicUsize = AtomicUsize::new(0);
static R_CURR: AtomicUsize = AtomicUsize::new(usize::MAX);
static PAUSED: AtomicBool = AtomicBool::new(false);
static GO: AtomicBool = AtomicBool::new(false);
static GATE: Mutex<()> = Mutex::new(());
static CV: Condvar = Condvar::new();

struct TNode {
    is_c: bool,
    left: AtomicRc<TNode>,
    right: AtomicRc<TNode>,
}
unsafe impl RcObject for TNode {
    fn pop_edges(&mut self, out: &mut Vec<Rc<Self>>) {
        out.push(self.left.take());
        out.push(self.right.take());
    }
}
impl Drop for TNode {
    fn drop(&mut self) {
        if self.is_c {
            DROPPED_C.store(true, SeqCst);
        }
    }
}

fn hook(site: u32, a: usize, b: usize) {
    if a == C_ADDR.load(SeqCst) && a != 0 && (site == 1018 || site == 119 || site == 1016 || site == 1015 || site == 1021 || site == 130 || site == 1101) {
        eprintln!("d9: site {} on C: value {:#x} ({})", site, b, b);
    }
    if site == 1016 && a == R_ADDR.load(SeqCst) {
        R_CURR.store(b, SeqCst);
    }
    // the cascade reaches the second child of the root: stop here until the observer has acted
    if site == 118 && a == C_ADDR.load(SeqCst) && R_CURR.load(SeqCst) != usize::MAX && !GO.load(SeqCst) {
        let mut g = GATE.lock().unwrap();
        PAUSED.store(true, SeqCst);
        CV.notify_all();
        while !GO.load(SeqCst) {
            g = CV.wait(g).unwrap();
        }
    }
}

fn addr(w: usize) -> usize {
    w & !7usize & !(0xFusize << 60)
}

/// returns (epochs advanced while the first subtree was disposed, C destructed while the observer was pinned)
pub fn run(chain: usize) -> (usize, bool) {
    ebr::set_tuning(64, 64);
    circ::verif::set_hook(Some(hook));
    let c = Rc::new(TNode { is_c: true, left: AtomicRc::null(), right: AtomicRc::null() });
    C_ADDR.store(addr(vs::rc_word(&c)), SeqCst);
    // left chain, built from the tail
    let mut head: Rc<TNode> = Rc::null();
    for _ in 0..chain {
        let n = Rc::new(TNode { is_c: false, left: AtomicRc::null(), right: AtomicRc::null() });
        let g = circ::cs();
        unsafe { n.deref() }.left.store(head, SeqCst, &g);
        drop(g);
        head = n;
    }
    let r = Rc::new(TNode { is_c: false, left: AtomicRc::null(), right: AtomicRc::null() });
    R_ADDR.store(addr(vs::rc_word(&r)), SeqCst);
    {
        let g = circ::cs();
        unsafe { r.deref() }.left.store(head, SeqCst, &g);
        unsafe { r.deref() }.right.store(c.clone(), SeqCst, &g);
    }
    // age everything
    for _ in 0..6 {
        let g = circ::cs();
        g.flush();
        drop(g);
    }
    let stop = Arc::new(AtomicBool::new(false));
    // a churner keeps trying to advance the epoch
    let churn = {
        let stop = stop.clone();
        std::thread::spawn(move || {
            while !stop.load(SeqCst) {
                let g = circ::cs();
                g.flush();
                drop(g);
            }
        })
    };
    // the disposer: drops the root and runs collection rounds until the cascade has happened
    let disposer = std::thread::spawn(move || {
        drop(r);
        for _ in 0..64 {
            let g = circ::cs();
            g.flush();
            drop(g);
            if DROPPED_C.load(SeqCst) || GO.load(SeqCst) {
                break;
            }
        }
    });
    // wait for the cascade to reach C
    {
        let mut g = GATE.lock().unwrap();
        let mut waited = 0;
        while !PAUSED.load(SeqCst) && waited < 2000 {
            let (g2, _) = CV.wait_timeout(g, std::time::Duration::from_millis(10)).unwrap();
            g = g2;
            waited += 1;
        }
    }
    eprintln!("d9: paused={} r_curr={}", PAUSED.load(SeqCst), R_CURR.load(SeqCst) as isize);
    let curr_r = R_CURR.load(SeqCst);
    let now = ebr::default_epoch_data() >> 1;
    let advanced = if curr_r == usize::MAX { 0 } else { now.saturating_sub(curr_r) };
    // the observer: pins, takes a snapshot of C from its Rc, drops the Rc (stamping C with the current
    // epoch) and keeps the snapshot in use
    let guard = circ::cs();
    let snap = c.snapshot(&guard);
    drop(c);
    {
        let _g = GATE.lock().unwrap();
        GO.store(true, SeqCst);
        CV.notify_all();
    }
    disposer.join().unwrap();
    eprintln!("d9: after cascade: epoch now {} C dropped {}", ebr::default_epoch_data() >> 1, DROPPED_C.load(SeqCst));
    let violated = DROPPED_C.load(SeqCst); // observed while `guard` is still alive
    let _ = snap;
    drop(guard);
    stop.store(true, SeqCst);
    churn.join().unwrap();
    circ::verif::set_hook(None);
    (advanced, violated)
}
