//! Differential stream and direct checks for property C19 (model Traits.v):
//! `Eq`, `Ord`, `PartialOrd` and `Hash` on `Rc` / `Snapshot` agree with the same operations on
//! `Option<&T>` of the referent, while `ptr_eq` compares identity plus tag (timestamp ignored).
//!
//! For every ordered pair of a pointer family (null, tagged null, one object with different tags
//! and different AtomicRc write epochs, a distinct object with equal contents, objects with
//! smaller / larger contents) a line
//!     `@traits_rc   o1 t1 s1 p1 o2 t2 s2 p2 => eq cmp pcs heq peq n1 n2`
//!     `@traits_snap o1 t1 s1 p1 o2 t2 s2 p2 => eq cmp pcs heq peq n1 n2`
//! is printed (o = canonical object id, 0 for null; t = tag; s = timestamp bits; p = payload,
//! 0 for null), which the Coq function `traits_line` must reproduce.  Independently of the model,
//! C19 is evaluated directly on the implementation for every pair and triple; a violation prints
//! `PROPFAIL C19 <description>`.
use crate::util::{Out, Rng};
use circ::verif::strong::{rc_word, snapshot_word};
use circ::{AtomicRc, Rc, RcObject, Snapshot};
use std::cmp::Ordering as O3;
use std::hash::{Hash, Hasher};
use std::sync::atomic::Ordering::SeqCst;

#[derive(PartialEq, Eq, PartialOrd, Ord, Hash, Debug)]
struct P(i64);

unsafe impl RcObject for P {
    fn pop_edges(&mut self, _out: &mut Vec<Rc<Self>>) {}
}

/// A deterministic `Hasher` that records every byte written to it.
#[derive(Default)]
struct Rec(Vec<u8>);

impl Hasher for Rec {
    fn finish(&self) -> u64 {
        0
    }
    fn write(&mut self, bytes: &[u8]) {
        self.0.extend_from_slice(bytes);
    }
}

fn hbytes<H: Hash + ?Sized>(x: &H) -> Vec<u8> {
    let mut r = Rec::default();
    x.hash(&mut r);
    r.0
}

const TS_SHIFT: u32 = usize::BITS - 4;
const TS_MASK: usize = 0xF << TS_SHIFT;
/// `RcInner<P>` holds an `i64` and an `AtomicU64`: 8-byte aligned, three tag bits.
const TAG_MASK: usize = 7;

/// The operations C19 talks about, uniformly for `Rc<P>` and `Snapshot<'g, P>`.
trait Ptr: Ord + Hash + Sized {
    fn word(&self) -> usize;
    fn tag_(&self) -> usize;
    fn is_null_(&self) -> bool;
    fn as_ref_(&self) -> Option<&P>;
    fn ptr_eq_(&self, other: &Self) -> bool;
}

impl Ptr for Rc<P> {
    fn word(&self) -> usize {
        rc_word(self)
    }
    fn tag_(&self) -> usize {
        self.tag()
    }
    fn is_null_(&self) -> bool {
        self.is_null()
    }
    fn as_ref_(&self) -> Option<&P> {
        self.as_ref()
    }
    fn ptr_eq_(&self, other: &Self) -> bool {
        self.ptr_eq(other)
    }
}

impl<'g> Ptr for Snapshot<'g, P> {
    fn word(&self) -> usize {
        snapshot_word(*self)
    }
    fn tag_(&self) -> usize {
        self.tag()
    }
    fn is_null_(&self) -> bool {
        self.is_null()
    }
    fn as_ref_(&self) -> Option<&P> {
        (*self).as_ref()
    }
    fn ptr_eq_(&self, other: &Self) -> bool {
        (*self).ptr_eq(*other)
    }
}

/// A family member together with what the harness knows about it by construction
/// (independently of `as_ref`): the object it was made from, the tag it was given, the payload.
struct Item<X> {
    p: X,
    what: String,
    id: i64,
    tag: i64,
    payload: Option<i64>,
}

impl<X: Ptr> Item<X> {
    fn ts(&self) -> i64 {
        ((self.p.word() & TS_MASK) >> TS_SHIFT) as i64
    }
    fn desc(&self) -> String {
        format!(
            "{{{}: obj#{} tag={} ts={} payload={:?} word={:#x}}}",
            self.what,
            self.id,
            self.tag,
            self.ts(),
            self.payload,
            self.p.word()
        )
    }
}

struct Ctx {
    out: Out,
    props: u64,
    propfail: u64,
}

impl Ctx {
    fn prop(&mut self, ok: bool, what: impl FnOnce() -> String) {
        self.props += 1;
        if !ok {
            self.propfail += 1;
            let w = what();
            self.out.line(&format!("PROPFAIL C19 {}", w));
        }
    }
}

fn o3(c: O3) -> i64 {
    match c {
        O3::Less => -1,
        O3::Equal => 0,
        O3::Greater => 1,
    }
}

/// `addrs[k]` is the address of canonical object `k + 1`.
fn decode_id(word: usize, addrs: &[usize]) -> Option<i64> {
    let a = word & !TS_MASK & !TAG_MASK;
    if a == 0 {
        return Some(0);
    }
    addrs.iter().position(|&x| x == a).map(|k| k as i64 + 1)
}

fn family<X: Ptr>(c: &mut Ctx, kind: &str, fam: &[Item<X>], addrs: &[usize]) {
    let n = fam.len();
    // per pointer
    for x in fam {
        let w = x.p.word();
        let did = decode_id(w, addrs);
        c.prop(did == Some(x.id), || {
            format!("{}: {} word decodes to object {:?}", kind, x.desc(), did)
        });
        c.prop((w & TAG_MASK) as i64 == x.tag && x.p.tag_() as i64 == x.tag, || {
            format!("{}: {} tag() = {} word tag = {}", kind, x.desc(), x.p.tag_(), w & TAG_MASK)
        });
        c.prop(x.p.is_null_() == (x.id == 0), || {
            format!("{}: {} is_null = {}", kind, x.desc(), x.p.is_null_())
        });
        c.prop(x.p.as_ref_().map(|r| r.0) == x.payload, || {
            format!("{}: {} as_ref = {:?}", kind, x.desc(), x.p.as_ref_())
        });
        c.prop(hbytes(&x.p) == hbytes(&x.p.as_ref_()), || {
            format!("{}: {} hashes differently from its Option<&T>", kind, x.desc())
        });
        c.prop(hbytes(&x.p) == hbytes(&x.payload.map(P).as_ref()), || {
            format!("{}: {} hashes differently from Option<&T> of its contents", kind, x.desc())
        });
    }
    // per ordered pair
    let mut eqm = vec![false; n * n];
    let mut cmpm = vec![O3::Equal; n * n];
    for i in 0..n {
        for j in 0..n {
            let (x, y) = (&fam[i], &fam[j]);
            let (rx, ry) = (x.p.as_ref_(), y.p.as_ref_());
            let e = x.p == y.p;
            let cm = x.p.cmp(&y.p);
            let pc = x.p.partial_cmp(&y.p);
            let hx = hbytes(&x.p);
            let hy = hbytes(&y.p);
            let heq = hx == hy;
            let pe = x.p.ptr_eq_(&y.p);
            let (n1, n2) = (x.p.is_null_(), y.p.is_null_());
            eqm[i * n + j] = e;
            cmpm[i * n + j] = cm;
            c.out.line(&format!(
                "@traits_{} {} {} {} {} {} {} {} {} => {} {} {} {} {} {} {}",
                kind,
                x.id,
                x.tag,
                x.ts(),
                x.payload.unwrap_or(0),
                y.id,
                y.tag,
                y.ts(),
                y.payload.unwrap_or(0),
                e as i64,
                o3(cm),
                pc.is_some() as i64,
                heq as i64,
                pe as i64,
                n1 as i64,
                n2 as i64
            ));
            let d = || format!("{}: {} vs {}", kind, x.desc(), y.desc());
            // agreement with Option<&T> of the referents
            c.prop(e == (rx == ry), || format!("{} : == is {} but as_ref()s compare {}", d(), e, rx == ry));
            c.prop((x.p != y.p) == !e, || format!("{} : != is not the negation of ==", d()));
            c.prop(cm == rx.cmp(&ry), || format!("{} : cmp is {:?} but as_ref()s compare {:?}", d(), cm, rx.cmp(&ry)));
            c.prop(pc == rx.partial_cmp(&ry), || {
                format!("{} : partial_cmp is {:?} but as_ref()s give {:?}", d(), pc, rx.partial_cmp(&ry))
            });
            c.prop(heq == (hbytes(&rx) == hbytes(&ry)), || format!("{} : hash equality differs from as_ref()s", d()));
            // agreement with the contents known by construction
            c.prop(e == (x.payload == y.payload), || format!("{} : == is {} against the contents", d(), e));
            c.prop(cm == x.payload.cmp(&y.payload), || format!("{} : cmp is {:?} against the contents", d(), cm));
            c.prop(heq == (x.payload == y.payload), || format!("{} : hash equality is {} against the contents", d(), heq));
            // consistency of the relations
            c.prop(pc == Some(cm), || format!("{} : partial_cmp {:?} != Some(cmp {:?})", d(), pc, cm));
            c.prop(e == (cm == O3::Equal), || format!("{} : == is {} but cmp is {:?}", d(), e, cm));
            c.prop(!e || heq, || format!("{} : equal but hash differently", d()));
            c.prop(y.p.cmp(&x.p) == cm.reverse(), || format!("{} : cmp is not antisymmetric", d()));
            c.prop((y.p == x.p) == e, || format!("{} : == is not symmetric", d()));
            c.prop(
                (x.p < y.p) == (cm == O3::Less)
                    && (x.p <= y.p) == (cm != O3::Greater)
                    && (x.p > y.p) == (cm == O3::Greater)
                    && (x.p >= y.p) == (cm != O3::Less),
                || format!("{} : < <= > >= disagree with cmp {:?}", d(), cm),
            );
            if i == j {
                c.prop(e && cm == O3::Equal, || format!("{} : not reflexive", d()));
            }
            // null
            if n1 {
                c.prop(cm != O3::Greater, || format!("{} : null is not smallest", d()));
                c.prop(e == n2, || format!("{} : null == is {} but other.is_null() is {}", d(), e, n2));
            }
            // ptr_eq: identity plus tag, timestamp ignored
            c.prop(pe == (x.id == y.id && x.tag == y.tag), || format!("{} : ptr_eq is {}", d(), pe));
            c.prop(pe == ((x.p.word() ^ y.p.word()) & !TS_MASK == 0), || {
                format!("{} : ptr_eq is {} against the words", d(), pe)
            });
            c.prop(!pe || e, || format!("{} : ptr_eq but not ==", d()));
            c.prop(x.id != y.id || e, || format!("{} : same object but not ==", d()));
        }
    }
    // per ordered triple
    for i in 0..n {
        for j in 0..n {
            for k in 0..n {
                let (eij, ejk, eik) = (eqm[i * n + j], eqm[j * n + k], eqm[i * n + k]);
                let (cij, cjk, cik) = (cmpm[i * n + j], cmpm[j * n + k], cmpm[i * n + k]);
                let d = || format!("{}: {} , {} , {}", kind, fam[i].desc(), fam[j].desc(), fam[k].desc());
                c.prop(!(eij && ejk) || eik, || format!("{} : == is not transitive", d()));
                c.prop(cij != cjk || cik == cij, || format!("{} : cmp {:?} is not transitive", d(), cij));
                c.prop(
                    !(cij != O3::Greater && cjk != O3::Greater) || cik != O3::Greater,
                    || format!("{} : <= is not transitive", d()),
                );
                c.prop(!eij || cik == cjk, || format!("{} : equal pointers compare differently to a third", d()));
            }
        }
    }
}

/// A referent whose equality is only partial (irreflexive NaN, -0.0 == 0.0) and whose order is only partial: the
/// relations on the pointers must still be exactly those of `Option<&T>` - in particular a pointer to a NaN is not
/// equal to itself or to its clone (an identity fast path in `eq` would make it so).  Model-independent.
#[derive(PartialEq, PartialOrd, Debug)]
struct F(f64);
unsafe impl RcObject for F {
    fn pop_edges(&mut self, _out: &mut Vec<Rc<Self>>) {}
}

fn partial_family(c: &mut Ctx) {
    let g = circ::cs();
    let vals = [1.0f64, 2.0, f64::NAN, f64::NAN, -0.0, 0.0, f64::INFINITY];
    let objs: Vec<Rc<F>> = vals.iter().map(|v| Rc::new(F(*v))).collect();
    let mut fam: Vec<(String, Rc<F>)> = vec![("null".into(), Rc::null()), ("null.with_tag(1)".into(), Rc::null().with_tag(1))];
    for (i, o) in objs.iter().enumerate() {
        fam.push((format!("F({:?})#{}", vals[i], i), o.clone()));
        fam.push((format!("F({:?})#{} (second clone)", vals[i], i), o.clone()));
        fam.push((format!("F({:?})#{}.with_tag(1)", vals[i], i), o.clone().with_tag(1)));
    }
    for (dx, x) in &fam {
        for (dy, y) in &fam {
            let (rx, ry) = (x.as_ref(), y.as_ref());
            let d = || format!("rc(partial payload): {} vs {}", dx, dy);
            c.prop((x == y) == (rx == ry), || format!("{} : == is {} but as_ref()s compare {}", d(), x == y, rx == ry));
            c.prop((x != y) == (rx != ry), || format!("{} : != is {} but as_ref()s give {}", d(), x != y, rx != ry));
            c.prop(x.partial_cmp(y) == rx.partial_cmp(&ry), || {
                format!("{} : partial_cmp is {:?} but as_ref()s give {:?}", d(), x.partial_cmp(y), rx.partial_cmp(&ry))
            });
            c.prop((x < y) == (rx < ry) && (x <= y) == (rx <= ry) && (x > y) == (rx > ry) && (x >= y) == (rx >= ry), || {
                format!("{} : < <= > >= differ from those of the as_ref()s", d())
            });
            let (sx, sy) = (x.snapshot(&g), y.snapshot(&g));
            let d = || format!("snap(partial payload): {} vs {}", dx, dy);
            c.prop((sx == sy) == (rx == ry), || format!("{} : == is {} but as_ref()s compare {}", d(), sx == sy, rx == ry));
            c.prop((sx != sy) == (rx != ry), || format!("{} : != is {} but as_ref()s give {}", d(), sx != sy, rx != ry));
            c.prop(sx.partial_cmp(&sy) == rx.partial_cmp(&ry), || {
                format!("{} : partial_cmp is {:?} but as_ref()s give {:?}", d(), sx.partial_cmp(&sy), rx.partial_cmp(&ry))
            });
            c.prop((sx < sy) == (rx < ry) && (sx <= sy) == (rx <= ry) && (sx > sy) == (rx > ry) && (sx >= sy) == (rx >= ry), || {
                format!("{} : < <= > >= differ from those of the as_ref()s", d())
            });
        }
    }
    drop(g);
}

/// One collect + try_advance round; advances the global epoch by one when nobody else is pinned.
fn epoch_round() {
    let g = circ::cs();
    g.flush();
    drop(g);
}

fn ts_of(w: usize) -> usize {
    (w & TS_MASK) >> TS_SHIFT
}

pub fn run(out_path: &str, seed: u64, thorough: bool) -> (u64, u64, u64) {
    let mut c = Ctx { out: Out::create(out_path), props: 0, propfail: 0 };
    let mut rng = Rng::new(seed);

    // the objects: A(5), B(5), C(3), D(9) and, when thorough, a few seeded ones
    let mut payloads: Vec<i64> = vec![5, 5, 3, 9];
    if thorough {
        for _ in 0..8 {
            payloads.push(rng.below(12) as i64 - 3);
        }
        payloads.push(i64::MIN);
        payloads.push(i64::MAX);
    }
    let objs: Vec<Rc<P>> = payloads.iter().map(|&v| Rc::new(P(v))).collect();
    let addrs: Vec<usize> = objs.iter().map(|r| rc_word(r) & !TS_MASK & !TAG_MASK).collect();
    let names = ["A", "B", "C", "D"];
    let name = |k: usize| if k < 4 { names[k].to_string() } else { format!("X{}", k - 3) };
    let item = |p: Rc<P>, what: String, k: Option<usize>, tag: i64| Item {
        p,
        what,
        id: k.map_or(0, |k| k as i64 + 1),
        tag,
        payload: k.map(|k| payloads[k]),
    };

    let mut fam: Vec<Item<Rc<P>>> = Vec::new();
    fam.push(item(Rc::null(), "Rc::null()".into(), None, 0));
    fam.push(item(Rc::null().with_tag(1), "Rc::null().with_tag(1)".into(), None, 1));
    fam.push(item(objs[0].clone(), "A".into(), Some(0), 0));
    fam.push(item(objs[0].clone().with_tag(1), "A.with_tag(1)".into(), Some(0), 1));

    // A loaded from an AtomicRc at two (thorough: many) different write epochs
    let cell: AtomicRc<P> = AtomicRc::null();
    {
        let g = circ::cs();
        let n = cell.load(SeqCst, &g).counted();
        fam.push(item(n, "null loaded from AtomicRc::null()".into(), None, 0));
    }
    // move away from epoch 0 so that both timestamps differ from the 0 of a never-stored pointer
    for _ in 0..2 {
        epoch_round();
    }
    let mut seen_ts: Vec<usize> = Vec::new();
    let want = if thorough { 16 } else { 2 };
    let mut rounds = 0;
    while seen_ts.len() < want && rounds < 400 {
        let loaded = {
            let g = circ::cs();
            cell.store(objs[0].clone(), SeqCst, &g);
            cell.load(SeqCst, &g).counted()
        };
        let t = ts_of(rc_word(&loaded));
        if !seen_ts.contains(&t) {
            seen_ts.push(t);
            if seen_ts.len() == 2 {
                fam.push(item(loaded.clone().with_tag(1), format!("A stored at ts {} .with_tag(1)", t), Some(0), 1));
            }
            fam.push(item(loaded, format!("A stored at ts {}", t), Some(0), 0));
        }
        for _ in 0..3 {
            epoch_round();
        }
        rounds += 1;
    }
    if seen_ts.len() < want {
        // not a C19 violation, but the family would miss the timestamp dimension
        c.prop(false, || format!("harness: only {} distinct timestamps observed: {:?}", seen_ts.len(), seen_ts));
    }
    {
        // a tagged pointer keeps its tag through an AtomicRc store (and gets a timestamp)
        let g = circ::cs();
        cell.store(objs[1].clone().with_tag(2), SeqCst, &g);
        let l = cell.load(SeqCst, &g).counted();
        fam.push(item(l, "B.with_tag(2) stored and loaded".into(), Some(1), 2));
    }
    for k in 1..objs.len() {
        fam.push(item(objs[k].clone(), name(k), Some(k), 0));
    }
    if thorough {
        for t in 2..8usize {
            fam.push(item(objs[0].clone().with_tag(t), format!("A.with_tag({})", t), Some(0), t as i64));
            fam.push(item(Rc::null().with_tag(t), format!("Rc::null().with_tag({})", t), None, t as i64));
        }
        // with_tag truncates to the alignment bits
        fam.push(item(objs[0].clone().with_tag(8 + 3), "A.with_tag(11)".into(), Some(0), 3));
        for _ in 0..10 {
            let k = rng.below(objs.len() as u64) as usize;
            let t = rng.below(8) as usize;
            fam.push(item(objs[k].clone().with_tag(t), format!("{}.with_tag({})", name(k), t), Some(k), t as i64));
        }
    }

    family(&mut c, "rc", &fam, &addrs);

    // Snapshots: of every Rc of the family (the word, timestamp included, is kept), plus ones
    // made directly
    {
        let g = circ::cs();
        let mut sfam: Vec<Item<Snapshot<'_, P>>> = fam
            .iter()
            .map(|it| Item {
                p: it.p.snapshot(&g),
                what: format!("snapshot of {}", it.what),
                id: it.id,
                tag: it.tag,
                payload: it.payload,
            })
            .collect();
        sfam.push(Item { p: Snapshot::null(), what: "Snapshot::null()".into(), id: 0, tag: 0, payload: None });
        sfam.push(Item {
            p: Snapshot::null().with_tag(1),
            what: "Snapshot::null().with_tag(1)".into(),
            id: 0,
            tag: 1,
            payload: None,
        });
        let l = cell.load(SeqCst, &g);
        sfam.push(Item { p: l, what: "B.with_tag(2) loaded".into(), id: 2, tag: 2, payload: Some(payloads[1]) });
        sfam.push(Item {
            p: l.with_tag(0),
            what: "B.with_tag(2) loaded .with_tag(0)".into(),
            id: 2,
            tag: 0,
            payload: Some(payloads[1]),
        });
        family(&mut c, "snap", &sfam, &addrs);
    }

    drop(fam);
    drop(cell);
    drop(objs);
    partial_family(&mut c);
    let (props, fails) = (c.props, c.propfail);
    (c.out.finish(), props, fails)
}
