//! M2 correspondence: the EBR core of ebr_impl/internal.rs on a private collector under the
//! cooperative scheduler.  EBR yield sites 10..23 enabled, queue and list sites masked (atomic).
//!
//! Program encoding: `cap g0` then per thread `-1 ncmds <cmds>` with commands
//!   0 pin | 1 unpin (most recent guard) | 2 flush | 4 reactivate | 3 id nbody <body cmds> defer
//! A closure logs `2010 id` when it runs and `2011 opcode arg` before each command of its body;
//! body commands use the handle of the thread that happens to run the closure.
use crate::conc::{case_line, sched_of};
use crate::sched::{self, policy};
use crate::util::Rng;
use circ::verif::ebr::{self, Collector, LocalHandle};
use circ::Guard;
use std::cell::Cell;
use std::collections::HashMap;
use std::sync::mpsc;

fn enabled(site: u32) -> bool {
    site == 1 || site == 2 || (10..=23).contains(&site)
}

#[derive(Clone, Debug)]
pub enum Cmd {
    Pin,
    Unpin,
    Flush,
    Repin,
    Defer(u64, Vec<Cmd>),
}

/// process-wide counts of defer calls and of executed deferred functions (C15: nothing lost at quiescence)
static DEFERRED: std::sync::atomic::AtomicUsize = std::sync::atomic::AtomicUsize::new(0);
static EXECUTED: std::sync::atomic::AtomicUsize = std::sync::atomic::AtomicUsize::new(0);

thread_local! {
    static CUR_HANDLE: Cell<*const LocalHandle> = const { Cell::new(std::ptr::null()) };
}

struct SendHandle(#[allow(dead_code)] LocalHandle);
unsafe impl Send for SendHandle {}

fn opcode(c: &Cmd) -> (usize, usize) {
    match c {
        Cmd::Pin => (0, 0),
        Cmd::Unpin => (1, 0),
        Cmd::Flush => (2, 0),
        Cmd::Defer(id, _) => (3, *id as usize),
        Cmd::Repin => (4, 0),
    }
}

fn exec(c: &Cmd, guards: &mut Vec<Guard>) {
    let h = unsafe { &*CUR_HANDLE.with(|c| c.get()) };
    match c {
        Cmd::Pin => guards.push(h.pin()),
        Cmd::Unpin => drop(guards.pop().expect("unpin without guard")),
        Cmd::Flush => guards.last().expect("flush without guard").flush(),
        Cmd::Repin => guards.last_mut().expect("repin without guard").reactivate(),
        Cmd::Defer(id, body) => {
            let id = *id;
            let body = body.clone();
            let g = guards.last().expect("defer without guard");
            DEFERRED.fetch_add(1, std::sync::atomic::Ordering::SeqCst);
            unsafe {
                ebr::defer(g, move || {
                    EXECUTED.fetch_add(1, std::sync::atomic::Ordering::SeqCst);
                    sched::obs(2010, id as usize, 0);
                    if CUR_HANDLE.with(|c| c.get()).is_null() {
                        // run after the case ended (tear-down on the main thread): not part of the model
                        return;
                    }
                    let mut gs: Vec<Guard> = vec![];
                    for c in &body {
                        let (o, a) = opcode(c);
                        sched::obs(2011, o, a);
                        exec(c, &mut gs);
                    }
                    // a well-formed body is balanced; drop leftovers innermost first anyway
                    while let Some(g) = gs.pop() {
                        drop(g);
                    }
                })
            };
        }
    }
}

fn gen_body(rng: &mut Rng, next_id: &mut u64, depth: u32) -> Vec<Cmd> {
    if rng.chance(1, 2) {
        return vec![];
    }
    let mut body = vec![Cmd::Pin];
    let n = rng.below(4);
    for _ in 0..n {
        match rng.below(6) {
            0 | 1 => body.push(Cmd::Flush),
            2 | 3 => {
                let id = *next_id;
                *next_id += 1;
                let b = if depth < 1 { gen_body(rng, next_id, depth + 1) } else { vec![] };
                body.push(Cmd::Defer(id, b));
            }
            4 => {
                body.push(Cmd::Pin);
                body.push(Cmd::Unpin);
            }
            _ => body.push(Cmd::Repin),
        }
    }
    body.push(Cmd::Unpin);
    body
}

/// a long burst of deferrals under one guard (incr_advance calls try_advance on every COUNTS_BETWEEN_ADVANCE-th
/// deferral, inside the critical section), while other threads run rounds and hold guards
pub fn gen_burst_program(rng: &mut Rng) -> (usize, usize, Vec<Vec<Cmd>>) {
    let cap = 3 + rng.below(3) as usize;
    let g0 = rng.below(6) as usize;
    let mut next_id = 1u64;
    let k = 64 + rng.below(80) as usize;
    let mut t0 = vec![Cmd::Pin];
    for _ in 0..k {
        t0.push(Cmd::Defer(next_id, vec![]));
        next_id += 1;
    }
    t0.push(Cmd::Unpin);
    let mut progs = vec![t0];
    let nt = 1 + rng.below(2) as usize;
    for _ in 0..nt {
        let mut p = vec![];
        for _ in 0..(2 + rng.below(4)) {
            p.extend([Cmd::Pin, Cmd::Flush, Cmd::Unpin]);
        }
        progs.push(p);
    }
    (cap, g0, progs)
}

pub fn gen_program(rng: &mut Rng, thorough: bool) -> (usize, usize, Vec<Vec<Cmd>>) {
    // cap 1 makes Local::unpin loop forever (every pop retires a queue node, which fills and seals a
    // bag, which is popped three epochs later, ...): not reachable with the production MAX_OBJECTS
    let cap = 2 + rng.below(4) as usize;
    let g0 = rng.below(if thorough { 40 } else { 6 }) as usize;
    let nt = 1 + rng.below(if thorough { 4 } else { 3 }) as usize;
    let mut next_id = 1u64;
    let progs = (0..nt)
        .map(|_| {
            let n = 2 + rng.below(if thorough { 24 } else { 10 }) as usize;
            let mut depth = 0usize;
            let mut p = vec![];
            for _ in 0..n {
                let r = rng.below(12);
                if depth == 0 || r == 0 {
                    p.push(Cmd::Pin);
                    depth += 1;
                } else {
                    match r {
                        1..=3 => {
                            p.push(Cmd::Unpin);
                            depth -= 1;
                        }
                        4 | 5 => p.push(Cmd::Flush),
                        6 => p.push(Cmd::Repin),
                        _ => {
                            let id = next_id;
                            next_id += 1;
                            let b = gen_body(rng, &mut next_id, 0);
                            p.push(Cmd::Defer(id, b));
                        }
                    }
                }
            }
            for _ in 0..depth {
                p.push(Cmd::Unpin);
            }
            p
        })
        .collect();
    (cap, g0, progs)
}

fn encode_cmds(cs: &[Cmd], out: &mut Vec<i64>) {
    for c in cs {
        match c {
            Cmd::Pin => out.push(0),
            Cmd::Unpin => out.push(1),
            Cmd::Flush => out.push(2),
            Cmd::Repin => out.push(4),
            Cmd::Defer(id, body) => {
                out.extend([3, *id as i64, body.len() as i64]);
                encode_cmds(body, out);
            }
        }
    }
}

pub fn encode(cap: usize, g0: usize, progs: &[Vec<Cmd>]) -> Vec<i64> {
    let mut out = vec![cap as i64, g0 as i64];
    for p in progs {
        out.push(-1);
        out.push(p.len() as i64);
        encode_cmds(p, &mut out);
    }
    out
}

/// which schedule family to use
pub enum Sched {
    Random,
    Script(Vec<usize>),
    /// the D8 director: once a deferred function whose body takes a guard is running on thread X,
    /// alternate "one full round of the other thread" with "X up to the end of its next body command"
    D8,
}

pub fn run_case(cap: usize, g0: usize, progs: &[Vec<Cmd>], rng: &mut Rng, sch: Sched) -> (String, Vec<String>) {
    ebr::set_tuning(cap, 64);
    DEFERRED.store(0, std::sync::atomic::Ordering::SeqCst);
    EXECUTED.store(0, std::sync::atomic::Ordering::SeqCst);
    let collector = Collector::new();
    // the main thread's participant: registered first, unpinned during the case; brings the epoch to g0
    let h0 = collector.register();
    for _ in 0..g0 {
        let g = h0.pin();
        g.flush();
        drop(g);
    }
    let nt = progs.len();
    let mut addr_of: HashMap<usize, i64> = HashMap::new();
    addr_of.insert(ebr::handle_addr(&h0), nt as i64);
    let (tx, rx) = mpsc::channel::<(usize, usize, SendHandle)>();
    let mut bodies: Vec<Box<dyn FnOnce() + Send>> = vec![];
    for (tid, prog) in progs.iter().cloned().enumerate() {
        let c = collector.clone();
        let tx = tx.clone();
        bodies.push(Box::new(move || {
            sched::arm(true);
            let h = c.register();
            let addr = ebr::handle_addr(&h);
            sched::obs(2020, tid, addr);
            CUR_HANDLE.with(|c| c.set(&h as *const LocalHandle));
            let mut guards: Vec<Guard> = vec![];
            for cmd in &prog {
                let (o, a) = opcode(cmd);
                sched::obs(1, o, a);
                exec(cmd, &mut guards);
                sched::obs(2000, o, 0);
            }
            sched::obs(1, 9, 0);
            sched::arm(false);
            while let Some(g) = guards.pop() {
                drop(g);
            }
            CUR_HANDLE.with(|c| c.set(std::ptr::null()));
            let _ = tx.send((tid, addr, SendHandle(h)));
        }));
    }
    drop(tx);
    // the first nt steps are the start steps of threads 0..nt-1 in order (registration order)
    let is_d8 = matches!(sch, Sched::D8);
    let res = {
        let mut inner: Box<dyn FnMut(&[usize], usize) -> usize> = match sch {
            Sched::Script(s) => Box::new(policy::scripted(s)),
            Sched::D8 => Box::new(|_r: &[usize], _| 0),
            Sched::Random => {
                if rng.chance(1, 2) {
                    let mut r2 = Rng::new(rng.next());
                    Box::new(move |r: &[usize], _| r2.below(r.len() as u64) as usize)
                } else {
                    Box::new(policy::pct(rng, nt, 200, 4))
                }
            }
        };
        let d8 = is_d8;
        let mut x: Option<usize> = None; // the thread running the body with the nested guard
        let mut turn_other = true;
        let mut mark = 0usize; // trace length at the last hand-over
        let mut chooser = move |r: &[usize], step: usize, trace: &[sched::Step]| {
            if step < nt {
                return r.iter().position(|&t| t == step).unwrap_or(0);
            }
            if !d8 {
                return inner(r, step);
            }
            let pos = |t: usize| r.iter().position(|&q| q == t);
            if x.is_none() {
                // look for a nested pin inside a closure body: obs (2011, 0, _)
                if let Some(st) = trace.last() {
                    if st.obs.iter().any(|&(s, a, _)| s == 2011 && a == 0) {
                        x = Some(st.tid);
                        turn_other = true;
                        mark = trace.len();
                    }
                }
            }
            match x {
                None => {
                    // before: round-robin over runnable threads in blocks of a few steps
                    (step / 7) % r.len()
                }
                Some(xt) => {
                    let other = if xt == 0 { 1 } else { 0 };
                    let since = &trace[mark.min(trace.len())..];
                    if turn_other {
                        // the other thread runs until it completes an Unpin operation (one full round)
                        let done = since.iter().any(|st| st.tid == other && st.obs.iter().any(|&(s, a, _)| s == 2000 && a == 1));
                        if done || pos(other).is_none() {
                            turn_other = false;
                            mark = trace.len();
                            pos(xt).or(pos(other)).unwrap_or(0)
                        } else {
                            pos(other).unwrap_or(0)
                        }
                    } else {
                        // X runs until it starts its next body command (obs 2011) or leaves the body
                        let done = since.iter().any(|st| st.tid == xt && st.obs.iter().any(|&(s, _, _)| s == 2011 || s == 2000));
                        if done || pos(xt).is_none() {
                            turn_other = true;
                            mark = trace.len();
                            pos(other).or(pos(xt)).unwrap_or(0)
                        } else {
                            pos(xt).unwrap_or(0)
                        }
                    }
                }
            }
        };
        sched::run_observed(bodies, enabled, 200_000, &mut chooser)
    };
    let handles: Vec<(usize, usize, SendHandle)> = rx.iter().collect();
    for (tid, addr, _) in &handles {
        addr_of.insert(*addr, *tid as i64);
    }
    // canonicalise
    let mut steps: Vec<Vec<(u32, i64, i64)>> = vec![];
    let mut monitor = vec![];
    for st in &res.trace {
        let mut out = vec![];
        for &(site, a, b) in &st.obs {
            match site {
                1 | 2000 | 2010 | 2011 => out.push((site, a as i64, b as i64)),
                2020 => {
                    addr_of.insert(b, a as i64);
                    out.push((site, a as i64, 0));
                }
                10..=14 | 16..=18 | 21 | 23 => out.push((site, 0, 0)),
                1210 | 1216 => out.push((site, b as i64, 0)),
                1218 | 1221 | 1223 => out.push((site, a as i64, 0)),
                19 => out.push((site, *addr_of.get(&a).unwrap_or(&-1), 0)),
                1219 => out.push((site, *addr_of.get(&a).unwrap_or(&-1), b as i64)),
                20 => out.push((site, b as i64, 0)),
                _ => {}
            }
        }
        steps.push(out);
    }
    if res.panicked.iter().any(|&p| p) {
        monitor.push("PROPFAIL C13 a model thread panicked".to_string());
    }
    monitor.extend(monitors(nt, &sched_of(&res.trace), &steps));
    // C15 at quiescence: the threads' participants are released (their bags are handed over), then the
    // surviving participant runs rounds; every deferred function must have run exactly once by then
    drop(handles);
    let sealed_bound = 12 + DEFERRED.load(std::sync::atomic::Ordering::SeqCst) / 1;
    let mut rounds = 0;
    while EXECUTED.load(std::sync::atomic::Ordering::SeqCst) < DEFERRED.load(std::sync::atomic::Ordering::SeqCst) && rounds < sealed_bound {
        let g = h0.pin();
        g.flush();
        drop(g);
        rounds += 1;
    }
    let (d, e) = (DEFERRED.load(std::sync::atomic::Ordering::SeqCst), EXECUTED.load(std::sync::atomic::Ordering::SeqCst));
    if d != e {
        monitor.push(format!("PROPFAIL C15 at quiescence: {} deferred functions, {} executed after {} rounds of the surviving participant", d, e, rounds));
    }
    drop(h0);
    (case_line("ebr", &encode(cap, g0, progs), &sched_of(&res.trace), &steps), monitor)
}

/// Model-independent oracles on the recorded trace.
/// C14: every value of the global epoch observed is >= the previous one and moves by single steps;
///      while a thread is inside a critical section (its pin validated at epoch a, outermost guard
///      not yet being dropped) every observed global epoch is a or a+1.
/// C13: a deferred function (identified by its id) does not run while a critical section that was
///      active when the defer completed is still active.
fn monitors(nt: usize, sched: &[usize], steps: &[Vec<(u32, i64, i64)>]) -> Vec<String> {
    let mut out = vec![];
    let mut depth = vec![0i64; nt]; // top-level guards held (user level)
    let mut in_cs = vec![false; nt];
    let mut serial = vec![0u64; nt];
    let mut ann = vec![0i64; nt]; // epoch value the current critical section was validated at
    let mut last_read = vec![0i64; nt]; // last 1210 value (2g+1) read by the thread's pin loop
    let mut g_seen: i64 = -1;
    let mut cur_op = vec![(9i64, 0i64); nt];
    let mut wit: HashMap<i64, Vec<(usize, u64)>> = HashMap::new();
    let mut in_closure = vec![0usize; nt]; // > 0 while a closure body is running on the thread
    // guards created by the body of a deferred function while it runs (nested under the guard being
    // dropped): (depth, serial).  They are critical sections for their user, although the collector's
    // internal re-pins ignore them (D8).
    let mut ndepth = vec![0i64; nt];
    let mut nserial = vec![0u64; nt];
    let mut nwit: HashMap<i64, Vec<(usize, u64)>> = HashMap::new();
    let mut ran_ids: std::collections::HashSet<i64> = std::collections::HashSet::new();
    let mut deferred_ids: std::collections::HashSet<i64> = std::collections::HashSet::new();
    let see_g = |g: i64, g_seen: &mut i64, in_cs: &Vec<bool>, ann: &Vec<i64>, out: &mut Vec<String>, k: usize| {
        if *g_seen >= 0 && (g < *g_seen || g > *g_seen + 1) {
            out.push(format!("PROPFAIL C14 step {}: global epoch observed {} after {}", k, g, *g_seen));
        }
        if g > *g_seen {
            *g_seen = g;
        }
        for t in 0..in_cs.len() {
            if in_cs[t] && !(g == ann[t] || g == ann[t] + 1) {
                out.push(format!("PROPFAIL C14 step {}: thread {} is pinned at epoch {} but the global epoch is {}", k, t, ann[t], g));
            }
        }
    };
    for (k, st) in steps.iter().enumerate() {
        let t = sched[k];
        if t >= nt {
            continue;
        }
        for &(site, a, _b) in st {
            match site {
                1 => {
                    cur_op[t] = (a, _b);
                    in_closure[t] = 0;
                    if a == 3 {
                        deferred_ids.insert(_b);
                    }
                    // unpin / reactivate of the only guard: the critical section ends here
                    if (a == 1 || a == 4) && depth[t] == 1 {
                        in_cs[t] = false;
                    }
                }
                1210 => {
                    last_read[t] = a;
                    see_g((a - 1) / 2, &mut g_seen, &in_cs, &ann, &mut out, k);
                }
                1216 => see_g((a - 1) / 2, &mut g_seen, &in_cs, &ann, &mut out, k),
                17 => {
                    // repin_without_collect publishes a newer epoch: legal only outside every critical section of
                    // this thread (during the collection that follows the drop of its last guard, or from
                    // reactivate on its sole guard)
                    if in_cs[t] {
                        out.push(format!("PROPFAIL C13 step {}: thread {} re-pins (publishes a newer epoch) inside its live critical section {} (a guard is still alive)", k, t, serial[t]));
                        out.push(format!("PROPFAIL C14 step {}: the announcement of thread {} changes inside its live critical section {}", k, t, serial[t]));
                        out.push(format!("PROPFAIL C16 step {}: thread {} is re-pinned although it holds more than the guard being reactivated (critical section {})", k, t, serial[t]));
                    } else if ndepth[t] > 0 {
                        out.push(format!("PROPFAIL C13 step {}: thread {} re-pins while a guard created inside a running destructor is live (nested section {}) [nested-guard-during-collection]", k, t, nserial[t]));
                    }
                }
                1218 | 1221 => see_g(a / 2, &mut g_seen, &in_cs, &ann, &mut out, k),
                20 => see_g(a / 2, &mut g_seen, &in_cs, &ann, &mut out, k),
                2010 => {
                    in_closure[t] += 1;
                    if !ran_ids.insert(a) {
                        out.push(format!("PROPFAIL C15 step {}: deferred function {} runs a second time (on thread {})", k, a, t));
                    }
                    if !deferred_ids.contains(&a) {
                        out.push(format!("PROPFAIL C15 step {}: a deferred function with id {} runs but was never deferred", k, a));
                    }
                    if let Some(ws) = nwit.get(&a) {
                        for &(q, n) in ws {
                            if ndepth[q] > 0 && nserial[q] == n {
                                out.push(format!(
                                    "PROPFAIL C13 step {}: deferred function {} runs on thread {} while a guard created inside a destructor on thread {} (live at its deferral, nested section {}) is still live [nested-guard-during-collection]",
                                    k, a, t, q, n
                                ));
                            }
                        }
                    }
                    if let Some(ws) = wit.get(&a) {
                        for &(q, n) in ws {
                            if in_cs[q] && serial[q] == n {
                                out.push(format!(
                                    "PROPFAIL C13 step {}: deferred function {} runs on thread {} while critical section {} of thread {} (active at its deferral) is still active",
                                    k, a, t, n, q
                                ));
                            }
                        }
                    }
                }
                2011 => {
                    // a defer issued from a closure body completes within the closure; record its witnesses now
                    if a == 3 {
                        let ws: Vec<(usize, u64)> = (0..nt).filter(|&q| in_cs[q]).map(|q| (q, serial[q])).collect();
                        wit.insert(_b, ws);
                        let nws: Vec<(usize, u64)> = (0..nt).filter(|&q| ndepth[q] > 0).map(|q| (q, nserial[q])).collect();
                        nwit.insert(_b, nws);
                    }
                    if a == 3 {
                        deferred_ids.insert(_b);
                    }
                    // guards of the body: pin / unpin
                    if a == 0 {
                        ndepth[t] += 1;
                        if ndepth[t] == 1 {
                            nserial[t] += 1;
                        }
                    } else if a == 1 {
                        ndepth[t] -= 1;
                    }
                }
                2000 => {
                    let (op, arg) = cur_op[t];
                    match op {
                        0 => {
                            depth[t] += 1;
                            if depth[t] == 1 {
                                in_cs[t] = true;
                                serial[t] += 1;
                                ann[t] = (last_read[t] - 1) / 2;
                            }
                        }
                        1 => depth[t] -= 1,
                        4 => {
                            if depth[t] == 1 {
                                in_cs[t] = true;
                                serial[t] += 1;
                                ann[t] = (last_read[t] - 1) / 2;
                            }
                        }
                        3 => {
                            let ws: Vec<(usize, u64)> = (0..nt).filter(|&q| in_cs[q]).map(|q| (q, serial[q])).collect();
                            wit.insert(arg, ws);
                            let nws: Vec<(usize, u64)> = (0..nt).filter(|&q| ndepth[q] > 0).map(|q| (q, nserial[q])).collect();
                            nwit.insert(arg, nws);
                        }
                        _ => {}
                    }
                }
                _ => {}
            }
        }
    }
    out
}

/// The fixed two-thread program of the D8 attack: thread 0 defers a function whose body takes a guard
/// and flushes repeatedly under it (each flush re-pins the collecting thread); thread 1 defers a
/// function and keeps advancing the epoch.  Random schedules are searched for one in which thread 1's
/// function runs while thread 0's nested guard, live at its deferral, is still live.
pub fn d8_program() -> (usize, usize, Vec<Vec<Cmd>>) {
    let body = vec![Cmd::Pin, Cmd::Flush, Cmd::Flush, Cmd::Flush, Cmd::Flush, Cmd::Flush, Cmd::Unpin];
    let mut a = vec![Cmd::Pin, Cmd::Defer(1, body.clone()), Cmd::Flush, Cmd::Unpin];
    let mut b = vec![Cmd::Pin, Cmd::Defer(2, body), Cmd::Flush, Cmd::Unpin];
    for i in 0..10u64 {
        a.extend([Cmd::Pin, Cmd::Defer(100 + i, vec![]), Cmd::Flush, Cmd::Unpin]);
        b.extend([Cmd::Pin, Cmd::Defer(200 + i, vec![]), Cmd::Flush, Cmd::Unpin]);
    }
    (4, 0, vec![a, b])
}
