(* driver.ml -- replays implementation output through the extracted Coq model (model.ml) and
   reports every line on which they differ.  Hand-written: parsing, conversion, printing only.

   usage: driver pure <file>
   Line format of the pure stream:  name arg.. => result     (signed decimal integers)
   Lines starting with PROPFAIL are passed through (property violations found on the
   implementation by the harness itself). *)

module BZ = Z
open Model

let rec pos_of_z (x : BZ.t) : positive =
  if BZ.equal x BZ.one then XH
  else if BZ.testbit x 0 then XI (pos_of_z (BZ.shift_right x 1))
  else XO (pos_of_z (BZ.shift_right x 1))

let coq_of_z (x : BZ.t) : z =
  if BZ.sign x = 0 then Z0 else if BZ.sign x > 0 then Zpos (pos_of_z x) else Zneg (pos_of_z (BZ.neg x))

let rec z_of_pos (p : positive) : BZ.t =
  match p with
  | XH -> BZ.one
  | XO q -> BZ.shift_left (z_of_pos q) 1
  | XI q -> BZ.succ (BZ.shift_left (z_of_pos q) 1)

let z_of_coq (x : z) : BZ.t =
  match x with Z0 -> BZ.zero | Zpos p -> z_of_pos p | Zneg p -> BZ.neg (z_of_pos p)

let b2z b = if b then BZ.one else BZ.zero
let zb (x : BZ.t) = not (BZ.equal x BZ.zero)

let rec coq_list = function [] -> [] | x :: r -> x :: coq_list r

(* name -> arity and function on BZ.t list *)
let table : (string, (BZ.t list -> BZ.t)) Hashtbl.t = Hashtbl.create 64

let reg name f = Hashtbl.replace table name f
let c = coq_of_z
let r = z_of_coq

let () =
  let k0 name v = reg ("const_" ^ name) (fun _ -> r v) in
  k0 "EPOCH_WIDTH" ePOCH_WIDTH; k0 "EPOCH_MASK_HEIGHT" ePOCH_MASK_HEIGHT; k0 "EPOCH" ePOCH;
  k0 "DESTRUCTED" dESTRUCTED; k0 "WEAKED" wEAKED; k0 "TOTAL_COUNT_WIDTH" tOTAL_COUNT_WIDTH;
  k0 "WEAK_WIDTH" wEAK_WIDTH; k0 "STRONG_WIDTH" sTRONG_WIDTH; k0 "STRONG" sTRONG; k0 "WEAK" wEAK;
  k0 "COUNT" cOUNT; k0 "WEAK_COUNT" wEAK_COUNT; k0 "HIGH_TAG_WIDTH" hIGH_TAG_WIDTH;
  k0 "MAX_OBJECTS" mAX_OBJECTS; k0 "MANUAL_EVENTS_BETWEEN_COLLECT" mANUAL_EVENTS_BETWEEN_COLLECT;
  k0 "COLLECTS_TRIALS" cOLLECTS_TRIALS; k0 "COUNTS_BETWEEN_ADVANCE" cOUNTS_BETWEEN_ADVANCE;
  let f1 name f = reg name (function [a] -> f a | _ -> failwith ("arity " ^ name)) in
  let f2 name f = reg name (function [a; b] -> f a b | _ -> failwith ("arity " ^ name)) in
  let f3 name f = reg name (function [a; b; d] -> f a b d | _ -> failwith ("arity " ^ name)) in
  f1 "strong" (fun w -> r (strong (c w)));
  f1 "weak" (fun w -> r (weak (c w)));
  f1 "weaked" (fun w -> b2z (weaked (c w)));
  f1 "destructed" (fun w -> b2z (destructed (c w)));
  f1 "epoch" (fun w -> r (epoch (c w)));
  f2 "with_epoch" (fun w e -> r (with_epoch (c w) (c e)));
  f2 "add_strong" (fun w v -> r (add_strong (c w) (c v)));
  f2 "sub_strong" (fun w v -> r (sub_strong (c w) (c v)));
  f2 "add_weak" (fun w v -> r (add_weak (c w) (c v)));
  f2 "with_destructed" (fun w b -> r (with_destructed (c w) (zb b)));
  f2 "with_weaked" (fun w b -> r (with_weaked (c w) (zb b)));
  f1 "alloc_word" (fun n -> r (alloc_word (c n)));
  f3 "m_le" (fun m a b -> b2z (m_le ePOCH_WIDTH (c m) (c a) (c b)));
  reg "merged" (function [cur; a; b; d] -> r (merged (c cur) (c a) (c b) (c d)) | _ -> failwith "arity merged");
  f2 "m_trans" (fun m v -> r (m_trans ePOCH_WIDTH (c m) (c v)));
  f2 "m_inver" (fun m v -> r (m_inver ePOCH_WIDTH (c m) (c v)));
  f1 "low_bits" (fun k -> r (f_low_bits (c k)));
  f2 "tag" (fun k p -> r (t_tag (c k) (c p)));
  f2 "high_tag" (fun k p -> r (t_high_tag (c k) (c p)));
  f2 "as_raw" (fun k p -> r (t_as_raw (c k) (c p)));
  f2 "is_null" (fun k p -> b2z (t_is_null (c k) (c p)));
  f3 "with_tag" (fun k p t -> r (t_with_tag (c k) (c p) (c t)));
  f3 "with_high_tag" (fun k p t -> r (t_with_high_tag (c k) (c p) (c t)));
  f3 "ptr_eq" (fun k p q -> b2z (t_ptr_eq (c k) (c p) (c q)));
  f1 "e_is_pinned" (fun d -> b2z (e_is_pinned (c d)));
  f1 "e_pinned" (fun d -> r (e_pinned (c d)));
  f1 "e_unpinned" (fun d -> r (e_unpinned (c d)));
  f1 "e_successor" (fun d -> r (e_successor (c d)));
  f1 "e_value" (fun d -> r (e_value (c d)));
  f2 "e_wrapping_sub" (fun a b -> r (e_wrapping_sub (c a) (c b)));
  f2 "is_expired" (fun bag g -> b2z (is_expired (c bag) (c g)))

let pure file =
  let ic = open_in file in
  let total = ref 0 and mism = ref 0 and propfail = ref 0 in
  let counts : (string, int) Hashtbl.t = Hashtbl.create 64 in
  (try
     while true do
       let line = input_line ic in
       if String.length line >= 8 && String.sub line 0 8 = "PROPFAIL" then begin
         incr propfail;
         if !propfail <= 20 then print_endline line
       end else begin
         let toks = String.split_on_char ' ' line |> List.filter (fun s -> s <> "") in
         match toks with
         | name :: rest ->
           let rec split acc = function
             | "=>" :: [res] -> (List.rev acc, res)
             | x :: tl -> split (x :: acc) tl
             | [] -> failwith ("bad line: " ^ line) in
           let args, res = split [] rest in
           let f = try Hashtbl.find table name with Not_found -> failwith ("unknown function " ^ name) in
           let got = f (List.map BZ.of_string args) in
           incr total;
           Hashtbl.replace counts name (1 + (try Hashtbl.find counts name with Not_found -> 0));
           if not (BZ.equal got (BZ.of_string res)) then begin
             incr mism;
             if !mism <= 20 then
               Printf.printf "MISMATCH %s %s : implementation=%s model=%s\n" name (String.concat " " args) res (BZ.to_string got)
           end
         | [] -> ()
       end
     done
   with End_of_file -> ());
  close_in ic;
  let names = Hashtbl.fold (fun k v acc -> (k, v) :: acc) counts [] |> List.sort compare in
  Printf.printf "SUMMARY compared=%d mismatches=%d propfail=%d functions=%d\n" !total !mism !propfail (List.length names);
  List.iter (fun (k, v) -> Printf.printf "COUNT %s %d\n" k v) names;
  if !mism > 0 || !propfail > 0 then exit 1

(* ---- scheduler-driven cases:  model prog.. | sched.. | step ; step ; ..   (see harness/src/conc.rs)
        and list-valued functions:  @name args.. => results..                                   *)
let replays : (string, (z list -> z list -> z list list)) Hashtbl.t = Hashtbl.create 8
(* oracle-guided models also receive the recorded observations *)
let guided : (string, (z list -> z list -> z list list -> z list list)) Hashtbl.t = Hashtbl.create 8
let listfuns : (string, (z list -> z list)) Hashtbl.t = Hashtbl.create 8

let ints_of (s : string) : BZ.t list =
  String.split_on_char ' ' s |> List.filter (fun x -> x <> "") |> List.map BZ.of_string

let show (l : BZ.t list) = String.concat " " (List.map BZ.to_string l)

let split_on (sep : string) (s : string) : string list =
  (* split on a single-character separator given as a string of length 1 *)
  String.split_on_char sep.[0] s

let conc file =
  let ic = open_in file in
  let cases = ref 0 and steps = ref 0 and mism = ref 0 and propfail = ref 0 and lf = ref 0 in
  let sites : (string, int) Hashtbl.t = Hashtbl.create 64 in
  let per_model : (string, int) Hashtbl.t = Hashtbl.create 8 in
  let lineno = ref 0 in
  (try
     while true do
       let line = input_line ic in
       incr lineno;
       if String.length line >= 8 && String.sub line 0 8 = "PROPFAIL" then begin
         incr propfail;
         if !propfail <= 20 then print_endline line
       end else if String.length line > 0 && line.[0] = '#' then begin
         ()  (* a comment / summary line of the harness *)
       end else if String.length line > 0 && line.[0] = '@' then begin
         (* @name args => results *)
         let sp = String.index line ' ' in
         let name = String.sub line 1 (sp - 1) in
         let rest = String.sub line sp (String.length line - sp) in
         let pieces =
           match Str.bounded_split_delim (Str.regexp_string "=>") rest 2 with
           | [a] -> [a]
           | l -> l in
         (match pieces with
          | [a; r] ->
            let f = try Hashtbl.find listfuns name with Not_found -> failwith ("unknown list function " ^ name) in
            let got = List.map z_of_coq (f (List.map coq_of_z (ints_of a))) in
            let want = ints_of r in
            incr lf;
            Hashtbl.replace per_model name (1 + (try Hashtbl.find per_model name with Not_found -> 0));
            if not (List.length got = List.length want && List.for_all2 BZ.equal got want) then begin
              incr mism;
              if !mism <= 10 then
                Printf.printf "MISMATCH line %d @%s %s : implementation=[%s] model=[%s]\n" !lineno name (String.trim a) (show want) (show got)
            end
          | _ -> failwith ("bad line: " ^ line))
       end else if String.length line > 0 then begin
         match split_on "|" line with
         | [hd; sch; obs] ->
           let hd_toks = String.split_on_char ' ' hd |> List.filter (fun x -> x <> "") in
           let model = List.hd hd_toks in
           let prog = List.map BZ.of_string (List.tl hd_toks) in
           let sched = ints_of sch in
           let want = List.map ints_of (split_on ";" obs) in
           let got =
             if Hashtbl.mem guided model then
               let f = Hashtbl.find guided model in
               List.map (List.map z_of_coq) (f (List.map coq_of_z prog) (List.map coq_of_z sched) (List.map (List.map coq_of_z) want))
             else
               let f = try Hashtbl.find replays model with Not_found -> failwith ("unknown model " ^ model) in
               List.map (List.map z_of_coq) (f (List.map coq_of_z prog) (List.map coq_of_z sched)) in
           incr cases;
           Hashtbl.replace per_model model (1 + (try Hashtbl.find per_model model with Not_found -> 0));
           let rec cmp i g w =
             match g, w with
             | [], [] -> ()
             | gs :: gr, ws :: wr ->
               incr steps;
               (match ws with
                | site :: _ ->
                  let k = model ^ ":" ^ BZ.to_string site in
                  Hashtbl.replace sites k (1 + (try Hashtbl.find sites k with Not_found -> 0))
                | [] -> ());
               if List.length gs = List.length ws && List.for_all2 BZ.equal gs ws then cmp (i + 1) gr wr
               else begin
                 incr mism;
                 if !mism <= 10 then begin
                   Printf.printf "MISMATCH line %d model=%s step=%d thread=%s : implementation=[%s] model=[%s]\n" !lineno model i
                     (try BZ.to_string (List.nth sched i) with _ -> "?") (show ws) (show gs);
                   Printf.printf "  CASE %s\n" line
                 end
               end
             | _, _ ->
               incr mism;
               if !mism <= 10 then Printf.printf "MISMATCH line %d model=%s : step counts differ (model %d, implementation %d)\n" !lineno model (List.length got) (List.length want)
           in
           cmp 0 got want
         | _ -> failwith ("bad case line: " ^ line)
       end
     done
   with End_of_file -> ());
  close_in ic;
  Printf.printf "SUMMARY cases=%d steps=%d listfun_lines=%d mismatches=%d propfail=%d distinct_sites=%d\n" !cases !steps !lf !mism !propfail (Hashtbl.length sites);
  Hashtbl.iter (fun k v -> Printf.printf "MODEL %s %d\n" k v) per_model;
  let ss = Hashtbl.fold (fun k v acc -> (k, v) :: acc) sites [] |> List.sort compare in
  List.iter (fun (k, v) -> Printf.printf "SITE %s %d\n" k v) ss;
  if !mism > 0 || !propfail > 0 then exit 1

let () =
  Hashtbl.replace replays "ebr" ebr_replay;
  Hashtbl.replace guided "rc" rc_replay;
  Hashtbl.replace guided "rcinv" rc_invcheck;
  Hashtbl.replace replays "queue" queue_replay;
  Hashtbl.replace replays "list" list_replay;
  Hashtbl.replace replays "cell" cell_replay;
  Hashtbl.replace listfuns "traits_rc" traits_line;
  Hashtbl.replace listfuns "traits_snap" traits_line;
  Hashtbl.replace listfuns "chain" chain_line;
  Hashtbl.replace listfuns "guard" guard_line;
  Hashtbl.replace listfuns "tls" tls_line;
  Hashtbl.replace listfuns "once" once_line

(* evaluate the executable count invariant (RcCheck.rc_invcheck) after every step of every rc case *)
let inv file =
  let ic = open_in file in
  let cases = ref 0 and states = ref 0 and bad = ref 0 in
  (try
     while true do
       let line = input_line ic in
       if String.length line > 3 && String.sub line 0 3 = "rc " then begin
         match split_on "|" line with
         | [hd; sch; obs] ->
           let hd_toks = String.split_on_char ' ' hd |> List.filter (fun x -> x <> "") in
           let prog = List.map BZ.of_string (List.tl hd_toks) in
           let sched = ints_of sch in
           let want = List.map ints_of (split_on ";" obs) in
           let cp = List.map coq_of_z prog and cs = List.map coq_of_z sched and cw = List.map (List.map coq_of_z) want in
           let got1 = rc_invcheck cp cs cw and got2 = rc_snapcheck cp cs cw in
           (* first non-zero verdict of the two checkers per state *)
           let got = List.map2 (fun a b -> match a with [x] when BZ.equal (z_of_coq x) BZ.zero -> b | _ -> a) got1 got2 in
           incr cases;
           List.iteri (fun i v ->
               incr states;
               match v with
               | [x] when BZ.equal (z_of_coq x) BZ.zero -> ()
               | l ->
                 incr bad;
                 if !bad <= 12 then
                   Printf.printf "INVFAIL case %d step %d verdict %s\n" !cases i (show (List.map z_of_coq l))) got
         | _ -> ()
       end
     done
   with End_of_file -> ());
  close_in ic;
  Printf.printf "INVSUMMARY cases=%d states=%d failures=%d\n" !cases !states !bad;
  if !bad > 0 then exit 1

(* evaluate the candidate C02 invariant (RcSnapInv.rc_snapinv) on every micro state of every rc case *)
let snapinv file =
  let ic = open_in file in
  let cases = ref 0 and states = ref 0 and steps = ref 0 and bad = ref 0 in
  let classes = Hashtbl.create 7 in
  (try
     while true do
       let line = input_line ic in
       if String.length line > 3 && String.sub line 0 3 = "rc " then begin
         match split_on "|" line with
         | [hd; sch; obs] ->
           let hd_toks = String.split_on_char ' ' hd |> List.filter (fun x -> x <> "") in
           let prog = List.map BZ.of_string (List.tl hd_toks) in
           let sched = ints_of sch in
           let want = List.map ints_of (split_on ";" obs) in
           let cp = List.map coq_of_z prog and cs = List.map coq_of_z sched and cw = List.map (List.map coq_of_z) want in
           let got = rc_snapinv cp cs cw in
           incr cases;
           let stop = ref false in
           List.iteri (fun i v ->
               incr steps;
               match List.map z_of_coq v with
               | [c; n] ->
                 states := !states + BZ.to_int n;
                 if not (BZ.equal c BZ.zero) && not !stop then begin
                   incr bad; stop := true;
                   let cls = BZ.to_int c / 1000 in
                   Hashtbl.replace classes cls (1 + try Hashtbl.find classes cls with Not_found -> 0);
                   if !bad <= 15 then Printf.printf "SNAPINVFAIL case %d step %d code %s\n" !cases i (BZ.to_string c)
                 end
               | _ -> ()) got
         | _ -> ()
       end
     done
   with End_of_file -> ());
  close_in ic;
  Hashtbl.iter (fun k v -> Printf.printf "CLASS %d cases=%d\n" k v) classes;
  Printf.printf "SNAPINVSUMMARY cases=%d steps=%d microstates=%d failing_cases=%d\n" !cases !steps !states !bad

let () =
  match Array.to_list Sys.argv with
  | _ :: "snapinv" :: file :: _ -> snapinv file
  | _ :: "inv" :: file :: _ -> inv file
  | _ :: "pure" :: file :: _ -> pure file
  | _ :: "conc" :: file :: _ -> conc file
  | _ -> prerr_endline "usage: driver (pure|conc) <file>"; exit 2
