//! Spikes for NOTES.md (findings F1-F3). Usage: spike <f1|f2|f3>
use circ::verif::ebr;
use std::sync::atomic::{AtomicUsize, Ordering};

// F1: Guard::reactivate on a guard obtained from cs() inside a TLS destructor after HANDLE is gone
struct Foo;
impl Drop for Foo {
    fn drop(&mut self) {
        let mut g = circ::cs(); // fallback registration: the temporary handle is already dropped
        eprintln!("F1: pinned through the fallback path, calling reactivate()");
        g.reactivate();
        eprintln!("F1: reactivate returned");
        g.reactivate_after(|| ());
        eprintln!("F1: reactivate_after returned");
    }
}
thread_local! { static FOO: Foo = const { Foo }; }

fn f1() {
    let r = std::thread::spawn(|| {
        FOO.with(|_| ());
        drop(circ::cs()); // HANDLE initialised after FOO: destroyed before FOO
    })
    .join();
    println!("F1: debug_assertions={} thread result: {}", cfg!(debug_assertions), if r.is_ok() { "ok" } else { "PANICKED" });
}

static RAN: AtomicUsize = AtomicUsize::new(0);

// F2: MAX_OBJECTS = 1: every popped bag produces one node-destructor, i.e. one new full bag
fn f2() {
    ebr::set_tuning(1, 64);
    let done = std::sync::Arc::new(AtomicUsize::new(0));
    let d2 = done.clone();
    std::thread::spawn(move || {
        let c = ebr::Collector::new();
        let h = c.register();
        for round in 0..8 {
            let g = h.pin();
            for _ in 0..2 {
                unsafe { ebr::defer(&g, || { RAN.fetch_add(1, Ordering::Relaxed); }) };
            }
            g.flush();
            eprintln!("F2: round {} dropping the guard (epoch {})", round, ebr::collector_epoch(&c) >> 1);
            drop(g);
        }
        d2.store(1, Ordering::SeqCst);
    });
    std::thread::sleep(std::time::Duration::from_secs(3));
    println!("F2: MAX_OBJECTS=1: finished={} closures run={}", done.load(Ordering::SeqCst), RAN.load(Ordering::Relaxed));
    std::process::exit(0);
}

// F3: three closures that re-defer themselves and flush, sealed in three consecutive epochs
static mut H: *const ebr::LocalHandle = std::ptr::null();
fn again() {
    RAN.fetch_add(1, Ordering::Relaxed);
    unsafe {
        let g = (*H).pin();
        ebr::defer(&g, again);
        g.flush();
    }
}
fn f3() {
    ebr::set_tuning(64, 64);
    let done = std::sync::Arc::new(AtomicUsize::new(0));
    let d2 = done.clone();
    std::thread::spawn(move || {
        let c = ebr::Collector::new();
        let h = c.register();
        unsafe { H = &h };
        for round in 0..6 {
            let g = h.pin();
            if round < 3 {
                unsafe { ebr::defer(&g, again) };
            }
            g.flush();
            eprintln!("F3: round {} dropping the guard (epoch {}, closures run {})", round, ebr::collector_epoch(&c) >> 1, RAN.load(Ordering::Relaxed));
            drop(g);
        }
        d2.store(1, Ordering::SeqCst);
    });
    std::thread::sleep(std::time::Duration::from_secs(3));
    println!("F3: finished={} closures run={}", done.load(Ordering::SeqCst), RAN.load(Ordering::Relaxed));
    std::process::exit(0);
}

fn main() {
    match std::env::args().nth(1).as_deref() {
        Some("f1") => f1(),
        Some("f2") => f2(),
        Some("f3") => f3(),
        _ => eprintln!("usage: spike f1|f2|f3"),
    }
}
