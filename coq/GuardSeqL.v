(* GuardSeqL.v -- the thread-local handle model (tls_line) of GuardSeq.v: nothing a thread-local
   destructor releases is lost, whatever the state of HANDLE.  No axioms. *)
From Coq Require Import ZArith List Bool Lia.
Import ListNotations.
Require Import GuardSeq.
Local Open Scope Z_scope.

(* items in the bags of the one-shot participants whose guard is still open *)
Fixpoint sumg (l : list (option Z)) : Z :=
  match l with
  | [] => 0
  | None :: r => sumg r
  | Some n :: r => n + sumg r
  end.

Definition gval (g : option Z) : Z := match g with None => 0 | Some n => n end.

Lemma sumg_app : forall a b, sumg (a ++ b) = sumg a + sumg b.
Proof. induction a as [|[n|] a IH]; simpl; intros; rewrite ?IH; lia. Qed.

Lemma sumg_remove : forall i l g, nth_error l i = Some g -> sumg (remove_nth i l) = sumg l - gval g.
Proof.
  induction i; destruct l as [|[n|] l]; simpl; intros g H; try discriminate.
  - inversion H; subst; simpl; lia.
  - inversion H; subst; simpl; lia.
  - rewrite (IHi l g H). lia.
  - rewrite (IHi l g H). lia.
Qed.

Lemma sumg_set : forall i l g v, nth_error l i = Some g ->
  sumg (set_nth i (Some v) l) = sumg l - gval g + v.
Proof.
  induction i; destruct l as [|[n|] l]; simpl; intros g v H; try discriminate.
  - inversion H; subst; simpl; lia.
  - inversion H; subst; simpl; lia.
  - rewrite (IHi l g v H). lia.
  - rewrite (IHi l g v H). lia.
Qed.

Definition noneless (l : list (option Z)) : Prop := Forall (fun g => g <> None) l.

Lemma noneless_remove : forall i l, noneless l -> noneless (remove_nth i l).
Proof.
  induction i; destruct l; simpl; intros H; auto; inversion H; subst; auto.
  constructor; auto. apply IHi; auto.
Qed.

Lemma noneless_set : forall i l v, noneless l -> noneless (set_nth i (Some v) l).
Proof.
  induction i; destruct l; simpl; intros v H; auto; inversion H; subst; constructor; auto;
    try discriminate. apply IHi; auto.
Qed.

Lemma noneless_nth : forall i l, noneless l -> nth_error l i <> Some None.
Proof.
  induction i; destruct l; simpl; intros H; try discriminate; inversion H; subst.
  - intros E. inversion E. contradiction.
  - apply IHi; auto.
Qed.

(* conservation: everything released is in the global queue, in HANDLE's bag, or in the bag of
   a one-shot participant that is still pinned; a HANDLE that is not alive owns nothing *)
Definition TI (t : tstate) : Prop :=
  tglobal t + tbag t + sumg (tguards t) = treleased t /\
  (th t <> HAlive -> tbag t = 0 /\ noneless (tguards t)).

Lemma TI_enter : forall t, TI t -> TI (t_enter t).
Proof.
  intros t [A B]. unfold t_enter, TI. destruct (th t) eqn:E; simpl.
  - split; [rewrite sumg_app; simpl; lia | intros H; contradiction].
  - split; [rewrite sumg_app; simpl; lia | intros H; contradiction].
  - destruct B as [B1 B2]; [discriminate|].
    split; [rewrite sumg_app; simpl; lia | intros _; split; auto].
    apply Forall_app. split; auto. constructor; [discriminate | constructor].
Qed.

Lemma TI_leave : forall i t, TI t -> TI (t_leave i t).
Proof.
  intros i t [A B]. unfold t_leave, TI. destruct (nth_error (tguards t) i) as [[n|]|] eqn:E; simpl.
  - rewrite (sumg_remove _ _ _ E). simpl. split; [lia|].
    intros H. destruct (B H). split; auto. apply noneless_remove; auto.
  - rewrite (sumg_remove _ _ _ E). simpl. split; [lia|].
    intros H. destruct (B H). split; auto. apply noneless_remove; auto.
  - auto.
Qed.

Lemma TI_flush : forall i t, TI t -> TI (t_flush i t).
Proof.
  intros i t [A B]. unfold t_flush, TI. destruct (nth_error (tguards t) i) as [[n|]|] eqn:E; simpl.
  - rewrite (sumg_set _ _ _ _ E). simpl. split; [lia|].
    intros H. destruct (B H). split; auto. apply noneless_set; auto.
  - split; [lia|]. intros H. destruct (B H). auto.
  - auto.
Qed.

Lemma TI_react : forall i t, TI t -> TI (t_react i t).
Proof.
  intros i t H. unfold t_react. destruct (nth_error (tguards t) i); auto.
Qed.

Lemma TI_defer_last : forall t, TI t -> TI (t_defer_last t).
Proof.
  intros t [A B]. unfold t_defer_last, TI.
  destruct (nth_error (tguards t) (length (tguards t) - 1)) as [[n|]|] eqn:E; simpl; auto.
  - rewrite (sumg_set _ _ _ _ E). simpl. split; [lia|].
    intros H. destruct (B H). split; auto. apply noneless_set; auto.
  - split; [lia|]. intros H. destruct (B H) as [_ N]. exfalso. exact (noneless_nth _ _ N E).
Qed.

Lemma TI_call : forall c t, TI t -> TI (t_call t c).
Proof.
  intros c t H. destruct c; simpl.
  - apply TI_enter; auto.
  - apply TI_leave; auto.
  - apply TI_flush; auto.
  - apply TI_react; auto.
  - apply TI_leave, TI_defer_last, TI_enter; auto.
Qed.

Lemma TI_calls : forall cs t, TI t -> TI (fold_left t_call cs t).
Proof. induction cs; simpl; intros; auto. apply IHcs, TI_call; auto. Qed.

Lemma TI_destroy : forall t, TI t -> tguards t = [] -> TI (t_destroy_handle t) /\ th (t_destroy_handle t) <> HAlive.
Proof.
  intros t [A B] G. unfold t_destroy_handle, TI. destruct (th t) eqn:E; simpl; rewrite ?E.
  - split; [split; auto | discriminate].
  - rewrite G in *. simpl in *. split; [split; [lia | intros _; split; auto; constructor] | discriminate].
  - split; [split; auto | discriminate].
Qed.

Lemma TI_init : TI t_init.
Proof. unfold TI, t_init. simpl. split; [lia | intros _; split; auto; constructor]. Qed.

(* Every order of thread-local destruction relative to HANDLE (before / after / HANDLE never
   initialised by the thread) and every sequence of API calls made by the destructor, provided
   the destructor drops the guards it creates: when the thread is gone, every object it released
   is in the global queue (no bag of a retired participant holds anything back). *)
Theorem C20_tls_no_loss : forall order calls,
  let t := tls_thread order calls in
  tguards t = [] -> tglobal t = treleased t /\ tbag t = 0.
Proof.
  intros order calls t G. unfold t, tls_thread in *.
  assert (K : forall t0, TI t0 -> tguards (t_destroy_handle (fold_left t_call calls t0)) = [] ->
            tglobal (t_destroy_handle (fold_left t_call calls t0)) =
            treleased (t_destroy_handle (fold_left t_call calls t0)) /\
            tbag (t_destroy_handle (fold_left t_call calls t0)) = 0).
  { intros t0 H0 G0.
    pose proof (TI_calls calls t0 H0) as H1.
    assert (G1 : tguards (fold_left t_call calls t0) = []).
    { unfold t_destroy_handle in G0. destruct (th (fold_left t_call calls t0)); exact G0. }
    destruct (TI_destroy _ H1 G1) as [[A B] C].
    destruct (B C) as [B1 _]. rewrite G0 in A. simpl in A. lia. }
  destruct (order =? 0); [|destruct (order =? 1)]; apply K; auto.
  - apply TI_leave, TI_enter, TI_init.
  - apply TI_destroy; [apply TI_leave, TI_enter, TI_init | reflexivity].
  - apply TI_init.
Qed.

(* the api-kinds of the `@tls` stream are well-bracketed, so for them tls_line returns two
   equal numbers: checked here for every order and every sequence of up to three kinds *)
Definition all_kinds : list Z := [0; 1; 2; 3; 4; 5; 6].
Definition seqs : list (list Z) :=
  map (fun k => [k]) all_kinds ++
  flat_map (fun a => map (fun b => [a; b]) all_kinds) all_kinds ++
  flat_map (fun a => flat_map (fun b => map (fun c => [a; b; c]) all_kinds) all_kinds) all_kinds.

Example tls_line_balanced :
  forallb (fun order => forallb (fun ks =>
     match tls_line (64 :: order :: ks) with [a; b] => a =? b | _ => false end) seqs) [0; 1; 2] = true.
Proof. vm_compute. reflexivity. Qed.
