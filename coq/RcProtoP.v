(* The tie between the hand-written count-protocol machine Rc.v and the protocol table GENERATED from
   src/utils.rs (Gen/ProtoW.v: per RcInner function the operands of every fetch_add / fetch_sub, the
   (expected, new) pair of every compare_exchange, every branch condition, in textual order).

   Part A: the table has the shape the model was written against (how many accesses, in which order).
   Part B: for every frame of Rc.micro that accesses a count word, the word written and the branch
           taken are the table's expressions (the transition is restated with the generated terms in
           place of the hand-written ones and proved equal to Rc.micro).

   A change of utils.rs that alters what is added, subtracted, compared, written or decided in the
   count protocol changes Gen/ProtoW.v and breaks one of these lemmas, before any run of the harness. *)
From Coq Require Import ZArith List Bool Lia.
Import ListNotations.
Require Import Params StateW DisposeW ProtoW Rc.
Local Open Scope Z_scope.

Definition nz (l : list Z) (i : nat) : Z := nth i l 0.
Definition nb (l : list bool) (i : nat) : bool := nth i l false.
Definition ncas (l : list (Z * Z)) (i : nat) : Z * Z := nth i l (0, 0).

(* ---- Part A: shape of the table *)
Lemma shape_incs v : length (P_incs_adds v) = 2%nat /\ length (P_incs_conds v) = 4%nat /\ P_incs_cas v = [] /\ P_incs_subs v = [].
Proof. repeat split. Qed.
Lemma shape_tde w : length (P_tde_conds w) = 1%nat /\ P_tde_adds w = [] /\ P_tde_subs w = [] /\ P_tde_cas w = [].
Proof. repeat split. Qed.
Lemma shape_incw o c f : length (P_incw_adds o c f) = 2%nat /\ length (P_incw_cas o c f) = 1%nat /\ length (P_incw_conds o c f) = 2%nat /\ P_incw_subs o c f = [].
Proof. repeat split. Qed.
Lemma shape_decw f : length (P_decw_subs f) = 1%nat /\ length (P_decw_conds f) = 1%nat /\ P_decw_adds f = [] /\ P_decw_cas f = [].
Proof. repeat split. Qed.
Lemma shape_isnd o e : length (P_isnd_cas o e) = 1%nat /\ length (P_isnd_conds o e) = 2%nat /\ P_isnd_adds o e = [] /\ P_isnd_subs o e = [].
Proof. repeat split. Qed.
Lemma shape_decs c n e : length (P_decs_cas c n e) = 1%nat /\ length (P_decs_breaks c n e) = 1%nat /\ P_decs_conds c n e = [] /\ P_decs_adds c n e = [] /\ P_decs_subs c n e = [] /\ P_decs_redecs c n e = [].
Proof. repeat split. Qed.
Lemma shape_td o : length (P_td_cas o) = 1%nat /\ length (P_td_conds o) = 1%nat /\ P_td_redecs o = [1] /\ P_td_adds o = [] /\ P_td_subs o = [].
Proof. repeat split. Qed.
Lemma shape_disp st cc ne nc d l cf ck :
  length (P_disp_cas st cc ne nc d l cf ck) = 2%nat /\ length (P_disp_conds st cc ne nc d l cf ck) = 6%nat /\
  length (P_disp_depths st cc ne nc d l cf ck) = 1%nat /\ P_disp_adds st cc ne nc d l cf ck = [] /\
  P_disp_subs st cc ne nc d l cf ck = [] /\ P_disp_redecs st cc ne nc d l cf ck = [].
Proof. repeat split. Qed.

(* every compare_exchange expects the word that was read *)
Lemma cas_expected_is_read :
  (forall o c f, fst (ncas (P_incw_cas o c f) 0) = o) /\ (forall o e, fst (ncas (P_isnd_cas o e) 0) = o) /\
  (forall c n e, fst (ncas (P_decs_cas c n e) 0) = c) /\ (forall o, fst (ncas (P_td_cas o) 0) = o) /\
  (forall st cc ne nc d l cf ck, fst (ncas (P_disp_cas st cc ne nc d l cf ck) 0) = st /\
                                 fst (ncas (P_disp_cas st cc ne nc d l cf ck) 1) = cc).
Proof. repeat split. Qed.


(* ---- Part A': every generated branch condition is the condition Rc.micro branches on, or its negation
   (uniformly in the word observed): a refactoring that swaps the branches of an `if` or turns a nested `if` into an
   early return keeps these lemmas; a change of WHAT is tested (another field, another operand, another constant,
   the word of another access) breaks them *)
Definition same_test {A} (c m : A -> bool) : Prop := (forall a, c a = m a) \/ (forall a, c a = negb (m a)).

Lemma strong_nonneg w : 0 <= strong w.
Proof. unfold strong, wrap. apply Z.mod_pos_bound. reflexivity. Qed.
Lemma weak_nonneg w : 0 <= weak w.
Proof. unfold weak, wrap. apply Z.mod_pos_bound. reflexivity. Qed.

Ltac decide_tests :=
  unfold from_raw, as_raw; rewrite ?Z.gtb_ltb, ?Z.geb_leb;
  repeat match goal with
         | |- context [strong ?x] => lazymatch goal with H : 0 <= strong x |- _ => fail | _ => pose proof (strong_nonneg x) end
         | |- context [weak ?x] => lazymatch goal with H : 0 <= weak x |- _ => fail | _ => pose proof (weak_nonneg x) end
         end;
  repeat match goal with
         | |- context [Z.eqb ?a ?b] => destruct (Z.eqb_spec a b)
         | |- context [Z.ltb ?a ?b] => destruct (Z.ltb_spec a b)
         | |- context [Z.leb ?a ?b] => destruct (Z.leb_spec a b)
         | |- context [destructed ?x] => destruct (destructed x)
         | |- context [weaked ?x] => destruct (weaked x)
         | |- context [if ?b then _ else _] => destruct b
         end;
  cbn [negb andb orb]; try reflexivity; exfalso; unfold from_raw in *; lia.
Ltac same_test_tac := unfold same_test, nb; first [ left; intros; cbn [nth fst snd]; solve [decide_tests] | right; intros; cbn [nth fst snd]; solve [decide_tests] ].

Lemma test_incs :
  same_test (fun v => nb (P_incs_conds v) 0) destructed /\ same_test (fun v => nb (P_incs_conds v) 1) (fun v => strong v =? 0) /\
  same_test (fun v => nb (P_incs_conds v) 2) destructed /\ same_test (fun v => nb (P_incs_conds v) 3) (fun v => strong v =? 0).
Proof. unfold P_incs_conds. repeat split; same_test_tac. Qed.
Lemma test_tde : same_test (fun w => nb (P_tde_conds w) 0) (fun w => 0 <? weak w).
Proof. unfold P_tde_conds. same_test_tac. Qed.
(* increment_weak: the loop tests the WEAKED flag of the word read; the token test looks at the word the fetch_add returned *)
Lemma test_incw :
  same_test (fun a : Z * Z * Z => nb (P_incw_conds (fst (fst a)) (snd (fst a)) (snd a)) 0) (fun a => weaked (fst (fst a))) /\
  same_test (fun a : Z * Z * Z => nb (P_incw_conds (fst (fst a)) (snd (fst a)) (snd a)) 1) (fun a => weak (snd a) =? 0).
Proof. unfold P_incw_conds. split; same_test_tac. Qed.
Lemma test_decw : same_test (fun f => nb (P_decw_conds f) 0) (fun f => weak f =? 1).
Proof. unfold P_decw_conds. same_test_tac. Qed.
Lemma test_isnd :
  same_test (fun a : Z * Z => nb (P_isnd_conds (fst a) (snd a)) 0) (fun a => destructed (fst a)) /\
  same_test (fun a : Z * Z => nb (P_isnd_conds (fst a) (snd a)) 1) (fun a => strong (fst a) =? 0).
Proof. unfold P_isnd_conds. split; same_test_tac. Qed.
Lemma test_decs : same_test (fun a : Z * Z * Z => nb (P_decs_breaks (fst (fst a)) (snd (fst a)) (snd a)) 0) (fun a => strong (fst (fst a)) =? snd (fst a)).
Proof. unfold P_decs_breaks. same_test_tac. Qed.
Lemma test_td : same_test (fun o => nb (P_td_conds o) 0) (fun o => 0 <? strong o).
Proof. unfold P_td_conds. same_test_tac. Qed.
Lemma test_disp st cc ne nc l :
  same_test (fun d => nb (P_disp_conds st cc ne nc d l false false) 0) (fun d => d >=? DEPTH_CAP) /\
  same_test (fun d => nb (P_disp_conds st cc ne nc d l false false) 1) (fun d => 0 <? d) /\
  same_test (fun a : Z * bool => nb (P_disp_conds (fst a) cc ne nc 0 l (snd a) false) 2) (fun a => negb (strong (fst a) =? 0) || snd a) /\
  same_test (fun w => nb (P_disp_conds st cc ne nc 0 w false false) 3) weaked /\
  same_test (fun b : bool => nb (P_disp_conds st cc ne nc 0 l false b) 4) (fun b => b) /\
  same_test (fun n => nb (P_disp_conds st cc ne n 0 l false false) 5) (fun n => strong n =? 0).
Proof. unfold P_disp_conds, DEPTH_CAP. repeat split; same_test_tac. Qed.

(* ---- Part B: Rc.micro, frame by frame, in the generated terms *)
Ltac start Ht Hf := unfold micro; rewrite Ht, Hf.

Section Frames.
Variables (s : state) (t : nat) (rec : list Z) (x : thr) (k : list frame).
Hypothesis Ht : gett s t = Some x.
Let ret (s1 : state) (x1 : thr) (fs : list frame) (o : list Z) := Some (sett s1 t (with_frames x1 fs), o).

(* increment_strong, first addition (site 100) *)
Lemma proto_incs100 o c ob :
  frames x = FIncS100 o c :: k -> geto s o = Some ob ->
  micro s t rec =
    let w := word ob in
    let w' := fadd w (nz (P_incs_adds w) 0) in
    if destructed w then ret (seto s o (with_word ob w')) x (FRet c false :: k) [100; zo o; 0; 1000; zo o; w]
    else if (strong w =? 0) then ret (seto s o (with_tok (with_word ob w') true)) x (FIncS101 o c :: k) [100; zo o; 0; 1000; zo o; w]
    else ret (seto s o (with_word ob w')) x (FRet c true :: k) [100; zo o; 0; 1000; zo o; w].
Proof. intros Hf Ho. start Ht Hf. rewrite Ho. reflexivity. Qed.

(* increment_strong, the additions of the loop (site 101): leaves the loop when the 4th condition holds *)
Lemma proto_incs101 o c ob :
  frames x = FIncS101 o c :: k -> geto s o = Some ob ->
  micro s t rec =
    let w := word ob in
    let w' := fadd w (nz (P_incs_adds w) 1) in
    if destructed w then ret (seto s o (with_word ob w')) x (FRet c false :: k) [101; zo o; 0; 1001; zo o; w]
    else if negb (strong w =? 0) then ret (seto s o (with_word ob w')) x (FRet c true :: k) [101; zo o; 0; 1001; zo o; w]
    else ret (seto s o (with_tok (with_word ob w') true)) x (FIncS101 o c :: k) [101; zo o; 0; 1001; zo o; w].
Proof.
  intros Hf Ho. start Ht Hf. rewrite Ho. cbn [nb nz nth P_incs_conds P_incs_adds].
  destruct (destructed (word ob)); [reflexivity|]. destruct (strong (word ob) =? 0); reflexivity.
Qed.

(* decrement_strong: the compare_exchange (site 112) and the hit-zero test *)
Lemma proto_decs112 o cnt r cur tmp own ob :
  frames x = FDecS112 o cnt r cur tmp own :: k -> geto s o = Some ob -> word ob = cur ->
  micro s t rec =
    let ob' := {| word := snd (ncas (P_decs_cas cur cnt r) 0); dropped := dropped ob; freed := freed ob;
                  tok := if own then tok ob else false; wtok := wtok ob; links := links ob |} in
    let s1 := seto s o ob' in
    let s2 := if (strong cur =? cnt) then defer s1 KDestruct o else s1 in
    ret s2 x (if tmp then FUnpinTmp :: k else k) [112; zo o; 0; 1012; zo o; 1].
Proof. intros Hf Ho Hw. start Ht Hf. rewrite Ho, Hw, Z.eqb_refl. reflexivity. Qed.

(* try_destruct: the first test (site 113), the nested decrement takes P_td_redecs = [1] *)
Lemma proto_td113 o ob :
  frames x = FTD113 o :: k -> geto s o = Some ob ->
  micro s t rec =
    let w := word ob in
    if (0 <? strong w) then ret s x (FDecS110 o (nz (P_td_redecs w) 0) true false :: k) [113; zo o; 0; 1013; zo o; w]
    else ret s x (FTD114 o w :: k) [113; zo o; 0; 1013; zo o; w].
Proof.
  intros Hf Ho. start Ht Hf. rewrite Ho. cbn [nb nz nth P_td_conds P_td_redecs]. rewrite ?Z.gtb_ltb. reflexivity.
Qed.

(* try_destruct: the compare_exchange that publishes DESTRUCTED (site 114) *)
Lemma proto_td114_ok o old ob :
  frames x = FTD114 o old :: k -> geto s o = Some ob -> word ob = old ->
  micro s t rec = ret (seto s o (with_word ob (snd (ncas (P_td_cas old) 0)))) x (FDispEnter o 0 :: k) [114; zo o; old].
Proof. intros Hf Ho Hw. start Ht Hf. rewrite Ho, Hw, Z.eqb_refl. reflexivity. Qed.

Lemma proto_td114_retry o old ob :
  frames x = FTD114 o old :: k -> geto s o = Some ob -> word ob <> old ->
  micro s t rec =
    let w := word ob in
    if (0 <? strong w) then ret s x (FDecS110 o (nz (P_td_redecs w) 0) true false :: k) [114; zo o; old]
    else ret s x (FTD114 o w :: k) [114; zo o; old].
Proof.
  intros Hf Ho Hw. start Ht Hf. rewrite Ho. apply Z.eqb_neq in Hw. rewrite Hw.
  cbn [nb nz nth P_td_conds P_td_redecs]. rewrite ?Z.gtb_ltb. reflexivity.
Qed.

(* dispose_general_node: the depth cap *)
Lemma proto_disp_enter o depth :
  frames x = FDispEnter o depth :: k ->
  micro s t rec =
    if (depth >=? DEPTH_CAP) then ret (defer s KDestruct o) x k [1020; zo o; depth]
    else ret s x (FDisp115 o depth :: k) [1020; zo o; depth].
Proof. intros Hf. start Ht Hf. reflexivity. Qed.

(* dispose_general_node: a cascade child publishes DESTRUCTED by a zero-observing compare_exchange (site 130) *)
Lemma proto_disp130 o depth w curr ob (cc ne nc l : Z) (ck : bool) :
  frames x = FDisp130 o depth w curr :: k -> geto s o = Some ob ->
  micro s t rec =
    if (negb (strong w =? 0) || negb (word ob =? w))
    then ret (defer s KDestruct o) x k [130; zo o; w; 1130; zo o; 0]
    else ret (seto s o (with_word ob (snd (ncas (P_disp_cas w cc ne nc depth l (negb (word ob =? w)) ck) 0)))) x
             (FDispDo o depth w curr :: k) [130; zo o; w].
Proof.
  intros Hf Ho. start Ht Hf. rewrite Ho. cbn [nb ncas nth P_disp_conds P_disp_cas snd].
  destruct (strong w =? 0); destruct (word ob =? w); reflexivity.
Qed.

(* dispose_general_node: release the implicit weak share or free (site 117) *)
Lemma proto_disp117 o depth ne curr outs ob :
  frames x = FDisp117 o depth ne curr outs :: k -> geto s o = Some ob ->
  micro s t rec =
    if weaked (word ob)
    then ret s x (FDecW107 o false true :: FKids depth ne curr outs :: k) [117; zo o; 0]
    else ret (seto s o {| word := word ob; dropped := dropped ob; freed := true; tok := tok ob; wtok := wtok ob; links := links ob |}) x
             (FKids depth ne curr outs :: k) [117; zo o; 0; 1100; zo o; 0].
Proof. intros Hf Ho. start Ht Hf. rewrite Ho. reflexivity. Qed.

(* dispose_general_node: the word prepared for a child (site 118): generated new word with the generated stamp *)
Lemma proto_kid118 c depth ne curr outs ob st nc l cf ck :
  frames x = FKid118 c depth ne curr outs :: k -> geto s (fst c) = Some ob ->
  micro s t rec =
    let wc := word ob in
    let nxt := snd (ncas (P_disp_cas st wc (child_stamp curr ne (snd c) (epoch wc)) nc depth l cf ck) 1) in
    ret s x (FKid119 c wc nxt depth ne curr outs :: k) [118; zo (fst c); snd c; 1018; zo (fst c); wc].
Proof. intros Hf Ho. start Ht Hf. rewrite Ho. reflexivity. Qed.

(* dispose_general_node: the child's compare_exchange (site 119); recursion with the generated depth *)
Lemma proto_kid119_ok c wc nxt depth ne curr outs ob st cc nep l cf ck :
  frames x = FKid119 c wc nxt depth ne curr outs :: k -> geto s (fst c) = Some ob -> word ob = wc -> 0 <= depth < 2 ^ 63 ->
  micro s t rec =
    let s1 := seto s (fst c) (with_word ob nxt) in
    if (strong nxt =? 0)
    then ret s1 x (FDispEnter (fst c) (nz (P_disp_depths st cc nep nxt depth l cf ck) 0) :: FKids depth ne curr outs :: k)
             [119; zo (fst c); nxt; 1019; zo (fst c); 1]
    else ret s1 x (FKids depth ne curr outs :: k) [119; zo (fst c); nxt; 1019; zo (fst c); 1].
Proof.
  intros Hf Ho Hw Hd. start Ht Hf. rewrite Ho, Hw, Z.eqb_refl. cbn [nb nz nth P_disp_conds P_disp_depths].
  assert (Hwrap : wrap 64 (depth + 1) = depth + 1).
  { unfold wrap. apply Z.mod_small. change (2 ^ 64) with (2 * 2 ^ 63). lia. }
  rewrite Hwrap. reflexivity.
Qed.

(* decrement_weak (site 107) *)
Lemma proto_decw107 o tmp own ob :
  frames x = FDecW107 o tmp own :: k -> geto s o = Some ob ->
  micro s t rec =
    let w := word ob in
    let ob' := {| word := fsub w (nz (P_decw_subs w) 0); dropped := dropped ob; freed := freed ob; tok := tok ob;
                  wtok := if own then wtok ob else false; links := links ob |} in
    let s1 := seto s o ob' in
    let s2 := if (weak w =? 1) then defer s1 KDealloc o else s1 in
    ret s2 x k [107; zo o; 0].
Proof. intros Hf Ho. start Ht Hf. rewrite Ho. reflexivity. Qed.

(* try_dealloc (site 102) *)
Lemma proto_tde102 o ob :
  frames x = FTDe102 o :: k -> geto s o = Some ob ->
  micro s t rec =
    if (0 <? weak (word ob)) then ret s x (FDecW107 o true false :: k) [102; zo o; 0]
    else ret (seto s o {| word := word ob; dropped := dropped ob; freed := true; tok := tok ob; wtok := wtok ob; links := links ob |}) x k
             [102; zo o; 0; 1100; zo o; 0].
Proof. intros Hf Ho. start Ht Hf. rewrite Ho. cbn [nb nth P_tde_conds]. rewrite ?Z.gtb_ltb. reflexivity. Qed.

(* increment_weak: the load (site 103) and the first-weak compare_exchange (site 104) *)
Lemma proto_incw103 o cnt ob :
  frames x = FIncW103 o cnt :: k -> geto s o = Some ob ->
  micro s t rec =
    let w := word ob in
    if negb (weaked w) then ret s x (FIncW104 o cnt w :: k) [103; zo o; 0; 1003; zo o; w]
    else ret s x (FIncW105 o cnt :: k) [103; zo o; 0; 1003; zo o; w].
Proof.
  intros Hf Ho. start Ht Hf. rewrite Ho. cbn [nb nth P_incw_conds]. destruct (weaked (word ob)); reflexivity.
Qed.

Lemma proto_incw104_ok o cnt old ob f :
  frames x = FIncW104 o cnt old :: k -> geto s o = Some ob -> word ob = old ->
  micro s t rec = ret (seto s o (with_word ob (snd (ncas (P_incw_cas old cnt f) 0)))) x k [104; zo o; 0].
Proof. intros Hf Ho Hw. start Ht Hf. rewrite Ho, Hw, Z.eqb_refl. reflexivity. Qed.

Lemma proto_incw104_retry o cnt old ob :
  frames x = FIncW104 o cnt old :: k -> geto s o = Some ob -> word ob <> old ->
  micro s t rec =
    let w := word ob in
    if negb (weaked w) then ret s x (FIncW104 o cnt w :: k) [104; zo o; 0]
    else ret s x (FIncW105 o cnt :: k) [104; zo o; 0].
Proof.
  intros Hf Ho Hw. start Ht Hf. rewrite Ho. apply Z.eqb_neq in Hw. rewrite Hw.
  cbn [nb nth P_incw_conds]. destruct (weaked (word ob)); reflexivity.
Qed.

(* increment_weak: the addition (site 105) and the token for a pending try_dealloc (site 106) *)
Lemma proto_incw105 o cnt ob old :
  frames x = FIncW105 o cnt :: k -> geto s o = Some ob ->
  micro s t rec =
    let w := word ob in
    let w' := fadd w (nz (P_incw_adds old cnt w) 0) in
    if (weak w =? 0)
    then ret (seto s o {| word := w'; dropped := dropped ob; freed := freed ob; tok := tok ob; wtok := true; links := links ob |})
             x (FIncW106 o :: k) [105; zo o; cnt]
    else ret (seto s o (with_word ob w')) x k [105; zo o; cnt].
Proof. intros Hf Ho. start Ht Hf. rewrite Ho. reflexivity. Qed.

Lemma proto_incw106 o ob old cnt f :
  frames x = FIncW106 o :: k -> geto s o = Some ob ->
  micro s t rec = ret (seto s o (with_word ob (fadd (word ob) (nz (P_incw_adds old cnt f) 1)))) x k [106; zo o; 0].
Proof. intros Hf Ho. start Ht Hf. rewrite Ho. reflexivity. Qed.

(* is_not_destructed: the compare_exchange that adds the token and stamps the epoch (site 109) *)
Lemma proto_isnd109_ok o old r c ob :
  frames x = FIsND109 o old r c :: k -> geto s o = Some ob -> word ob = old ->
  micro s t rec =
    let ob' := {| word := snd (ncas (P_isnd_cas old r) 0); dropped := dropped ob; freed := freed ob;
                  tok := if (strong old =? 0) then true else tok ob; wtok := wtok ob; links := links ob |} in
    ret (seto s o ob') x (FRet c true :: k) [109; zo o; old].
Proof. intros Hf Ho Hw. start Ht Hf. rewrite Ho, Hw, Z.eqb_refl. reflexivity. Qed.

Lemma proto_isnd109_retry o old r c ob :
  frames x = FIsND109 o old r c :: k -> geto s o = Some ob -> word ob <> old ->
  micro s t rec =
    let w := word ob in
    if negb (destructed w) then ret s x (FIsND109 o w r c :: k) [109; zo o; old]
    else ret s x (FRet c false :: k) [109; zo o; old].
Proof.
  intros Hf Ho Hw. start Ht Hf. rewrite Ho. apply Z.eqb_neq in Hw. rewrite Hw.
  cbn [nb nth P_isnd_conds]. destruct (destructed (word ob)); reflexivity.
Qed.

End Frames.

(* the initial count word of RcInner::alloc is the generated one: covered by StateW.alloc_word (Rc.alloc) *)
Lemma proto_alloc_word n : alloc_word n = wrap 64 (wrap 64 (n * COUNT) + WEAK_COUNT).
Proof. reflexivity. Qed.
