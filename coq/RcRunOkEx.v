(* Non-vacuity witnesses for the hypothesis [run_ok] of the final theorems of RcWSnapInvP.v: boolean versions of the run
   hypotheses (H2 [pinned], H3 [scoped] / [wscoped], H6 [cellops_ok], [epoch_ok]) with their soundness lemmas, and
   concrete runs on which they are evaluated by [vm_compute].  No axioms. *)
From Coq Require Import ZArith List Bool Lia.
Import ListNotations.
Require Import Params StateW ModularW DisposeW Bits StateP ModularP Rc RcSpec RcP RcWeakP RcDepthP RcEpochP RcStampP
  RcSnapInvP RcWSnapInvP RcSnapCheck RcSnapP.
Require RcSnapInv.   (* not imported: its boolean [scoped_h] / [scoped_f] clash with the Prop versions of RcSnapInvP.v *)
Local Open Scope Z_scope.

Ltac bprop :=
  repeat match goal with
         | H : _ && _ = true |- _ => apply andb_prop in H; destruct H
         | H : _ || _ = true |- _ => apply orb_prop in H
         | H : (_ <=? _) = true |- _ => apply Z.leb_le in H
         | H : (_ <? _) = true |- _ => apply Z.ltb_lt in H
         | H : Nat.eqb _ _ = true |- _ => apply Nat.eqb_eq in H
         end.

(* ---- H2 [pinned]: the checker's [pinned_b], plus the range of the residue carried by a compare_exchange frame
   (the Prop version asks for a witness epoch g with snd desraw = g mod 16; the checker decodes the residue) *)
Definition cas_res_f (f : frame) : bool :=
  match f with FCas123 _ _ d _ _ => Nat.eqb (fst d) 0 || ((0 <=? snd d) && (snd d <? 16)) | _ => true end.
Definition cas_res_b (s : state) : bool := forallb (fun x => forallb cas_res_f (frames x)) (threads s).

Lemma dec_mod c a : 0 <= a < 16 -> a = RcSnapInv.dec c a mod 16.
Proof.
  intros Ha. unfold RcSnapInv.dec.
  pose proof (Z.div_mod (c + 2 - a) 16 ltac:(lia)) as E.
  replace (c + 2 - (c + 2 - a) mod 16) with (a + ((c + 2 - a) / 16) * 16) by lia.
  rewrite Z_mod_plus_full. symmetry. apply Z.mod_small. lia.
Qed.
Lemma frame_pinned_ok s f : RcSnapInv.frame_pinned s f = true -> cas_res_f f = true -> frame_pinnedP s f.
Proof.
  destruct f; cbn [RcSnapInv.frame_pinned cas_res_f frame_pinnedP]; auto; intros H1 H2; unfold epoch_ok; bprop; try lia.
  destruct H1 as [H1|H1]; bprop; [left; auto|]. destruct H2 as [H2|H2]; bprop; [left; auto|].
  right. exists (RcSnapInv.dec (G s) (snd desraw)). split; [lia|apply dec_mod; lia].
Qed.
Lemma pinned_b_ok s : RcSnapInv.pinned_b s = true -> cas_res_b s = true -> pinned s.
Proof.
  unfold RcSnapInv.pinned_b, cas_res_b, pinned, gett. intros H1 H2 t x f Hx Hf.
  rewrite forallb_forall in H1, H2. specialize (H1 _ (nth_error_In _ _ Hx)). specialize (H2 _ (nth_error_In _ _ Hx)).
  rewrite forallb_forall in H1, H2. apply frame_pinned_ok; auto.
Qed.

(* ---- H3 [scoped] (the checker's [scoped_b] covers Snapshots and WeakSnapshots at once) *)
Lemma scoped_h_ok x h : RcSnapInv.scoped_h x h = true -> scoped_h x h.
Proof. destruct h; cbn [RcSnapInv.scoped_h scoped_h]; auto. intros H. bprop. auto. Qed.
Lemma scoped_f_ok x f : RcSnapInv.scoped_f x f = true -> scoped_f x f.
Proof. destruct f; cbn [RcSnapInv.scoped_f scoped_f]; auto; intros H; apply andb_prop in H as (A & B); split; apply scoped_h_ok; auto. Qed.
Lemma scoped_b_ok s : RcSnapInv.scoped_b s = true -> scoped s.
Proof.
  unfold RcSnapInv.scoped_b, scoped, gett. intros H t x Hx. rewrite forallb_forall in H.
  specialize (H _ (nth_error_In _ _ Hx)). apply andb_prop in H as (A & B). rewrite forallb_forall in A, B.
  split; apply Forall_forall; intros y Hy; [apply scoped_h_ok|apply scoped_f_ok]; auto.
Qed.

(* ---- H3 for WeakSnapshots *)
Definition wscoped_hb (x : thr) (h : handle) : bool :=
  match h with HWSnap _ n => incs x && Nat.eqb n (serial x) | _ => true end.
Definition wscoped_b (s : state) : bool := forallb (fun x => forallb (wscoped_hb x) (vars x)) (threads s).
Lemma wscoped_hb_ok x h : wscoped_hb x h = true -> wscoped_h x h.
Proof. destruct h; cbn [wscoped_hb wscoped_h]; auto. intros H. bprop. auto. Qed.
Lemma wscoped_b_ok s : wscoped_b s = true -> wscoped s.
Proof.
  unfold wscoped_b, wscoped, gett. intros H t x Hx. rewrite forallb_forall in H.
  specialize (H _ (nth_error_In _ _ Hx)). rewrite forallb_forall in H.
  apply Forall_forall. intros y Hy. apply wscoped_hb_ok; auto.
Qed.
(* the checker's [scoped_b] implies it as well *)
Lemma scoped_b_wscoped s : RcSnapInv.scoped_b s = true -> wscoped s.
Proof.
  unfold RcSnapInv.scoped_b, wscoped, gett. intros H t x Hx. rewrite forallb_forall in H.
  specialize (H _ (nth_error_In _ _ Hx)). apply andb_prop in H as (A & _). rewrite forallb_forall in A.
  apply Forall_forall. intros h Hh. specialize (A _ Hh).
  destruct h; cbn [RcSnapInv.scoped_h wscoped_h] in *; auto. bprop. auto.
Qed.

(* ---- H6 [cellops_ok] *)
Lemma cellop_okb_ok op : RcSnapInv.cellop_okb op = true -> cellop_ok op.
Proof.
  destruct op as [|opc [|ck [|a [|b r]]]]; cbn [RcSnapInv.cellop_okb cellop_ok]; auto. intros H Hr.
  apply orb_prop in H as [H|H].
  - apply negb_true_iff in H. apply andb_false_iff in H as [H|H]; [apply Z.leb_gt in H|apply Z.leb_gt in H]; lia.
  - destruct (ck =? 0) eqn:E; [apply Z.eqb_eq in E|apply Z.eqb_neq in E]; bprop; split; intros; try lia.
Qed.
Lemma cellops_b_ok s : RcSnapInv.cellops_b s = true -> cellops_ok s.
Proof.
  unfold RcSnapInv.cellops_b, cellops_ok, gett. intros H t x Hx. rewrite forallb_forall in H.
  specialize (H _ (nth_error_In _ _ Hx)). rewrite forallb_forall in H.
  apply Forall_forall. intros y Hy. apply cellop_okb_ok; auto.
Qed.

(* ---- [epoch_ok] *)
Definition epoch_ok_b (g : Z) : bool := (0 <=? g) && (g <? 2 ^ 62).
Lemma epoch_ok_b_ok g : epoch_ok_b g = true -> epoch_ok g.
Proof. unfold epoch_ok_b, epoch_ok. intros H. bprop. lia. Qed.

(* ---- the hypotheses at every state of a run *)
Definition c03_hyp_b (s : state) : bool :=
  RcSnapInv.pinned_b s && cas_res_b s && RcSnapInv.scoped_b s && wscoped_b s && epoch_ok_b (G s).
Lemma c03_hyp_b_ok s : c03_hyp_b s = true -> c03_hyp s.
Proof.
  unfold c03_hyp_b, c03_hyp. intros H. bprop.
  split; [apply pinned_b_ok|split; [apply scoped_b_ok|split; [apply wscoped_b_ok|apply epoch_ok_b_ok]]]; auto.
Qed.
Fixpoint c03_run_b (s : state) (sched : list (nat * list Z)) : bool :=
  c03_hyp_b s &&
  match sched with
  | [] => true
  | (t, rec) :: r => match micro s t rec with Some (s', _) => c03_run_b s' r | None => c03_run_b s r end
  end.
Lemma c03_run_b_ok sched : forall s, c03_run_b s sched = true -> c03_run s sched.
Proof.
  induction sched as [|[t rec] r IH]; intros s H; cbn [c03_run_b c03_run] in *; apply andb_prop in H as (H1 & H2);
    (split; [apply c03_hyp_b_ok; auto|]); auto.
  destruct (micro s t rec) as [[s' o]|]; apply IH; auto.
Qed.

Definition fresh_thr_b (x : thr) : bool :=
  forallb is_none (vars x) && match frames x with [FStart; FOp] => true | _ => false end &&
  Nat.eqb (gdepth x) 0 && negb (inclosure x).
Definition fresh_start_b (s : state) : bool :=
  match objs s with [] => true | _ => false end && match pending s with [] => true | _ => false end &&
  forallb (fun l => Nat.eqb (fst l) 0) (cells s) && forallb fresh_thr_b (threads s).
Lemma fresh_start_b_ok s : fresh_start_b s = true -> fresh_start s.
Proof.
  unfold fresh_start_b, fresh_start. intros H. apply andb_prop in H as (H & H4). apply andb_prop in H as (H & H3).
  apply andb_prop in H as (H1 & H2). rewrite forallb_forall in H3, H4.
  split; [destruct (objs s); auto; discriminate|]. split; [destruct (pending s); auto; discriminate|].
  split; apply Forall_forall; intros y Hy.
  - apply Nat.eqb_eq. auto.
  - specialize (H4 _ Hy). unfold fresh_thr_b in H4. apply andb_prop in H4 as (H4 & Hc). apply andb_prop in H4 as (H4 & Hg).
    apply andb_prop in H4 as (Hv & Hf). rewrite forallb_forall in Hv.
    split; [apply Forall_forall; intros h Hh; specialize (Hv _ Hh); destruct h; auto; discriminate|].
    split; [|split; [apply Nat.eqb_eq; auto|apply negb_true_iff; auto]].
    destruct (frames y) as [|[] [|[] [|]]]; auto; discriminate.
Qed.

(* everything at once *)
Definition run_ok_b (s0 : state) (sched : list (nat * list Z)) : bool :=
  fresh_start_b s0 && RcSnapInv.cellops_b s0 && hyps_run_b s0 sched && c03_run_b s0 sched.
Theorem run_ok_b_ok s0 sched : run_ok_b s0 sched = true -> run_ok s0 sched.
Proof.
  unfold run_ok_b, run_ok. intros H. apply andb_prop in H as (H & H4). apply andb_prop in H as (H & H3).
  apply andb_prop in H as (H1 & H2). destruct (hyps_run_b_ok _ _ H3) as (HB & _).
  split; [apply fresh_start_b_ok|split; [apply cellops_b_ok|split; [|apply c03_run_b_ok]]]; auto.
Qed.

(* ---- witness 1: the run of RcP.ex_hyps *)
Example ex_run_ok : run_ok ex_s0 (ex_sched 20 9).
Proof.
  destruct ex_theorem_hyps as (HF & HB & _).
  split; [exact HF|split; [apply cellops_b_ok; vm_compute; reflexivity|split; [exact HB|]]].
  apply c03_run_b_ok. vm_compute. reflexivity.
Qed.

(* ---- witness 2: a run in which the Snapshot / WeakSnapshot theorems have something to say.
   Thread 0 creates object 1 and stores its only Rc into root cell 0; thread 1 pins, loads the cell (Snapshot of
   object 1 in variable 0) and downgrades the Snapshot (WeakSnapshot in variable 1); then thread 0 stores a null Rc
   into the cell: the strong count of object 1 drops to ZERO and a try_destruct is deferred, with the critical
   section of thread 1 as witness.  At the end of [ex2_sched] thread 1 is still inside its critical section and holds
   both snapshots of an object that only EBR keeps alive.  [ex3_sched] goes on: thread 1 runs Snapshot::counted
   (increment_strong from zero), WeakSnapshot::counted and unpins. *)
Definition ex2_s0 : state :=
  {| G := 0; objs := []; cells := [null_link];
     threads := [ex_thr [[0; 0]; [31; 0; 0; 0; 0]; [24; 1]; [31; 0; 0; 0; 1]];
                 ex_thr [[20]; [30; 0; 0; 0; 0]; [16; 0; 1]; [15; 0; 2]; [17; 1; 3]; [21]]];
     pending := []; err := 0 |}.
Definition ex2_sched : list (nat * list Z) :=
  repeat (O, ex_rec) 7 ++ repeat (1%nat, ex_rec) 11 ++ repeat (O, ex_rec) 25.
Definition ex3_sched : list (nat * list Z) := ex2_sched ++ repeat (1%nat, ex_rec) 22.

Example ex2_run_ok : run_ok ex2_s0 ex2_sched.
Proof. apply run_ok_b_ok. vm_compute. reflexivity. Qed.
Example ex3_run_ok : run_ok ex2_s0 ex3_sched.
Proof. apply run_ok_b_ok. vm_compute. reflexivity. Qed.

Definition holds_snap (x : thr) (o : nat) : bool :=
  existsb (fun h => match h with HSnap l n => Nat.eqb (fst l) o && Nat.eqb n (serial x) | _ => false end) (vars x).
Definition holds_wsnap (x : thr) (o : nat) : bool :=
  existsb (fun h => match h with HWSnap l n => Nat.eqb (fst l) o && Nat.eqb n (serial x) | _ => false end) (vars x).

(* thread 1 is inside a critical section and holds a Snapshot and a WeakSnapshot of object 1 (non-null), object 1 is
   live, its strong count is 0, no thread / cell owns it, and its destruction is pending with thread 1 as witness *)
Example ex2_state :
  let s := mrun ex2_s0 ex2_sched in
  match gett s 1, geto s 1 with
  | Some x, Some ob =>
      incs x && holds_snap x 1 && holds_wsnap x 1 && obj_live s 1 &&
      (strong (word ob) =? 0) && (owners s 1 =? 0) && (attempts s 1 =? 1) &&
      RcSnapInv.pend_wit s 1 (serial x) 1
  | _, _ => false
  end = true.
Proof. vm_compute. reflexivity. Qed.

(* at the end of [ex3_sched] thread 1 has left its critical section; the counted Rc and Weak it obtained from the
   snapshots own object 1 (strong = 2: the Rc and the token of the still pending try_destruct) *)
Example ex3_state :
  let s := mrun ex2_s0 ex3_sched in
  match gett s 1, geto s 1 with
  | Some x, Some ob =>
      negb (incs x) && obj_live s 1 && (owners s 1 =? 1) && (wowners s 1 =? 1) &&
      (strong (word ob) =? 2) && tok ob && (weak (word ob) =? 2) && (err s =? 0)
  | _, _ => false
  end = true.
Proof. vm_compute. reflexivity. Qed.

(* the conclusions of the final theorems on these runs *)
Example ex2_snap_valid : snap_valid (mrun ex2_s0 ex2_sched).
Proof. destruct ex2_run_ok as (H1 & H2 & H3 & H4). exact (C02_final _ _ H1 H2 H3 H4). Qed.
Example ex2_wsnap_valid : wsnap_valid (mrun ex2_s0 ex2_sched).
Proof. destruct ex2_run_ok as (H1 & H2 & H3 & H4). exact (C03_wsnap _ _ H1 H2 H3 H4). Qed.

Print Assumptions run_ok_b_ok.
Print Assumptions ex_run_ok.
Print Assumptions ex2_run_ok.
Print Assumptions ex3_run_ok.
Print Assumptions ex2_state.
Print Assumptions ex3_state.
Print Assumptions ex2_snap_valid.
Print Assumptions ex2_wsnap_valid.
