(* C11 at the level of the public handles.  Gen/ApiTagW.v is regenerated on every run from the bodies of
   is_null / tag / with_tag / ptr_eq / as_ref of Rc, Snapshot (src/strong.rs) and Weak, WeakSnapshot (src/weak.rs):
   each body is a straight-line program over the handle's pointer word, translated onto the generated Tagged
   functions.  Here: every one of them IS the Tagged function (for every word), hence the user-level statements of
   C11 hold for the handles: tags are stored modulo the alignment and read back, tagging touches neither the address
   nor the internal timestamp, is_null and as_ref look at the address only, ptr_eq compares address and tag and
   never the timestamp. *)
From Coq Require Import ZArith List Bool Lia.
Import ListNotations.
Require Import Params TaggedW ApiTagW TaggedP.
Local Open Scope Z_scope.

Record delegates (is_null : Z -> Z -> bool) (tag : Z -> Z -> Z) (with_tag : Z -> Z -> Z -> Z) (ptr_eq : Z -> Z -> Z -> bool) : Prop := {
  d_is_null : forall k p, is_null k p = t_is_null k p;
  d_tag : forall k p, tag k p = t_tag k p;
  d_with_tag : forall k p t, with_tag k p t = t_with_tag k p t;
  d_ptr_eq : forall k p q, ptr_eq k p q = t_ptr_eq k p q }.

Lemma rc_delegates : delegates rc_is_null rc_tag rc_with_tag rc_ptr_eq.
Proof. constructor; intros; reflexivity. Qed.
Lemma snap_delegates : delegates snap_is_null snap_tag snap_with_tag snap_ptr_eq.
Proof. constructor; intros; reflexivity. Qed.
Lemma weak_delegates : delegates weak_is_null weak_tag weak_with_tag weak_ptr_eq.
Proof. constructor; intros; reflexivity. Qed.
Lemma wsnap_delegates : delegates wsnap_is_null wsnap_tag wsnap_with_tag wsnap_ptr_eq.
Proof. constructor; intros; reflexivity. Qed.

(* as_ref returns None exactly for a null address *)
Lemma as_ref_tests_null k p : rc_as_ref_is_none k p = t_is_null k p /\ snap_as_ref_is_none k p = t_is_null k p.
Proof. split; reflexivity. Qed.

Definition handle_ok (is_null : Z -> Z -> bool) (tag : Z -> Z -> Z) (with_tag : Z -> Z -> Z -> Z) (ptr_eq : Z -> Z -> Z -> bool) : Prop :=
  forall k a tg ts, align_ok k -> addr_ok k a -> 0 <= ts ->
    let p := mk k a tg ts in
    tag k p = tg mod 2 ^ k /\
    is_null k p = (a =? 0) /\
    (forall tg', tag k (with_tag k p tg') = tg' mod 2 ^ k /\
                 t_as_raw k (with_tag k p tg') = a /\
                 t_high_tag k (with_tag k p tg') = ts mod 16 /\
                 is_null k (with_tag k p tg') = (a =? 0)) /\
    (forall a' tg' ts', addr_ok k a' -> 0 <= ts' ->
       (ptr_eq k p (mk k a' tg' ts') = true <-> (a = a' /\ tg mod 2 ^ k = tg' mod 2 ^ k))).

Theorem delegates_ok is_null tag with_tag ptr_eq :
  delegates is_null tag with_tag ptr_eq -> handle_ok is_null tag with_tag ptr_eq.
Proof.
  intros [D1 D2 D3 D4] k a tg ts Hk Ha Hts p. subst p.
  destruct (C11_accessors k a tg ts Hk Ha Hts) as (A1 & _ & _ & A4).
  split; [|split; [|split]].
  - rewrite D2. exact A1.
  - rewrite D1. exact A4.
  - intros tg'. destruct (C11_with_tag k a tg ts tg' Hk Ha Hts) as (W1 & W2 & W3).
    rewrite D1, D2, !D3. repeat split; auto.
    rewrite with_tag_is_mk by assumption.
    destruct (C11_accessors k a tg' ts Hk Ha Hts) as (_ & _ & _ & B4). exact B4.
  - intros a' tg' ts' Ha' Hts'. rewrite D4. apply C11_ptr_eq_iff; assumption.
Qed.

Theorem C11_handles :
  handle_ok rc_is_null rc_tag rc_with_tag rc_ptr_eq /\ handle_ok snap_is_null snap_tag snap_with_tag snap_ptr_eq /\
  handle_ok weak_is_null weak_tag weak_with_tag weak_ptr_eq /\ handle_ok wsnap_is_null wsnap_tag wsnap_with_tag wsnap_ptr_eq.
Proof.
  split; [|split; [|split]]; apply delegates_ok;
    [apply rc_delegates | apply snap_delegates | apply weak_delegates | apply wsnap_delegates].
Qed.
