(* C04, the link between its safety half and C15's progress: NOTHING IS ORPHANED.  In every reachable state every object
   whose block is not yet freed is still on somebody's list: it has a counted owner, or exactly one destruction attempt is
   pending / in progress, or exactly one disposer is at work on it, or (payload gone) a weak owner / the strong side's
   share / exactly one try_dealloc remains.  Together with C15 (every deferred function is eventually run) this is what
   "nothing leaks at quiescence" rests on: once the handles are gone, the only things left are deferred functions and
   running frames, and each of them moves its object one stage further (C04_at_most_once_in_order).
   A corollary of the count invariants RcP.Inv' and RcWeakP.Winv; no new induction. *)
From Coq Require Import ZArith List Bool Lia Arith.
Import ListNotations.
Require Import Params StateW DisposeW Rc RcSpec RcP RcWeakP RcSnapInvP RcWSnapInvP.
Local Open Scope Z_scope.

Definition no_orphan (s : state) : Prop :=
  forall o ob, o <> O -> geto s o = Some ob -> freed ob = false ->
    (destructed (word ob) = false -> 0 < owners s o \/ attempts s o = 1) /\
    (destructed (word ob) = true -> dropped ob = false -> disp s o = 1) /\
    (dropped ob = true -> 0 < wowners s o \/ 0 < gfr s o \/ dealloc_attempts s o = 1).

Lemma inv_no_orphan s : Inv' s -> Winv s -> no_orphan s.
Proof.
  intros (HO & _ & _) (HW & _ & HT & HD & _) o ob Ho Hg Hfr.
  pose proof (HO _ _ Hg) as J. pose proof (HW _ _ Hg Hfr) as W.
  split; [|split].
  - intros Hd. pose proof (j_strong _ _ _ J Hd) as Hs. destruct (j_attempts _ _ _ J Hd) as (_ & Ha).
    pose proof (j_owners_nonneg _ _ _ J) as Hn.
    destruct (Z.eq_dec (owners s o) 0) as [Hz|Hz]; [|left; lia].
    right. apply Ha. destruct (tok ob) eqn:Et; [right; reflexivity|left]. unfold b2z in Hs; cbn [Z.b2z] in Hs. lia.
  - intros Hd Hdr. pose proof (HD _ _ Hg Hd) as H1. rewrite Hdr in H1. unfold b2z in H1; cbn [Z.b2z] in H1. lia.
  - intros Hdr. destruct W as [Wc (_ & Wa) _].
    assert (Hwn : 0 <= wowners s o).
    { apply wowners_nonneg; [|assumption]. intros t x Hx o' Ho'. apply (proj1 (HT t x Hx)). assumption. }
    pose proof (gfr_nonneg s o) as Hgn.
    unfold gsh in Wc. rewrite Hdr in Wc. cbn [negb] in Wc. unfold b2z at 2 in Wc. cbn [Z.b2z] in Wc.
    destruct (Z.eq_dec (wowners s o) 0) as [Hz|Hz]; [|left; lia].
    destruct (Z.eq_dec (gfr s o) 0) as [Hz2|Hz2]; [|right; left; lia].
    right; right. apply Wa. destruct (wtok ob) eqn:Et; [right; reflexivity|left]. unfold b2z in Wc; cbn [Z.b2z] in Wc. lia.
Qed.

Theorem C04_no_orphan s0 sched : run_ok s0 sched -> no_orphan (mrun s0 sched).
Proof.
  intros H. destruct (run_ok_hyps _ _ H) as (H1 & H2 & H3).
  destruct (mrun_full sched s0 (Inv_fresh _ H1) (Winv_fresh _ H1) H2 H3) as (_ & HI & HW).
  apply inv_no_orphan; assumption.
Qed.
Print Assumptions C04_no_orphan.
