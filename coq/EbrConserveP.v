(* C15 on M2 (Ebr.v): no deferred function is lost or run twice.
   Part 1: conservation of the multiset of (non-negative) deferred ids by every [micro] transition.
   Part 2: exactly-once corollaries.   Part 3: (partial) progress lemmas.   Part 4: a concrete run. *)
From Coq Require Import ZArith List Bool Lia Arith Permutation.
Import ListNotations.
Require Import Params Ebr EbrP.
Local Open Scope Z_scope.

(* ================================================================== *)
(* Part 1 -- conservation                                              *)
(* ================================================================== *)

(* ids carried by a command: a CDefer carries its own id and, recursively, the ids of the defers
   nested in its body.  Negative ids (only [node_free] in well-formed inputs) are invisible: the
   machine skips such an item without running its body, so neither it nor its body is counted. *)
Fixpoint cmd_ids (c : cmd) : list Z :=
  match c with
  | CDefer id body =>
      if id <? 0 then [] else
      id :: (fix go (cs : list cmd) : list Z :=
               match cs with [] => [] | c :: r => cmd_ids c ++ go r end) body
  | _ => []
  end.
Definition cmds_ids (cs : list cmd) : list Z := flat_map cmd_ids cs.

Lemma cmd_ids_defer id body :
  cmd_ids (CDefer id body) = if id <? 0 then [] else id :: cmds_ids body.
Proof. reflexivity. Qed.

Definition def_ids (d : def) : list Z := if did d <? 0 then [] else did d :: cmds_ids (dbody d).
Definition defs_ids (ds : list def) : list Z := flat_map def_ids ds.

Definition frame_ids (f : frame) : list Z :=
  match f with
  | FCmds cs => cmds_ids cs
  | FDefer d => def_ids d
  | FPushBag21 items => defs_ids items
  | FPopped _ items => defs_ids items
  | FRunItems items => defs_ids items
  | _ => []
  end.
Definition frames_ids (fs : list frame) : list Z := flat_map frame_ids fs.

Definition local_ids (l : local) : list Z :=
  cmds_ids (prog l) ++ frames_ids (frames l) ++ defs_ids (bag l).

Definition sealed_ids (q : list (Z * list def)) : list Z := flat_map (fun b => defs_ids (snd b)) q.

(* everything still to run, wherever it sits, plus everything that already ran *)
Definition threads_ids (ls : list local) : list Z := flat_map local_ids ls.
Definition held_ids (s : state) : list Z := threads_ids (threads s) ++ sealed_ids (sealed s).
Definition state_ids (s : state) : list Z := held_ids s ++ ran s.

(* ---- counting: permutations are proved as equalities of occurrence counts *)
Definition cnt (x : Z) (l : list Z) : nat := count_occ Z.eq_dec l x.

Lemma cnt_app x a b : cnt x (a ++ b) = (cnt x a + cnt x b)%nat.
Proof. apply count_occ_app. Qed.
Lemma cnt_nil x : cnt x [] = 0%nat.
Proof. reflexivity. Qed.
Lemma cnt_cons x y l : cnt x (y :: l) = (cnt x [y] + cnt x l)%nat.
Proof. change (y :: l) with ([y] ++ l). apply cnt_app. Qed.
Lemma cnt_perm a b : (forall x, cnt x a = cnt x b) -> Permutation a b.
Proof. intros H. apply (Permutation_count_occ Z.eq_dec). exact H. Qed.
Lemma perm_cnt a b x : Permutation a b -> cnt x a = cnt x b.
Proof. intros H. apply (Permutation_count_occ Z.eq_dec); exact H. Qed.

Lemma frames_ids_app a b : frames_ids (a ++ b) = frames_ids a ++ frames_ids b.
Proof. apply flat_map_app. Qed.
Lemma defs_ids_app a b : defs_ids (a ++ b) = defs_ids a ++ defs_ids b.
Proof. apply flat_map_app. Qed.
Lemma sealed_ids_app a b : sealed_ids (a ++ b) = sealed_ids a ++ sealed_ids b.
Proof. apply flat_map_app. Qed.

(* replacing thread t's local state moves exactly the difference of its ids *)
Lemma cnt_set_nth x (ls : list local) : forall t l l',
  nth_error ls t = Some l ->
  (cnt x (threads_ids (set_nth ls t l')) + cnt x (local_ids l) =
   cnt x (threads_ids ls) + cnt x (local_ids l'))%nat.
Proof.
  unfold threads_ids. induction ls as [|a ls IH]; intros [|t] l l' H; cbn in H; try discriminate.
  - inversion H; subst. cbn [set_nth flat_map]. rewrite !cnt_app. lia.
  - cbn [set_nth flat_map]. rewrite !cnt_app. specialize (IH t l l' H). lia.
Qed.

Lemma cmd_frames_ids me c : frames_ids (cmd_frames me c) = cmd_ids c.
Proof.
  destruct c; try reflexivity. rewrite cmd_ids_defer. cbn. unfold def_ids; cbn.
  rewrite app_nil_r. reflexivity.
Qed.

Lemma frames_ids_cons f k : frames_ids (f :: k) = frame_ids f ++ frames_ids k.
Proof. reflexivity. Qed.
Lemma defs_ids_cons d k : defs_ids (d :: k) = def_ids d ++ defs_ids k.
Proof. reflexivity. Qed.
Lemma cmds_ids_cons c k : cmds_ids (c :: k) = cmd_ids c ++ cmds_ids k.
Proof. reflexivity. Qed.
Lemma sealed_ids_cons e items q : sealed_ids ((e, items) :: q) = defs_ids items ++ sealed_ids q.
Proof. reflexivity. Qed.
Lemma frames_ids_nil : frames_ids [] = []. Proof. reflexivity. Qed.
Lemma defs_ids_nil : defs_ids [] = []. Proof. reflexivity. Qed.
Lemma cmds_ids_nil : cmds_ids [] = []. Proof. reflexivity. Qed.
Lemma sealed_ids_nil : sealed_ids [] = []. Proof. reflexivity. Qed.

Global Hint Rewrite frames_ids_app defs_ids_app sealed_ids_app cmd_frames_ids
  frames_ids_cons defs_ids_cons cmds_ids_cons sealed_ids_cons
  frames_ids_nil defs_ids_nil cmds_ids_nil sealed_ids_nil cnt_app cnt_nil app_nil_r : ids.

(* close a conservation goal [Permutation (state_ids s') (state_ids s)] for a concrete s' *)
Ltac conserve Hl Hf :=
  apply cnt_perm; intros x; unfold state_ids, held_ids; cbn [threads sealed ran setl];
  match goal with |- context [set_nth (threads ?s) ?t ?L] =>
    let HH := fresh "HH" in
    pose proof (cnt_set_nth x (threads s) t _ L Hl) as HH;
    unfold local_ids in HH; cbn [prog frames bag with_frames] in HH; rewrite ?Hf in HH
  end;
  repeat (autorewrite with ids in *; cbn [frame_ids snd] in * );
  try lia.
Ltac fin := repeat (autorewrite with ids in *; cbn [frame_ids snd] in * ); try lia.

(* shape invariant: the operation-boundary frame FOp is the bottom of a continuation stack.
   (FOp with an exhausted program drops the rest of the stack, so conservation needs to know that
   nothing is below it.) *)
Fixpoint op_last (fs : list frame) : Prop :=
  match fs with
  | [] => True
  | FOp :: k => k = []
  | _ :: k => op_last k
  end.
Definition WF (s : state) : Prop :=
  forall t l, nth_error (threads s) t = Some l -> op_last (frames l).

Theorem micro_conserves s t s' o :
  WF s -> micro s t = Some (s', o) -> Permutation (state_ids s') (state_ids s).
Proof.
  intros Hw Hm. unfold micro in Hm.
  destruct (getl s t) as [l|] eqn:Hl; [|discriminate]. unfold getl in Hl.
  specialize (Hw t l Hl).
  destruct (frames l) as [|f k] eqn:Hf; [discriminate|].
  destruct f;
    try solve [repeat match type of Hm with
           | context [match ?c with _ => _ end] => destruct c eqn:?
           | context [if ?c then _ else _] => destruct c eqn:?
           end; try discriminate; inversion Hm; subst s' o; clear Hm; conserve Hl Hf].
  - (* FOp *) cbn in Hw. subst k.
    destruct (prog l) as [|c rest] eqn:Hp; inversion Hm; subst s' o; clear Hm; conserve Hl Hf.
    rewrite Hp in *. fin.
  - (* FCollect23 *)
    destruct (sealed s) as [|[e items] rest] eqn:Hs; [inversion Hm; subst s' o; clear Hm; conserve Hl Hf|].
    destruct (expired (G s) e); inversion Hm; subst s' o; clear Hm; conserve Hl Hf.
    rewrite Hs. fin.
  - (* FRunItems: the only transition that extends [ran] *)
    destruct items as [|d rest]; [inversion Hm; subst s' o; clear Hm; conserve Hl Hf|].
    destruct (did d <? 0) eqn:Hd; inversion Hm; subst s' o; clear Hm; conserve Hl Hf.
    + unfold def_ids in HH. rewrite Hd in HH. fin.
    + unfold def_ids in HH. rewrite Hd in HH. rewrite (cnt_cons x (did d)) in *. fin.
  - (* FDefer *)
    destruct (Nat.ltb (length (bag l)) (cap s)); inversion Hm; subst s' o; clear Hm; conserve Hl Hf.
    unfold def_ids in HH; cbn [did dbody] in HH. lia.
  - (* FFlush0 *)
    destruct (bag l) as [|d0 b0] eqn:Hb; inversion Hm; subst s' o; clear Hm; conserve Hl Hf.
    rewrite Hb in HH. fin.
Qed.
Print Assumptions micro_conserves.

(* without the shape hypothesis one half survives: no transition ever invents or duplicates an id
   (the only transition that can drop ids is FOp on an exhausted program with frames below it,
   which [WF] excludes) *)
Ltac conserve_le x Hl Hf :=
  unfold state_ids, held_ids; cbn [threads sealed ran setl];
  match goal with |- context [set_nth (threads ?s) ?t ?L] =>
    let HH := fresh "HH" in
    pose proof (cnt_set_nth x (threads s) t _ L Hl) as HH;
    unfold local_ids in HH; cbn [prog frames bag with_frames] in HH; rewrite ?Hf in HH
  end;
  repeat (autorewrite with ids in *; cbn [frame_ids snd] in * );
  try lia.

Theorem micro_no_gain s t s' o x :
  micro s t = Some (s', o) -> (cnt x (state_ids s') <= cnt x (state_ids s))%nat.
Proof.
  intros Hm. unfold micro in Hm.
  destruct (getl s t) as [l|] eqn:Hl; [|discriminate]. unfold getl in Hl.
  destruct (frames l) as [|f k] eqn:Hf; [discriminate|].
  destruct f;
    try solve [repeat match type of Hm with
           | context [match ?c with _ => _ end] => destruct c eqn:?
           | context [if ?c then _ else _] => destruct c eqn:?
           end; try discriminate; inversion Hm; subst s' o; clear Hm; conserve_le x Hl Hf].
  - destruct (prog l) as [|c rest] eqn:Hp; inversion Hm; subst s' o; clear Hm; conserve_le x Hl Hf.
    rewrite Hp in *. fin.
  - destruct (sealed s) as [|[e items] rest] eqn:Hs; [inversion Hm; subst s' o; clear Hm; conserve_le x Hl Hf|].
    destruct (expired (G s) e); inversion Hm; subst s' o; clear Hm; conserve_le x Hl Hf.
    rewrite Hs. fin.
  - destruct items as [|d rest]; [inversion Hm; subst s' o; clear Hm; conserve_le x Hl Hf|].
    destruct (did d <? 0) eqn:Hd; inversion Hm; subst s' o; clear Hm; conserve_le x Hl Hf.
    unfold def_ids in HH. rewrite Hd in HH. rewrite (cnt_cons x (did d)) in *. fin.
  - destruct (Nat.ltb (length (bag l)) (cap s)); inversion Hm; subst s' o; clear Hm; conserve_le x Hl Hf.
    unfold def_ids in HH; cbn [did dbody] in HH. lia.
  - destruct (bag l) as [|d0 b0] eqn:Hb; inversion Hm; subst s' o; clear Hm; conserve_le x Hl Hf.
    rewrite Hb in HH. fin.
Qed.
Print Assumptions micro_no_gain.

(* ---- the shape invariant is inductive *)
Lemma set_nth_cases {A} (ls : list A) : forall t x q y,
  nth_error (set_nth ls t x) q = Some y -> y = x \/ nth_error ls q = Some y.
Proof.
  induction ls as [|a ls IH]; intros [|t] x [|q] y H; cbn in *; auto; try discriminate.
  - inversion H; auto.
  - eauto.
Qed.

Lemma op_last_cmd me c k : op_last (cmd_frames me c ++ k) = op_last k.
Proof. destruct c; reflexivity. Qed.

Theorem micro_wf s t s' o : WF s -> micro s t = Some (s', o) -> WF s'.
Proof.
  intros Hw Hm. unfold micro in Hm.
  destruct (getl s t) as [l|] eqn:Hl; [|discriminate]. unfold getl in Hl.
  pose proof (Hw t l Hl) as Hwl.
  destruct (frames l) as [|f k] eqn:Hf; [discriminate|].
  destruct f;
    repeat match type of Hm with
           | context [match ?c with _ => _ end] => destruct c eqn:?
           | context [if ?c then _ else _] => destruct c eqn:?
           end; try discriminate; inversion Hm; subst s' o; clear Hm;
    intros q' lq' Hq; cbn [threads setl] in Hq;
    (apply set_nth_cases in Hq; destruct Hq as [->|Hq]; [|exact (Hw q' lq' Hq)]);
    cbn [frames with_frames]; rewrite ?op_last_cmd; cbn in Hwl |- *; try subst k; auto.
Qed.
Print Assumptions micro_wf.

(* ---- lifting: local runs, scheduled steps, arbitrary schedules *)
Lemma run_local_conserves fuel : forall s t acc s' o b,
  WF s -> run_local fuel s t acc = (s', o, b) -> WF s' /\ Permutation (state_ids s') (state_ids s).
Proof.
  induction fuel as [|n IH]; cbn; intros s t acc s' o b Hw H.
  - inversion H; subst; auto.
  - destruct (getl s t) as [l|]; [|inversion H; subst; auto].
    destruct (frames l) as [|f k]; [inversion H; subst; auto|].
    destruct (is_yield f); [inversion H; subst; auto|].
    destruct (micro s t) as [[s1 o1]|] eqn:E; [|inversion H; subst; auto].
    destruct (IH _ _ _ _ _ _ (micro_wf _ _ _ _ Hw E) H) as [W P]. split; auto.
    etransitivity; [exact P|]. eapply micro_conserves; eauto.
Qed.

Theorem step_conserves s t s' o :
  WF s -> step s t = Some (s', o) -> WF s' /\ Permutation (state_ids s') (state_ids s).
Proof.
  intros Hw H. unfold step in H. destruct (top_is_yield s t); [|discriminate].
  destruct (micro s t) as [[s1 o1]|] eqn:E; [|discriminate].
  destruct (run_local FUEL s1 t o1) as [[s2 o2] b] eqn:E2. destruct b; [|discriminate].
  inversion H; subst.
  destruct (run_local_conserves _ _ _ _ _ _ _ (micro_wf _ _ _ _ Hw E) E2) as [W P]. split; auto.
  etransitivity; [exact P|]. eapply micro_conserves; eauto.
Qed.
Print Assumptions step_conserves.

(* [mrun]/[srun] (EbrP.v): runs over arbitrary schedules at micro / step granularity, staying put
   when the scheduled thread cannot move *)
Theorem mrun_conserves sched : forall s,
  WF s -> WF (mrun s sched) /\ Permutation (state_ids (mrun s sched)) (state_ids s).
Proof.
  induction sched as [|t r IH]; cbn; intros s Hw; auto.
  destruct (micro s t) as [[s' o]|] eqn:E; auto.
  destruct (IH s' (micro_wf _ _ _ _ Hw E)) as [W P]. split; auto.
  etransitivity; [exact P|]. eapply micro_conserves; eauto.
Qed.
Print Assumptions mrun_conserves.

Theorem srun_conserves sched : forall s,
  WF s -> WF (srun s sched) /\ Permutation (state_ids (srun s sched)) (state_ids s).
Proof.
  induction sched as [|t r IH]; cbn; intros s Hw; auto.
  destruct (step s t) as [[s' o]|] eqn:E; auto.
  destruct (step_conserves _ _ _ _ Hw E) as [W1 P1].
  destruct (IH s' W1) as [W P]. split; auto. etransitivity; eauto.
Qed.
Print Assumptions srun_conserves.

(* ================================================================== *)
(* Part 2 -- exactly once                                              *)
(* ================================================================== *)

(* ---- initial states *)
Lemma init_threads_ids progs :
  threads_ids (map init_local progs ++ [main_local]) = flat_map cmds_ids progs.
Proof.
  unfold threads_ids. induction progs as [|p r IH]; cbn; auto.
  rewrite IH. rewrite ?app_nil_r. reflexivity.
Qed.

Theorem init_state_ids c g0 progs : state_ids (init_state c g0 progs) = flat_map cmds_ids progs.
Proof.
  unfold state_ids, held_ids; cbn [threads sealed ran init_state].
  rewrite init_threads_ids. cbn. rewrite !app_nil_r. reflexivity.
Qed.

Theorem init_ran c g0 progs : ran (init_state c g0 progs) = [].
Proof. reflexivity. Qed.

Theorem init_NoDup c g0 progs :
  NoDup (flat_map cmds_ids progs) -> NoDup (state_ids (init_state c g0 progs)).
Proof. rewrite init_state_ids. auto. Qed.

Theorem init_WF c g0 progs : WF (init_state c g0 progs).
Proof.
  intros t l H. cbn [threads init_state] in H.
  destruct (nth_error_map_app _ _ _ _ _ H) as [(p & _ & ->)|[_ ->]]; cbn; auto.
Qed.
Print Assumptions init_state_ids.
Print Assumptions init_NoDup.
Print Assumptions init_WF.

(* ---- [ran] only grows, and only by the FRunItems transition *)
Theorem micro_runs s t s' o :
  micro s t = Some (s', o) ->
  ran s' = ran s \/
  exists l d rest k, nth_error (threads s) t = Some l /\ frames l = FRunItems (d :: rest) :: k /\
    0 <= did d /\ ran s' = did d :: ran s /\
    exists l', nth_error (threads s') t = Some l' /\ frames l' = FCmds (dbody d) :: FRunItems rest :: k.
Proof.
  intros Hm. destruct (ran_changes _ _ _ _ Hm) as [H|(l & d & rest & k & Hl & Hf & Hd & Hr & Ho)]; auto.
  right. exists l, d, rest, k. repeat split; auto.
  unfold micro, getl in Hm. rewrite Hl, Hf in Hm.
  destruct (did d <? 0) eqn:E; [apply Z.ltb_lt in E; lia|].
  inversion Hm; subst s' o; cbn [threads]. eexists. split; [eapply nth_set_nth_same; eauto|reflexivity].
Qed.
Print Assumptions micro_runs.

Lemma micro_ran_grows s t s' o : micro s t = Some (s', o) -> exists l, ran s' = l ++ ran s.
Proof.
  intros Hm. destruct (ran_changes _ _ _ _ Hm) as [H|(l & d & rest & k & _ & _ & _ & Hr & _)].
  - exists []. auto.
  - exists [did d]. auto.
Qed.

Lemma run_local_ran_grows fuel : forall s t acc s' o b,
  run_local fuel s t acc = (s', o, b) -> exists l, ran s' = l ++ ran s.
Proof.
  induction fuel as [|n IH]; cbn; intros s t acc s' o b H.
  - inversion H; subst. exists []; auto.
  - destruct (getl s t) as [l|]; [|inversion H; subst; exists []; auto].
    destruct (frames l) as [|f k]; [inversion H; subst; exists []; auto|].
    destruct (is_yield f); [inversion H; subst; exists []; auto|].
    destruct (micro s t) as [[s1 o1]|] eqn:E; [|inversion H; subst; exists []; auto].
    destruct (IH _ _ _ _ _ _ H) as [l1 H1]. destruct (micro_ran_grows _ _ _ _ E) as [l2 H2].
    exists (l1 ++ l2). rewrite H1, H2, app_assoc. reflexivity.
Qed.

Theorem step_ran_grows s t s' o : step s t = Some (s', o) -> exists l, ran s' = l ++ ran s.
Proof.
  intros H. unfold step in H. destruct (top_is_yield s t); [|discriminate].
  destruct (micro s t) as [[s1 o1]|] eqn:E; [|discriminate].
  destruct (run_local FUEL s1 t o1) as [[s2 o2] b] eqn:E2. destruct b; [|discriminate].
  inversion H; subst.
  destruct (run_local_ran_grows _ _ _ _ _ _ _ E2) as [l1 H1]. destruct (micro_ran_grows _ _ _ _ E) as [l2 H2].
  exists (l1 ++ l2). rewrite H1, H2, app_assoc. reflexivity.
Qed.

Theorem srun_ran_grows sched : forall s, exists l, ran (srun s sched) = l ++ ran s.
Proof.
  induction sched as [|t r IH]; cbn; intros s; [exists []; auto|].
  destruct (step s t) as [[s' o]|] eqn:E; auto.
  destruct (IH s') as [l1 H1]. destruct (step_ran_grows _ _ _ _ E) as [l2 H2].
  exists (l1 ++ l2). rewrite H1, H2, app_assoc. reflexivity.
Qed.

Theorem mrun_ran_grows sched : forall s, exists l, ran (mrun s sched) = l ++ ran s.
Proof.
  induction sched as [|t r IH]; cbn; intros s; [exists []; auto|].
  destruct (micro s t) as [[s' o]|] eqn:E; auto.
  destruct (IH s') as [l1 H1]. destruct (micro_ran_grows _ _ _ _ E) as [l2 H2].
  exists (l1 ++ l2). rewrite H1, H2, app_assoc. reflexivity.
Qed.
Print Assumptions step_ran_grows.
Print Assumptions srun_ran_grows.
Print Assumptions mrun_ran_grows.

(* ---- exactly once.  [cnt x l] is [count_occ Z.eq_dec l x].  [held_ids s] is the concatenation of
   the ids in every container (each thread's prog, frames, bag; then the sealed queue), so
   [cnt x (held_ids s) = 1] says: x sits in exactly one container, exactly once. *)
Lemma nodup_app (a b : list Z) : NoDup (a ++ b) -> NoDup a /\ NoDup b.
Proof.
  rewrite !(NoDup_count_occ Z.eq_dec). intros H; split; intros x; specialize (H x);
    rewrite count_occ_app in H; lia.
Qed.

Lemma once_of_perm s0 s :
  NoDup (state_ids s0) -> Permutation (state_ids s) (state_ids s0) ->
  NoDup (ran s) /\ NoDup (held_ids s) /\
  (forall x, In x (state_ids s) <-> In x (state_ids s0)) /\
  (forall x, In x (state_ids s0) ->
     (cnt x (ran s) = 1%nat /\ cnt x (held_ids s) = 0%nat) \/
     (cnt x (ran s) = 0%nat /\ cnt x (held_ids s) = 1%nat)).
Proof.
  intros Hn Hp.
  assert (Hn' : NoDup (state_ids s)) by (eapply Permutation_NoDup; [symmetry; exact Hp|exact Hn]).
  split; [|split; [|split]].
  - unfold state_ids in Hn'. apply nodup_app in Hn'. tauto.
  - unfold state_ids in Hn'. apply nodup_app in Hn'. tauto.
  - intros x; split; intros H; [eapply Permutation_in; eauto | eapply Permutation_in; [symmetry|]; eauto].
  - intros x Hx.
    assert (Hin : In x (state_ids s)) by (eapply Permutation_in; [symmetry|]; eauto).
    pose proof (proj1 (NoDup_count_occ' Z.eq_dec (state_ids s)) Hn' x Hin) as Hc.
    change (cnt x (state_ids s) = 1%nat) in Hc. unfold state_ids in Hc. rewrite cnt_app in Hc. lia.
Qed.

Section ExactlyOnce.
  Variables (c : nat) (g0 : Z) (progs : list (list cmd)).
  Hypothesis Hnd : NoDup (flat_map cmds_ids progs).   (* the program's defer ids are distinct *)
  Let s0 := init_state c g0 progs.

  Lemma reach_facts s : Permutation (state_ids s) (state_ids s0) ->
    NoDup (ran s) /\ NoDup (held_ids s) /\
    (forall x, In x (state_ids s) <-> In x (flat_map cmds_ids progs)) /\
    (forall x, In x (flat_map cmds_ids progs) ->
       (cnt x (ran s) = 1%nat /\ cnt x (held_ids s) = 0%nat) \/
       (cnt x (ran s) = 0%nat /\ cnt x (held_ids s) = 1%nat)).
  Proof.
    intros Hp. pose proof (once_of_perm s0 s (init_NoDup c g0 progs Hnd) Hp) as H.
    unfold s0 in H. rewrite init_state_ids in H. exact H.
  Qed.

  (* at step granularity, every schedule *)
  Theorem C15_exactly_once sched : let s := srun s0 sched in
    NoDup (ran s) /\ NoDup (held_ids s) /\
    (forall x, In x (state_ids s) <-> In x (flat_map cmds_ids progs)) /\
    (forall x, In x (flat_map cmds_ids progs) ->
       (cnt x (ran s) = 1%nat /\ cnt x (held_ids s) = 0%nat) \/
       (cnt x (ran s) = 0%nat /\ cnt x (held_ids s) = 1%nat)).
  Proof. apply reach_facts. apply srun_conserves. apply init_WF. Qed.

  (* at micro granularity (every intermediate point of every step), every schedule *)
  Theorem C15_exactly_once_micro sched : let s := mrun s0 sched in
    NoDup (ran s) /\ NoDup (held_ids s) /\
    (forall x, In x (state_ids s) <-> In x (flat_map cmds_ids progs)) /\
    (forall x, In x (flat_map cmds_ids progs) ->
       (cnt x (ran s) = 1%nat /\ cnt x (held_ids s) = 0%nat) \/
       (cnt x (ran s) = 0%nat /\ cnt x (held_ids s) = 1%nat)).
  Proof. apply reach_facts. apply mrun_conserves. apply init_WF. Qed.
End ExactlyOnce.
Print Assumptions once_of_perm.
Print Assumptions C15_exactly_once.
Print Assumptions C15_exactly_once_micro.

(* ================================================================== *)
(* Part 4 -- non-vacuity: a concrete two-thread run                    *)
(* ================================================================== *)
Module Demo.
  Definition round := [CPin; CFlush; CUnpin].
  (* thread 0 defers function 1 whose body defers function 2; thread 1 defers function 3 *)
  Definition p0 := [CPin; CDefer 1 [CDefer 2 []]; CFlush; CUnpin] ++ concat (repeat round 10).
  Definition p1 := [CPin; CDefer 3 []; CFlush; CUnpin].
  Definition s0 := init_state 4 0 [p0; p1].
  (* threads 0 and 1 alternate for 60 steps, then thread 0 runs alone *)
  Definition sched (n : nat) : list nat := concat (repeat [0%nat; 1%nat] 30) ++ repeat 0%nat n.
  Definition mid := srun s0 (sched 40).
  Definition fin := srun s0 (sched 100).

  Example demo_run :
    state_ids s0 = [1; 2; 3] /\ ran s0 = [] /\
    (* function 1 has run (its body is executing / has executed): the nested defer 2 is held *)
    ran mid = [3; 1] /\ held_ids mid = [2] /\
    (* everything has run, exactly once; nothing is held any more *)
    ran fin = [2; 3; 1] /\ held_ids fin = [] /\ state_ids fin = [2; 3; 1] /\ G fin = 8.
  Proof. vm_compute. repeat split; reflexivity. Qed.

  Example demo_perm : Permutation (state_ids mid) (state_ids s0) /\ Permutation (state_ids fin) (state_ids s0).
  Proof. split; apply srun_conserves; apply init_WF. Qed.

  Example demo_nodup : NoDup (flat_map cmds_ids [p0; p1]).
  Proof. vm_compute. repeat constructor; cbn; intuition congruence. Qed.
End Demo.
Print Assumptions Demo.demo_run.
Print Assumptions Demo.demo_perm.

(* ================================================================== *)
(* Part 3 -- progress (partial): thread t running alone                *)
(* ================================================================== *)
(* Everything here is at [micro] granularity: [miter n s t] lets thread t alone make n micro
   transitions (stopping early if it cannot move); [reach t s s'] = exists n, miter n s t = s'.
   PROVED: (a) [try_advance_increments]/[adv18_succ]: try_advance increments G when everybody else
   is unpinned; [scan_any]/[adv18_any]: try_advance always returns; (b) [pop_and_run]: an expired
   head bag is popped by FCollect23 and all its items run; [collect_loop]: the collect loop stops
   early only on an empty queue / unexpired head; [round_step]; [drain_rounds]; and the sequential
   drain theorem [C15_drain] with the explicit bound k >= length (sealed s) + 3 rounds.
   RESTRICTIONS (not proved beyond them): pending items have empty bodies ([flat]); the other
   participants are unpinned and do not move; MAX_OBJECTS >= COLLECTS_TRIALS ([TR <= cap s], so that
   the node_free defers of one collect cannot overflow the freshly flushed bag); micro granularity
   only (no statement about [step]/FUEL); no fairness-based liveness for concurrent schedules.
   NOT TRUE in general (found by simulation, see report): with cap = 1 the unpin loop of a thread
   can run forever (each popped one-element node_free bag is re-sealed as a new bag). *)
Fixpoint miter (n : nat) (s : state) (t : nat) : state :=
  match n with
  | O => s
  | S n' => match micro s t with Some (s', _) => miter n' s' t | None => s end
  end.

(* the state seen from thread t: base state s0 with t's local state, the clock, the queue and the
   log replaced *)
Definition foc (s0 : state) (t : nat) (g : Z) (q : list (Z * list def)) (r : list Z) (l : local) : state :=
  {| G := g; cap := cap s0; registry := registry s0; sealed := q; threads := set_nth (threads s0) t l; ran := r |}.

Lemma set_nth_set_nth {A} (ls : list A) : forall t a b, set_nth (set_nth ls t a) t b = set_nth ls t b.
Proof. induction ls as [|x ls IH]; intros [|t] a b; cbn; auto. rewrite IH. reflexivity. Qed.
Lemma set_nth_id {A} (ls : list A) : forall t a, nth_error ls t = Some a -> set_nth ls t a = ls.
Proof. induction ls as [|x ls IH]; intros [|t] a H; cbn in *; try discriminate; auto; [inversion H; auto| rewrite IH; auto]. Qed.

Lemma foc_self s t l : getl s t = Some l -> s = foc s t (G s) (sealed s) (ran s) l.
Proof. intros H. unfold foc. rewrite set_nth_id by exact H. destruct s; reflexivity. Qed.
Lemma foc_getl s0 t g q r l : (t < length (threads s0))%nat -> getl (foc s0 t g q r l) t = Some l.
Proof.
  intros H. unfold getl, foc; cbn [threads]. destruct (nth_error (threads s0) t) eqn:E.
  - eapply nth_set_nth_same; eauto.
  - apply nth_error_None in E. lia.
Qed.
Lemma foc_getl_other s0 t g q r l p : p <> t -> getl (foc s0 t g q r l) p = getl s0 p.
Proof. intros H. unfold getl, foc; cbn [threads]. apply nth_set_nth_other. auto. Qed.
Lemma foc_setl s0 t g q r l l' : setl (foc s0 t g q r l) t l' = foc s0 t g q r l'.
Proof. unfold setl, foc; cbn. rewrite set_nth_set_nth. reflexivity. Qed.
Lemma foc_threads s0 t g q r l l' : set_nth (threads (foc s0 t g q r l)) t l' = set_nth (threads s0) t l'.
Proof. unfold foc; cbn. apply set_nth_set_nth. Qed.

Lemma with_frames_twice l a b : with_frames (with_frames l a) b = with_frames l b.
Proof. reflexivity. Qed.

(* one micro transition of the focused thread, when its top frame is known *)
Ltac mstep Ht :=
  cbn [miter]; unfold micro at 1; rewrite (foc_getl _ _ _ _ _ _ Ht); cbn [frames with_frames];
  rewrite ?foc_setl, ?foc_threads, ?with_frames_twice.

(* (a) try_advance succeeds when every other registered participant is unpinned (or announces the
   current epoch): the scan of the registry runs to its end and the global epoch is incremented *)
Definition passes (ge : Z) (lp : local) : Prop := pinned lp = false \/ ann lp = ge.

Lemma adv_scan s0 t g q r ge k : (t < length (threads s0))%nat -> forall rest l,
  (In t rest -> passes ge l) ->
  (forall p, In p rest -> p <> t -> exists lp, getl s0 p = Some lp /\ passes ge lp) ->
  miter (2 * length rest + 2) (foc s0 t g q r (with_frames l (FAdvScan ge rest :: k))) t =
  foc s0 t (ge + 1) q r (with_frames l k).
Proof.
  intros Ht. induction rest as [|p rest IH]; intros l Hme Hoth.
  - cbn [length Nat.mul Nat.add]. mstep Ht. mstep Ht. reflexivity.
  - replace (2 * length (p :: rest) + 2)%nat with (S (S (2 * length rest + 2))) by (cbn [length]; lia).
    mstep Ht. mstep Ht.
    assert (Hp : exists lp, getl (foc s0 t g q r (with_frames l (FAdv19 ge p rest :: k))) p = Some lp /\
                            pinned lp && negb (ann lp =? ge) = false).
    { destruct (Nat.eq_dec p t) as [->|Hne].
      - rewrite (foc_getl _ _ _ _ _ _ Ht). eexists; split; eauto. cbn [pinned ann with_frames].
        destruct (Hme (or_introl eq_refl)) as [->| ->]; auto. rewrite Z.eqb_refl. apply andb_false_r.
      - rewrite foc_getl_other by auto. destruct (Hoth p (or_introl eq_refl) Hne) as (lp & -> & Hps).
        eexists; split; eauto. destruct Hps as [->| ->]; auto. rewrite Z.eqb_refl. apply andb_false_r. }
    destruct Hp as (lp & -> & ->).
    apply IH; intros; [apply Hme | apply Hoth]; cbn; auto.
Qed.

Lemma with_frames_id l fs : frames l = fs -> l = with_frames l fs.
Proof. destruct l; cbn; intros ->; reflexivity. Qed.
Lemma getl_lt s t l : getl s t = Some l -> (t < length (threads s))%nat.
Proof. unfold getl. intros H. apply nth_error_Some. congruence. Qed.

Theorem try_advance_increments s t l k :
  getl s t = Some l -> frames l = FAdv18 :: k -> valid l = true -> passes (G s) l ->
  (forall p, In p (registry s) -> p <> t -> exists lp, getl s p = Some lp /\ passes (G s) lp) ->
  miter (2 * length (registry s) + 3) s t = foc s t (G s + 1) (sealed s) (ran s) (with_frames l k).
Proof.
  intros Hl Hf Hv Hme Hoth. pose proof (getl_lt _ _ _ Hl) as Ht.
  rewrite (foc_self s t l Hl) at 2. rewrite (with_frames_id l _ Hf) at 1.
  replace (2 * length (registry s) + 3)%nat with (S (2 * length (registry s) + 2)) by lia.
  mstep Ht. cbn [valid with_frames]. rewrite Hv. rewrite ?foc_setl, ?with_frames_twice.
  cbn [G registry foc]. apply adv_scan; auto.
Qed.
Print Assumptions try_advance_increments.

(* ---- reachability by thread t alone *)
Lemma miter_stuck n s t : micro s t = None -> miter n s t = s.
Proof. destruct n; cbn; auto. intros ->. reflexivity. Qed.
Lemma miter_plus n m s t : miter (n + m) s t = miter m (miter n s t) t.
Proof.
  revert s; induction n as [|n IH]; intros s; cbn [miter Nat.add]; auto.
  destruct (micro s t) as [[s' o]|] eqn:E; auto. rewrite miter_stuck; auto.
Qed.

Definition reach (t : nat) (s s' : state) : Prop := exists n, miter n s t = s'.
Lemma reach_refl t s : reach t s s.
Proof. exists O. reflexivity. Qed.
Lemma reach_trans t s1 s2 s3 : reach t s1 s2 -> reach t s2 s3 -> reach t s1 s3.
Proof. intros [n H1] [m H2]. exists (n + m)%nat. rewrite miter_plus, H1. exact H2. Qed.
Lemma reach_step t s s1 o s' : micro s t = Some (s1, o) -> reach t s1 s' -> reach t s s'.
Proof. intros E [n H]. exists (S n). cbn. rewrite E. exact H. Qed.

(* what a run of thread t alone preserves, by conservation *)
Lemma reach_conserves t s s' : WF s -> reach t s s' -> WF s' /\ Permutation (state_ids s') (state_ids s).
Proof.
  intros Hw [n H]. subst s'. revert s Hw. induction n as [|n IH]; intros s Hw; cbn [miter]; auto.
  destruct (micro s t) as [[s1 o]|] eqn:E; auto.
  destruct (IH s1 (micro_wf _ _ _ _ Hw E)) as [W P]. split; auto.
  etransitivity; [exact P|]. eapply micro_conserves; eauto.
Qed.

Lemma foc_G s0 t g q r l : G (foc s0 t g q r l) = g. Proof. reflexivity. Qed.
Lemma foc_cap s0 t g q r l : cap (foc s0 t g q r l) = cap s0. Proof. reflexivity. Qed.
Lemma foc_registry s0 t g q r l : registry (foc s0 t g q r l) = registry s0. Proof. reflexivity. Qed.
Lemma foc_sealed s0 t g q r l : sealed (foc s0 t g q r l) = q. Proof. reflexivity. Qed.
Lemma foc_ran s0 t g q r l : ran (foc s0 t g q r l) = r. Proof. reflexivity. Qed.
Lemma foc_mk s0 t g' q' r' l' :
  {| G := g'; cap := cap s0; registry := registry s0; sealed := q';
     threads := set_nth (threads s0) t l'; ran := r' |} = foc s0 t g' q' r' l'.
Proof. reflexivity. Qed.

(* open one micro transition of the focused thread: leaves [<computed> = Some (?s1, ?o)] (close it
   with [reflexivity] once the conditionals are resolved) and the continuation *)
Ltac lcbn := cbn [with_frames ann pinned valid incs serial gcnt bag must_collect collecting advance_count
         prev_epoch frames prog registered].
Ltac ropen Ht :=
  eapply reach_step;
  [ unfold micro; rewrite (foc_getl _ _ _ _ _ _ Ht); lcbn;
    rewrite ?foc_G, ?foc_cap, ?foc_registry, ?foc_sealed, ?foc_ran, ?foc_threads
  | ].
Ltac rnorm := rewrite ?foc_setl, ?foc_mk, ?with_frames_twice; lcbn.
Ltac rstep Ht := ropen Ht; [reflexivity | rnorm].

Section Drain.
  Variables (s0 : state) (t : nat).
  Hypothesis Ht : (t < length (threads s0))%nat.
  (* every other registered participant is unpinned (idle) *)
  Hypothesis Hidle : forall p, In p (registry s0) -> p <> t ->
    exists lp, getl s0 p = Some lp /\ pinned lp = false.

  (* the registry scan always terminates: it either completes (epoch ge+1 is published) or is
     abandoned at t's own entry *)
  Lemma scan_any g q r ge k : forall rest l,
    (forall p, In p rest -> In p (registry s0)) ->
    exists g', (g' = g \/ g' = ge + 1) /\
      reach t (foc s0 t g q r (with_frames l (FAdvScan ge rest :: k))) (foc s0 t g' q r (with_frames l k)).
  Proof.
    induction rest as [|p rest IH]; intros l Hin.
    - exists (ge + 1). split; auto. rstep Ht. rstep Ht. apply reach_refl.
    - destruct (IH l) as (g' & Hg & Hr); [intros; apply Hin; cbn; auto|].
      destruct (Nat.eq_dec p t) as [->|Hne].
      + destruct (pinned l && negb (ann l =? ge)) eqn:E.
        * exists g. split; auto. rstep Ht. ropen Ht.
          { rewrite (foc_getl _ _ _ _ _ _ Ht). cbn [pinned ann with_frames]. rewrite E. reflexivity. }
          rnorm. apply reach_refl.
        * exists g'. split; auto. rstep Ht. ropen Ht.
          { rewrite (foc_getl _ _ _ _ _ _ Ht). cbn [pinned ann with_frames]. rewrite E. reflexivity. }
          rnorm. exact Hr.
      + exists g'. split; auto.
        destruct (Hidle p (Hin p (or_introl eq_refl)) Hne) as (lp & Hlp & Hpin).
        rstep Ht. ropen Ht.
        { rewrite foc_getl_other by auto. rewrite Hlp, Hpin. reflexivity. }
        rnorm. exact Hr.
  Qed.

  Notation L := Build_local.

  (* try_advance from its entry point always returns (the caller is validated) *)
  Lemma adv18_any g q r a p i sr gc b mc co ac pe k pg rg :
    exists g', (g' = g \/ g' = g + 1) /\
      reach t (foc s0 t g q r (L a p true i sr gc b mc co ac pe (FAdv18 :: k) pg rg))
              (foc s0 t g' q r (L a p true i sr gc b mc co ac pe k pg rg)).
  Proof.
    destruct (scan_any g q r g k (registry s0) (L a p true i sr gc b mc co ac pe k pg rg))
      as (g' & Hg & Hr); auto.
    exists g'. split; auto. rstep Ht. exact Hr.
  Qed.

  (* defer into a bag with room: the item lands at the end of the bag; the only side effects are
     the advance counter and, every COUNTS_BETWEEN_ADVANCE defers, a try_advance *)
  Lemma defer_room g q r a p i sr gc b mc co ac pe k pg rg d :
    (length b < cap s0)%nat ->
    exists g' ac' d', (g' = g \/ g' = g + 1) /\ did d' = did d /\ dbody d' = dbody d /\
      reach t (foc s0 t g q r (L a p true i sr gc b mc co ac pe (FDefer d :: k) pg rg))
              (foc s0 t g' q r (L a p true i sr gc (b ++ [d']) mc co ac' pe k pg rg)).
  Proof.
    intros Hroom. apply Nat.ltb_lt in Hroom.
    set (ac1 := (ac + 1) mod 2 ^ 64).
    destruct (ac1 mod COUNTS_BETWEEN_ADVANCE =? 0) eqn:E.
    - destruct (adv18_any g q r a p i sr gc
                  (b ++ [{| did := did d; dbody := dbody d; dG := g;
                            wit := witnesses (foc s0 t g q r (L a p true i sr gc b mc co ac pe (FDefer d :: k) pg rg)) |}])
                  mc co ac1 pe k pg rg) as (g' & Hg & Hr).
      exists g', ac1. eexists. split; [exact Hg|]. split; [|split]; [| |
        ropen Ht; [rewrite Hroom; reflexivity|]; rnorm;
        ropen Ht; [fold ac1; rewrite E; reflexivity|]; rnorm; exact Hr]; reflexivity.
    - exists g, ac1. eexists. split; [auto|]. split; [|split]; [| |
        ropen Ht; [rewrite Hroom; reflexivity|]; rnorm;
        ropen Ht; [fold ac1; rewrite E; reflexivity|]; rnorm; apply reach_refl]; reflexivity.
  Qed.

  (* (b2) a popped bag runs completely: every item with a non-negative id is executed (logged in
     [ran]), in order.  Stated for items whose bodies are empty (items with a negative id are
     skipped whatever their body). *)
  Definition flat (d : def) : Prop := 0 <= did d -> dbody d = [].

  Lemma run_items_flat g q a p v i sr gc b mc co ac pe k pg rg : forall items r,
    Forall flat items ->
    reach t (foc s0 t g q r (L a p v i sr gc b mc co ac pe (FRunItems items :: k) pg rg))
            (foc s0 t g q (rev (defs_ids items) ++ r) (L a p v i sr gc b mc co ac pe k pg rg)).
  Proof.
    induction items as [|d rest IH]; intros r Hflat.
    - rstep Ht. apply reach_refl.
    - inversion Hflat as [|? ? Hd Hrest]; subst. rewrite defs_ids_cons. unfold def_ids at 1.
      destruct (did d <? 0) eqn:E.
      + ropen Ht; [rewrite E; reflexivity|]. rnorm. apply IH; auto.
      + ropen Ht; [rewrite E; reflexivity|]. rnorm. rewrite Hd by (apply Z.ltb_ge; exact E). rstep Ht.
        cbn [cmds_ids flat_map app rev]. rewrite <- app_assoc. cbn [app].
        apply IH; auto.
  Qed.


  (* (b) an expired bag at the head of the queue is popped by the FCollect23 access of a validated
     (collecting) participant, and all its items run before the next trial *)
  Lemma pop_and_run g q r a p i sr gc b mc co ac pe k pg rg n e items :
    (length b < cap s0)%nat -> expired g e = true -> Forall flat items ->
    exists g' ac' nf, (g' = g \/ g' = g + 1) /\ def_ids nf = [] /\
      reach t (foc s0 t g ((e, items) :: q) r (L a p true i sr gc b mc co ac pe (FCollect23 n :: k) pg rg))
              (foc s0 t g' q (rev (defs_ids items) ++ r)
                   (L a p true i sr gc (b ++ [nf]) mc co ac' pe (FCollectPop (S n) :: k) pg rg)).
  Proof.
    intros Hroom Hexp Hflat.
    destruct (defer_room g q r a p i sr gc b mc co ac pe
                (FPopped e items :: FCollectPop (S n) :: k) pg rg node_free Hroom)
      as (g' & ac' & nf & Hg & Hid & Hbody & Hr).
    exists g', ac', nf. split; [exact Hg|]. split.
    { unfold def_ids. rewrite Hid. reflexivity. }
    ropen Ht; [rewrite Hexp; reflexivity|]. rnorm.
    eapply reach_trans; [exact Hr|]. rstep Ht. apply run_items_flat; auto.
  Qed.

  Definition TR : nat := Z.to_nat COLLECTS_TRIALS.
  Definition flatq (q : list (Z * list def)) : Prop := Forall (fun bq => Forall flat (snd bq)) q.
  Definition head_fresh (g : Z) (q : list (Z * list def)) : Prop :=
    match q with [] => True | (e, _) :: _ => expired g e = false end.

  Lemma expired_mono g g' e : g <= g' -> expired g' e = false -> expired g e = false.
  Proof. unfold expired. rewrite !Z.geb_leb. intros H H1. apply Z.leb_gt in H1. apply Z.leb_gt. lia. Qed.

  (* the collection loop: up to TR conditional pops; it stops early only when the queue is empty or
     its head is not yet expired.  With room for TR more items the bag never overflows. *)
  Lemma collect_loop a p i sr gc mc co pe k pg rg : forall n j g q r b ac,
    (j + n = TR)%nat -> (length b + n <= cap s0)%nat -> flatq q ->
    exists g' r' b' ac' m, g <= g' /\ defs_ids b' = defs_ids b /\ (length b' <= length b + m)%nat /\
      (m <= n)%nat /\ (m = n \/ head_fresh g (skipn m q)) /\
      reach t (foc s0 t g q r (L a p true i sr gc b mc co ac pe (FCollectPop j :: k) pg rg))
              (foc s0 t g' (skipn m q) r' (L a p true i sr gc b' mc co ac' pe k pg rg)).
  Proof.
    induction n as [|n IH]; intros j g q r b ac Hj Hcap Hq.
    - exists g, r, b, ac, O. repeat split; auto; try lia.
      ropen Ht; [replace (j <? Z.to_nat COLLECTS_TRIALS)%nat with false; [reflexivity|]|].
      { symmetry. apply Nat.ltb_ge. fold TR. lia. }
      rnorm. apply reach_refl.
    - assert (Hlt : (j <? Z.to_nat COLLECTS_TRIALS)%nat = true) by (apply Nat.ltb_lt; fold TR; lia).
      destruct q as [|[e items] q1].
      + exists g, r, b, ac, O. repeat split; auto; try lia. { right. exact I. }
        ropen Ht; [rewrite Hlt; reflexivity|]. rnorm. rstep Ht. apply reach_refl.
      + destruct (expired g e) eqn:Hexp.
        * inversion Hq as [|? ? Hit Hq1]; subst. cbn [snd] in Hit.
          destruct (pop_and_run g q1 r a p i sr gc b mc co ac pe k pg rg j e items) as
            (g1 & ac1 & nf & Hg1 & Hnf & Hr1); auto; try lia.
          destruct (IH (S j) g1 q1 (rev (defs_ids items) ++ r) (b ++ [nf]) ac1) as
            (g' & r' & b' & ac' & m & Hg' & Hb' & Hlen & Hm & Hstop & Hr2); auto; try lia.
          { rewrite app_length; cbn [length]; lia. }
          exists g', r', b', ac', (S m). cbn [skipn].
          split; [lia|]. split; [rewrite Hb', defs_ids_app, defs_ids_cons, Hnf; cbn; rewrite app_nil_r; reflexivity|].
          split; [rewrite app_length in Hlen; cbn [length] in Hlen; lia|]. split; [lia|].
          split. { destruct Hstop as [->|Hs]; auto. right. destruct (skipn m q1) as [|[e' ?] ?]; cbn in *; auto.
                   eapply expired_mono; [|exact Hs]. lia. }
          ropen Ht; [rewrite Hlt; reflexivity|]. rnorm.
          eapply reach_trans; [exact Hr1|exact Hr2].
        * exists g, r, b, ac, O. repeat split; auto; try lia.
          ropen Ht; [rewrite Hlt; reflexivity|]. rnorm.
          ropen Ht; [rewrite Hexp; reflexivity|]. rnorm. apply reach_refl.
  Qed.




  Lemma idfree_flat b : defs_ids b = [] -> Forall flat b.
  Proof.
    induction b as [|d b IH]; intros H; constructor.
    - rewrite defs_ids_cons in H. apply app_eq_nil in H. destruct H as [H _].
      unfold def_ids in H. destruct (did d <? 0) eqn:E; [|discriminate].
      apply Z.ltb_lt in E. intros ?. lia.
    - apply IH. rewrite defs_ids_cons in H. apply app_eq_nil in H. tauto.
  Qed.

  (* try_advance by a participant pinned at the current epoch, everybody else idle: succeeds *)
  Lemma adv18_succ g q r i sr gc b mc co ac pe k pg rg :
    reach t (foc s0 t g q r (L g true true i sr gc b mc co ac pe (FAdv18 :: k) pg rg))
            (foc s0 t (g + 1) q r (L g true true i sr gc b mc co ac pe k pg rg)).
  Proof.
    rstep Ht. eexists.
    apply (adv_scan s0 t g q r g k Ht (registry s0) (L g true true i sr gc b mc co ac pe k pg rg)).
    - intros _. right. reflexivity.
    - intros p Hp Hne. destruct (Hidle p Hp Hne) as (lp & H1 & H2). exists lp. split; auto. left; auto.
  Qed.

  Definition pushq (q : list (Z * list def)) (g : Z) (b : list def) : list (Z * list def) :=
    match b with [] => q | _ :: _ => q ++ [(g, b)] end.

  (* pin (nobody else moves, so the re-validation succeeds at once) then flush *)
  Lemma round_pin_flush g q r a v i sr b mc ac pe pg rg :
    exists ac1,
    reach t (foc s0 t g q r (L a false v i sr 0 b mc false ac pe [FOp] (CPin :: CFlush :: pg) rg))
            (foc s0 t g (pushq q g b) r (L g true true true (S sr) 1 [] true false ac1 (2 * g + 1) [FOp] pg rg)).
  Proof.
    eexists.
    rstep Ht. cbn [cmd_frames app opcode fst snd]. rstep Ht. rstep Ht. rstep Ht.
    ropen Ht; [rewrite Z.eqb_refl; reflexivity|]. rnorm. cbn [negb]. rstep Ht.
    rstep Ht. cbn [cmd_frames app opcode fst snd].
    destruct b as [|d0 b0].
    - rstep Ht. rstep Ht. cbn [andb]. rstep Ht. cbn [pushq]. apply reach_refl.
    - rstep Ht. rstep Ht. rstep Ht. cbn [andb]. rstep Ht. cbn [pushq]. apply reach_refl.
  Qed.

  Hypothesis Hcap : (TR <= cap s0)%nat.   (* MAX_OBJECTS >= COLLECTS_TRIALS: a collect never overflows an empty bag *)

  (* unpin of the outermost guard after a flush: one collect (advance + up to TR pops), re-pin,
     and the final unpin store *)
  Lemma round_unpin g q r sr ac pe pg rg : flatq q ->
    exists g' r' b' ac' m, g + 1 <= g' /\ defs_ids b' = [] /\ (m <= TR)%nat /\
      (m = TR \/ head_fresh (g + 1) (skipn m q)) /\
      reach t (foc s0 t g q r (L g true true true sr 1 [] true false ac pe [FOp] (CUnpin :: pg) rg))
              (foc s0 t g' (skipn m q) r' (L g' false false false sr 0 b' false false ac' pe [FOp] pg rg)).
  Proof.
    intros Hq.
    destruct (collect_loop g true false sr 1%nat false true pe [FUnpinAfter; FOpEnd 1; FOp] pg rg
                TR O (g + 1) q r [] ac) as (g' & r' & b' & ac' & m & Hg & Hb & Hlen & Hm & Hstop & Hr);
      auto.
    exists g', r', b', ac', m. split; [lia|]. split; [exact Hb|]. split; [exact Hm|]. split; [exact Hstop|].
    rstep Ht. cbn [cmd_frames app opcode fst snd]. rstep Ht. cbn [Nat.eqb andb negb].
    rstep Ht. rstep Ht.
    eapply reach_trans; [apply adv18_succ|]. eapply reach_trans; [exact Hr|].
    rstep Ht.
    ropen Ht; [cbn [andb negb]; unfold edata; lcbn;
               replace (2 * g + 1 =? 2 * g' + 1) with false by (symmetry; apply Z.eqb_neq; lia);
               reflexivity|]. rnorm.
    rstep Ht. rstep Ht. rstep Ht. cbn [Nat.eqb Nat.pred]. rstep Ht. rstep Ht. apply reach_refl.
  Qed.


  (* one full round [CPin; CFlush; CUnpin] of thread t, alone *)
  Lemma round_step g q r a v i sr b mc ac pe pg rg : flatq q -> Forall flat b ->
    exists g' r' b' ac' pe' sr' m, g + 1 <= g' /\ defs_ids b' = [] /\ (m <= TR)%nat /\
      (m = TR \/ head_fresh (g + 1) (skipn m (pushq q g b))) /\
      reach t (foc s0 t g q r (L a false v i sr 0 b mc false ac pe [FOp] (CPin :: CFlush :: CUnpin :: pg) rg))
              (foc s0 t g' (skipn m (pushq q g b)) r'
                   (L g' false false false sr' 0 b' false false ac' pe' [FOp] pg rg)).
  Proof.
    intros Hq Hb.
    destruct (round_pin_flush g q r a v i sr b mc ac pe (CUnpin :: pg) rg) as (ac1 & H1).
    assert (Hq1 : flatq (pushq q g b)).
    { destruct b; cbn [pushq]; auto. apply Forall_app. split; auto. }
    destruct (round_unpin g (pushq q g b) r (S sr) ac1 (2 * g + 1) pg rg Hq1)
      as (g' & r' & b' & ac' & m & Hg & Hb' & Hm & Hstop & H2).
    exists g', r', b', ac', (2 * g + 1), (S sr), m. repeat split; auto.
    eapply reach_trans; eauto.
  Qed.

  Lemma sealed_ids_skipn m q : sealed_ids q = [] -> sealed_ids (skipn m q) = [].
  Proof.
    intros H. rewrite <- (firstn_skipn m q), sealed_ids_app in H. apply app_eq_nil in H. tauto.
  Qed.
  Lemma Forall_skipn {A} (P : A -> Prop) m l : Forall P l -> Forall P (skipn m l).
  Proof. intros H. rewrite <- (firstn_skipn m l) in H. apply Forall_app in H. tauto. Qed.
  Lemma TR_pos : (1 <= TR)%nat.
  Proof. vm_compute. lia. Qed.

  Fixpoint rounds (k : nat) : list cmd :=
    match k with O => [] | S k' => CPin :: CFlush :: CUnpin :: rounds k' end.

  (* the queue is [old ++ new]: [new] holds no id, every bag of [old] is expired from round d on;
     each later round pops at least one bag of [old] *)
  Lemma drain_rounds : forall k d g old new r a v i sr b mc ac pe rg,
    sealed_ids new = [] -> flatq (old ++ new) -> defs_ids b = [] ->
    Forall (fun bq => fst bq + 2 <= g + Z.of_nat d) old -> (length old + d <= k)%nat ->
    exists g' q' r' l',
      reach t (foc s0 t g (old ++ new) r (L a false v i sr 0 b mc false ac pe [FOp] (rounds k) rg))
              (foc s0 t g' q' r' l') /\
      sealed_ids q' = [] /\ defs_ids (bag l') = [] /\ prog l' = [] /\ frames l' = [FOp].
  Proof.
    induction k as [|k IH]; intros d g old new r a v i sr b mc ac pe rg Hnew Hflat Hb Hexp Hlen.
    - destruct old; [|cbn in Hlen; lia]. cbn [app rounds].
      do 4 eexists. split; [apply reach_refl|]. cbn. auto.
    - cbn [rounds].
      destruct (round_step g (old ++ new) r a v i sr b mc ac pe (rounds k) rg Hflat (idfree_flat b Hb))
        as (g' & r' & b' & ac' & pe' & sr' & m & Hg & Hb' & Hm & Hstop & Hr).
      set (new1 := match b with [] => new | _ :: _ => new ++ [(g, b)] end).
      assert (Hpq : pushq (old ++ new) g b = old ++ new1).
      { unfold new1. destruct b; cbn [pushq]; auto. rewrite app_assoc. reflexivity. }
      assert (Hnew1 : sealed_ids new1 = []).
      { unfold new1. destruct b; auto. rewrite sealed_ids_app, Hnew, sealed_ids_cons, Hb. reflexivity. }
      assert (Hflat1 : flatq (old ++ new1)).
      { rewrite <- Hpq. destruct b; cbn [pushq]; auto. apply Forall_app. split; auto.
        constructor; auto. apply idfree_flat. exact Hb. }
      rewrite Hpq in *. rewrite skipn_app in Hr, Hstop.
      assert (Hlen' : (length (skipn m old) + pred d <= k)%nat).
      { rewrite skipn_length. destruct d as [|d]; [|cbn [pred]; lia].
        destruct old as [|[e its] old1]; [cbn; lia|].
        assert (1 <= m)%nat; [|cbn [length] in *; lia].
        destruct Hstop as [->|Hs]; [apply TR_pos|]. destruct m; [|lia].
        cbn in Hs. inversion Hexp as [|? ? He _]; subst. cbn in He.
        unfold expired in Hs. rewrite Z.geb_leb in Hs. apply Z.leb_gt in Hs.
        pose proof expire_ge_2. unfold EXPIRE_AFTER in *. lia. }
      destruct (IH (pred d) g' (skipn m old) (skipn (m - length old) new1) r' g' false false sr' b'
                   false ac' pe' rg) as (g2 & q2 & r2 & l2 & Hr2 & Hfin); auto.
      + apply sealed_ids_skipn; auto.
      + rewrite <- skipn_app. apply Forall_skipn. exact Hflat1.
      + apply Forall_skipn. eapply Forall_impl; [|exact Hexp]. cbn. intros bq H. lia.
      + exists g2, q2, r2, l2. split; auto. eapply reach_trans; eauto.
  Qed.


  (* the sequential drain, focused form: k >= length q + 3 rounds empty the bag and the queue of
     every (non-negative) id *)
  Lemma drain_foc k g q r a v i sr b mc ac pe rg :
    flatq q -> Forall flat b -> Forall (fun bq => fst bq <= g) q -> (length q + 3 <= k)%nat ->
    exists g' q' r' l',
      reach t (foc s0 t g q r (L a false v i sr 0 b mc false ac pe [FOp] (rounds k) rg))
              (foc s0 t g' q' r' l') /\
      sealed_ids q' = [] /\ local_ids l' = [].
  Proof.
    intros Hq Hb He Hk. destruct k as [|k]; [lia|]. cbn [rounds].
    destruct (round_step g q r a v i sr b mc ac pe (rounds k) rg Hq Hb)
      as (g' & r' & b' & ac' & pe' & sr' & m & Hg & Hb' & Hm & Hstop & Hr).
    assert (Hpl : (length (pushq q g b) <= length q + 1)%nat).
    { destruct b; cbn [pushq]; [lia|]. rewrite app_length. cbn. lia. }
    assert (Hpe : Forall (fun bq => fst bq <= g) (pushq q g b)).
    { destruct b; cbn [pushq]; auto. apply Forall_app. split; auto. constructor; auto. cbn. lia. }
    assert (Hpf : flatq (pushq q g b)).
    { destruct b; cbn [pushq]; auto. apply Forall_app. split; auto. }
    destruct (drain_rounds k 1 g' (skipn m (pushq q g b)) [] r' g' false false sr' b' false ac' pe' rg)
      as (g2 & q2 & r2 & l2 & Hr2 & Hq2 & Hb2 & Hp2 & Hf2); auto.
    - rewrite app_nil_r. apply Forall_skipn. exact Hpf.
    - apply Forall_skipn. eapply Forall_impl; [|exact Hpe]. cbn. intros bq H. lia.
    - rewrite skipn_length. lia.
    - rewrite app_nil_r in Hr2. exists g2, q2, r2, l2. split; [eapply reach_trans; eauto|]. split; auto.
      unfold local_ids. rewrite Hp2, Hf2, Hb2. reflexivity.
  Qed.
End Drain.

Lemma threads_ids_set_nth_nil (ls : list local) : forall t l',
  (forall p lp, nth_error ls p = Some lp -> p <> t -> local_ids lp = []) -> local_ids l' = [] ->
  threads_ids (set_nth ls t l') = [].
Proof.
  unfold threads_ids. induction ls as [|a ls IH]; intros [|t] l' Hoth Hl'; cbn [set_nth flat_map]; auto.
  - rewrite Hl'. cbn [app].
    assert (H : forall p lp, nth_error ls p = Some lp -> local_ids lp = [])
      by (intros p lp Hp; apply (Hoth (S p) lp); auto).
    clear -H. induction ls as [|b ls IH]; cbn; auto.
    rewrite (H O b eq_refl). cbn. apply IH. intros p lp Hp. apply (H (S p) lp Hp).
  - rewrite (Hoth O a eq_refl) by discriminate. cbn [app].
    apply IH; auto. intros p lp Hp Hne. apply (Hoth (S p) lp); auto.
Qed.

(* C15, progress part (sequential drain).  Thread t is between operations, unpinned, and is about to
   run k rounds of [pin; flush; unpin]; every other registered participant is unpinned and stays
   put (t runs alone); the other threads hold no deferred function; all pending items have empty
   bodies; MAX_OBJECTS >= COLLECTS_TRIALS.  If k >= length (sealed s) + 3 then after some number of
   micro transitions of t nothing is held any more: every deferred function has been executed
   (exactly once: [ran] is a permutation of all the ids of s). *)
Theorem C15_drain s t l k :
  WF s -> getl s t = Some l ->
  (forall p, In p (registry s) -> p <> t -> exists lp, getl s p = Some lp /\ pinned lp = false) ->
  (forall p lp, getl s p = Some lp -> p <> t -> local_ids lp = []) ->
  (TR <= cap s)%nat ->
  frames l = [FOp] -> prog l = rounds k -> pinned l = false -> gcnt l = 0%nat -> collecting l = false ->
  Forall flat (bag l) -> flatq (sealed s) -> Forall (fun bq => fst bq <= G s) (sealed s) ->
  (length (sealed s) + 3 <= k)%nat ->
  exists n, held_ids (miter n s t) = [] /\ Permutation (ran (miter n s t)) (state_ids s).
Proof.
  intros Hw Hl Hidle Hoth Hcap Hf Hp Hpin Hgc Hco Hb Hq He Hk.
  pose proof (getl_lt _ _ _ Hl) as Ht.
  destruct l as [a p v i sr gc b mc co ac pe fs pg rg]; cbn in Hf, Hp, Hpin, Hgc, Hco, Hb; subst.
  destruct (drain_foc s t Ht Hidle Hcap k (G s) (sealed s) (ran s) a v i sr b mc ac pe rg Hq Hb He Hk)
    as (g' & q' & r' & l' & Hr & Hq' & Hl').
  rewrite <- (foc_self s t _ Hl) in Hr. destruct Hr as [n Hn]. exists n.
  assert (Hheld : held_ids (miter n s t) = []).
  { rewrite Hn. unfold held_ids, foc; cbn [threads sealed]. rewrite Hq', app_nil_r.
    apply threads_ids_set_nth_nil; auto. }
  split; auto.
  destruct (reach_conserves t s (miter n s t) Hw (ex_intro _ n eq_refl)) as [_ P].
  unfold state_ids at 1 in P. rewrite Hheld in P. exact P.
Qed.
Print Assumptions C15_drain.
Print Assumptions pop_and_run.
Print Assumptions collect_loop.
Print Assumptions round_step.
Print Assumptions drain_rounds.

(* the hypotheses of [C15_drain] are satisfiable: a reachable state of a one-thread program (plus
   the harness participant) with two pending deferred functions in the bag *)
Module DrainDemo.
  Definition s0 := init_state 16 0 [[CPin; CDefer 1 []; CDefer 2 []; CUnpin] ++ rounds 3].
  Definition s9 := Eval vm_compute in srun s0 (repeat 0%nat 9).
  Lemma s9_reachable : s9 = srun s0 (repeat 0%nat 9).
  Proof. vm_compute. reflexivity. Qed.

  Example drain_demo : exists n, held_ids (miter n s9 0) = [] /\ Permutation (ran (miter n s9 0)) [1; 2].
  Proof.
    assert (Hl : exists l, getl s9 0 = Some l /\ frames l = [FOp] /\ prog l = rounds 3 /\ pinned l = false /\
                  gcnt l = 0%nat /\ collecting l = false /\ Forall flat (bag l)).
    { vm_compute. eexists. split; [reflexivity|]. repeat split; auto. }
    destruct Hl as (l & Hl & Hf & Hp & Hpin & Hgc & Hco & Hb).
    change [1; 2] with (state_ids s9).
    apply (C15_drain s9 0%nat l 3); try assumption.
    - rewrite s9_reachable. apply srun_conserves, init_WF.
    - intros p Hp0 Hne. assert (p = 1%nat) by (vm_compute in Hp0; intuition congruence). subst p.
      vm_compute. eexists; split; reflexivity.
    - intros [|[|p]] lp H Hne; try congruence; vm_compute in H; [inversion H; reflexivity|].
      destruct p; discriminate.
    - vm_compute. lia.
    - vm_compute. constructor.
    - vm_compute. constructor.
    - vm_compute. lia.
  Qed.
End DrainDemo.
Print Assumptions DrainDemo.drain_demo.
