(* C12(b): the wrap-around epoch comparison of dispose_general_node only errs towards "too recent".
   Statements are about the GENERATED Gen/ModularW.v and Gen/DisposeW.v (utils.rs:118-149, :360-389). *)
From Coq Require Import ZArith Lia Bool List.
Import ListNotations.
Require Import Params StateW ModularW DisposeW Bits StateP.
Local Open Scope Z_scope.

Ltac Zify.zify_post_hook ::= Z.to_euclidean_division_equations.

(* RECLAIM_AGE is generated (DisposeW.v): the N of `curr_epoch as isize - N` *)
Definition M : Z := 2 ^ EPOCH_WIDTH.

(* A 4-bit residue [a] read while the current epoch is [c] denotes the unique epoch congruent to [a]
   in the window [c-13, c+2]. *)
Definition decode (c a : Z) : Z := c + 2 - ((c + 2 - a) mod 16).

Lemma decode_cong c a : (decode c a) mod 16 = a mod 16.
Proof. unfold decode. lia. Qed.
Lemma decode_window c a : c - 13 <= decode c a <= c + 2.
Proof. unfold decode. lia. Qed.
Lemma decode_exact c s : c - 13 <= s <= c + 2 -> decode c (s mod 16) = s.
Proof. unfold decode. lia. Qed.
Lemma decode_mono c c' a : c <= c' -> decode c a <= decode c' a.
Proof. unfold decode. lia. Qed.
(* a stamp older than the window only ever looks NEWER than it is *)
Lemma decode_conservative c s : s <= c + 2 -> s <= decode c (s mod 16).
Proof. unfold decode. lia. Qed.

Definition epoch_ok (c : Z) : Prop := 0 <= c < 2 ^ 62.

Lemma trans_decode c a : epoch_ok c -> 0 <= a < 16 -> a <= c + 2 ->
  m_trans EPOCH_WIDTH (modu_max_of c) a = decode c a - (c + 2).
Proof.
  intros Hc Ha Hle. unfold m_trans, modu_max_of, decode, epoch_ok in *.
  rewrite sext_small by (change (2 ^ (64 - 1)) with (2 ^ 63); lia).
  change (Z.shiftl 1 EPOCH_WIDTH) with 16. lia.
Qed.

Lemma inver_decode c d : epoch_ok c -> c - 13 <= d <= c + 2 ->
  (m_inver EPOCH_WIDTH (modu_max_of c) (d - (c + 2))) mod 16 = d mod 16.
Proof.
  intros Hc Hd. unfold m_inver, modu_max_of, epoch_ok in *.
  rewrite sext_small by (change (2 ^ (64 - 1)) with (2 ^ 63); lia).
  change (Z.shiftl 1 EPOCH_WIDTH) with 16. lia.
Qed.

(* the threshold really is the generated one *)
Lemma reclaim_now_threshold c a : epoch_ok c -> 0 <= a < 16 -> a <= c + 2 ->
  reclaim_now c a = (decode c a <=? c - RECLAIM_AGE).
Proof.
  intros Hc Ha Hle. unfold reclaim_now, m_le. rewrite trans_decode by assumption.
  unfold m_trans, modu_max_of, RECLAIM_AGE, epoch_ok in *.
  rewrite sext_small by (change (2 ^ (64 - 1)) with (2 ^ 63); lia).
  change (Z.shiftl 1 EPOCH_WIDTH) with 16.
  match goal with |- (_ <=? Z.rem ?x 16) = (_ <=? ?y) =>
    destruct (Z.leb_spec (decode c a - (c + 2)) (Z.rem x 16)); destruct (Z.leb_spec (decode c a) y); lia end.
Qed.

(* ---- C12(b) soundness: never "old enough" below the threshold, for every age >= -2 (incl. beyond one wrap) *)
Theorem reclaim_sound c s : epoch_ok c -> 0 <= s <= c + 2 ->
  reclaim_now c (s mod 16) = true -> RECLAIM_AGE <= c - s.
Proof.
  intros Hc Hs H. rewrite reclaim_now_threshold in H by (auto; lia).
  apply Z.leb_le in H. pose proof (decode_conservative c s ltac:(lia)). lia.
Qed.

(* ---- C12(b) completeness on the unambiguous window *)
Theorem reclaim_complete c s : epoch_ok c -> 0 <= s ->
  RECLAIM_AGE <= c - s <= 2 ^ EPOCH_WIDTH - 3 ->
  reclaim_now c (s mod 16) = true.
Proof.
  intros Hc Hs H. change (2 ^ EPOCH_WIDTH) with 16 in H.
  assert (0 <= RECLAIM_AGE) by (vm_compute; congruence).
  rewrite reclaim_now_threshold by (auto; lia).
  rewrite decode_exact by lia. apply Z.leb_le. lia.
Qed.

(* ---- merged: the stamp written into a child is the residue of the most recent of the three *)
Lemma fold_max3 c a1 a2 a3 : epoch_ok c ->
  0 <= a1 < 16 -> 0 <= a2 < 16 -> 0 <= a3 < 16 -> a1 <= c + 2 -> a2 <= c + 2 -> a3 <= c + 2 ->
  merged c a1 a2 a3 mod 16 = (Z.max (decode c a1) (Z.max (decode c a2) (decode c a3))) mod 16.
Proof.
  intros Hc H1 H2 H3 L1 L2 L3. unfold merged, m_max. cbn [fold_left].
  change (Z.shiftl 1 EPOCH_WIDTH) with 16.
  rewrite !(Z.rem_small _ 16) by lia.
  rewrite !trans_decode by assumption.
  pose proof (decode_window c a1). pose proof (decode_window c a2). pose proof (decode_window c a3).
  set (d := Z.max (decode c a1) (Z.max (decode c a2) (decode c a3))).
  replace (Z.max (Z.max (Z.max (- 2 ^ 63) (decode c a1 - (c + 2))) (decode c a2 - (c + 2))) (decode c a3 - (c + 2)))
    with (d - (c + 2)) by (subst d; unfold epoch_ok in Hc; lia).
  apply inver_decode; [assumption | subst d; lia].
Qed.

Theorem merged_decode c a1 a2 a3 : epoch_ok c ->
  0 <= a1 < 16 -> 0 <= a2 < 16 -> 0 <= a3 < 16 -> a1 <= c + 2 -> a2 <= c + 2 -> a3 <= c + 2 ->
  decode c (merged c a1 a2 a3 mod 16) = Z.max (decode c a1) (Z.max (decode c a2) (decode c a3)).
Proof.
  intros. rewrite fold_max3 by assumption.
  pose proof (decode_window c a1). pose proof (decode_window c a2). pose proof (decode_window c a3).
  apply decode_exact. lia.
Qed.

(* in terms of true stamps: exact inside the window, never older than the most recent outside it *)
Theorem merged_true_stamps c s1 s2 s3 : epoch_ok c ->
  0 <= s1 <= c + 2 -> 0 <= s2 <= c + 2 -> 0 <= s3 <= c + 2 ->
  let m := merged c (s1 mod 16) (s2 mod 16) (s3 mod 16) mod 16 in
  Z.max s1 (Z.max s2 s3) <= decode c m /\
  (c - 13 <= s1 -> c - 13 <= s2 -> c - 13 <= s3 -> m = Z.max s1 (Z.max s2 s3) mod 16).
Proof.
  intros Hc H1 H2 H3 m. subst m.
  assert (B : forall s, 0 <= s <= c + 2 -> 0 <= s mod 16 < 16 /\ s mod 16 <= c + 2) by (intros; lia).
  destruct (B s1 H1), (B s2 H2), (B s3 H3).
  split.
  - rewrite merged_decode by assumption.
    pose proof (decode_conservative c s1 ltac:(lia)). pose proof (decode_conservative c s2 ltac:(lia)).
    pose proof (decode_conservative c s3 ltac:(lia)). lia.
  - intros. rewrite fold_max3 by assumption. rewrite !decode_exact by lia. reflexivity.
Qed.

(* the value actually stored: with_epoch masks the (possibly negative, cast to usize) result to 4 bits *)
Lemma stored_stamp w x : word w -> f_epoch (with_epoch w (wrap 64 x)) = x mod 16.
Proof.
  intros Hw. destruct (with_epoch_indep w (wrap 64 x) Hw) as [_ H].
  { unfold wrap. lia. }
  rewrite H. unfold wrap. lia.
Qed.

(* non-vacuity / sanity: below the threshold refuse, inside the window accept, just beyond the window
   refuse again (looks recent), for a large epoch *)
Example window_example :
  map (fun age => reclaim_now 1000 ((1000 - age) mod 16)) [0;1;2;3;4;12;13;14;15;16;17;18;19;35]
  = map (fun age => RECLAIM_AGE + 2 <=? (age + 2) mod 16) [0;1;2;3;4;12;13;14;15;16;17;18;19;35].
Proof. vm_compute. reflexivity. Qed.

(* "old enough" means old enough for the collector: the cascade may reclaim a node at once only if its stamp
   is at least as old as the age at which the collector itself would run a deferred destruction *)
Theorem threshold_covers_grace : EXPIRE_AFTER <= RECLAIM_AGE.
Proof. unfold EXPIRE_AFTER, RECLAIM_AGE. lia. Qed.

(* ---- the stamp written into a child (finding D13): the maximum, but never two epochs ahead.
   [merged] alone can return the residue of c + 2 -- the alias of a stamp that is 14 epochs old (the window of
   decode is [c - 13, c + 2]); a cascade that read the epoch one step earlier (c - 1) decodes that residue as
   c - 14: ancient.  [child_stamp] (generated from the repaired source) clamps it to c + 1, which every
   concurrent observer (its epoch is at least c - 1) decodes correctly. *)
Lemma trans_next c : epoch_ok c -> m_trans EPOCH_WIDTH (modu_max_of c) (sext 64 c + 1) = -1.
Proof.
  intros Hc. unfold m_trans, modu_max_of, epoch_ok in *.
  rewrite sext_small by (change (2 ^ (64 - 1)) with (2 ^ 63); lia).
  replace (c + 1 - (c + 1 + 1)) with (-1) by lia. reflexivity.
Qed.

Lemma child_stamp_spec c a1 a2 a3 : epoch_ok c -> STAMP_CLAMPED = true ->
  0 <= a1 < 16 -> 0 <= a2 < 16 -> 0 <= a3 < 16 -> a1 <= c + 2 -> a2 <= c + 2 -> a3 <= c + 2 ->
  let m := merged c a1 a2 a3 in
  (decode c (m mod 16) <= c + 1 -> child_stamp c a1 a2 a3 mod 16 = m mod 16) /\
  (decode c (m mod 16) = c + 2 -> child_stamp c a1 a2 a3 mod 16 = (c + 1) mod 16).
Proof.
  intros Hc _ H1 H2 H3 L1 L2 L3 m.
  assert (Hm : 0 <= m mod 16 < 16) by (apply Z.mod_pos_bound; lia).
  (* merged is already a residue: m_inver ends with a remainder by 16 of a non-negative number *)
  assert (Hmr : m = m mod 16).
  { subst m. unfold merged, m_max, m_inver. change (Z.shiftl 1 EPOCH_WIDTH) with 16.
    set (f := fold_left _ _ _).
    assert (Hnn : forall a, 0 <= a < 16 -> a <= c + 2 -> 0 <= decode c a).
    { intros a Ha Hl. pose proof (decode_window c a). destruct (Z_le_gt_dec 13 c); [lia|].
      unfold decode. unfold epoch_ok in Hc. rewrite Z.mod_small; lia. }
    assert (- (c + 2) <= f <= 0).
    { subst f. cbn [fold_left]. change (Z.shiftl 1 EPOCH_WIDTH) with 16.
      rewrite !(Z.rem_small _ 16) by lia. rewrite !trans_decode by assumption.
      pose proof (decode_window c a1). pose proof (decode_window c a2). pose proof (decode_window c a3).
      pose proof (Hnn a1 H1 L1). pose proof (Hnn a2 H2 L2). pose proof (Hnn a3 H3 L3).
      unfold epoch_ok in Hc. lia. }
    unfold modu_max_of, epoch_ok in *. rewrite sext_small by (change (2 ^ (64 - 1)) with (2 ^ 63); lia).
    rewrite Z.rem_mod_nonneg by lia. rewrite Z.mod_mod by lia. reflexivity. }
  pose proof (decode_window c (m mod 16)) as Hw.
  assert (Hle : m mod 16 <= c + 2).
  { destruct (Z_le_gt_dec 14 c) as [Hbig|Hsmall]; [lia|].
    assert (Hdec : forall a, 0 <= a < 16 -> a <= c + 2 -> decode c a = a).
    { intros a Ha Hl. unfold decode. unfold epoch_ok in Hc. rewrite Z.mod_small; lia. }
    subst m. rewrite fold_max3 by assumption. rewrite !Hdec by assumption. rewrite Z.mod_small; lia. }
  assert (Ht : m_trans EPOCH_WIDTH (modu_max_of c) m = decode c (m mod 16) - (c + 2)).
  { rewrite Hmr at 1. apply trans_decode; assumption. }
  unfold child_stamp. fold m. unfold m_le. rewrite trans_next by assumption. rewrite Ht.
  split; intros Hd.
  - destruct (Z.leb_spec (decode c (m mod 16) - (c + 2)) (-1)); [reflexivity | lia].
  - destruct (Z.leb_spec (decode c (m mod 16) - (c + 2)) (-1)); [lia|].
    change (Z.shiftl 1 EPOCH_WIDTH) with 16. unfold epoch_ok in Hc.
    rewrite sext_small by (change (2 ^ (64 - 1)) with (2 ^ 63); lia).
    rewrite Z.rem_mod_nonneg by lia. rewrite Z.mod_mod by lia. reflexivity.
Qed.

(* what the repair is for: the written stamp never decodes two epochs ahead, and it is the maximum of the three
   stamps whenever that maximum is not an alias *)
Theorem child_stamp_not_ahead c a1 a2 a3 : epoch_ok c -> STAMP_CLAMPED = true -> 14 <= c ->
  0 <= a1 < 16 -> 0 <= a2 < 16 -> 0 <= a3 < 16 ->
  decode c (child_stamp c a1 a2 a3 mod 16) <= c + 1 /\
  decode c (child_stamp c a1 a2 a3 mod 16) =
    Z.min (c + 1) (Z.max (decode c a1) (Z.max (decode c a2) (decode c a3))).
Proof.
  intros Hc Hcl Hbig H1 H2 H3.
  assert (L1 : a1 <= c + 2) by lia. assert (L2 : a2 <= c + 2) by lia. assert (L3 : a3 <= c + 2) by lia.
  destruct (child_stamp_spec c a1 a2 a3 Hc Hcl H1 H2 H3 L1 L2 L3) as [S1 S2].
  pose proof (merged_decode c a1 a2 a3 Hc H1 H2 H3 L1 L2 L3) as Hd.
  pose proof (decode_window c (merged c a1 a2 a3 mod 16)) as Hw.
  destruct (Z_le_gt_dec (decode c (merged c a1 a2 a3 mod 16)) (c + 1)) as [Hle|Hgt].
  - rewrite (S1 Hle). rewrite Hd in *. split; lia.
  - assert (He : decode c (merged c a1 a2 a3 mod 16) = c + 2) by lia.
    rewrite (S2 He). rewrite decode_exact by lia. rewrite Hd in He. split; lia.
Qed.

(* old inputs: the clamp does not interfere *)
Lemma child_stamp_of_old c a1 a2 a3 : epoch_ok c -> STAMP_CLAMPED = true ->
  0 <= a1 < 16 -> 0 <= a2 < 16 -> 0 <= a3 < 16 -> a1 <= c + 2 -> a2 <= c + 2 -> a3 <= c + 2 ->
  decode c (merged c a1 a2 a3 mod 16) <= c + 1 ->
  child_stamp c a1 a2 a3 mod 16 = merged c a1 a2 a3 mod 16.
Proof. intros. apply child_stamp_spec; assumption. Qed.

Example stamp_clamped_now : STAMP_CLAMPED = true.
Proof. reflexivity. Qed.
