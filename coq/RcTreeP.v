(* Single-pass cascade theorem for binary TREES of arbitrary size in the model Rc.v (generalises RcCascadeP.v):
   the recursion of dispose_general_node destructs the whole tree below the root in one pass (left subtree
   completely, then right), skipping -- after removing one unit of their count -- the nodes that have
   another owner; the subtrees of those are untouched. *)
From Coq Require Import ZArith List Bool Lia.
Import ListNotations.
Require Import Params StateW ModularW DisposeW Bits StateP ModularP Rc RcCascadeP.
Local Open Scope Z_scope.

(* Leaf = null link; Node = a node owned only by the link that leads to it; Shared = a node that has at
   least one other owner (nothing is assumed about what hangs below it) *)
Inductive tree := Leaf | Node (id : nat) (l r : tree) | Shared (id : nat).

Fixpoint ids (T : tree) : list nat :=
  match T with Leaf => [] | Node a l r => a :: ids l ++ ids r | Shared h => [h] end.
Fixpoint nodes (T : tree) : list nat :=
  match T with Leaf => [] | Node a l r => a :: nodes l ++ nodes r | Shared _ => [] end.
Fixpoint shared (T : tree) : list nat :=
  match T with Leaf => [] | Node _ l r => shared l ++ shared r | Shared h => [h] end.
Fixpoint size (T : tree) : nat :=
  match T with Leaf => O | Node _ l r => S (size l + size r) | Shared _ => 1%nat end.
Fixpoint height (T : tree) : nat :=
  match T with Leaf => O | Node _ l r => S (Nat.max (height l) (height r)) | Shared _ => O end.

Lemma nodes_ids T o : In o (nodes T) -> In o (ids T).
Proof.
  induction T as [|a l IHl r IHr|h]; cbn; auto.
  intros [->|H]; [left; reflexivity|right]. apply in_app_or in H. apply in_or_app. tauto.
Qed.
Lemma shared_ids T o : In o (shared T) -> In o (ids T).
Proof.
  induction T as [|a l IHl r IHr|h]; cbn; auto.
  intros H. right. apply in_app_or in H. apply in_or_app. tauto.
Qed.

(* [tree_in s lk T]: the link lk leads to (the root of) T in state s *)
Fixpoint tree_in (s : state) (lk : link) (T : tree) : Prop :=
  match T with
  | Leaf => lk = null_link
  | Node b l r => fst lk = b /\ b <> O /\ old (G s) (snd lk) /\
      exists ob ll lr, geto s b = Some ob /\ nodeok (G s) ob 1 /\ links ob = [ll; lr] /\
                       tree_in s ll l /\ tree_in s lr r
  | Shared h => fst lk = h /\ h <> O /\
      exists oh, geto s h = Some oh /\ wordp (oword oh) /\ 2 <= strong (oword oh)
  end.

Lemma tree_in_upd s s' T : G s' = G s -> forall lk, (forall o, In o (ids T) -> geto s' o = geto s o) ->
  tree_in s lk T -> tree_in s' lk T.
Proof.
  intros HG. induction T as [|b l IHl r IHr|h]; intros lk Hgo H; [exact H| |].
  - destruct H as (H1 & H2 & H3 & ob & ll & lr & H4 & H5 & H6 & H7 & H8).
    cbn [tree_in]. rewrite HG. split; [exact H1|]. split; [exact H2|]. split; [exact H3|].
    exists ob, ll, lr. split; [rewrite Hgo; [exact H4|left; reflexivity]|].
    split; [exact H5|]. split; [exact H6|]. split.
    + apply IHl; [|exact H7]. intros o Hi. apply Hgo. right. apply in_or_app. left. exact Hi.
    + apply IHr; [|exact H8]. intros o Hi. apply Hgo. right. apply in_or_app. right. exact Hi.
  - destruct H as (H1 & H2 & oh & H3 & H4). cbn [tree_in]. split; [exact H1|]. split; [exact H2|].
    exists oh. split; [|exact H4]. rewrite Hgo; [exact H3|left; reflexivity].
Qed.

(* ---- postcondition of a pass over T from state s to state s' *)
(* a shared node loses one unit of its count (and gets a new stamp); nothing else of it changes *)
Definition surv (s s' : state) (h : nat) : Prop :=
  exists oh w', geto s h = Some oh /\ geto s' h = Some (with_word oh w') /\
    wordp w' /\ strong w' = strong (oword oh) - 1 /\ destructed w' = destructed (oword oh) /\ weaked w' = weaked (oword oh).

Definition post (s s' : state) (T : tree) : Prop :=
  (forall o, In o (nodes T) -> exists ob, geto s' o = Some ob /\ gone ob) /\
  (forall h, In h (shared T) -> surv s s' h).

Lemma post_transport s0 s s' s1 T :
  (forall o, In o (ids T) -> geto s o = geto s0 o) -> (forall o, In o (ids T) -> geto s1 o = geto s' o) ->
  post s s' T -> post s0 s1 T.
Proof.
  intros H0 H1 [P1 P2]. split.
  - intros o Hi. destruct (P1 o Hi) as (ob & Hob & Hg). exists ob. split; [|exact Hg].
    rewrite H1; [exact Hob|apply nodes_ids; exact Hi].
  - intros h Hi. destruct (P2 h Hi) as (oh & w' & A1 & A2 & A3). exists oh, w'.
    pose proof (shared_ids T h Hi) as Hin. rewrite <- H0, H1 by exact Hin. auto.
Qed.

Lemma gone_destructed_obj2 oa ll lr : wordp (oword oa) -> links oa = [ll; lr] -> gone (destructed_obj oa).
Proof.
  intros Hw Hl. destruct (destr_fields (oword oa) Hw) as (_ & Hd & _).
  unfold gone, destructed_obj. cbn [Rc.word dropped freed links]. rewrite Hl. repeat split; auto.
Qed.

(* what a pass over the link lk (first of the remaining outgoing links of a node at depth d) achieves *)
Definition link_spec (t : nat) (T : tree) : Prop :=
  forall s x lk d ne r K,
    gett s t = Some x -> frames x = FKids d ne (G s) (lk :: r) :: K ->
    0 <= d -> d + Z.of_nat (height T) < DEPTH_CAP -> epoch_ok (G s) -> old (G s) ne ->
    tree_in s lk T -> NoDup (ids T) ->
    exists n s', (n <= 11 * size T + 1)%nat /\ iter_micro n s t = s' /\
      upd s s' t x (FKids d ne (G s) r :: K) (ids T) /\ post s s' T.

Lemma link_spec_leaf t : link_spec t Leaf.
Proof.
  intros s x lk d ne r K Hg Hf Hd0 Hd Hep Hne Hin Hnd. cbn [tree_in] in Hin. subst lk.
  exists 1%nat. eexists. split; [cbn; lia|]. split.
  - eapply run_step. { eapply micro_kids_null; [gett_tac|exact Hf]. } reflexivity.
  - split; [apply upd_sett|]. split; intros o [].
Qed.

Lemma link_spec_shared t h : link_spec t (Shared h).
Proof.
  intros s x lk d ne r K Hg Hf Hd0 Hd Hep Hne Hin Hnd.
  destruct Hin as (H1 & H2 & oh & Hoh & Hw & Hs). destruct lk as [h' ts]. cbn [fst] in H1. subst h'.
  destruct (child_dec s t x h ts d ne (G s) r K oh Hg Hf H2 Hoh Hw ltac:(lia)) as (s1 & Hrun & Hu & Hh1).
  replace (strong (oword oh) =? 1) with false in Hu by lia.
  destruct (dec_fields (oword oh) (child_stamp (G s) ne ts (epoch (oword oh))) Hw ltac:(lia)) as (A1 & A2 & A3 & A4 & A5).
  fold (dec_word (G s) ne ts (oword oh)) in A1, A2, A3, A4, A5.
  exists 3%nat, s1. split; [cbn; lia|]. split; [exact Hrun|]. split; [exact Hu|].
  split; [intros o []|]. intros h' [<-|[]]. exists oh, (dec_word (G s) ne ts (oword oh)). auto 10.
Qed.

Lemma NoDup_app_r {A} (l1 l2 : list A) : NoDup (l1 ++ l2) -> NoDup l2.
Proof. induction l1 as [|a l IH]; cbn; intros H; [exact H|]. inversion H; subst. auto. Qed.

(* ---- the pass over a node whose two subtrees satisfy link_spec *)
Lemma enter_pass t TL TR : link_spec t TL -> link_spec t TR ->
  forall s x a d K oa ll lr,
  gett s t = Some x -> frames x = FDispEnter a d :: K ->
  0 <= d -> d + Z.of_nat (Nat.max (height TL) (height TR)) < DEPTH_CAP -> epoch_ok (G s) ->
  geto s a = Some oa -> head_ok (G s) d (oword oa) -> links oa = [ll; lr] ->
  tree_in s ll TL -> tree_in s lr TR -> NoDup (a :: ids TL ++ ids TR) ->
  exists n s', (n <= 11 * (size TL + size TR) + 9)%nat /\ iter_micro n s t = s' /\
    upd s s' t x K (a :: ids TL ++ ids TR) /\
    (exists ob, geto s' a = Some ob /\ gone ob) /\ post s s' TL /\ post s s' TR.
Proof.
  intros SL SR s x a d K oa ll lr Hg Hf Hd0 Hd Hep Ho Hh Hl HTL HTR Hnd.
  assert (HaLR : ~ In a (ids TL ++ ids TR)) by (inversion Hnd; assumption).
  assert (HndLR : NoDup (ids TL ++ ids TR)) by (inversion Hnd; assumption).
  destruct (NoDup_app_l _ _ HndLR) as [HndL Hdisj]. pose proof (NoDup_app_r _ _ HndLR) as HndR.
  assert (HaL : ~ In a (ids TL)) by (intros Hi; apply HaLR; apply in_or_app; left; exact Hi).
  assert (HaR : ~ In a (ids TR)) by (intros Hi; apply HaLR; apply in_or_app; right; exact Hi).
  (* the node itself *)
  destruct (node_destruct s t x a d K oa Hg Hf ltac:(lia) Ho Hh) as (n1 & s1 & Hn1 & Hrun1 & Hu1 & Ha1).
  rewrite Hl in Hu1. set (ne := epoch (oword oa)) in *.
  assert (Hne : old (G s) ne) by apply Hh.
  pose proof (upd_gett _ _ _ _ _ _ Hu1 Hg) as Hg1.
  pose proof (u_G _ _ _ _ _ _ Hu1) as HG1.
  assert (HTL1 : tree_in s1 ll TL).
  { apply (tree_in_upd s); [exact HG1| |exact HTL]. intros o Hi. apply (u_objs _ _ _ _ _ _ Hu1).
    intros [<-|[]]. contradiction. }
  (* left subtree *)
  destruct (SL s1 _ ll d ne [lr] K Hg1 ltac:(rewrite HG1; reflexivity) Hd0 ltac:(lia) ltac:(rewrite HG1; exact Hep)
              ltac:(rewrite HG1; exact Hne) HTL1 HndL) as (n2 & s2 & Hn2 & Hrun2 & Hu2 & HpL).
  rewrite HG1 in Hu2.
  assert (Hu12 : upd s s2 t x (FKids d ne (G s) [lr] :: K) (a :: ids TL)).
  { eapply upd_trans; [exact Hu1|exact Hu2| |]; intros o Hi; [destruct Hi as [<-|[]]; left; reflexivity|right; exact Hi]. }
  pose proof (upd_gett _ _ _ _ _ _ Hu12 Hg) as Hg2.
  pose proof (u_G _ _ _ _ _ _ Hu12) as HG2.
  assert (HTR2 : tree_in s2 lr TR).
  { apply (tree_in_upd s); [exact HG2| |exact HTR]. intros o Hi. apply (u_objs _ _ _ _ _ _ Hu12).
    intros [<-|Hi']; [contradiction|]. exact (Hdisj o Hi Hi'). }
  (* right subtree *)
  destruct (SR s2 _ lr d ne [] K Hg2 ltac:(rewrite HG2; reflexivity) Hd0 ltac:(lia) ltac:(rewrite HG2; exact Hep)
              ltac:(rewrite HG2; exact Hne) HTR2 HndR) as (n3 & s3 & Hn3 & Hrun3 & Hu3 & HpR).
  rewrite HG2 in Hu3.
  assert (Hu13 : upd s s3 t x (FKids d ne (G s) [] :: K) (a :: ids TL ++ ids TR)).
  { eapply upd_trans; [exact Hu12|exact Hu3| |]; intros o Hi.
    - destruct Hi as [<-|Hi]; [left; reflexivity|right; apply in_or_app; left; exact Hi].
    - right. apply in_or_app. right. exact Hi. }
  pose proof (upd_gett _ _ _ _ _ _ Hu13 Hg) as Hg3.
  set (s4 := sett s3 t (with_frames x K)).
  assert (Hrun4 : iter_micro 1 s3 t = s4).
  { eapply run_step; [|reflexivity]. erewrite micro_kids_nil; [|exact Hg3|reflexivity]. rewrite with_frames_idem. reflexivity. }
  assert (Hu : upd s s4 t x K (a :: ids TL ++ ids TR)).
  { eapply upd_trans with (L2 := []); [exact Hu13| |apply incl_refl|intros o []].
    unfold s4. rewrite <- (with_frames_idem x (FKids d ne (G s) [] :: K) K). apply upd_sett. }
  exists (n1 + n2 + n3 + 1)%nat, s4. split; [lia|]. split.
  { rewrite !iter_add, Hrun1, Hrun2, Hrun3. exact Hrun4. }
  split; [exact Hu|]. split; [|split].
  - exists (destructed_obj oa). split; [|eapply gone_destructed_obj2; [apply Hh|exact Hl]].
    unfold s4. rewrite geto_sett, (u_objs _ _ _ _ _ _ Hu3) by exact HaR.
    rewrite (u_objs _ _ _ _ _ _ Hu2) by exact HaL. exact Ha1.
  - apply (post_transport s s1 s2 s4); [| |exact HpL].
    + intros o Hi. apply (u_objs _ _ _ _ _ _ Hu1). intros [<-|[]]. contradiction.
    + intros o Hi. unfold s4. rewrite geto_sett. apply (u_objs _ _ _ _ _ _ Hu3). intros Hi'. exact (Hdisj o Hi' Hi).
  - apply (post_transport s s2 s3 s4); [| |exact HpR].
    + intros o Hi. apply (u_objs _ _ _ _ _ _ Hu12). intros [<-|Hi']; [contradiction|]. exact (Hdisj o Hi Hi').
    + intros o Hi. reflexivity.
Qed.

Lemma link_spec_node t b TL TR : link_spec t TL -> link_spec t TR -> link_spec t (Node b TL TR).
Proof.
  intros SL SR s x lk d ne r K Hg Hf Hd0 Hd Hep Hne Hin Hnd.
  destruct Hin as (H1 & Hb0 & Hts & ob & ll & lr & Hob & Hnode & Hlb & HTL & HTR).
  destruct lk as [b' ts]. cbn [fst snd] in H1, Hts. subst b'.
  cbn [height] in Hd. rewrite Nat2Z.inj_succ in Hd. cbn [ids] in Hnd.
  assert (HbLR : ~ In b (ids TL ++ ids TR)) by (inversion Hnd; assumption).
  pose proof Hnode as (Hwb & Hsb & Hwkb & Holdb).
  (* the decrement of b *)
  destruct (child_dec s t x b ts d ne (G s) r K ob Hg Hf Hb0 Hob Hwb ltac:(lia)) as (s1 & Hrun1 & Hu1 & Hb1).
  rewrite Hsb in Hu1. cbn [Z.eqb Pos.eqb] in Hu1.
  pose proof (upd_gett _ _ _ _ _ _ Hu1 Hg) as Hg1.
  pose proof (u_G _ _ _ _ _ _ Hu1) as HG1.
  assert (Hsame : forall o, In o (ids TL ++ ids TR) -> geto s1 o = geto s o).
  { intros o Hi. apply (u_objs _ _ _ _ _ _ Hu1). intros [<-|[]]. contradiction. }
  assert (HTL1 : tree_in s1 ll TL).
  { apply (tree_in_upd s); [exact HG1| |exact HTL]. intros o Hi. apply Hsame. apply in_or_app. left. exact Hi. }
  assert (HTR1 : tree_in s1 lr TR).
  { apply (tree_in_upd s); [exact HG1| |exact HTR]. intros o Hi. apply Hsame. apply in_or_app. right. exact Hi. }
  assert (Hh1 : head_ok (G s1) (d + 1) (oword (with_word ob (dec_word (G s) ne ts (oword ob))))).
  { rewrite HG1. cbn [with_word Rc.word]. apply head_ok_dec; assumption. }
  destruct (enter_pass t TL TR SL SR s1 _ b (d + 1) (FKids d ne (G s) r :: K) _ ll lr Hg1 eq_refl ltac:(lia) ltac:(lia)
              ltac:(rewrite HG1; exact Hep) Hb1 Hh1 Hlb HTL1 HTR1 Hnd)
    as (n2 & s2 & Hn2 & Hrun2 & Hu2 & Hgb & HpL & HpR).
  exists (3 + n2)%nat, s2. split; [cbn [size]; lia|]. split.
  { rewrite iter_add, Hrun1. exact Hrun2. }
  split.
  { cbn [ids]. eapply upd_trans; [exact Hu1|exact Hu2| |apply incl_refl]. intros o [<-|[]]. left. reflexivity. }
  assert (HpL' : post s s2 TL).
  { apply (post_transport s s1 s2 s2); [|reflexivity|exact HpL]. intros o Hi. apply Hsame. apply in_or_app. left. exact Hi. }
  assert (HpR' : post s s2 TR).
  { apply (post_transport s s1 s2 s2); [|reflexivity|exact HpR]. intros o Hi. apply Hsame. apply in_or_app. right. exact Hi. }
  destruct HpL' as [L1 L2], HpR' as [R1 R2]. split; cbn [nodes shared].
  - intros o [<-|Hi]; [exact Hgb|]. apply in_app_or in Hi. destruct Hi; auto.
  - intros h Hi. apply in_app_or in Hi. destruct Hi; auto.
Qed.

Theorem link_spec_all t T : link_spec t T.
Proof.
  induction T as [|b l IHl r IHr|h];
    [apply link_spec_leaf | apply link_spec_node; assumption | apply link_spec_shared].
Qed.

(* ---- the general tree theorem: (A-tree) and (B-tree) at once, any entry depth, any number of shared nodes *)
Theorem tree_cascade_gen t s x a d K oa ll lr TL TR :
  let T := Node a TL TR in
  gett s t = Some x -> frames x = FDispEnter a d :: K ->
  0 <= d -> d + Z.of_nat (height T) <= DEPTH_CAP -> epoch_ok (G s) ->
  geto s a = Some oa -> head_ok (G s) d (oword oa) -> links oa = [ll; lr] ->
  tree_in s ll TL -> tree_in s lr TR -> NoDup (ids T) ->
  exists n s', (n <= 11 * size T)%nat /\ iter_micro n s t = s' /\
    (forall o, In o (nodes T) -> exists ob, geto s' o = Some ob /\ gone ob) /\
    (forall h, In h (shared T) -> surv s s' h) /\
    pending s' = pending s /\ footprint s s' t x K (ids T).
Proof.
  intros T Hg Hf Hd0 Hd Hep Ho Hh Hl HTL HTR Hnd. subst T.
  cbn [height] in Hd. rewrite Nat2Z.inj_succ in Hd. cbn [ids] in Hnd.
  destruct (enter_pass t TL TR (link_spec_all t TL) (link_spec_all t TR) s x a d K oa ll lr
              Hg Hf Hd0 ltac:(lia) Hep Ho Hh Hl HTL HTR Hnd)
    as (n & s' & Hn & Hrun & Hu & Hga & [L1 L2] & [R1 R2]).
  exists n, s'. split; [cbn [size]; lia|]. split; [exact Hrun|]. cbn [nodes shared ids].
  split. { intros o [<-|Hi]; [exact Hga|]. apply in_app_or in Hi. destruct Hi; auto. }
  split. { intros h Hi. apply in_app_or in Hi. destruct Hi; auto. }
  split; [apply (u_pending _ _ _ _ _ _ Hu)|apply upd_footprint; assumption].
Qed.
Print Assumptions tree_cascade_gen.

Lemma pure_nodes T : shared T = [] -> nodes T = ids T.
Proof.
  induction T as [|b l IHl r IHr|h]; cbn; intros H; [reflexivity| |discriminate].
  apply app_eq_nil in H. destruct H as [Hl Hr]. rewrite IHl, IHr by assumption. reflexivity.
Qed.

(* (A-tree): no shared node, depth 0, the root's DESTRUCTED flag has just been published by try_destruct *)
Theorem tree_cascade_full t s x a K oa ll lr TL TR :
  let T := Node a TL TR in
  gett s t = Some x -> frames x = FDispEnter a 0 :: K ->
  Z.of_nat (height T) <= DEPTH_CAP -> epoch_ok (G s) ->
  geto s a = Some oa -> wordp (oword oa) -> destructed (oword oa) = true -> weaked (oword oa) = false ->
  old (G s) (epoch (oword oa)) -> links oa = [ll; lr] ->
  tree_in s ll TL -> tree_in s lr TR -> shared T = [] -> NoDup (ids T) ->
  exists n s', (n <= 11 * size T)%nat /\ iter_micro n s t = s' /\
    (forall o, In o (ids T) -> exists ob, geto s' o = Some ob /\ gone ob) /\
    pending s' = pending s /\ footprint s s' t x K (ids T).
Proof.
  intros T Hg Hf Hd Hep Ho Hw Hdes Hwk Hold Hl HTL HTR Hpure Hnd.
  assert (Hh : head_ok (G s) 0 (oword oa)).
  { split; [exact Hw|]. split; [exact Hwk|]. split; [exact Hold|]. left. split; [reflexivity|exact Hdes]. }
  destruct (tree_cascade_gen t s x a 0 K oa ll lr TL TR Hg Hf ltac:(lia) ltac:(fold T; lia) Hep Ho Hh Hl HTL HTR Hnd)
    as (n & s' & Hn & Hrun & Hgone & _ & Hp & Hfp).
  fold T in Hn, Hgone, Hfp. rewrite (pure_nodes T Hpure) in Hgone.
  exists n, s'. auto.
Qed.
Print Assumptions tree_cascade_full.

(* (B-tree): exactly one shared node h, with exactly one other owner; its subtree is not part of T and
   is untouched because it is outside the footprint ids T *)
Theorem tree_cascade_survivor t s x a K oa ll lr TL TR h oh :
  let T := Node a TL TR in
  gett s t = Some x -> frames x = FDispEnter a 0 :: K ->
  Z.of_nat (height T) <= DEPTH_CAP -> epoch_ok (G s) ->
  geto s a = Some oa -> wordp (oword oa) -> destructed (oword oa) = true -> weaked (oword oa) = false ->
  old (G s) (epoch (oword oa)) -> links oa = [ll; lr] ->
  tree_in s ll TL -> tree_in s lr TR -> NoDup (ids T) ->
  shared T = [h] -> geto s h = Some oh -> strong (oword oh) = 2 -> destructed (oword oh) = false ->
  exists n s' oh', (n <= 11 * size T)%nat /\ iter_micro n s t = s' /\
    (forall o, In o (nodes T) -> exists ob, geto s' o = Some ob /\ gone ob) /\
    geto s' h = Some oh' /\ strong (oword oh') = 1 /\ destructed (oword oh') = false /\ weaked (oword oh') = weaked (oword oh) /\
    dropped oh' = dropped oh /\ freed oh' = freed oh /\ links oh' = links oh /\
    pending s' = pending s /\ footprint s s' t x K (ids T).
Proof.
  intros T Hg Hf Hd Hep Ho Hw Hdes Hwk Hold Hl HTL HTR Hnd Hsh Hoh Hs2 Hdh.
  assert (Hh : head_ok (G s) 0 (oword oa)).
  { split; [exact Hw|]. split; [exact Hwk|]. split; [exact Hold|]. left. split; [reflexivity|exact Hdes]. }
  destruct (tree_cascade_gen t s x a 0 K oa ll lr TL TR Hg Hf ltac:(lia) ltac:(fold T; lia) Hep Ho Hh Hl HTL HTR Hnd)
    as (n & s' & Hn & Hrun & Hgone & Hsurv & Hp & Hfp).
  fold T in Hn, Hgone, Hsurv, Hfp. rewrite Hsh in Hsurv.
  destruct (Hsurv h ltac:(left; reflexivity)) as (oh0 & w' & B0 & B1 & B2 & B3 & B4 & B5).
  rewrite Hoh in B0. inversion B0; subst oh0.
  exists n, s', (with_word oh w'). cbn [with_word Rc.word dropped freed links].
  split; [exact Hn|]. split; [exact Hrun|]. split; [exact Hgone|]. split; [exact B1|].
  split; [lia|]. split; [congruence|]. split; [exact B5|]. do 3 (split; [reflexivity|]). auto.
Qed.
Print Assumptions tree_cascade_survivor.

(* ---- non-vacuity: a concrete tree of five nodes   1 -> (2, 3),  2 -> (4, 5)
   built at epoch residues stL (link 1 -> 2) / stR (all other links) / sth (stamp of the root), destructed at
   epoch g; node k (if k > 0) has one extra owner *)
Require Import RcChain.

Definition tree_obj (k i : nat) (l r : link) : obj :=
  {| oword := alloc_word (if Nat.eqb i k then 2 else 1); dropped := false; freed := false; tok := false; wtok := false;
     links := [l; r] |}.

Definition tree5_state (k : nat) (g stL stR sth : Z) : state :=
  let root := tree_obj k 1 (2%nat, stL mod 16) (3%nat, stR mod 16) in
  {| G := g;
     objs := [ with_word root (with_destructed (sub_strong (with_epoch (oword root) sth) 1) true);
               tree_obj k 2 (4%nat, stR mod 16) (5%nat, stR mod 16);
               tree_obj k 3 null_link null_link; tree_obj k 4 null_link null_link; tree_obj k 5 null_link null_link ];
     cells := []; threads := [chain_thread [FDispEnter 1 0]]; pending := []; err := 0 |}.

Definition leafn (i : nat) : tree := Node i Leaf Leaf.
Definition T5L : tree := Node 2 (leafn 4) (leafn 5).
Definition T5R : tree := leafn 3.

Ltac decide_tac := vm_compute; repeat split; try reflexivity; try discriminate.
Ltac leaf_tac := cbn [tree_in leafn]; split; [reflexivity|]; split; [discriminate|]; split; [decide_tac|];
  do 3 eexists; split; [reflexivity|]; split; [decide_tac|]; split; [reflexivity|]; split; reflexivity.

Example tree5_hyps :
  let s := tree5_state 0 100 95 93 94 in
  let x := chain_thread [FDispEnter 1 0] in
  exists oa ll lr,
    gett s 0 = Some x /\ frames x = FDispEnter 1%nat 0 :: [] /\
    Z.of_nat (height (Node 1 T5L T5R)) <= DEPTH_CAP /\ epoch_ok (G s) /\
    geto s 1 = Some oa /\ wordp (oword oa) /\ destructed (oword oa) = true /\ weaked (oword oa) = false /\
    old (G s) (epoch (oword oa)) /\ links oa = [ll; lr] /\
    tree_in s ll T5L /\ tree_in s lr T5R /\ shared (Node 1 T5L T5R) = [] /\ NoDup (ids (Node 1 T5L T5R)).
Proof.
  intros s x. do 3 eexists.
  split; [reflexivity|]. split; [reflexivity|]. split; [decide_tac|]. split; [decide_tac|].
  split; [reflexivity|]. split; [decide_tac|]. split; [decide_tac|]. split; [decide_tac|].
  split; [decide_tac|]. split; [reflexivity|]. split; [|split; [|split]].
  - unfold T5L. cbn [tree_in]. split; [reflexivity|]. split; [discriminate|]. split; [decide_tac|].
    do 3 eexists. split; [reflexivity|]. split; [decide_tac|]. split; [reflexivity|]. split; leaf_tac.
  - unfold T5R. leaf_tac.
  - reflexivity.
  - cbn. repeat constructor; cbn; intuition discriminate.
Qed.

(* the theorem applied to the example, and independent cross-checks by execution *)
Example tree5_pass :
  let s := tree5_state 0 100 95 93 94 in
  exists n s', (n <= 55)%nat /\ iter_micro n s 0 = s' /\
    (forall o, In o [1; 2; 4; 5; 3]%nat -> exists ob, geto s' o = Some ob /\ gone ob) /\ pending s' = [].
Proof.
  intros s. destruct tree5_hyps as (oa & ll & lr & H1 & H2 & H3 & H4 & H5 & H6 & H7 & H8 & H9 & H10 & H11 & H12 & H13 & H14).
  destruct (tree_cascade_full 0 _ _ 1%nat [] oa ll lr T5L T5R H1 H2 H3 H4 H5 H6 H7 H8 H9 H10 H11 H12 H13 H14)
    as (n & s' & Hn & Hrun & Hgone & Hp & _).
  exists n, s'. repeat split; auto.
Qed.

Example tree5_exec :
  let s' := iter_micro 55 (tree5_state 0 100 95 93 94) 0 in
  map (fun ob => (dropped ob, freed ob, destructed (oword ob), links ob)) (objs s')
    = repeat (true, true, true, [null_link; null_link]) 5 /\
  pending s' = [] /\ err s' = 0 /\ option_map frames (gett s' 0) = Some [].
Proof. vm_compute. repeat split; reflexivity. Qed.

(* (B-tree) by execution: node 2 has a second owner: 1 and 3 are destructed, 2 keeps one unit, 4 and 5 are untouched *)
Example tree5_survivor_exec :
  let s' := iter_micro 55 (tree5_state 2 100 95 93 94) 0 in
  map dropped (objs s') = [true; false; true; false; false] /\
  map (fun ob => strong (oword ob)) (objs s') = [0; 1; 0; 1; 1] /\
  map links (skipn 1 (objs s')) = map links (skipn 1 (objs (tree5_state 2 100 95 93 94))) /\
  pending s' = [] /\ option_map frames (gett s' 0) = Some [].
Proof. vm_compute. repeat split; reflexivity. Qed.

(* siblings are independent: a recent timestamp on the link 1 -> 2 defers node 2 (with its subtree), while the
   right sibling 3, reached through an old link, is destructed in the same pass *)
Example tree5_recent_left_link_exec :
  let s' := iter_micro 55 (tree5_state 0 100 99 93 94) 0 in
  map dropped (objs s') = [true; false; true; false; false] /\ map po (pending s') = [2%nat] /\
  option_map frames (gett s' 0) = Some [].
Proof. vm_compute. repeat split; reflexivity. Qed.
