(* The defensive guards of M2 (Ebr.v) never fire: [micro] is total on the reachable states of
   well-formed programs.  Guards: FAdv18 needs [valid l]; FRepin16 needs [valid l && negb (incs l)];
   FAdv19 needs the scanned participant to exist.
   Method: a typing discipline for continuation stacks.  A context [ctx] abstracts the guard
   count / collecting flag of the thread at the moment a frame becomes the top of the stack; every
   frame has a precondition on the context and a context it leaves behind once it (and everything
   it pushes) has completed ([post]); a stack is well typed ([stk]) if the contexts chain. *)
From Coq Require Import ZArith List Bool Lia Arith.
Import ListNotations.
Require Import Params Ebr EbrP.
Local Open Scope Z_scope.

(* ---- well-formed programs.  [step_depth top c d]: the guard depth after command c started at
   depth d, [None] if c is not allowed there.  At the top level ([top = true]) a defer needs a live
   guard; a closure body starts at depth 0 (it runs under the collecting participant's guard, which
   it does not own), may not drop a guard it did not create, and must be balanced. *)
Fixpoint step_depth (top : bool) (c : cmd) (d : nat) : option nat :=
  match c with
  | CPin => Some (S d)
  | CUnpin => match d with S d' => Some d' | O => None end
  | CFlush => Some d
  | CRepin => match d with S _ => Some d | O => None end
  | CDefer _ body =>
      if top && Nat.eqb d 0 then None else
      match (fix go (cs : list cmd) (e : nat) : option nat :=
               match cs with
               | [] => Some e
               | c :: r => match step_depth false c e with Some e' => go r e' | None => None end
               end) body O with
      | Some O => Some d
      | _ => None
      end
  end.
Definition run_depth (top : bool) : list cmd -> nat -> option nat :=
  fix go (cs : list cmd) (d : nat) : option nat :=
  match cs with
  | [] => Some d
  | c :: r => match step_depth top c d with Some d' => go r d' | None => None end
  end.
Lemma run_depth_cons top c r d :
  run_depth top (c :: r) d = match step_depth top c d with Some d' => run_depth top r d' | None => None end.
Proof. reflexivity. Qed.
Definition body_ok (body : list cmd) : bool :=
  match run_depth false body O with Some O => true | _ => false end.
Definition prog_ok (p : list cmd) : bool :=
  match run_depth true p O with Some _ => true | None => false end.

Lemma step_depth_defer top id body d :
  step_depth top (CDefer id body) d =
  if top && Nat.eqb d 0 then None else if body_ok body then Some d else None.
Proof.
  unfold body_ok.
  change (step_depth top (CDefer id body) d) with
    (if top && Nat.eqb d 0 then None else
     match run_depth false body O with Some O => Some d | _ => None end).
  destruct (top && Nat.eqb d 0); auto.
  destruct (run_depth false body O) as [[|?]|]; reflexivity.
Qed.

(* ---- contexts and frame typing *)
Inductive ctx :=
| H                          (* inside the pin handshake: gcnt = 1, not collecting, not yet validated *)
| N (n : nat) (c : bool)     (* gcnt = n, collecting = c; validated whenever n <> 0 *)
| Done.                      (* below the operation loop: nothing *)

Definition def_ok (d : def) : bool := body_ok (dbody d).
Definition items_ok (ds : list def) : bool := forallb def_ok ds.
Definition bounded (n : nat) (qs : list nat) : bool := forallb (fun q => Nat.ltb q n) qs.

Definition guarded (s : ctx) : option ctx :=
  match s with N (S _) _ => Some s | _ => None end.
Definition anyN (s : ctx) : option ctx :=
  match s with N _ _ => Some s | _ => None end.
Definition incollect (s : ctx) : option ctx :=
  match s with N 1 true => Some s | _ => None end.
Definition when (b : bool) (r : option ctx) : option ctx := if b then r else None.

(* [post n pg f s]: the context left by frame f started in context s ([None]: f may not be on top
   in context s).  n = number of threads, pg = the thread's remaining program (read by FOp only). *)
Definition post (n : nat) (pg : list cmd) (f : frame) (s : ctx) : option ctx :=
  match f with
  | FStart => match s with N O false => Some s | _ => None end
  | FOp => match s with
           | N d false => match run_depth true pg d with Some _ => Some Done | None => None end
           | _ => None
           end
  | FOpEnd _ => anyN s
  | FCmds cs => match s with
                | N (S m) true => match run_depth false cs m with Some O => Some (N 1 true) | _ => None end
                | _ => None
                end
  | FPinStart => match s with
                 | N O false => Some (N 1 false)
                 | N (S m) c => Some (N (S (S m)) c)
                 | _ => None
                 end
  | FPin10 | FPin11 _ | FPin12 _ | FPin13 => match s with H => Some (N 1 false) | _ => None end
  | FUnpin0 | FUnpinFin => match s with
               | N 1 false => Some (N 0 false)
               | N (S (S m)) c => Some (N (S m) c)
               | _ => None
               end
  | FUnpinLoop | FUnpinAfter => match s with N 1 true => Some (N 0 false) | _ => None end
  | FUnpin14 => match s with N O false => Some s | _ => None end
  | FCollect0 | FCollectPop _ | FCollect23 _ => incollect s
  | FPopped _ items | FRunItems items => when (items_ok items) (incollect s)
  | FAdv18 | FAdv20 _ => guarded s
  | FAdvScan _ rest => when (bounded n rest) (guarded s)
  | FAdv19 _ q rest => when (bounded n (q :: rest)) (guarded s)
  | FRepin16 | FRepin17 _ => incollect s
  | FDefer d => when (def_ok d) (guarded s)
  | FSched | FFlush0 => anyN s
  | FDeferIncr => guarded s
  | FPushBag21 items => when (items_ok items) (anyN s)
  end.

Fixpoint stk (n : nat) (pg : list cmd) (s : ctx) (fs : list frame) : Prop :=
  match fs with
  | [] => True
  | f :: k => match post n pg f s with Some s' => stk n pg s' k | None => False end
  end.

(* what a context says about the thread's fields *)
Definition models (l : local) (s : ctx) : Prop :=
  match s with
  | H => gcnt l = 1%nat /\ collecting l = false
  | N n c => gcnt l = n /\ collecting l = c /\ (n <> O -> valid l = true) /\ (c = true -> incs l = false)
  | Done => False
  end.

Definition thread_ns (n : nat) (l : local) : Prop :=
  exists s, models l s /\ stk n (prog l) s (frames l) /\ items_ok (bag l) = true.

Record NS (s : state) : Prop := {
  ns_threads : forall t l, getl s t = Some l -> thread_ns (length (threads s)) l;
  ns_sealed : forallb (fun b => items_ok (snd b)) (sealed s) = true;
  ns_registry : bounded (length (threads s)) (registry s) = true }.

(* ---- totality: under NS no defensive guard fires *)
Lemma bounded_in n qs q : bounded n qs = true -> In q qs -> (q < n)%nat.
Proof. unfold bounded. rewrite forallb_forall. intros Hb Hin. apply Nat.ltb_lt. auto. Qed.

Theorem micro_total s t l :
  NS s -> getl s t = Some l -> frames l <> [] -> exists s' o, micro s t = Some (s', o).
Proof.
  intros HN Hl Hne. destruct (ns_threads s HN t l Hl) as (c & Hm & Hs & _).
  unfold micro. rewrite Hl. destruct (frames l) as [|f k]; [congruence|]. clear Hne.
  cbn [stk] in Hs. destruct (post (length (threads s)) (prog l) f c) as [c'|] eqn:Hp; [|contradiction].
  destruct f; try solve [repeat match goal with
                    | |- context [match ?x with _ => _ end] => destruct x
                    | |- context [if ?x then _ else _] => destruct x
                    end; eauto].
  - (* FAdv18 *) cbn in Hp. destruct c as [|[|n] cc|]; try discriminate. cbn in Hm.
    destruct Hm as (_ & _ & Hv & _). rewrite Hv by discriminate. eauto.
  - (* FAdv19 *) cbn in Hp. destruct c as [|[|n] cc|]; cbn in Hp; try (destruct (_ && _); discriminate).
    destruct (_ && _) eqn:Hb in Hp; [|discriminate].
    change (bounded (length (threads s)) (q :: rest) = true) in Hb.
    pose proof (bounded_in _ _ q Hb (or_introl eq_refl)) as Hq.
    unfold getl. destruct (nth_error (threads s) q) eqn:E; [|apply nth_error_None in E; lia].
    destruct (_ && _); eauto.
  - (* FRepin16 *) cbn in Hp. destruct c as [|[|[|n]] [|]|]; try discriminate. cbn in Hm.
    destruct Hm as (_ & _ & Hv & Hi). rewrite Hv by discriminate. rewrite Hi by reflexivity. cbn.
    destruct (_ =? _); eauto.
Qed.
Print Assumptions micro_total.

(* ---- preservation *)
Lemma set_nth_cases' {A} (ls : list A) : forall t x q y,
  nth_error (set_nth ls t x) q = Some y -> y = x \/ nth_error ls q = Some y.
Proof.
  induction ls as [|a ls IH]; intros [|t] x [|q] y Hq; cbn in *; auto; try discriminate.
  - inversion Hq; auto.
  - eauto.
Qed.

Lemma NS_upd s t l1 g' reg' sealed' ran' :
  NS s -> thread_ns (length (threads s)) l1 ->
  forallb (fun b => items_ok (snd b)) sealed' = true -> bounded (length (threads s)) reg' = true ->
  NS {| G := g'; cap := cap s; registry := reg'; sealed := sealed';
        threads := set_nth (threads s) t l1; ran := ran' |}.
Proof.
  intros HN H1 H2 H3. split; cbn [threads sealed registry]; rewrite ?set_nth_length; auto.
  intros q lq Hq. unfold getl in Hq; cbn [threads] in Hq.
  destruct (set_nth_cases' _ _ _ _ _ Hq) as [->|Hq']; auto. exact (ns_threads s HN q lq Hq').
Qed.

Lemma NS_setl s t l1 : NS s -> thread_ns (length (threads s)) l1 -> NS (setl s t l1).
Proof. intros HN H1. apply NS_upd; auto; [apply (ns_sealed s HN) | apply (ns_registry s HN)]. Qed.

(* the frames of a command have the effect [step_depth] predicts *)
Lemma stk_cmd_top n pg me c d d' k :
  step_depth true c d = Some d' -> stk n pg (N d' false) k -> stk n pg (N d false) (cmd_frames me c ++ k).
Proof.
  destruct c; cbn [cmd_frames app]; [cbn [step_depth]..|].
  - intros E; inversion E; subst. destruct d; cbn; auto.
  - destruct d as [|[|d]]; intros E; inversion E; subst; cbn; auto.
  - intros E; inversion E; subst. cbn; auto.
  - destruct d as [|[|d]]; intros E; inversion E; subst; cbn; auto.
  - rewrite step_depth_defer. destruct d as [|d]; cbn [andb Nat.eqb]; [discriminate|].
    destruct (body_ok body) eqn:Eb; intros E; inversion E; subst.
    cbn. unfold def_ok; cbn [dbody]. rewrite Eb. cbn. auto.
Qed.

Lemma stk_cmd_body n pg me c m m' k :
  step_depth false c m = Some m' -> stk n pg (N (S m') true) k -> stk n pg (N (S m) true) (cmd_frames me c ++ k).
Proof.
  destruct c; cbn [cmd_frames app]; [cbn [step_depth]..|].
  - intros E; inversion E; subst. cbn; auto.
  - destruct m as [|m]; intros E; inversion E; subst; cbn; auto.
  - intros E; inversion E; subst. cbn; auto.
  - destruct m as [|m]; intros E; inversion E; subst; cbn; auto.
  - rewrite step_depth_defer. cbn [andb].
    destruct (body_ok body) eqn:Eb; intros E; inversion E; subst.
    cbn. unfold def_ok; cbn [dbody]. rewrite Eb. cbn. auto.
Qed.

(* invert the typing of the top frame: enumerate the contexts in which it may be on top *)
Ltac inv_stk Hs :=
  cbn [stk] in Hs;
  let Hp := fresh "Hp" in
  match type of Hs with
  | match ?p with _ => _ end => destruct p eqn:Hp; [|contradiction]
  end;
  cbn [post] in Hp; unfold when, guarded, anyN, incollect in Hp;
  repeat (match type of Hp with
          | context [match ?x with _ => _ end] => is_var x; destruct x
          | context [if ?x then _ else _] => is_var x; destruct x
          | context [match ?x with _ => _ end] =>
              lazymatch x with
              | context [match _ with _ => _ end] => fail
              | context [if _ then _ else _] => fail
              | _ => destruct x eqn:?
              end
          | context [if ?x then _ else _] =>
              lazymatch x with
              | context [match _ with _ => _ end] => fail
              | context [if _ then _ else _] => fail
              | _ => destruct x eqn:?
              end
          end; try discriminate);
  inversion Hp; subst; clear Hp.

Ltac use_eqs :=
  repeat match goal with
         | Hx : ?b = true |- context [?b] => rewrite Hx
         | Hx : ?b = Some _ |- context [?b] => rewrite Hx
         end.

(* the new thread state in context c1 *)
Ltac thr c1 :=
  exists c1; split; [ cbn; repeat split; auto; try congruence; try lia
                    | split; [ cbn [frames with_frames prog]; cbn [stk post app];
                               unfold when, guarded, anyN, incollect; use_eqs; auto
                             | cbn [bag with_frames]; auto ] ].

Lemma stk_done n pg k : stk n pg Done k -> k = [].
Proof.
  destruct k as [|f k]; auto. cbn [stk]. destruct f; cbn [post]; unfold when, guarded, anyN, incollect;
    repeat match goal with |- context [if ?b then _ else _] => destruct b end; contradiction.
Qed.

Lemma node_free_ok : def_ok node_free = true.
Proof. reflexivity. Qed.

Lemma def_ok_run d : def_ok d = true -> run_depth false (dbody d) O = Some O.
Proof. unfold def_ok, body_ok. destruct (run_depth false (dbody d) O) as [[|?]|]; congruence. Qed.

Definition mark (c : ctx) : Prop := True.

Ltac auto_case Hm :=
  repeat match type of Hm with
         | context [match ?x with _ => _ end] => destruct x eqn:?
         | context [if ?x then _ else _] => destruct x eqn:?
         end; try discriminate; inversion Hm; subst; clear Hm; apply NS_setl; auto;
  match goal with
  | Hs : stk _ _ ?c1 _, Hk : mark ?c0 |- _ => first [solve [thr c1] | solve [thr c0]]
  end.

Theorem micro_ns s t s' o : NS s -> micro s t = Some (s', o) -> NS s'.
Proof.
  intros HN Hm. unfold micro in Hm.
  destruct (getl s t) as [l|] eqn:Hl; [|discriminate].
  destruct (ns_threads s HN t l Hl) as (c & Hmod & Hs & Hbag).
  pose proof (ns_sealed s HN) as Hsl. pose proof (ns_registry s HN) as Hrg.
  set (n := length (threads s)) in *. assert (Hmk : mark c) by exact I.
  destruct (frames l) as [|f k] eqn:Hf; [discriminate|].
  destruct f; inv_stk Hs; cbn [models] in Hmod;
    repeat match goal with Hx : _ /\ _ |- _ => destruct Hx as [? Hx] end; try subst;
    try solve [auto_case Hm].
  1: { (* FStart *) inversion Hm; subst s' o; clear Hm. apply NS_upd; auto.
    + thr (N O false).
    + cbn [bounded forallb]. apply andb_true_iff. split; [|exact Hrg]. apply Nat.ltb_lt.
      unfold getl in Hl. apply nth_error_Some. congruence. }
  1: { (* FOp *) apply stk_done in Hs. subst k.
    destruct (prog l) as [|c rest] eqn:Hp; inversion Hm; subst s' o; clear Hm; apply NS_setl; auto.
    + thr (N (gcnt l) false).
    + rewrite run_depth_cons in Heqo0. destruct (step_depth true c (gcnt l)) as [d'|] eqn:Ec; [|discriminate].
      thr (N (gcnt l) false). eapply stk_cmd_top; eauto. cbn. rewrite Heqo0. exact I. }
  - (* FCmds *)
    destruct cs as [|c0 rest]; inversion Hm; subst s' o; clear Hm; apply NS_setl; auto.
    + cbn in Heqo0. inversion Heqo0; subst. thr (N 1 true).
    + rewrite run_depth_cons in Heqo0. destruct (step_depth false c0 n0) as [m'|] eqn:Ec; [|discriminate].
      thr (N (S n0) true). eapply stk_cmd_body; eauto. cbn. rewrite Heqo0. exact Hs.
  - (* FPinStart, first guard *)
    rewrite H0 in Hm. inversion Hm; subst s' o; clear Hm; apply NS_setl; auto. thr H.
  - (* FUnpin0, outermost guard, not collecting: enter the unpin loop *)
    rewrite H0, H1 in Hm. cbn [Nat.eqb andb negb] in Hm.
    inversion Hm; subst s' o; clear Hm; apply NS_setl; auto. thr (N 1 true).
  - (* FUnpin0, inner guard *)
    rewrite H0 in Hm. cbn [Nat.eqb andb negb] in Hm.
    inversion Hm; subst s' o; clear Hm; apply NS_setl; auto. thr (N (S (S n0)) (collecting l)).
  - (* FUnpinLoop *)
    destruct (must_collect l); inversion Hm; subst s' o; clear Hm; apply NS_setl; auto.
    + thr (N 1 true).
    + thr (N 1 false).
  - (* FUnpinFin, inner guard *)
    rewrite H0 in Hm. cbn [Nat.eqb Nat.pred] in Hm.
    inversion Hm; subst s' o; clear Hm; apply NS_setl; auto. thr (N (S n0) (collecting l)).
  - (* FCollect23 *)
    destruct (sealed s) as [|[e items] rest] eqn:Es.
    { inversion Hm; subst s' o; clear Hm; apply NS_setl; auto. thr (N 1 true). }
    cbn [forallb snd] in Hsl. apply andb_true_iff in Hsl. destruct Hsl as [Hit Hrest].
    pose proof node_free_ok as Hnf.
    destruct (expired (G s) e); inversion Hm; subst s' o; clear Hm.
    + apply NS_upd; auto. thr (N 1 true).
    + apply NS_setl; auto. thr (N 1 true).
  - (* FRunItems *)
    destruct items as [|d rest]; [inversion Hm; subst s' o; clear Hm; apply NS_setl; auto; thr (N 1 true)|].
    cbn [items_ok forallb] in Heqb. apply andb_true_iff in Heqb. destruct Heqb as [Hd Hrest].
    fold (items_ok rest) in Hrest. pose proof (def_ok_run d Hd) as Hrun.
    destruct (did d <? 0); inversion Hm; subst s' o; clear Hm.
    + apply NS_setl; auto. thr (N 1 true).
    + apply NS_upd; auto. thr (N 1 true).
  - (* FAdv18 *) subst n.
    rewrite H2 in Hm by discriminate. inversion Hm; subst s' o; clear Hm; apply NS_setl; auto.
    thr (N (S n0) (collecting l)).
  - (* FAdvScan *) subst n.
    destruct rest as [|q rest']; inversion Hm; subst s' o; clear Hm; apply NS_setl; auto;
      thr (N (S n0) (collecting l)).
  - (* FAdv19 *) subst n.
    cbn [bounded forallb] in Heqb. apply andb_true_iff in Heqb. destruct Heqb as [Hq Hrest].
    fold (bounded (length (threads s)) rest) in Hrest.
    destruct (getl s q) as [lq|]; [|discriminate].
    destruct (pinned lq && negb (ann lq =? ge)); inversion Hm; subst s' o; clear Hm; apply NS_setl; auto;
      thr (N (S n0) (collecting l)).
  - (* FAdv20 *)
    inversion Hm; subst s' o; clear Hm; apply NS_upd; auto. thr (N (S n0) (collecting l)).
  - (* FDefer *) subst n.
    destruct (Nat.ltb (length (bag l)) (cap s)); inversion Hm; subst s' o; clear Hm; apply NS_setl; auto;
      thr (N (S n0) (collecting l)).
    unfold items_ok. rewrite forallb_app. fold (items_ok (bag l)). rewrite Hbag. cbn [forallb].
    unfold def_ok in *; cbn [dbody]. rewrite Heqb. reflexivity.
  - (* FSched: the re-pin is requested only in context N 1 true *)
    destruct (collecting l) eqn:Hc; destruct (Nat.eqb (gcnt l) 1) eqn:Hg; cbn [andb] in Hm;
      inversion Hm; subst s' o; clear Hm; apply NS_setl; auto.
    + apply Nat.eqb_eq in Hg. rewrite Hg in *. thr (N 1 true).
    + thr (N (gcnt l) true).
    + thr (N (gcnt l) false).
    + thr (N (gcnt l) false).
  - (* FFlush0 *)
    destruct (bag l) as [|d0 b0] eqn:Hb; inversion Hm; subst s' o; clear Hm; apply NS_setl; auto;
      thr (N (gcnt l) (collecting l)).
    rewrite Hb. reflexivity.
  - (* FPushBag21 *)
    inversion Hm; subst s' o; clear Hm; apply NS_upd; auto.
    + thr (N (gcnt l) (collecting l)).
    + rewrite forallb_app, Hsl. cbn [forallb snd andb]. rewrite Heqb. reflexivity.
Qed.
Print Assumptions micro_ns.

(* ---- initial states of well-formed programs *)
Theorem init_ns c g0 progs : forallb prog_ok progs = true -> NS (init_state c g0 progs).
Proof.
  intros Hp. split; cbn [threads sealed registry init_state]; auto.
  - intros t l Hl. unfold getl in Hl; cbn [threads init_state] in Hl.
    destruct (nth_error_map_app _ _ _ _ _ Hl) as [(p & Hp1 & ->)|[_ ->]].
    + exists (N O false). split; [cbn; repeat split; auto; congruence|]. split; [|reflexivity].
      cbn. assert (Hok : prog_ok p = true).
      { rewrite forallb_forall in Hp. apply Hp. eapply nth_error_In; eauto. }
      unfold prog_ok in Hok. destruct (run_depth true p O); [exact I|discriminate].
    + exists (N O false). split; [cbn; repeat split; auto; congruence|]. split; [exact I|reflexivity].
  - cbn. rewrite app_length, map_length. cbn. rewrite andb_true_r. apply Nat.ltb_lt. lia.
Qed.
Print Assumptions init_ns.

(* ---- every schedule *)
Theorem mrun_ns sched : forall s, NS s -> NS (mrun s sched).
Proof.
  induction sched as [|t r IH]; cbn; intros s HN; auto.
  destruct (micro s t) as [[s' o]|] eqn:E; auto. apply IH. eapply micro_ns; eauto.
Qed.

Lemma run_local_ns fuel : forall s t acc s' o b, NS s -> run_local fuel s t acc = (s', o, b) -> NS s'.
Proof.
  induction fuel as [|n IH]; cbn; intros s t acc s' o b HN Hr.
  - inversion Hr; subst; auto.
  - destruct (getl s t) as [l|]; [|inversion Hr; subst; auto].
    destruct (frames l) as [|f k]; [inversion Hr; subst; auto|].
    destruct (is_yield f); [inversion Hr; subst; auto|].
    destruct (micro s t) as [[s1 o1]|] eqn:E; [|inversion Hr; subst; auto].
    eapply IH; [|exact Hr]. eapply micro_ns; eauto.
Qed.

Theorem step_ns s t s' o : NS s -> step s t = Some (s', o) -> NS s'.
Proof.
  intros HN Hr. unfold step in Hr. destruct (top_is_yield s t); [|discriminate].
  destruct (micro s t) as [[s1 o1]|] eqn:E; [|discriminate].
  destruct (run_local FUEL s1 t o1) as [[s2 o2] b] eqn:E2. destruct b; [|discriminate].
  inversion Hr; subst. eapply run_local_ns; [|exact E2]. eapply micro_ns; eauto.
Qed.

Theorem srun_ns sched : forall s, NS s -> NS (srun s sched).
Proof.
  induction sched as [|t r IH]; cbn; intros s HN; auto.
  destruct (step s t) as [[s' o]|] eqn:E; auto. apply IH. eapply step_ns; eauto.
Qed.
Print Assumptions mrun_ns.
Print Assumptions srun_ns.

(* ---- the defensive guards of [micro] never fire on a reachable state of a well-formed program:
   a thread that has a frame can always make its micro transition *)
Theorem no_guard_fires_micro c g0 progs sched t l :
  forallb prog_ok progs = true ->
  getl (mrun (init_state c g0 progs) sched) t = Some l -> frames l <> [] ->
  micro (mrun (init_state c g0 progs) sched) t <> None.
Proof.
  intros Hp Hl Hf. destruct (micro_total _ t l (mrun_ns sched _ (init_ns c g0 progs Hp)) Hl Hf) as (s' & o & E).
  congruence.
Qed.

Theorem no_guard_fires_step c g0 progs sched t l :
  forallb prog_ok progs = true ->
  getl (srun (init_state c g0 progs) sched) t = Some l -> frames l <> [] ->
  micro (srun (init_state c g0 progs) sched) t <> None.
Proof.
  intros Hp Hl Hf. destruct (micro_total _ t l (srun_ns sched _ (init_ns c g0 progs Hp)) Hl Hf) as (s' & o & E).
  congruence.
Qed.
Print Assumptions no_guard_fires_micro.
Print Assumptions no_guard_fires_step.

(* ---- non-vacuity, and necessity of the well-formedness conditions *)
Module NoStuckDemo.
  Fixpoint rounds (k : nat) : list cmd :=
    match k with O => [] | S k' => CPin :: CFlush :: CUnpin :: rounds k' end.
  (* thread 0 defers closure 1, whose body pins, defers closure 2 (whose body flushes), flushes,
     unpins, flushes again under the collector's guard (FSched -> FRepin16) and defers closure 3 *)
  Definition p0 :=
    [CPin; CDefer 1 [CPin; CDefer 2 [CFlush]; CFlush; CUnpin; CFlush; CDefer 3 []]; CFlush; CUnpin] ++ rounds 12.
  Definition p1 := [CPin; CDefer 4 []; CRepin; CFlush; CUnpin].
  Definition s0 := init_state 2 0 [p0; p1].
  Definition sched (n : nat) : list nat := concat (repeat [0%nat; 1%nat] 30) ++ repeat 0%nat n.

  Example demo_wf : forallb prog_ok [p0; p1] = true.
  Proof. vm_compute. reflexivity. Qed.
  (* all four closures (two of them nested) are executed along this schedule *)
  Example demo_run : ran (srun s0 (sched 200)) = [3; 2; 4; 1].
  Proof. vm_compute. reflexivity. Qed.
  Example demo_ns : forall n, NS (srun s0 (sched n)).
  Proof. intros n. apply srun_ns, init_ns, demo_wf. Qed.

  (* first micro transition of thread 0 (running alone) that is refused, with its frame stack *)
  Fixpoint first_stuck (n : nat) (s : state) : option (nat * list frame) :=
    match n with
    | O => None
    | S n' =>
        match micro s 0 with
        | Some (s', _) => match first_stuck n' s' with Some (j, f) => Some (S j, f) | None => None end
        | None => match getl s 0 with Some l => Some (O, frames l) | None => None end
        end
    end.
  (* ill-formed: 64 defers without a guard -- the FAdv18 guard fires (incr_advance unpinned) *)
  Example guard_fires_unguarded_defer :
    prog_ok (repeat (CDefer 1 []) 64) = false /\
    first_stuck 2000 (init_state 100 0 [repeat (CDefer 1 []) 64]) = Some (256%nat, [FAdv18; FOpEnd 3; FOp]).
  Proof. vm_compute. split; reflexivity. Qed.
  (* ill-formed: a closure body that drops the collector's guard -- the FRepin16 guard fires *)
  Example guard_fires_unbalanced_body :
    prog_ok ([CPin; CDefer 1 [CUnpin]; CFlush; CUnpin] ++ rounds 6) = false /\
    first_stuck 2000 (init_state 4 0 [[CPin; CDefer 1 [CUnpin]; CFlush; CUnpin] ++ rounds 6])
    = Some (102%nat, [FRepin16; FUnpinLoop; FOpEnd 1; FOp]).
  Proof. vm_compute. split; reflexivity. Qed.
End NoStuckDemo.
Print Assumptions NoStuckDemo.demo_ns.
