(* The tie between the sequential participant model GuardSeq.v (C16, C20) and the call order GENERATED from the source
   (Gen/GuardCallsW.v: for Local::repin, Local::flush, Local::finalize and Guard::reactivate_after, the modelled
   primitives they call, in execution order - a `defer!` block runs when the body is left, a guard bound inside a block
   is dropped at the end of that block).  The generated lists are INTERPRETED over GuardSeq's primitives and proved to
   be the model's functions: the order of acquire_handle / unpin / pin / release_handle in repin and reactivate_after,
   of push_to_global / schedule_collection in flush, and the hand-over sequence of finalize (handle_count = 1, pin,
   push the bag, drop the guard, handle_count = 0, unregister) are what the theorems of C16 / C20 are about. *)
From Coq Require Import ZArith List Bool Lia.
Import ListNotations.
Require Import Params GuardCallsW GuardSeq.
Local Open Scope Z_scope.

Definition interp (u : state -> res state) (c : gcall) (s : state) : res state :=
  match c with
  | KAcquire => Ok (acquire_handle s)
  | KRelease => release_handle_with u s
  | KUnpin => u s
  | KPin => pin s
  | KRepin => Ok (repin_without_collect s)
  | KPushToGlobal => Ok (push_to_global s)
  | KSchedule => Ok (schedule_collection s)
  | KSetHc n => Ok (set_hc n s)
  | KDelete => Ok (set_finals (finals s + 1) (set_finalized true s))
  | KUser => Ok s                      (* the user's closure (empty in the model) *)
  end.

Fixpoint run_calls (u : state -> res state) (l : list gcall) (s : state) : res state :=
  match l with
  | [] => Ok s
  | c :: r => bind (interp u c s) (run_calls u r)
  end.

Lemma bind_ok_r {A} (r : res A) : bind r (fun x => Ok x) = r.
Proof. destruct r; reflexivity. Qed.

Lemma bind_assoc {A B C} (r : res A) (f : A -> res B) (g : B -> res C) :
  bind (bind r f) g = bind r (fun x => bind (f x) g).
Proof. destruct r; reflexivity. Qed.

Theorem repin_is_generated u s : run_calls u G_repin s = repin_with u s.
Proof.
  unfold G_repin, repin_with. cbn [run_calls interp bind].
  destruct (u (acquire_handle s)) as [s1|e]; cbn [bind]; [|reflexivity].
  destruct (pin s1) as [s2|e]; cbn [bind]; [|reflexivity].
  apply bind_ok_r.
Qed.

Theorem reactivate_after_is_generated u s p : run_calls u G_reactivate_after s = reactivate_after_with u s p.
Proof.
  unfold G_reactivate_after, reactivate_after_with. cbn [run_calls interp bind].
  destruct (u (acquire_handle s)) as [s1|e]; cbn [bind]; [|reflexivity].
  destruct (pin s1) as [s2|e]; cbn [bind]; [|reflexivity].
  apply bind_ok_r.
Qed.

Theorem flush_is_generated u s : run_calls u G_flush s = Ok (flush s).
Proof. reflexivity. Qed.

Theorem finalize_is_generated u s : run_calls u G_finalize s = finalize_with u s.
Proof.
  unfold G_finalize, finalize_with. cbn [run_calls interp bind].
  destruct (pin (set_hc 1 s)) as [s2|e]; cbn [bind]; [|reflexivity].
  destruct (u (push_to_global s2)) as [s3|e]; cbn [bind]; reflexivity.
Qed.

(* ---- the decisions of the same functions: GuardSeq branches on the conditions generated from internal.rs
   (Gen/EbrProtoW.v; the same table EbrProtoP.v ties to the concurrent machine Ebr.v) *)
Require Import EbrProtoW.
Definition nbg (l : list bool) (i : nat) : bool := nth i l false.

Lemma pin_decision s :
  pin s = if MAXC <=? gc s then Err E_OVERFLOW else
          let s1 := set_gc (gc s + 1) s in
          if nbg (E_pin_conds (gc s) 0 0 0) 0 then
            let s2 := set_ann (G s) (set_pinned true s1) in
            Ok (if prev s =? G s then s2 else set_advc 0 (set_prev (G s) s2))
          else Ok s1.
Proof. reflexivity. Qed.

Lemma schedule_collection_decision s :
  schedule_collection s =
    let s1 := set_must_collect true s in
    if nbg (E_sched_conds (collecting s1) (gc s1)) 0 then repin_without_collect s1 else s1.
Proof. reflexivity. Qed.

Lemma release_handle_decision u s :
  release_handle_with u s =
    let s1 := set_hc (hc s - 1) s in
    if nbg (E_relh_conds (gc s) (hc s)) 0 then finalize_with u s1 else Ok s1.
Proof. reflexivity. Qed.

Lemma unpin_decisions ur fuel s mc :
  unpin_lvl ur fuel s =
    let g0 := gc s in
    bind (if nbg (E_unpin_conds g0 (collecting s) mc 0) 0
          then bind (coll_loop ur fuel (set_collecting true s)) (fun s' => Ok (set_collecting false s'))
          else Ok s) (fun s1 =>
    let s2 := set_gc (g0 - 1) s1 in
    if nbg (E_unpin_conds g0 false mc 0) 2 then
      let s3 := set_unpins (unpins s2 + 1) (set_ann 0 (set_pinned false s2)) in
      if nbg (E_unpin_conds g0 false mc (hc s3)) 3 then finalize_with ur s3 else Ok s3
    else Ok s2).
Proof. reflexivity. Qed.
