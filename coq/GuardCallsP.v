(* The tie between the sequential participant model GuardSeq.v (C16, C20) and the call order GENERATED from the source
   (Gen/GuardCallsW.v: for Local::repin, Local::flush, Local::finalize and Guard::reactivate_after, the modelled
   primitives they call, in execution order - a `defer!` block runs when the body is left, a guard bound inside a block
   is dropped at the end of that block).  The generated lists are INTERPRETED over GuardSeq's primitives and proved to
   be the model's functions: the order of acquire_handle / unpin / pin / release_handle in repin and reactivate_after,
   of push_to_global / schedule_collection in flush, and the hand-over sequence of finalize (handle_count = 1, pin,
   push the bag, drop the guard, handle_count = 0, unregister) are what the theorems of C16 / C20 are about. *)
From Coq Require Import ZArith List Bool Lia.
Import ListNotations.
Require Import Params GuardCallsW GuardSeq.
Local Open Scope Z_scope.

Definition interp (u : state -> res state) (c : gcall) (s : state) : res state :=
  match c with
  | KAcquire => Ok (acquire_handle s)
  | KRelease => release_handle_with u s
  | KUnpin => u s
  | KPin => pin s
  | KRepin => Ok (repin_without_collect s)
  | KPushToGlobal => Ok (push_to_global s)
  | KSchedule => Ok (schedule_collection s)
  | KSetHc n => Ok (set_hc n s)
  | KDelete => Ok (set_finals (finals s + 1) (set_finalized true s))
  | KUser => Ok s                      (* the user's closure (empty in the model) *)
  end.

Fixpoint run_calls (u : state -> res state) (l : list gcall) (s : state) : res state :=
  match l with
  | [] => Ok s
  | c :: r => bind (interp u c s) (run_calls u r)
  end.

Lemma bind_ok_r {A} (r : res A) : bind r (fun x => Ok x) = r.
Proof. destruct r; reflexivity. Qed.

Lemma bind_assoc {A B C} (r : res A) (f : A -> res B) (g : B -> res C) :
  bind (bind r f) g = bind r (fun x => bind (f x) g).
Proof. destruct r; reflexivity. Qed.

Theorem repin_is_generated u s : run_calls u G_repin s = repin_with u s.
Proof.
  unfold G_repin, repin_with. cbn [run_calls interp bind].
  destruct (u (acquire_handle s)) as [s1|e]; cbn [bind]; [|reflexivity].
  destruct (pin s1) as [s2|e]; cbn [bind]; [|reflexivity].
  apply bind_ok_r.
Qed.

Theorem reactivate_after_is_generated u s p : run_calls u G_reactivate_after s = reactivate_after_with u s p.
Proof.
  unfold G_reactivate_after, reactivate_after_with. cbn [run_calls interp bind].
  destruct (u (acquire_handle s)) as [s1|e]; cbn [bind]; [|reflexivity].
  destruct (pin s1) as [s2|e]; cbn [bind]; [|reflexivity].
  apply bind_ok_r.
Qed.

Theorem flush_is_generated u s : run_calls u G_flush s = Ok (flush s).
Proof. reflexivity. Qed.

Theorem finalize_is_generated u s : run_calls u G_finalize s = finalize_with u s.
Proof.
  unfold G_finalize, finalize_with. cbn [run_calls interp bind].
  destruct (pin (set_hc 1 s)) as [s2|e]; cbn [bind]; [|reflexivity].
  destruct (u (push_to_global s2)) as [s3|e]; cbn [bind]; reflexivity.
Qed.
