(* C15, progress part, nested deferred functions (bounded nesting depth).
   Extends the sequential drain theorem [C15_drain] of EbrConserveP.v: pending deferred functions
   may have bodies that defer further functions (recursively, up to a bounded depth), flush, and
   take guards.  Main results: [C15_drain_nested]; [C15_drain_from_nested] (C15_drain is the
   instance d = 0); [NestedDemo.nested_demo] (non-vacuity).
   RESTRICTIONS: bodies consist of CDefer and CFlush commands bracketed by balanced CPin/CUnpin
   (CRepin only under a body-level CPin; an unbalanced unpin/repin inside a destructor would drop
   the collecting guard).  The bag capacity is large enough that no bag overflows during a collect:
   D + TR * (F + 1) <= cap, where D / F = number of CDefer / CFlush commands nested inside pending
   functions (qsz, wsz / qfl, wfl); for flat functions this is [TR <= cap s] as in C15_drain.  As in
   C15_drain: the other participants are unpinned, hold nothing and do not move; micro granularity. *)
From Coq Require Import ZArith List Bool Lia Arith Permutation.
Import ListNotations.
Require Import Params Ebr EbrP EbrConserveP.
Local Open Scope Z_scope.

(* ---- levels.  A function (id, body) has level <= n when: id < 0 (invisible, its body never runs), or
   n = S n' and its body is balanced ([bal], below) and its CDefer commands create functions of level <= n'.
   Level 0 = invisible; level 1 contains the flat functions; nesting depth <= d is level (S d). *)
(* balanced bodies: pin/unpin (and repin under a body-level pin) may bracket the defers; [h] is the
   number of guards the body itself holds; flushes are allowed anywhere *)
Fixpoint bal (h : nat) (cs : list cmd) : Prop :=
  match cs with
  | [] => h = O
  | CPin :: r => bal (S h) r
  | CUnpin :: r => match h with O => False | S h' => bal h' r end
  | CRepin :: r => match h with O => False | S _ => bal h r end
  | CDefer _ _ :: r => bal h r
  | CFlush :: r => bal h r
  end.

Fixpoint lvf (n : nat) (id : Z) (body : list cmd) : Prop :=
  0 <= id ->
  match n with
  | O => False
  | S n' => bal O body /\ Forall (fun c => match c with CDefer i b => lvf n' i b | _ => True end) body
  end.
Definition lvc (n : nat) (c : cmd) : Prop := match c with CDefer i b => lvf n i b | _ => True end.
Definition lvd (n : nat) (d : def) : Prop := lvf n (did d) (dbody d).
Definition lvq (n : nat) (q : list (Z * list def)) : Prop := Forall (fun bq => Forall (lvd n) (snd bq)) q.

(* nesting depth <= d (depth 0: the body defers nothing visible) *)
Definition depth_le (d : nat) (x : def) : Prop := lvd (S d) x.

Lemma lvf_S n id body : lvf (S n) id body = (0 <= id -> bal O body /\ Forall (lvc n) body).
Proof. reflexivity. Qed.
Lemma lvf_O id body : lvf O id body = (0 <= id -> False).
Proof. reflexivity. Qed.

Lemma lvf_neg n id body : id < 0 -> lvf n id body.
Proof. intros H. destruct n; [rewrite lvf_O|rewrite lvf_S]; intros H0; lia. Qed.

Lemma lvf_mono n : forall id body, lvf n id body -> lvf (S n) id body.
Proof.
  induction n as [|n IH]; intros id body H.
  - rewrite lvf_O in H. rewrite lvf_S. intros H0. destruct (H H0).
  - rewrite lvf_S in H. rewrite lvf_S. intros H0. destruct (H H0) as [Hb Hf]. split; [exact Hb|].
    eapply Forall_impl; [|exact Hf]. intros c Hc. destruct c; cbn [lvc] in *; auto.
Qed.
Lemma lvd_mono n d : lvd n d -> lvd (S n) d.
Proof. apply lvf_mono. Qed.
Lemma lvds_mono n ds : Forall (lvd n) ds -> Forall (lvd (S n)) ds.
Proof. intros H. eapply Forall_impl; [|exact H]. intros d. apply lvd_mono. Qed.
Lemma lvq_mono n q : lvq n q -> lvq (S n) q.
Proof. intros H. eapply Forall_impl; [|exact H]. intros bq. apply lvds_mono. Qed.

Lemma flat_lvd1 d : flat d -> lvd 1 d.
Proof. unfold flat, lvd. intros H. rewrite lvf_S. intros H0. rewrite (H H0). split; [reflexivity|constructor]. Qed.
Lemma flat_depth0 d : flat d -> depth_le 0 d.
Proof. apply flat_lvd1. Qed.

Lemma lvd0_ids d : lvd 0 d -> def_ids d = [].
Proof.
  unfold lvd, def_ids. rewrite lvf_O. intros H. destruct (did d <? 0) eqn:E; auto.
  apply Z.ltb_ge in E. destruct (H E).
Qed.
Lemma lvds0_ids ds : Forall (lvd 0) ds -> defs_ids ds = [].
Proof.
  induction ds as [|d ds IH]; intros H; auto.
  inversion H as [|? ? Hd Hds]; subst. rewrite defs_ids_cons, (lvd0_ids d Hd), IH; auto.
Qed.
Lemma lvq0_ids q : lvq 0 q -> sealed_ids q = [].
Proof.
  induction q as [|[e items] q IH]; intros H; auto.
  inversion H as [|? ? Hd Hds]; subst. cbn [snd] in Hd.
  rewrite sealed_ids_cons, (lvds0_ids items Hd), IH; auto.
Qed.

(* ---- sizes: number of CDefer commands nested in a body *)
Fixpoint csz (c : cmd) : nat :=
  match c with
  | CDefer _ body =>
      S ((fix go (cs : list cmd) : nat := match cs with [] => O | c :: r => (csz c + go r)%nat end) body)
  | _ => O
  end.
Fixpoint bsz (cs : list cmd) : nat := match cs with [] => O | c :: r => (csz c + bsz r)%nat end.
Lemma csz_defer id body : csz (CDefer id body) = S (bsz body).
Proof. reflexivity. Qed.
(* CDefer commands strictly inside a pending function (0 for an invisible one: its body never runs) *)
Definition dsz (d : def) : nat := if did d <? 0 then O else bsz (dbody d).
Fixpoint wsz (ds : list def) : nat := match ds with [] => O | d :: r => (dsz d + wsz r)%nat end.
Fixpoint qsz (q : list (Z * list def)) : nat := match q with [] => O | bq :: r => (wsz (snd bq) + qsz r)%nat end.

Lemma wsz_app a b : wsz (a ++ b) = (wsz a + wsz b)%nat.
Proof. induction a as [|d a IH]; cbn [app wsz]; auto. rewrite IH. lia. Qed.
Lemma qsz_app a b : qsz (a ++ b) = (qsz a + qsz b)%nat.
Proof. induction a as [|d a IH]; cbn [app qsz]; auto. rewrite IH. lia. Qed.
Lemma qsz_skipn m q : (qsz (skipn m q) <= qsz q)%nat.
Proof. rewrite <- (firstn_skipn m q) at 2. rewrite qsz_app. lia. Qed.
Lemma qsz_pushq q g b : qsz (pushq q g b) = (qsz q + wsz b)%nat.
Proof. destruct b as [|d b]; cbn [pushq]; [cbn; lia|]. rewrite qsz_app. cbn [qsz snd]. lia. Qed.

Lemma flat_dsz d : flat d -> dsz d = O.
Proof.
  unfold flat, dsz. intros H. destruct (did d <? 0) eqn:E; auto.
  apply Z.ltb_ge in E. rewrite (H E). reflexivity.
Qed.
Lemma flat_wsz ds : Forall flat ds -> wsz ds = O.
Proof. induction 1 as [|d ds Hd _ IH]; cbn [wsz]; auto. rewrite (flat_dsz d Hd), IH. reflexivity. Qed.
Lemma flatq_qsz q : flatq q -> qsz q = O.
Proof. induction 1 as [|bq q Hd _ IH]; cbn [qsz]; auto. rewrite (flat_wsz _ Hd), IH. reflexivity. Qed.

(* ---- number of CFlush commands nested in a body *)
Fixpoint cfl (c : cmd) : nat :=
  match c with
  | CDefer _ body =>
      (fix go (cs : list cmd) : nat := match cs with [] => O | c :: r => (cfl c + go r)%nat end) body
  | CFlush => 1%nat
  | _ => O
  end.
Fixpoint bfl (cs : list cmd) : nat := match cs with [] => O | c :: r => (cfl c + bfl r)%nat end.
Lemma cfl_defer id body : cfl (CDefer id body) = bfl body.
Proof. reflexivity. Qed.
Definition dfl (d : def) : nat := if did d <? 0 then O else bfl (dbody d).
Fixpoint wfl (ds : list def) : nat := match ds with [] => O | d :: r => (dfl d + wfl r)%nat end.
Fixpoint qfl (q : list (Z * list def)) : nat := match q with [] => O | bq :: r => (wfl (snd bq) + qfl r)%nat end.
Lemma wfl_app a b : wfl (a ++ b) = (wfl a + wfl b)%nat.
Proof. induction a as [|d a IH]; cbn [app wfl]; auto. rewrite IH. lia. Qed.
Lemma qfl_app a b : qfl (a ++ b) = (qfl a + qfl b)%nat.
Proof. induction a as [|d a IH]; cbn [app qfl]; auto. rewrite IH. lia. Qed.
Lemma qfl_pushq q g b : qfl (pushq q g b) = (qfl q + wfl b)%nat.
Proof. destruct b as [|d b]; cbn [pushq]; [cbn; lia|]. rewrite qfl_app. cbn [qfl snd]. lia. Qed.
Lemma flat_dfl d : flat d -> dfl d = O.
Proof.
  unfold flat, dfl. intros H. destruct (did d <? 0) eqn:E; auto.
  apply Z.ltb_ge in E. rewrite (H E). reflexivity.
Qed.
Lemma flat_wfl ds : Forall flat ds -> wfl ds = O.
Proof. induction 1 as [|d ds Hd _ IH]; cbn [wfl]; auto. rewrite (flat_dfl d Hd), IH. reflexivity. Qed.
Lemma flatq_qfl q : flatq q -> qfl q = O.
Proof. induction 1 as [|bq q Hd _ IH]; cbn [qfl]; auto. rewrite (flat_wfl _ Hd), IH. reflexivity. Qed.

Lemma pushq_alt q g b : pushq q g b = q ++ pushq [] g b.
Proof. destruct b; cbn [pushq app]; auto. rewrite app_nil_r. reflexivity. Qed.
Lemma pushq_len0 g b : (length (pushq [] g b) + wfl b <= wfl b + 1)%nat.
Proof. destruct b; cbn [pushq length app]; lia. Qed.
Lemma lvq_pushq n q g b : lvq n q -> Forall (lvd n) b -> lvq n (pushq q g b).
Proof. intros Hq Hb. destruct b; cbn [pushq]; auto. apply Forall_app. split; auto. Qed.
Definition epq (g : Z) (q : list (Z * list def)) : Prop := Forall (fun bq => fst bq <= g) q.
Lemma epq_pushq q g b : epq g q -> epq g (pushq q g b).
Proof. intros H. destruct b; cbn [pushq]; auto. apply Forall_app. split; auto. constructor; auto. cbn [fst]. lia. Qed.
Lemma epq_mono g g' q : g <= g' -> epq g q -> epq g' q.
Proof. intros Hg H. eapply Forall_impl; [|exact H]. cbn beta. intros bq Hb. lia. Qed.

(* what a stretch of a collect leaves behind: final bag b', bags A appended to the queue, the
   must_collect flag mc'; bounds on four potentials (room, nested defers, flushes + flag, bags + flushes) *)
Definition post (n : nat) (g' : Z) (b' : list def) (A : list (Z * list def)) (mc' : bool)
    (PL PW PF PX : nat) : Prop :=
  Forall (lvd n) b' /\ lvq n A /\ epq g' A /\
  (length b' + wsz b' + qsz A <= PL)%nat /\ (wsz b' + qsz A <= PW)%nat /\
  (wfl b' + qfl A + Nat.b2n mc' <= PF)%nat /\ (length A + wfl b' + qfl A <= PX)%nat.

Lemma post_comp n g1 b1 A1 mc1 L1 W1 F1 X1 g' b' A2 mc' x y z :
  post n g1 b1 A1 mc1 L1 W1 F1 X1 -> g1 <= g' ->
  post n g' b' A2 mc' (length b1 + wsz b1 + x) (wsz b1 + y) (wfl b1 + z + Nat.b2n mc1) (wfl b1 + z) ->
  post n g' b' (A1 ++ A2) mc' (L1 + x) (W1 + y) (F1 + z) (X1 + z).
Proof.
  unfold post. intros (Hb1 & HA1 & He1 & HL1 & HW1 & HF1 & HX1) Hg (Hb' & HA2 & He2 & HL2 & HW2 & HF2 & HX2).
  rewrite qsz_app, qfl_app, app_length.
  split; [exact Hb'|]. split; [apply Forall_app; split; auto|].
  split; [apply Forall_app; split; auto; eapply epq_mono; eauto|].
  repeat split; lia.
Qed.
Lemma post_weaken n g' b' A mc' L1 W1 F1 X1 L2 W2 F2 X2 :
  post n g' b' A mc' L1 W1 F1 X1 -> (L1 <= L2)%nat -> (W1 <= W2)%nat -> (F1 <= F2)%nat -> (X1 <= X2)%nat ->
  post n g' b' A mc' L2 W2 F2 X2.
Proof. unfold post. intros (Hb1 & HA1 & He1 & HL1 & HW1 & HF1 & HX1) ? ? ? ?. repeat split; auto; lia. Qed.

Section DrainN.
  Variables (s0 : state) (t : nat).
  Hypothesis Ht : (t < length (threads s0))%nat.
  Hypothesis Hidle : forall p, In p (registry s0) -> p <> t ->
    exists lp, getl s0 p = Some lp /\ pinned lp = false.

  Notation L := Build_local.

  (* schedule_collection inside a collect: sets must_collect; re-pins when the guard being dropped is
     the only one *)
  Lemma sched_step q r a sr h b mc ac pe k pg rg g :
    exists a',
      reach t (foc s0 t g q r (L a true true false sr (S h) b mc true ac pe (FSched :: k) pg rg))
              (foc s0 t g q r (L a' true true false sr (S h) b true true ac pe k pg rg)).
  Proof.
    destruct h as [|h].
    - destruct (2 * a + 1 =? 2 * g + 1) eqn:E.
      + exists a. rstep Ht. cbn [andb Nat.eqb].
        ropen Ht; [cbn [andb negb]; unfold edata; lcbn; rewrite E; reflexivity|]. rnorm. apply reach_refl.
      + exists g. rstep Ht. cbn [andb Nat.eqb].
        ropen Ht; [cbn [andb negb]; unfold edata; lcbn; rewrite E; reflexivity|]. rnorm.
        rstep Ht. apply reach_refl.
    - exists a. rstep Ht. cbn [andb Nat.eqb]. apply reach_refl.
  Qed.

  Lemma flush_step q r a sr h b mc ac pe k pg rg g :
    exists a',
      reach t (foc s0 t g q r (L a true true false sr (S h) b mc true ac pe (FFlush0 :: k) pg rg))
              (foc s0 t g (pushq q g b) r (L a' true true false sr (S h) [] true true ac pe k pg rg)).
  Proof.
    destruct b as [|d0 b0].
    - destruct (sched_step q r a sr h [] mc ac pe k pg rg g) as (a' & Hr).
      exists a'. rstep Ht. cbn [pushq]. exact Hr.
    - destruct (sched_step (q ++ [(g, d0 :: b0)]) r a sr h [] mc ac pe k pg rg g) as (a' & Hr).
      exists a'. rstep Ht. rstep Ht. cbn [pushq]. exact Hr.
  Qed.

  Lemma dsz_le d id body : did d = id -> dbody d = body -> (dsz d <= bsz body)%nat /\ (dfl d <= bfl body)%nat.
  Proof. intros <- <-. unfold dsz, dfl. destruct (did d <? 0); lia. Qed.

  (* running a body inside a collect (collecting, one guard, not in a user critical section) *)
  Lemma run_body_fl n r sr pe k pg rg : forall cs h b g a mc ac q,
    bal h cs -> Forall (lvc n) cs -> Forall (lvd n) b -> (length b + wsz b + bsz cs <= cap s0)%nat ->
    exists g' a' mc' ac' b' A, g <= g' /\
      post n g' b' A mc' (length b + wsz b + bsz cs) (wsz b + bsz cs)
           (wfl b + bfl cs + Nat.b2n mc) (wfl b + bfl cs) /\
      reach t (foc s0 t g q r (L a true true false sr (S h) b mc true ac pe (FCmds cs :: k) pg rg))
              (foc s0 t g' (q ++ A) r (L a' true true false sr 1 b' mc' true ac' pe k pg rg)).
  Proof.
    induction cs as [|c0 cs IH]; intros h b g a mc ac q Hbal Hlv Hlb Hroom.
    - cbn [bal] in Hbal. subst h. exists g, a, mc, ac, b, []. split; [lia|]. split.
      { unfold post. cbn [bsz bfl qsz qfl length]. repeat split; auto; try constructor; lia. }
      rstep Ht. rewrite app_nil_r. apply reach_refl.
    - inversion Hlv as [|? ? Hc Hcs]; subst. cbn [bsz bfl] in *.
      destruct c0 as [| | | |id body]; cbn [bal] in Hbal.
      + (* CPin *)
        destruct (IH (S h) b g a mc ac q Hbal Hcs Hlb) as (g' & a' & mc' & ac' & b' & A & Hg' & Hpost & Hr);
          [cbn [csz] in Hroom; lia|].
        exists g', a', mc', ac', b', A. split; [exact Hg'|]. split; [exact Hpost|].
        rstep Ht. cbn [cmd_frames app opcode fst snd]. rstep Ht. exact Hr.
      + (* CUnpin *)
        destruct h as [|h']; [contradiction|].
        destruct (IH h' b g a mc ac q Hbal Hcs Hlb) as (g' & a' & mc' & ac' & b' & A & Hg' & Hpost & Hr);
          [cbn [csz] in Hroom; lia|].
        exists g', a', mc', ac', b', A. split; [exact Hg'|]. split; [exact Hpost|].
        rstep Ht. cbn [cmd_frames app opcode fst snd]. rstep Ht. rstep Ht. exact Hr.
      + (* CFlush *)
        destruct (flush_step q r a sr h b mc ac pe (FCmds cs :: k) pg rg g) as (a1 & Hr1).
        destruct (IH h [] g a1 true ac (pushq q g b) Hbal Hcs) as (g' & a' & mc' & ac' & b' & A & Hg' & Hpost & Hr);
          [constructor|cbn [csz length wsz] in *; lia|].
        exists g', a', mc', ac', b', (pushq [] g b ++ A). split; [exact Hg'|]. split.
        { eapply post_weaken.
          - eapply (post_comp n g [] (pushq [] g b) true (wsz b) (wsz b) (wfl b + 1) (wfl b + 1)); [|exact Hg'|exact Hpost].
            unfold post. rewrite qsz_pushq, qfl_pushq. cbn [length wsz wfl qsz qfl Nat.b2n].
            split; [constructor|]. split; [apply lvq_pushq; [constructor|exact Hlb]|].
            split; [apply epq_pushq; constructor|]. pose proof (pushq_len0 g b). repeat split; lia.
          - cbn [csz]. lia.
          - cbn [csz]. lia.
          - cbn [cfl]. lia.
          - cbn [cfl]. lia. }
        rstep Ht. cbn [cmd_frames app opcode fst snd].
        eapply reach_trans; [exact Hr1|]. rewrite (pushq_alt q g b). rewrite (pushq_alt q g b), <- app_assoc in Hr. exact Hr.
      + (* CRepin *)
        destruct h as [|h']; [contradiction|].
        destruct (IH (S h') b g a mc ac q Hbal Hcs Hlb) as (g' & a' & mc' & ac' & b' & A & Hg' & Hpost & Hr);
          [cbn [csz] in Hroom; lia|].
        exists g', a', mc', ac', b', A. split; [exact Hg'|]. split; [exact Hpost|].
        rstep Ht. cbn [cmd_frames app opcode fst snd]. rstep Ht. rstep Ht. rstep Ht. exact Hr.
      + (* CDefer *)
        rewrite csz_defer in *. rewrite cfl_defer in *. cbn [lvc] in Hc.
        destruct (defer_room s0 t Ht Hidle g q r a true false sr (S h) b mc true ac pe (FCmds cs :: k) pg rg
                    {| did := id; dbody := body; dG := 0; wit := [] |}) as
          (g1 & ac1 & d1 & Hg1 & Hid & Hbody & Hr1); [lia|].
        cbn [did dbody] in Hid, Hbody.
        destruct (dsz_le d1 id body Hid Hbody) as [Hds Hdf].
        destruct (IH h (b ++ [d1]) g1 a mc ac1 q Hbal Hcs) as (g' & a' & mc' & ac' & b' & A & Hg' & Hpost & Hr2).
        { apply Forall_app. split; auto. constructor; auto. unfold lvd. rewrite Hid, Hbody. exact Hc. }
        { rewrite app_length, wsz_app. cbn [length wsz]. lia. }
        exists g', a', mc', ac', b', A. split; [lia|]. split.
        { eapply post_weaken; [exact Hpost| | | |]; rewrite ?app_length, ?wsz_app, ?wfl_app; cbn [length wsz wfl]; lia. }
        rstep Ht. cbn [cmd_frames app opcode fst snd].
        eapply reach_trans; [exact Hr1|]. exact Hr2.
  Qed.

  Lemma run_items_fl n sr pe k pg rg : forall items r b g a mc ac q,
    Forall (lvd (S n)) items -> Forall (lvd n) b -> (length b + wsz b + wsz items <= cap s0)%nat ->
    exists g' a' mc' ac' b' A r', g <= g' /\
      post n g' b' A mc' (length b + wsz b + wsz items) (wsz b + wsz items)
           (wfl b + wfl items + Nat.b2n mc) (wfl b + wfl items) /\
      reach t (foc s0 t g q r (L a true true false sr 1 b mc true ac pe (FRunItems items :: k) pg rg))
              (foc s0 t g' (q ++ A) r' (L a' true true false sr 1 b' mc' true ac' pe k pg rg)).
  Proof.
    induction items as [|d rest IH]; intros r b g a mc ac q Hlv Hlb Hroom.
    - exists g, a, mc, ac, b, [], r. split; [lia|]. split.
      { unfold post. cbn [wsz wfl qsz qfl length]. repeat split; auto; try constructor; lia. }
      rstep Ht. rewrite app_nil_r. apply reach_refl.
    - inversion Hlv as [|? ? Hd Hrest]; subst. cbn [wsz wfl] in *. unfold dsz, dfl in *.
      destruct (did d <? 0) eqn:E.
      + destruct (IH r b g a mc ac q Hrest Hlb) as (g' & a' & mc' & ac' & b' & A & r' & Hg & Hpost & Hr); [lia|].
        exists g', a', mc', ac', b', A, r'. split; [exact Hg|]. split; [exact Hpost|].
        ropen Ht; [rewrite E; reflexivity|]. rnorm. exact Hr.
      + assert (Hb : bal O (dbody d) /\ Forall (lvc n) (dbody d)).
        { unfold lvd in Hd. rewrite lvf_S in Hd. apply Hd. apply Z.ltb_ge. exact E. }
        destruct Hb as [Hbal Hb].
        destruct (run_body_fl n (did d :: r) sr pe (FRunItems rest :: k) pg rg
                    (dbody d) O b g a mc ac q Hbal Hb Hlb) as (g1 & a1 & mc1 & ac1 & b1 & A1 & Hg1 & Hpost1 & Hr1); [lia|].
        pose proof Hpost1 as (Hlb1 & _ & _ & HL1 & _).
        destruct (IH (did d :: r) b1 g1 a1 mc1 ac1 (q ++ A1) Hrest Hlb1)
          as (g' & a' & mc' & ac' & b' & A2 & r' & Hg & Hpost2 & Hr2); [lia|].
        exists g', a', mc', ac', b', (A1 ++ A2), r'. split; [lia|]. split.
        { eapply post_weaken; [eapply post_comp; [exact Hpost1|exact Hg|exact Hpost2]| | | |]; lia. }
        ropen Ht; [rewrite E; reflexivity|]. rnorm.
        eapply reach_trans; [exact Hr1|]. rewrite <- app_assoc in Hr2. exact Hr2.
  Qed.

  (* an expired head bag is popped and all its items run before the next trial *)
  Lemma pop_fl n r sr pe k pg rg j e items g b a mc ac q :
    Forall (lvd (S n)) items -> Forall (lvd n) b -> (length b + wsz b + 1 + wsz items <= cap s0)%nat ->
    expired g e = true ->
    exists g' a' mc' ac' b' A r', g <= g' /\
      post n g' b' A mc' (length b + wsz b + 1 + wsz items) (wsz b + wsz items)
           (wfl b + wfl items + Nat.b2n mc) (wfl b + wfl items) /\
      reach t (foc s0 t g ((e, items) :: q) r (L a true true false sr 1 b mc true ac pe (FCollect23 j :: k) pg rg))
              (foc s0 t g' (q ++ A) r' (L a' true true false sr 1 b' mc' true ac' pe (FCollectPop (S j) :: k) pg rg)).
  Proof.
    intros Hlv Hlb Hroom Hexp.
    destruct (defer_room s0 t Ht Hidle g q r a true false sr 1%nat b mc true ac pe
                (FPopped e items :: FCollectPop (S j) :: k) pg rg node_free)
      as (g1 & ac1 & nf & Hg1 & Hid & Hbody & Hr1); [lia|].
    cbn [did dbody node_free] in Hid, Hbody.
    assert (Hnfsz : dsz nf = O /\ dfl nf = O) by (unfold dsz, dfl; rewrite Hid; split; reflexivity).
    destruct Hnfsz as [Hnf1 Hnf2].
    destruct (run_items_fl n sr pe (FCollectPop (S j) :: k) pg rg items r (b ++ [nf]) g1 a mc ac1 q Hlv)
      as (g' & a' & mc' & ac' & b' & A & r' & Hg & Hpost & Hr2).
    { apply Forall_app. split; auto. constructor; auto. unfold lvd. apply lvf_neg. lia. }
    { rewrite app_length, wsz_app. cbn [length wsz]. lia. }
    exists g', a', mc', ac', b', A, r'. split; [lia|]. split.
    { eapply post_weaken; [exact Hpost| | | |]; rewrite ?app_length, ?wsz_app, ?wfl_app; cbn [length wsz wfl]; lia. }
    ropen Ht; [rewrite Hexp; reflexivity|]. rnorm.
    eapply reach_trans; [exact Hr1|]. rstep Ht. exact Hr2.
  Qed.

  (* the collection loop: up to TR conditional pops; without a pop, the queue was empty or its head
     unexpired.  [A]: bags sealed by flushes inside the bodies that ran. *)
  Lemma collect_loop_fl n sr pe k pg rg : forall n' j g q r b a mc ac,
    (j + n' = TR)%nat -> lvq (S n) q -> Forall (lvd n) b -> (length b + wsz b + n' + qsz q <= cap s0)%nat ->
    exists g' r' b' a' mc' ac' m A, g <= g' /\ (m <= n')%nat /\ (m <= length (q ++ A))%nat /\
      (m = O -> n' = O \/ head_fresh g q) /\
      Forall (lvd n) b' /\ lvq n A /\ epq g' A /\
      (length b' + wsz b' + qsz (skipn m (q ++ A)) <= length b + wsz b + m + qsz q)%nat /\
      (wsz b' + qsz (skipn m (q ++ A)) <= wsz b + qsz q)%nat /\
      (wfl b' + qfl (skipn m (q ++ A)) + Nat.b2n mc' <= wfl b + qfl q + Nat.b2n mc)%nat /\
      (length A + wfl b' + qfl (skipn m (q ++ A)) <= wfl b + qfl q)%nat /\
      reach t (foc s0 t g q r (L a true true false sr 1 b mc true ac pe (FCollectPop j :: k) pg rg))
              (foc s0 t g' (skipn m (q ++ A)) r' (L a' true true false sr 1 b' mc' true ac' pe k pg rg)).
  Proof.
    induction n' as [|n' IH]; intros j g q r b a mc ac Hj Hq Hlb Hcap.
    - exists g, r, b, a, mc, ac, O, []. rewrite app_nil_r. cbn [skipn length].
      split; [lia|]. split; [lia|]. split; [lia|]. split; [auto|]. split; [exact Hlb|].
      split; [constructor|]. split; [constructor|]. repeat (split; [lia|]).
      ropen Ht; [replace (j <? Z.to_nat COLLECTS_TRIALS)%nat with false; [reflexivity|]|].
      { symmetry. apply Nat.ltb_ge. fold TR. lia. }
      rnorm. apply reach_refl.
    - assert (Hlt : (j <? Z.to_nat COLLECTS_TRIALS)%nat = true) by (apply Nat.ltb_lt; fold TR; lia).
      destruct q as [|[e items] q1].
      + exists g, r, b, a, mc, ac, O, []. cbn [app skipn length].
        split; [lia|]. split; [lia|]. split; [lia|]. split; [intros _; right; exact I|]. split; [exact Hlb|].
        split; [constructor|]. split; [constructor|]. repeat (split; [lia|]).
        ropen Ht; [rewrite Hlt; reflexivity|]. rnorm. rstep Ht. apply reach_refl.
      + destruct (expired g e) eqn:Hexp.
        * inversion Hq as [|? ? Hit Hq1]; subst. cbn [snd] in Hit. cbn [qsz qfl snd] in *.
          destruct (pop_fl n r sr pe k pg rg j e items g b a mc ac q1 Hit Hlb) as
            (g1 & a1 & mc1 & ac1 & b1 & A1 & r1 & Hg1 & Hpost1 & Hr1); auto; try lia.
          destruct Hpost1 as (Hlb1 & HA1 & He1 & HL1 & HW1 & HF1 & HX1).
          destruct (IH (S j) g1 (q1 ++ A1) r1 b1 a1 mc1 ac1) as
            (g' & r' & b' & a' & mc' & ac' & m & A2 & Hg' & Hm & Hml & _ & Hlb' & HA2 & He2 & HL2 & HW2 & HF2 & HX2 & Hr2);
            auto; try lia.
          { apply Forall_app. split; auto. apply lvq_mono. exact HA1. }
          { rewrite qsz_app. lia. }
          rewrite qsz_app, qfl_app in *. rewrite <- app_assoc in *.
          exists g', r', b', a', mc', ac', (S m), (A1 ++ A2). cbn [app skipn length].
          split; [lia|]. split; [lia|]. split; [lia|]. split; [intros; discriminate|]. split; [exact Hlb'|].
          split; [apply Forall_app; auto|].
          split; [apply Forall_app; split; auto; eapply epq_mono; eauto|].
          rewrite app_length. repeat (split; [lia|]).
          ropen Ht; [rewrite Hlt; reflexivity|]. rnorm.
          eapply reach_trans; [exact Hr1|]. exact Hr2.
        * exists g, r, b, a, mc, ac, O, []. rewrite app_nil_r. cbn [skipn length].
          split; [lia|]. split; [lia|]. split; [lia|]. split; [intros _; right; exact Hexp|]. split; [exact Hlb|].
          split; [constructor|]. split; [constructor|]. repeat (split; [lia|]).
          ropen Ht; [rewrite Hlt; reflexivity|]. rnorm.
          ropen Ht; [rewrite Hexp; reflexivity|]. rnorm. apply reach_refl.
  Qed.

  Lemma skipn_skipn_app {A} (Y : list A) m2 : forall m1 (X : list A),
    (m1 <= length X)%nat -> skipn m2 (skipn m1 X ++ Y) = skipn (m1 + m2) (X ++ Y).
  Proof.
    induction m1 as [|m1 IH]; intros X H; [reflexivity|].
    destruct X as [|x X]; [cbn [length] in H; lia|]. cbn [length] in H. cbn [skipn app Nat.add].
    apply IH. lia.
  Qed.

  (* the unpin loop: collect while must_collect is set.  Each further iteration needs a flush in
     the previous one, so the number of pending flush commands bounds the iterations. *)
  Lemma unpin_loop_fl n sr pe k pg rg : forall F g q r b mc ac,
    (wfl b + qfl q + Nat.b2n mc <= F)%nat ->
    (length b + wsz b + qsz q + TR * (wfl b + qfl q + Nat.b2n mc) <= cap s0)%nat ->
    lvq (S n) q -> Forall (lvd n) b ->
    exists g' r' b' ac' m A, g <= g' /\
      (mc = true -> g + 1 <= g' /\ (m = O -> head_fresh (g + 1) q)) /\
      Forall (lvd n) b' /\ lvq n A /\ epq g' A /\ (m <= length (q ++ A))%nat /\
      (wsz b' + qsz (skipn m (q ++ A)) <= wsz b + qsz q)%nat /\
      (length A + wfl b' + qfl (skipn m (q ++ A)) <= wfl b + qfl q)%nat /\
      reach t (foc s0 t g q r (L g true true false sr 1 b mc true ac pe (FUnpinLoop :: k) pg rg))
              (foc s0 t g' (skipn m (q ++ A)) r' (L g' true true false sr 1 b' false false ac' pe (FUnpinFin :: k) pg rg)).
  Proof.
    induction F as [|F IH]; intros g q r b mc ac HF Hinv Hq Hlb.
    - destruct mc; [cbn [Nat.b2n] in HF; lia|].
      exists g, r, b, ac, O, []. rewrite app_nil_r. cbn [skipn length].
      split; [lia|]. split; [intros; discriminate|]. split; [exact Hlb|]. split; [constructor|].
      split; [constructor|]. repeat (split; [lia|]). rstep Ht. apply reach_refl.
    - destruct mc.
      2:{ exists g, r, b, ac, O, []. rewrite app_nil_r. cbn [skipn length].
          split; [lia|]. split; [intros; discriminate|]. split; [exact Hlb|]. split; [constructor|].
          split; [constructor|]. repeat (split; [lia|]). rstep Ht. apply reach_refl. }
      cbn [Nat.b2n] in HF, Hinv.
      set (X := (wfl b + qfl q)%nat) in *.
      assert (HTR : (TR * (X + 1) = TR * X + TR)%nat) by lia.
      destruct (collect_loop_fl n sr pe (FUnpinAfter :: k) pg rg TR O (g + 1) q r b g false ac)
        as (g1 & r1 & b1 & a1 & mc1 & ac1 & m1 & A1 & Hg1 & Hm1 & Hml1 & Hstop & Hlb1 & HA1 & He1 & HL1 & HW1 & HF1 & HX1 & Hr1);
        auto; try lia.
      cbn [Nat.b2n] in HF1.
      set (Q1 := skipn m1 (q ++ A1)) in *.
      assert (HQ1 : lvq (S n) Q1).
      { apply Forall_skipn. apply Forall_app. split; auto. apply lvq_mono. exact HA1. }
      assert (HY : (TR * (wfl b1 + qfl Q1 + Nat.b2n mc1) <= TR * X)%nat) by (apply Nat.mul_le_mono_l; unfold X; lia).
      destruct (IH g1 Q1 r1 b1 mc1 ac1) as
        (g' & r' & b' & ac' & m2 & A2 & Hg' & _ & Hlb' & HA2 & He2 & Hml2 & HW2 & HX2 & Hr2); auto; try lia.
      exists g', r', b', ac', (m1 + m2)%nat, (A1 ++ A2).
      subst Q1. rewrite skipn_skipn_app in Hr2, HW2, HX2 by exact Hml1.
      rewrite <- app_assoc in Hr2, HW2, HX2.
      split; [lia|]. split.
      { intros _. split; [lia|]. intros Hm. assert (m1 = O) by lia. destruct (Hstop H) as [H0|H0]; [|exact H0].
        pose proof (TR_pos s0 t Ht). unfold TR in *. lia. }
      split; [exact Hlb'|]. split; [apply Forall_app; auto|].
      split; [apply Forall_app; split; auto; eapply epq_mono; eauto|].
      split.
      { rewrite app_length in Hml2. rewrite skipn_length in Hml2. rewrite !app_length in *. lia. }
      rewrite app_length. split; [lia|]. split; [unfold X in *; lia|].
      rstep Ht. rstep Ht.
      eapply reach_trans; [apply (adv18_succ s0 t Ht Hidle)|]. eapply reach_trans; [exact Hr1|].
      rstep Ht.
      destruct (2 * a1 + 1 =? 2 * g1 + 1) eqn:E.
      + apply Z.eqb_eq in E. assert (a1 = g1) by lia. subst a1.
        ropen Ht; [cbn [andb negb]; unfold edata; lcbn; rewrite Z.eqb_refl; reflexivity|]. rnorm. exact Hr2.
      + ropen Ht; [cbn [andb negb]; unfold edata; lcbn; rewrite E; reflexivity|]. rnorm.
        rstep Ht. exact Hr2.
  Qed.

  (* one full round [CPin; CFlush; CUnpin] of thread t, alone: items of level S n in, level n out;
     [A]: the bags sealed by flushes inside bodies *)
  Lemma round_step_fl n g q r a v i sr b mc ac pe pg rg :
    lvq (S n) q -> Forall (lvd (S n)) b ->
    (qsz q + wsz b + TR * (qfl q + wfl b + 1) <= cap s0)%nat ->
    exists g' r' b' ac' pe' sr' m A, g + 1 <= g' /\ (m = O -> head_fresh (g + 1) (pushq q g b)) /\
      Forall (lvd n) b' /\ lvq n A /\ epq g' A /\ (m <= length (pushq q g b ++ A))%nat /\
      (wsz b' + qsz (skipn m (pushq q g b ++ A)) <= qsz q + wsz b)%nat /\
      (length A + wfl b' + qfl (skipn m (pushq q g b ++ A)) <= qfl q + wfl b)%nat /\
      reach t (foc s0 t g q r (L a false v i sr 0 b mc false ac pe [FOp] (CPin :: CFlush :: CUnpin :: pg) rg))
              (foc s0 t g' (skipn m (pushq q g b ++ A)) r'
                   (L g' false false false sr' 0 b' false false ac' pe' [FOp] pg rg)).
  Proof.
    intros Hq Hb Hcap.
    destruct (round_pin_flush s0 t Ht g q r a v i sr b mc ac pe (CUnpin :: pg) rg) as (ac1 & H1).
    pose proof (lvq_pushq (S n) q g b Hq Hb) as Hq1.
    pose proof (qsz_pushq q g b) as Hsz1. pose proof (qfl_pushq q g b) as Hfl1.
    destruct (unpin_loop_fl n (S sr) (2 * g + 1) [FOpEnd 1; FOp] pg rg (qfl (pushq q g b) + 1) g (pushq q g b) r [] true ac1)
      as (g' & r' & b' & ac' & m & A & Hg & Hstop & Hlb' & HA & He & Hml & HW & HX & H2).
    { cbn [wfl Nat.b2n]. lia. }
    { cbn [length wsz wfl Nat.b2n Nat.add]. rewrite Hsz1, Hfl1. lia. }
    { exact Hq1. }
    { constructor. }
    destruct (Hstop eq_refl) as [Hg1 Hst].
    cbn [wsz wfl Nat.add] in HW, HX.
    exists g', r', b', ac', (2 * g + 1), (S sr), m, A.
    split; [lia|]. split; [exact Hst|]. split; [exact Hlb'|]. split; [exact HA|]. split; [exact He|].
    split; [exact Hml|]. split; [lia|]. split; [lia|].
    eapply reach_trans; [exact H1|].
    rstep Ht. cbn [cmd_frames app opcode fst snd]. rstep Ht. cbn [Nat.eqb andb negb].
    eapply reach_trans; [exact H2|].
    rstep Ht. cbn [Nat.eqb Nat.pred]. rstep Ht. rstep Ht. apply reach_refl.
  Qed.

  (* number of rounds that suffice for items of level <= n; [len] = bags in the queue + pending
     flush commands (each may seal one more bag) *)
  Fixpoint rbound (n len : nat) : nat :=
    match n with O => O | S n' => (len + 3 + rbound n' (len + 2))%nat end.
  Lemma rbound_mono n : forall a b, (a <= b)%nat -> (rbound n a <= rbound n b)%nat.
  Proof.
    induction n as [|n IH]; intros a b H; cbn [rbound]; auto.
    specialize (IH (a + 2)%nat (b + 2)%nat). lia.
  Qed.

  Definition drained (g : Z) (q : list (Z * list def)) (r : list Z) (l : local) : Prop :=
    exists g' q' r' l',
      reach t (foc s0 t g q r l) (foc s0 t g' q' r' l') /\
      sealed_ids q' = [] /\ defs_ids (bag l') = [] /\ prog l' = [] /\ frames l' = [FOp].

  Definition capinv (q : list (Z * list def)) (b : list def) : Prop :=
    (qsz q + wsz b + TR * (qfl q + wfl b + 1) <= cap s0)%nat.
  Lemma capinv_le q b q' b' :
    capinv q b -> (wsz b' + qsz q' <= qsz q + wsz b)%nat -> (wfl b' + qfl q' <= qfl q + wfl b)%nat ->
    capinv q' b'.
  Proof.
    unfold capinv. intros H HW HF.
    assert (TR * (qfl q' + wfl b' + 1) <= TR * (qfl q + wfl b + 1))%nat by (apply Nat.mul_le_mono_l; lia).
    lia.
  Qed.
  Lemma capinv_TR q b : capinv q b -> (TR <= cap s0)%nat.
  Proof.
    unfold capinv. intros H.
    assert (TR * 1 <= TR * (qfl q + wfl b + 1))%nat by (apply Nat.mul_le_mono_l; lia). lia.
  Qed.

  Definition drain_at (n : nat) : Prop :=
    forall k g q r a v i sr b mc ac pe rg,
      lvq n q -> Forall (lvd n) b -> epq g q -> capinv q b ->
      (rbound n (length q + qfl q + wfl b) <= k)%nat ->
      drained g q r (L a false v i sr 0 b mc false ac pe [FOp] (rounds k) rg).

  Lemma drain_at_0 : drain_at 0.
  Proof.
    intros k g q r a v i sr b mc ac pe rg Hq Hb He Hcap Hk.
    pose proof (lvq0_ids q Hq) as Hqi. pose proof (lvds0_ids b Hb) as Hbi.
    assert (Hfq : flatq q).
    { eapply Forall_impl; [|exact Hq]. intros bq H. apply (idfree_flat s0 t Ht). apply lvds0_ids. exact H. }
    destruct (drain_rounds s0 t Ht Hidle (capinv_TR q b Hcap) k O g [] q r a v i sr b mc ac pe rg)
      as (g' & q' & r' & l' & Hr & Hfin); auto.
    exists g', q', r', l'. split; auto.
  Qed.

  Lemma pushq_app old new g b : pushq (old ++ new) g b = old ++ pushq new g b.
  Proof. destruct b; cbn [pushq]; auto. rewrite app_assoc. reflexivity. Qed.
  Lemma pushq_len q g b : (length (pushq q g b) <= length q + 1)%nat.
  Proof. destruct b; cbn [pushq]; [lia|]. rewrite app_length. cbn [length]. lia. Qed.

  (* one phase.  The queue is [old ++ new]: [old] holds items of level S n and every bag of it is
     expired from round d on; [new] and the bag hold items of level n.  Every round pops at least
     one bag of [old] (after round d); when [old] is exhausted the level-n statement applies. *)
  Lemma drain_phase n : drain_at n ->
    forall k d g old new r a v i sr b mc ac pe rg,
    lvq (S n) old -> lvq n new -> Forall (lvd n) b -> capinv (old ++ new) b ->
    Forall (fun bq => fst bq + 2 <= g + Z.of_nat d) old -> epq g new ->
    (length old + d + rbound n (length new + qfl (old ++ new) + wfl b + (length old + d)) <= k)%nat ->
    drained g (old ++ new) r (L a false v i sr 0 b mc false ac pe [FOp] (rounds k) rg).
  Proof.
    intros IHn.
    induction k as [|k IH]; intros d g old new r a v i sr b mc ac pe rg Hold Hnew Hb Hcap Hexp Hle Hk.
    - destruct old as [|x old]; [|cbn [length] in Hk; lia]. cbn [app] in *.
      apply IHn; auto.
      etransitivity; [|exact Hk]. cbn [length]. etransitivity; [|apply Nat.le_add_l].
      apply rbound_mono. lia.
    - destruct old as [|x old1].
      { cbn [app] in *. apply IHn; auto.
        etransitivity; [|exact Hk]. cbn [length]. etransitivity; [|apply Nat.le_add_l].
        apply rbound_mono. lia. }
      set (old := x :: old1) in *.
      assert (Hold1 : (1 <= length old)%nat) by (unfold old; cbn [length]; lia).
      cbn [rounds].
      assert (Hq : lvq (S n) (old ++ new)) by (apply Forall_app; split; auto; apply lvq_mono; auto).
      destruct (round_step_fl n g (old ++ new) r a v i sr b mc ac pe (rounds k) rg Hq (lvds_mono n b Hb) Hcap)
        as (g' & r' & b' & ac' & pe' & sr' & m & A & Hg & Hstop & Hb' & HA & HeA & Hml & HW & HX & Hr).
      rewrite pushq_app in *. rewrite <- app_assoc in *. rewrite skipn_app in Hr, HW, HX.
      set (new1 := pushq new g b) in *.
      assert (Hnew1 : lvq n (new1 ++ A)) by (apply Forall_app; split; auto; apply lvq_pushq; auto).
      assert (Hle1 : epq g' (new1 ++ A)).
      { apply Forall_app; split; auto. eapply epq_mono; [|apply epq_pushq; exact Hle]. lia. }
      assert (Hlen1 : (length new1 <= length new + 1)%nat) by apply pushq_len.
      assert (Hlen' : (length (skipn m old) + pred d + 1 <= length old + d)%nat).
      { rewrite skipn_length. destruct d as [|d]; [|cbn [pred]; lia].
        assert (1 <= m)%nat; [|lia].
        destruct m; [|lia]. specialize (Hstop eq_refl).
        unfold old in Hstop, Hexp. cbn in Hstop. destruct x as [e its].
        inversion Hexp as [|? ? He _]; subst. cbn in He.
        unfold expired in Hstop. rewrite Z.geb_leb in Hstop. apply Z.leb_gt in Hstop.
        unfold EXPIRE_AFTER in *. lia. }
      set (old' := skipn m old) in *. set (new' := skipn (m - length old) (new1 ++ A)) in *.
      assert (Hl2 : (length new' <= length new + 1 + length A)%nat).
      { unfold new'. rewrite skipn_length, app_length. lia. }
      destruct (IH (pred d) g' old' new' r' g' false false sr' b' false ac' pe' rg)
        as (g2 & q2 & r2 & l2 & Hr2 & Hfin); auto.
      + apply Forall_skipn. exact Hold.
      + apply Forall_skipn. exact Hnew1.
      + eapply capinv_le; [exact Hcap| |]; lia.
      + apply Forall_skipn. eapply Forall_impl; [|exact Hexp]. cbn beta. intros bq H. lia.
      + apply Forall_skipn. exact Hle1.
      + pose proof (rbound_mono n (length new' + qfl (old' ++ new') + wfl b' + (length old' + pred d))
                      (length new + qfl (old ++ new) + wfl b + (length old + d)) ltac:(lia)) as Hmono.
        lia.
      + exists g2, q2, r2, l2. split; auto. eapply reach_trans; eauto.
  Qed.

  Lemma drain_at_S n : drain_at n -> drain_at (S n).
  Proof.
    intros IHn k g q r a v i sr b mc ac pe rg Hq Hb He Hcap Hk.
    cbn [rbound] in Hk. destruct k as [|k]; [lia|]. cbn [rounds].
    destruct (round_step_fl n g q r a v i sr b mc ac pe (rounds k) rg Hq Hb Hcap)
      as (g' & r' & b' & ac' & pe' & sr' & m & A & Hg & Hstop & Hb' & HA & HeA & Hml & HW & HX & Hr).
    pose proof (pushq_len q g b) as Hpl.
    pose proof (epq_pushq q g b He) as Hpe.
    pose proof (lvq_pushq (S n) q g b Hq Hb) as Hpf.
    rewrite skipn_app in Hr, HW, HX.
    set (old' := skipn m (pushq q g b)) in *. set (new' := skipn (m - length (pushq q g b)) A) in *.
    assert (Hl1 : (length old' <= length q + 1)%nat) by (unfold old'; rewrite skipn_length; lia).
    assert (Hl2 : (length new' <= length A)%nat) by (unfold new'; rewrite skipn_length; lia).
    destruct (drain_phase n IHn k 1 g' old' new' r' g' false false sr' b' false ac' pe' rg)
      as (g2 & q2 & r2 & l2 & Hr2 & Hfin); auto.
    - apply Forall_skipn. exact Hpf.
    - apply Forall_skipn. exact HA.
    - eapply capinv_le; [exact Hcap| |]; lia.
    - apply Forall_skipn. eapply Forall_impl; [|exact Hpe]. cbn beta. intros bq H. lia.
    - apply Forall_skipn. exact HeA.
    - pose proof (rbound_mono n (length new' + qfl (old' ++ new') + wfl b' + (length old' + 1))
                    (length q + qfl q + wfl b + 2) ltac:(lia)) as Hmono.
      lia.
    - exists g2, q2, r2, l2. split; auto. eapply reach_trans; eauto.
  Qed.

  Theorem drain_all n : drain_at n.
  Proof. induction n as [|n IH]; [apply drain_at_0|apply drain_at_S; exact IH]. Qed.
End DrainN.

(* C15, progress part, nested functions.  Same situation as [C15_drain]: thread t is between
   operations, unpinned, about to run k rounds of [pin; flush; unpin]; every other registered
   participant is unpinned and stays put; the other threads hold no deferred function.
   Every pending function (in t's bag or in the global queue) has nesting depth <= d; bodies are
   (recursively) made of defer and flush commands and balanced pin/unpin (repin under a body-level
   pin).  The bag capacity excludes overflow: with D = number of defer commands and F = number of
   flush commands nested in pending functions, D + TR * (F + 1) <= cap.
   If k >= rbound (S d) (length (sealed s) + F) then after some number of micro transitions of t
   nothing is held any more, and [ran] is a permutation of all the ids of s (state_ids counts the
   ids of nested defers too): every function, including those created along the way, ran exactly once. *)
Theorem C15_drain_nested s t l k d :
  WF s -> getl s t = Some l ->
  (forall p, In p (registry s) -> p <> t -> exists lp, getl s p = Some lp /\ pinned lp = false) ->
  (forall p lp, getl s p = Some lp -> p <> t -> local_ids lp = []) ->
  (qsz (sealed s) + wsz (bag l) + TR * (qfl (sealed s) + wfl (bag l) + 1) <= cap s)%nat ->
  frames l = [FOp] -> prog l = rounds k -> pinned l = false -> gcnt l = 0%nat -> collecting l = false ->
  Forall (depth_le d) (bag l) -> Forall (fun bq => Forall (depth_le d) (snd bq)) (sealed s) ->
  Forall (fun bq => fst bq <= G s) (sealed s) ->
  (rbound (S d) (length (sealed s) + qfl (sealed s) + wfl (bag l)) <= k)%nat ->
  exists n, held_ids (miter n s t) = [] /\ Permutation (ran (miter n s t)) (state_ids s).
Proof.
  intros Hw Hl Hidle Hoth Hcap Hf Hp Hpin Hgc Hco Hb Hq He Hk.
  pose proof (getl_lt _ _ _ Hl) as Ht.
  destruct l as [a p v i sr gc b mc co ac pe fs pg rg]; cbn in Hf, Hp, Hpin, Hgc, Hco, Hb, Hcap, Hk; subst.
  destruct (drain_all s t Ht Hidle (S d) k (G s) (sealed s) (ran s) a v i sr b mc ac pe rg Hq Hb He Hcap Hk)
    as (g' & q' & r' & l' & Hr & Hq' & Hb' & Hp' & Hf').
  rewrite <- (foc_self s t _ Hl) in Hr. destruct Hr as [n Hn]. exists n.
  assert (Hheld : held_ids (miter n s t) = []).
  { rewrite Hn. unfold held_ids, foc; cbn [threads sealed]. rewrite Hq', app_nil_r.
    apply threads_ids_set_nth_nil; auto.
    unfold local_ids. rewrite Hp', Hf', Hb'. reflexivity. }
  split; auto.
  destruct (reach_conserves t s (miter n s t) Hw (ex_intro _ n eq_refl)) as [_ P].
  unfold state_ids at 1 in P. rewrite Hheld in P. exact P.
Qed.
Print Assumptions C15_drain_nested.

(* [C15_drain] (flat functions, k >= length (sealed s) + 3) is the instance d = 0 *)
Lemma rbound_1 len : rbound 1 len = (len + 3)%nat.
Proof. cbn [rbound]. lia. Qed.

Corollary C15_drain_from_nested s t l k :
  WF s -> getl s t = Some l ->
  (forall p, In p (registry s) -> p <> t -> exists lp, getl s p = Some lp /\ pinned lp = false) ->
  (forall p lp, getl s p = Some lp -> p <> t -> local_ids lp = []) ->
  (TR <= cap s)%nat ->
  frames l = [FOp] -> prog l = rounds k -> pinned l = false -> gcnt l = 0%nat -> collecting l = false ->
  Forall flat (bag l) -> flatq (sealed s) -> Forall (fun bq => fst bq <= G s) (sealed s) ->
  (length (sealed s) + 3 <= k)%nat ->
  exists n, held_ids (miter n s t) = [] /\ Permutation (ran (miter n s t)) (state_ids s).
Proof.
  intros Hw Hl Hidle Hoth Hcap Hf Hp Hpin Hgc Hco Hb Hq He Hk.
  apply (C15_drain_nested s t l k O); auto.
  - rewrite (flatq_qsz _ Hq), (flat_wsz _ Hb), (flatq_qfl _ Hq), (flat_wfl _ Hb). cbn [Nat.add]. lia.
  - eapply Forall_impl; [|exact Hb]. apply flat_depth0.
  - eapply Forall_impl; [|exact Hq]. intros bq H. eapply Forall_impl; [|exact H]. apply flat_depth0.
  - rewrite (flatq_qfl _ Hq), (flat_wfl _ Hb), rbound_1. lia.
Qed.
Print Assumptions C15_drain_from_nested.

(* the hypotheses of [C15_drain_nested] are satisfiable: a reachable state of a one-thread program
   whose bag holds function 1 of nesting depth 2, with flushes and guards inside bodies *)
Module NestedDemo.
  (* function 1 defers 2 (under a body-level guard, followed by a repin), flushes, defers 4;
     function 2 flushes and defers 3 *)
  Definition body1 := [CPin; CDefer 2 [CFlush; CDefer 3 []]; CRepin; CUnpin; CFlush; CDefer 4 []].
  Definition s0 := init_state 64 0 [[CPin; CDefer 1 body1; CUnpin] ++ rounds 21].
  Definition s8 := Eval vm_compute in srun s0 (repeat 0%nat 8).
  Lemma s8_reachable : s8 = srun s0 (repeat 0%nat 8).
  Proof. vm_compute. reflexivity. Qed.
  Definition f1 : def := {| did := 1; dbody := body1; dG := 0; wit := [(0%nat, 1%nat)] |}.

  Lemma f1_depth : depth_le 2 f1.
  Proof.
    unfold depth_le, lvd, f1, body1; cbn [did dbody].
    repeat first [ rewrite lvf_S; intros _; split; [cbn [bal]; try reflexivity|]
                 | constructor | progress cbn [lvc] | exact I ].
  Qed.

  Example nested_demo :
    exists n, held_ids (miter n s8 0) = [] /\ Permutation (ran (miter n s8 0)) [1; 2; 3; 4].
  Proof.
    assert (Hl : exists l, getl s8 0 = Some l /\ frames l = [FOp] /\ prog l = rounds 21 /\ pinned l = false /\
                  gcnt l = 0%nat /\ collecting l = false /\ bag l = [f1] /\
                  (qsz (sealed s8) + wsz (bag l) + TR * (qfl (sealed s8) + wfl (bag l) + 1) <= cap s8)%nat /\
                  (rbound 3 (length (sealed s8) + qfl (sealed s8) + wfl (bag l)) <= 21)%nat).
    { vm_compute. eexists. split; [reflexivity|]. repeat split; auto; try lia. }
    destruct Hl as (l & Hl & Hf & Hp & Hpin & Hgc & Hco & Hb & Hcap & Hk).
    change [1; 2; 3; 4] with (state_ids s8).
    apply (C15_drain_nested s8 0%nat l 21 2); try assumption.
    - rewrite s8_reachable. apply srun_conserves, init_WF.
    - intros p Hp0 Hne. assert (p = 1%nat) by (vm_compute in Hp0; intuition congruence). subst p.
      vm_compute. eexists; split; reflexivity.
    - intros [|[|p]] lp H Hne; try congruence; vm_compute in H; [inversion H; reflexivity|].
      destruct p; discriminate.
    - rewrite Hb. constructor; [exact f1_depth|constructor].
    - vm_compute. constructor.
    - vm_compute. constructor.
  Qed.
End NestedDemo.
Print Assumptions NestedDemo.nested_demo.
