(* GuardSeqT.v -- termination and overflow bounds for the model GuardSeq.v: the two outcomes
   C20_no_stuck_codes leaves open (guard_count overflow, fuel of the `while must_collect` loop)
   cannot occur for programs of size < 2^18 when MAX_OBJECTS >= 2.  No axioms. *)
From Coq Require Import ZArith List Bool Lia.
Import ListNotations.
Require Import GuardSeq GuardSeqP.
Local Open Scope Z_scope.

(* ------------------------------------------------------------------------------------------ *)
(* Sizes                                                                                      *)
(* ------------------------------------------------------------------------------------------ *)
Section Sum.
  Variable A : Type.
  Variable f : A -> Z.
  Fixpoint sum_with (l : list A) : Z :=
    match l with [] => 0 | x :: r => f x + sum_with r end.
  Lemma sum_with_app : forall a b, sum_with (a ++ b) = sum_with a + sum_with b.
  Proof. induction a; simpl; intros; [lia | rewrite IHa; lia]. Qed.
End Sum.
Arguments sum_with {A} f l.

(* number of operations of a program, closure bodies included *)
Fixpoint osize (o : op) : Z :=
  match o with
  | Defer _ _ b => 1 + sum_with osize b
  | _ => 1
  end.
Definition bsize (l : list op) : Z := sum_with osize l.
Definition cw (c : clo) : Z := bsize (cbody c).
Definition wsum (l : list clo) : Z := sum_with cw l.

Lemma osize_pos : forall o, 1 <= osize o.
Proof.
  fix IH 1. destruct o; try (simpl; lia).
  change (1 <= 1 + sum_with osize body).
  assert (0 <= sum_with osize body).
  { clear - IH. induction body as [|a r IHr]; simpl; [lia|]. pose proof (IH a). lia. }
  lia.
Qed.

Lemma bsize_nonneg : forall l, 0 <= bsize l.
Proof. induction l; simpl; [lia|]. pose proof (osize_pos a). unfold bsize in *. simpl. lia. Qed.

Lemma cw_nonneg : forall c, 0 <= cw c.
Proof. intros. apply bsize_nonneg. Qed.

Lemma wsum_nonneg : forall l, 0 <= wsum l.
Proof. induction l; simpl; [lia|]. pose proof (cw_nonneg a). unfold wsum in *. simpl. lia. Qed.

Lemma wsum_app : forall a b, wsum (a ++ b) = wsum a + wsum b.
Proof. intros. apply sum_with_app. Qed.

Lemma wsum_cons : forall c r, wsum (c :: r) = cw c + wsum r.
Proof. reflexivity. Qed.

Lemma bsize_cons : forall o r, bsize (o :: r) = osize o + bsize r.
Proof. reflexivity. Qed.

(* the potential of the collection loop *)
Definition phi (s : state) : Z := 4 * len (sealed s) + 3 * len (bag s) + 4 * wsum (pend s).

Lemma phi_nonneg : forall s, 0 <= phi s.
Proof.
  intros. unfold phi, len. pose proof (wsum_nonneg (pend s)). lia.
Qed.

(* ------------------------------------------------------------------------------------------ *)
(* Primitives                                                                                 *)
(* ------------------------------------------------------------------------------------------ *)
Definition full (s : state) : bool := maxobj s <=? len (bag s).

Lemma defer_sealed_bag : forall s c,
  sealed (defer_ s c) = (if full s then sealed s ++ [(GuardSeq.G s, bag s)] else sealed s) /\
  bag (defer_ s c) = (if full s then [] else bag s) ++ [c] /\
  maxobj (defer_ s c) = maxobj s /\ gc (defer_ s c) = gc s.
Proof.
  intros. unfold full, len, defer_, incr_advance, try_advance, schedule_collection,
    repin_without_collect, push_bag.
  destruct (maxobj s <=? Z.of_nat (length (bag s))); cbn [collecting gc set_must_collect set_bag set_sealed];
    destruct (collecting s && (gc s =? 1)); cbn -[Z.modulo Z.add];
    repeat match goal with |- context [if ?b then _ else _] => destruct b end; auto.
Qed.

Lemma flush_sealed_bag : forall s,
  sealed (flush s) = sealed s ++ match bag s with [] => [] | _ :: _ => [(GuardSeq.G s, bag s)] end /\
  bag (flush s) = [] /\ maxobj (flush s) = maxobj s /\ gc (flush s) = gc s.
Proof.
  intros. unfold flush. rewrite push_to_global_eq. unfold schedule_collection, repin_without_collect, ptg_nf.
  cbn [collecting gc set_must_collect set_bag set_sealed].
  destruct (collecting s && (gc s =? 1)); auto.
Qed.

Lemma phi_flush : forall s, phi (flush s) <= phi s + 1.
Proof.
  intros. unfold phi. rewrite (q_pend _ quiet_flush).
  destruct (flush_sealed_bag s) as (A & B & _). rewrite A, B.
  unfold len. destruct (bag s); simpl length; rewrite app_length; simpl length; lia.
Qed.

Lemma phi_defer : forall s c, 2 <= maxobj s -> phi (defer_ s c) <= phi s + 4 * cw c + 3.
Proof.
  intros s c Hm. unfold phi. rewrite (d_pend _ _ (deferlike_defer c)).
  destruct (defer_sealed_bag s c) as (A & B & _). rewrite A, B, wsum_app.
  unfold full, len in *. destruct (maxobj s <=? Z.of_nat (length (bag s))) eqn:E; zify_b;
    rewrite ?app_length; unfold wsum; cbn [length app sum_with]; lia.
Qed.

Lemma phi_ext : forall s s', sealed s' = sealed s -> bag s' = bag s -> phi s' = phi s.
Proof. intros. unfold phi, pend. rewrite H, H0. reflexivity. Qed.

Lemma pend_ext : forall s s', sealed s' = sealed s -> bag s' = bag s -> pend s' = pend s.
Proof. intros. unfold pend. rewrite H, H0. reflexivity. Qed.

(* ------------------------------------------------------------------------------------------ *)
(* The numeric chain                                                                          *)
(* ------------------------------------------------------------------------------------------ *)
Definition nres {A} (r : res A) (Q : A -> Prop) : Prop :=
  match r with Ok a => Q a | Err c => ~ allowed c end.

Lemma nres_bind : forall A B (r : res A) (f : A -> res B) (Qo Qn : A -> Prop) (Q' : B -> Prop),
  okres r Qo -> nres r Qn -> (forall a, Qo a -> Qn a -> nres (f a) Q') -> nres (bind r f) Q'.
Proof. intros. destruct r; simpl in *; auto. Qed.

Lemma nres_weaken : forall A (r : res A) (Q Q' : A -> Prop),
  nres r Q -> (forall a, Q a -> Q' a) -> nres r Q'.
Proof. intros. destruct r; simpl in *; auto. Qed.

Lemma both : forall A (r : res A) (Qo Qn : A -> Prop),
  okres r Qo -> nres r Qn -> exists a, r = Ok a /\ Qo a /\ Qn a.
Proof. intros. destruct r; simpl in *; [eauto | contradiction]. Qed.

Definition num_post (s : state) (before after : Z) (s' : state) : Prop :=
  gc s' + after <= gc s + before /\
  wsum (pend s') + after <= wsum (pend s) + before /\
  phi s' + 4 * after <= phi s + 4 * before.

Lemma MAXC_pos : 0 < MAXC. Proof. reflexivity. Qed.

Lemma gstep_num : forall u extra s lg o r,
  u_ok u -> inside extra s -> 1 <= gc s - len lg -> body_ok (length lg) (o :: r) = true ->
  2 <= maxobj s -> gc s + bsize (o :: r) < MAXC ->
  nres (gstep u s lg o) (fun p => num_post s (bsize (o :: r)) (bsize r) (fst p)).
Proof.
  intros u extra s lg o r [U1 U2] I G B Hm Hb. unfold len in *.
  assert (C : collecting s = true) by apply I.
  pose proof (bsize_nonneg r) as Hr.
  rewrite bsize_cons in *.
  simpl in B. apply andb_prop in B. destruct B as [D B].
  destruct o; simpl in B; zify_b; try discriminate; cbn [osize] in *.
  - (* Cs *)
    unfold gstep. rewrite pin_eq. destruct (MAXC <=? gc s) eqn:E; zify_b; [lia|].
    unfold bind, nres, fst, num_post.
    rewrite (phi_ext s) by reflexivity. rewrite (pend_ext s) by reflexivity.
    change (gc (set_nextg (nextg (pin_nf s) + 1) (pin_nf s))) with (gc s + 1). lia.
  - (* DropGuard *)
    unfold gstep. destruct (nth_error_lt _ i lg H) as [x ->].
    rewrite U1 by (auto; lia). unfold bind, nres, fst, num_post.
    rewrite (phi_ext s) by reflexivity. rewrite (pend_ext s) by reflexivity.
    change (gc (set_gc (gc s - 1) s)) with (gc s - 1). lia.
  - (* Reactivate *)
    unfold gstep. destruct (nth_error_lt _ i lg H) as [x ->].
    unfold repin_with. rewrite U1 by (auto; cbn [gc acquire_handle set_hc]; lia).
    unfold bind at 2. rewrite pin_eq.
    change (gc (set_gc (gc (acquire_handle s) - 1) (acquire_handle s))) with (gc s - 1).
    destruct (MAXC <=? gc s - 1) eqn:E; zify_b; [lia|].
    unfold bind at 2. unfold release_handle_with.
    match goal with |- context [gc (pin_nf ?x) =? 0] => change (gc (pin_nf x)) with (gc s - 1 + 1) end.
    destruct (gc s - 1 + 1 =? 0) eqn:E2; zify_b; [lia|]. cbn [andb].
    unfold bind, nres, fst, num_post.
    rewrite (phi_ext s) by reflexivity. rewrite (pend_ext s) by reflexivity.
    match goal with |- gc ?x + _ <= _ /\ _ => change (gc x) with (gc s - 1 + 1) end. lia.
  - (* ReactivateAfter *)
    unfold gstep. destruct (nth_error_lt _ i lg H) as [x ->].
    unfold reactivate_after_with. rewrite U1 by (auto; cbn [gc acquire_handle set_hc]; lia).
    unfold bind at 2. rewrite pin_eq.
    change (gc (set_gc (gc (acquire_handle s) - 1) (acquire_handle s))) with (gc s - 1).
    destruct (MAXC <=? gc s - 1) eqn:E; zify_b; [lia|].
    unfold bind at 2. unfold release_handle_with.
    match goal with |- context [gc (pin_nf ?x) =? 0] => change (gc (pin_nf x)) with (gc s - 1 + 1) end.
    destruct (gc s - 1 + 1 =? 0) eqn:E2; zify_b; [lia|]. cbn [andb].
    unfold bind, nres, fst, num_post.
    rewrite (phi_ext s) by reflexivity. rewrite (pend_ext s) by reflexivity.
    match goal with |- gc ?x + _ <= _ /\ _ => change (gc x) with (gc s - 1 + 1) end. lia.
  - (* Flush *)
    unfold gstep. destruct (nth_error_lt _ i lg H) as [x ->].
    unfold nres, fst, num_post. pose proof (phi_flush s).
    rewrite (q_pend _ quiet_flush), (q_gc _ quiet_flush). lia.
  - (* Defer *)
    unfold gstep. destruct (nth_error_lt _ i lg H) as [x ->].
    unfold nres, fst, num_post. pose proof (phi_defer s (Clo id body) Hm).
    pose proof (deferlike_defer (Clo id body)) as Q.
    rewrite (d_pend _ _ Q), (d_gc _ _ Q), wsum_app.
    unfold wsum at 2. cbn [sum_with]. unfold cw in *. cbn [cbody] in *.
    fold (bsize body) in *. pose proof (bsize_nonneg body). lia.
  - (* Probe *)
    unfold gstep, nres, fst, num_post.
    rewrite (phi_ext s) by reflexivity. rewrite (pend_ext s) by reflexivity.
    match goal with |- gc ?x + _ <= _ /\ _ => change (gc x) with (gc s) end. lia.
Qed.

Lemma run_body_num : forall u extra, u_ok u -> forall ops s lg,
  inside extra s -> 1 <= gc s - len lg -> body_ok (length lg) ops = true ->
  2 <= maxobj s -> gc s + bsize ops < MAXC ->
  nres (run_body u s lg ops) (fun p => num_post s (bsize ops) 0 (fst p)).
Proof.
  intros u extra U. induction ops as [|o r IH]; intros s lg I G B Hm Hb.
  - simpl. unfold num_post. simpl. lia.
  - simpl run_body.
    eapply nres_bind.
    + apply (gstep_inside u extra s lg o r); auto.
    + apply (gstep_num u extra s lg o r); auto.
    + intros [s1 lg1] [(I1 & C1 & G1) B1] (N1 & N2 & N3). cbn [fst snd] in *.
      destruct (core_frame _ _ C1) as (F1 & _). destruct (frame_inv _ _ F1) as (_ & _ & _ & _ & Fm & _).
      eapply nres_weaken.
      * apply IH; auto; try lia.
      * intros [s2 lg2] (M1 & M2 & M3). unfold num_post in *. cbn [fst] in *. lia.
Qed.

Lemma drop_all_num : forall u extra, u_ok u -> forall lg s,
  inside extra s -> 1 <= gc s - len lg ->
  nres (drop_all u s lg) (fun s' => phi s' = phi s /\ pend s' = pend s).
Proof.
  intros u extra [U1 U2]. induction lg as [|g r IH]; intros s I G; unfold len in *; simpl length in *.
  - simpl. auto.
  - simpl. rewrite U1 by (try apply I; lia). unfold bind.
    eapply nres_weaken; [apply IH|].
    + eapply inside_ext; [..|exact I]; reflexivity.
    + change (gc (set_gc (gc s - 1) s)) with (gc s - 1). lia.
    + intros s' (A & B). rewrite A, B. split; [apply phi_ext | apply pend_ext]; reflexivity.
Qed.

Lemma run_clo_num : forall u extra c s, u_ok u ->
  inside (c :: extra) s -> 1 <= gc s -> 2 <= maxobj s -> gc s + cw c < MAXC ->
  nres (run_clo u s c) (fun s' => wsum (pend s') <= wsum (pend s) + cw c /\ phi s' <= phi s + 4 * cw c).
Proof.
  intros u extra c s U I G Hm Hb. unfold run_clo.
  assert (K : clo_ok c) by (destruct I as (_ & _ & _ & _ & E); inversion E; auto).
  set (s0 := set_log (cid c :: log s) s).
  assert (I0 : inside extra s0) by (apply inside_log; auto).
  eapply nres_bind.
  - apply (run_body_inside u extra U (cbody c) s0 []); auto.
    unfold len; simpl; lia.
  - apply (run_body_num u extra U (cbody c) s0 []); auto.
    unfold len; simpl; lia.
  - intros [s1 lg1] (I1 & C1 & G1) (N1 & N2 & N3). cbn [fst snd] in *.
    eapply nres_weaken.
    + apply (drop_all_num u extra U lg1 s1); auto.
      unfold len in *; simpl in *. change (gc s0) with (gc s) in G1. lia.
    + intros s' (A & B). rewrite A, B.
      rewrite (phi_ext s s0) in N3 by reflexivity. rewrite (pend_ext s s0) in N2 by reflexivity.
      unfold cw. lia.
Qed.

Lemma run_bag_num : forall u extra, u_ok u -> forall b s,
  inside (b ++ extra) s -> 1 <= gc s -> 2 <= maxobj s -> gc s + wsum b < MAXC ->
  nres (run_bag u s b) (fun s' => wsum (pend s') <= wsum (pend s) + wsum b /\ phi s' <= phi s + 4 * wsum b).
Proof.
  intros u extra U. induction b as [|c r IH]; intros s I G Hm Hb.
  - simpl. unfold wsum; simpl. lia.
  - simpl run_bag. rewrite wsum_cons in Hb.
    pose proof (wsum_nonneg r). pose proof (cw_nonneg c).
    eapply nres_bind.
    + apply (run_clo_inside u (r ++ extra) c s U); auto.
    + apply (run_clo_num u (r ++ extra) c s U); auto. lia.
    + intros s1 (I1 & C1 & G1) (N1 & N2). cbn beta.
      destruct (core_frame _ _ C1) as (F1 & _). destruct (frame_inv _ _ F1) as (_ & _ & _ & _ & Fm & _).
      eapply nres_weaken.
      * apply IH; auto; lia.
      * intros s2 (M1 & M2). rewrite wsum_cons. lia.
Qed.

Lemma pop_num : forall s e b rest, sealed s = (e, b) :: rest -> 2 <= maxobj s ->
  let sp := defer_ (set_sealed rest s) node_clo in
  wsum (pend sp) + wsum b = wsum (pend s) /\ phi sp + 4 * wsum b + 1 <= phi s.
Proof.
  intros s e b rest E Hm sp.
  pose proof (phi_defer (set_sealed rest s) node_clo Hm) as P. fold sp in P.
  pose proof (deferlike_defer node_clo) as Q.
  assert (Hp : pend sp = pend (set_sealed rest s) ++ [node_clo]) by apply (d_pend _ _ Q).
  assert (Hq : pend s = b ++ pend (set_sealed rest s)).
  { unfold pend. rewrite E. simpl. rewrite app_assoc. reflexivity. }
  split.
  - rewrite Hp, Hq, !wsum_app. unfold wsum at 2. simpl. unfold cw, bsize. simpl. lia.
  - assert (phi (set_sealed rest s) + 4 + 4 * wsum b = phi s).
    { unfold phi. rewrite Hq, wsum_app. simpl sealed. simpl bag. rewrite E.
      unfold len. simpl length. lia. }
    change (cw node_clo) with 0 in P. lia.
Qed.

Lemma trials_num : forall u, u_ok u -> forall n s,
  inside [] s -> 1 <= gc s -> 2 <= maxobj s -> gc s + wsum (pend s) < MAXC ->
  nres (trials u n s) (fun s' => (s' = s \/ phi s' + 1 <= phi s) /\ wsum (pend s') <= wsum (pend s)).
Proof.
  intros u U. induction n as [|n IH]; intros s I Hg Hm Hb.
  - simpl. split; [left; reflexivity | lia].
  - simpl. destruct (sealed s) as [|[e b] rest] eqn:E; [simpl; split; [left; reflexivity | lia]|].
    destruct (RECLAIM_AGE <=? GuardSeq.G s - e); [|simpl; split; [left; reflexivity | lia]].
    pose proof (deferlike_defer node_clo) as Q.
    destruct (pop_num s e b rest E Hm) as (P1 & P2).
    set (sp := defer_ (set_sealed rest s) node_clo) in *.
    assert (Isp : inside (b ++ []) sp).
    { apply (inside_deferlike node_clo (fun s => defer_ s node_clo)); auto.
      - apply clo_ok_node.
      - eapply inside_pop; eauto. }
    assert (Gsp : gc sp = gc s) by (unfold sp; rewrite (d_gc _ _ Q); reflexivity).
    assert (Msp : maxobj sp = maxobj s).
    { unfold sp. destruct (core_frame _ _ (d_core _ _ Q (set_sealed rest s))) as (F & _).
      destruct (frame_inv _ _ F) as (_ & _ & _ & _ & Fm & _). exact Fm. }
    pose proof (wsum_nonneg (pend sp)). pose proof (wsum_nonneg b).
    eapply nres_bind.
    + apply (run_bag_inside u [] U b sp); auto. lia.
    + apply (run_bag_num u [] U b sp); auto; lia.
    + intros s1 (I1 & C1 & G1) (N1 & N2). cbn beta.
      destruct (core_frame _ _ C1) as (F1 & _). destruct (frame_inv _ _ F1) as (_ & _ & _ & _ & Fm & _).
      eapply nres_weaken.
      * apply IH; auto; lia.
      * intros s2 ([-> | M1] & M2); split; try lia; right; lia.
Qed.

Lemma collect_num : forall u s, u_ok u -> inside [] s -> 1 <= gc s -> 2 <= maxobj s ->
  gc s + wsum (pend s) < MAXC -> must_collect s = false ->
  nres (collect u s) (fun s' => (must_collect s' = false \/ phi s' + 1 <= phi s) /\
                                phi s' <= phi s /\ wsum (pend s') <= wsum (pend s)).
Proof.
  intros u s U I Hg Hm Hb Hc. unfold collect.
  set (s0 := try_advance (set_pinc 0 (set_manc 0 s))).
  pose proof quiet_try_advance as Q.
  assert (I0 : inside [] s0).
  { apply inside_quiet; [exact Q|]. eapply inside_ext; [..|exact I]; reflexivity. }
  assert (G0 : gc s0 = gc s) by (unfold s0; rewrite (q_gc _ Q); reflexivity).
  assert (P0 : pend s0 = pend s) by (unfold s0; rewrite (q_pend _ Q); reflexivity).
  assert (S0 : sealed s0 = sealed s /\ bag s0 = bag s /\ maxobj s0 = maxobj s /\ must_collect s0 = must_collect s).
  { unfold s0, try_advance. destruct (_ || _); auto. }
  destruct S0 as (S1 & S2 & S3 & S4).
  assert (F0 : phi s0 = phi s) by (apply phi_ext; auto).
  eapply nres_weaken.
  - apply trials_num; auto; try lia. rewrite G0, P0. exact Hb.
  - intros s' ([-> | M1] & M2).
    + split; [left; congruence | split; [lia | rewrite P0; lia]].
    + split; [right; lia | split; [lia | rewrite <- P0; lia]].
Qed.

Lemma coll_loop_num : forall u, u_ok u -> forall k s, inside [] s -> 1 <= gc s -> 2 <= maxobj s ->
  gc s + wsum (pend s) < MAXC -> phi s + 1 <= Z.of_nat k ->
  nres (coll_loop u k s) (fun s' => phi s' <= phi s /\ wsum (pend s') <= wsum (pend s)).
Proof.
  intros u U. induction k as [|k IH]; intros s I Hg Hm Hb Hk.
  - pose proof (phi_nonneg s). simpl in Hk. lia.
  - simpl coll_loop. destruct (must_collect s) eqn:M; [|simpl; lia].
    set (s0 := set_must_collect false s).
    assert (I0 : inside [] s0) by (eapply inside_ext; [..|exact I]; reflexivity).
    eapply nres_bind.
    + apply (collect_inside u s0); auto.
    + apply (collect_num u s0); auto.
    + intros s1 (I1 & C1 & G1) (N1 & N2 & N3). cbn beta.
      change (phi s0) with (phi s) in *. change (pend s0) with (pend s) in *.
      change (gc s0) with (gc s) in *.
      destruct (core_frame _ _ C1) as (F1 & _). destruct (frame_inv _ _ F1) as (_ & _ & _ & _ & Fm & _).
      change (maxobj s0) with (maxobj s) in Fm.
      set (s2 := repin_without_collect s1).
      assert (I2 : inside [] s2).
      { destruct I1 as (A & B & C & D & E). unfold inside, cons_x, PO in *.
        change (pend s2) with (pend s1). auto. }
      destruct N1 as [N1 | N1].
      * (* nothing was popped: the loop stops here whatever the fuel *)
        assert (Z : coll_loop u k s2 = Ok s2).
        { destruct k; simpl; change (must_collect s2) with (must_collect s1); rewrite N1; reflexivity. }
        rewrite Z. simpl. change (phi s2) with (phi s1). change (pend s2) with (pend s1). lia.
      * eapply nres_weaken.
        { apply IH; auto.
          - change (gc s2) with (gc s1). lia.
          - change (maxobj s2) with (maxobj s1). lia.
          - change (gc s2) with (gc s1). change (pend s2) with (pend s1). lia.
          - change (phi s2) with (phi s1). lia. }
        { intros s3 (A & B). change (phi s2) with (phi s1) in A. change (pend s2) with (pend s1) in B. lia. }
Qed.

(* ------------------------------------------------------------------------------------------ *)
(* The thread's own calls                                                                     *)
(* ------------------------------------------------------------------------------------------ *)
Lemma phi_ptg_nf : forall s, phi (ptg_nf s) <= phi s + 1.
Proof.
  intros. unfold phi. rewrite pend_ptg_nf. unfold ptg_nf.
  cbn [sealed bag set_bag set_sealed]. unfold len.
  destruct (bag s); rewrite app_length; simpl length; lia.
Qed.

Lemma phi_finalize_nf : forall s, phi (finalize_nf s) <= phi s + 1 /\ pend (finalize_nf s) = pend s.
Proof.
  intros. destruct (finalize_nf_fields s) as (_ & _ & _ & _ & _ & _ & _ & _ & _ & _ & _ & _ & A13).
  split; [|exact A13].
  pose proof (phi_ptg_nf s). unfold phi in *. rewrite A13. rewrite pend_ptg_nf in H.
  replace (sealed (finalize_nf s)) with (sealed (ptg_nf s)) by reflexivity.
  replace (bag (finalize_nf s)) with (bag (ptg_nf s)) by reflexivity.
  exact H.
Qed.

Definition top_post (s s' : state) : Prop :=
  phi s' <= phi s + 1 /\ wsum (pend s') <= wsum (pend s).

Lemma unpin_num : forall u k s, u_ok u -> outside s -> pinned s = true -> 1 <= gc s ->
  2 <= maxobj s -> gc s + wsum (pend s) < MAXC -> phi s + 1 <= Z.of_nat k ->
  nres (unpin_lvl u k s) (top_post s).
Proof.
  intros u k s U (Oc & Ocons & OPO) P Hg Hm Hb Hk. rewrite unpin_lvl_eq.
  destruct (gc s =? 1) eqn:E1; zify_b.
  - rewrite Oc. cbv [negb andb].
    set (s0 := set_collecting true s).
    assert (I0 : inside [] s0).
    { unfold inside. repeat split; auto. apply cons_x_nil. exact Ocons. }
    rewrite bind_bind.
    eapply nres_bind.
    + apply (coll_loop_inside u U k s0); [exact I0 | change (gc s0) with (gc s); lia].
    + apply (coll_loop_num u U k s0); auto.
    + intros s1 (I1 & C1 & G1 & M1) (N1 & N2). unfold bind at 1.
      change (hc (set_collecting false s1)) with (hc s1).
      change (phi s0) with (phi s) in N1. change (pend s0) with (pend s) in N2.
      set (X := left_cs (gc s) (set_collecting false s1)).
      assert (PX : phi X = phi s1) by (apply phi_ext; reflexivity).
      assert (QX : pend X = pend s1) by (apply pend_ext; reflexivity).
      destruct (hc s1 =? 0).
      * rewrite (finalize_eq u X U); [| change (gc X) with (gc s - 1); lia | reflexivity | exact M1].
        destruct (phi_finalize_nf X) as (A & B). unfold nres, top_post. rewrite B, QX. lia.
      * unfold nres, top_post. rewrite PX, QX. lia.
  - cbv [andb]. unfold bind, nres, top_post.
    rewrite (phi_ext s) by reflexivity. rewrite (pend_ext s) by reflexivity. lia.
Qed.

Lemma iter_S_O n : Nat.iter n S O = n.
Proof. induction n as [|n IH]; [reflexivity|]. change (Nat.iter (S n) S O) with (S (Nat.iter n S O)). rewrite IH; reflexivity. Qed.
Lemma loopfuel_val : Z.of_nat LOOPFUEL = 1048576.
Proof. Transparent LOOPFUEL. unfold LOOPFUEL. rewrite Nnat.N2Nat.inj_iter, iter_S_O, N_nat_Z. reflexivity. Qed.
Global Opaque LOOPFUEL.

Lemma unpin_num' : forall s, outside s -> pinned s = true -> 1 <= gc s ->
  2 <= maxobj s -> gc s + wsum (pend s) < MAXC -> phi s + 1 <= 1048576 ->
  nres (unpin s) (top_post s).
Proof.
  intros. rewrite unpin_is. apply unpin_num; auto; try apply u_ok_2; try (rewrite loopfuel_val; auto).
Qed.

Lemma repin_num : forall s, outside s -> pinned s = true -> 1 <= gc s -> 0 <= hc s ->
  2 <= maxobj s -> gc s + wsum (pend s) < MAXC -> phi s + 1 <= 1048576 ->
  nres (repin_with unpin s) (top_post s).
Proof.
  intros s O P Hg Hh Hm Hb Hk. unfold repin_with.
  assert (O' : outside (acquire_handle s)) by (destruct O as (A & B & C); apply (outside_intro s); auto).
  eapply nres_bind.
  - apply (unpin_top' (acquire_handle s)); auto.
  - apply (unpin_num' (acquire_handle s)); auto.
  - intros s1 (O1 & F1 & G1 & _) (N1 & N2).
    change (phi (acquire_handle s)) with (phi s) in N1.
    change (pend (acquire_handle s)) with (pend s) in N2.
    change (gc (acquire_handle s)) with (gc s) in G1.
    rewrite pin_eq. pose proof (wsum_nonneg (pend s)).
    destruct (MAXC <=? gc s1) eqn:E; zify_b; [lia|].
    unfold bind. unfold release_handle_with.
    change (gc (pin_nf s1)) with (gc s1 + 1).
    destruct (gc s1 + 1 =? 0) eqn:E2; zify_b; [lia|]. cbv [andb].
    unfold nres, top_post.
    rewrite (phi_ext s1) by reflexivity. rewrite (pend_ext s1) by reflexivity. lia.
Qed.

(* the budget of the remaining program *)
Definition NB (K : Z) (s : state) (rest : list op) : Prop :=
  phi s + 4 * bsize rest <= 4 * K /\ gc s + wsum (pend s) + bsize rest <= K.

Definition KMAX : Z := 262144.

Lemma step_num : forall K s o r a', Inv s -> wf_op (abs_of s) o = Some a' ->
  2 <= maxobj s -> K <= KMAX -> NB K s (o :: r) ->
  nres (step_res s o) (fun s' => NB K s' r).
Proof.
  intros K s o r a' HI W Hm HK (B1 & B2).
  pose proof HI as ((Oc & Ocons & OPO) & I1 & I2 & I3 & I4 & I5 & I6).
  assert (O : outside s) by (split; auto).
  assert (Hz : ((length (live s) =? 0)%nat = (gc s =? 0))).
  { rewrite I2. unfold len. destruct (live s); reflexivity. }
  pose proof (wsum_nonneg (pend s)) as Wn. pose proof (bsize_nonneg r) as Rn.
  pose proof (phi_nonneg s) as Pn. pose proof (osize_pos o) as On.
  assert (Gn : 0 <= gc s) by (rewrite I2; apply len_nonneg).
  rewrite bsize_cons in *. unfold KMAX in HK.
  assert (HM : gc s + wsum (pend s) < MAXC) by (unfold MAXC; lia).
  assert (HF : phi s + 1 <= 1048576) by lia.
  unfold wf_op in W. cbn [ah an ac abs_of] in W. rewrite Hz, <- I5 in W.
  unfold step_res. destruct (finalized s) eqn:Hf.
  - destruct o; try discriminate.
    destruct (coll_alive s) eqn:Hc; [|discriminate].
    unfold nres, NB. specialize (I6 eq_refl).
    set (s' := teardown (set_coll_alive false s)).
    assert (Hp : pend s' = []) by (unfold pend, s', teardown; simpl; exact I6).
    assert (phi s' = 0).
    { unfold phi. rewrite Hp. unfold s', teardown. simpl sealed. simpl bag. rewrite I6. reflexivity. }
    rewrite H, Hp. change (gc s') with (gc s). change (wsum []) with 0. cbn [osize] in *. lia.
  - destruct o; cbn [osize] in *.
    + (* Cs *)
      destruct (handle_alive s) eqn:Ha; [|discriminate].
      unfold gstep. rewrite pin_eq. destruct (MAXC <=? gc s) eqn:E; zify_b; [unfold MAXC in E; lia|].
      unfold bind, fst, snd, nres, NB.
      rewrite (phi_ext s) by reflexivity. rewrite (pend_ext s) by reflexivity.
      match goal with |- _ /\ gc ?x + _ + _ <= _ => change (gc x) with (gc s + 1) end. lia.
    + (* DropGuard *)
      destruct (i <? length (live s))%nat eqn:Hi; [|discriminate].
      zify_b. unfold gstep. destruct (nth_error_lt _ i (live s) Hi) as [x ->].
      assert (Hg : 1 <= gc s) by (rewrite I2; unfold len; lia).
      assert (Hp : pinned s = true) by (rewrite I1; destruct (0 <? gc s) eqn:E; zify_b; auto; lia).
      rewrite bind_bind. eapply nres_bind; [apply unpin_top'; auto | apply unpin_num'; auto |].
      intros s1 (O1 & F1 & G1 & _) (N1 & N2). unfold bind, fst, snd, nres, NB.
      rewrite (phi_ext s1) by reflexivity. rewrite (pend_ext s1) by reflexivity.
      match goal with |- _ /\ gc ?x + _ + _ <= _ => change (gc x) with (gc s1) end. lia.
    + (* Reactivate *)
      destruct (i <? length (live s))%nat eqn:Hi; [|discriminate].
      zify_b. unfold gstep. destruct (nth_error_lt _ i (live s) Hi) as [x ->].
      assert (Hg : 1 <= gc s) by (rewrite I2; unfold len; lia).
      assert (Hp : pinned s = true) by (rewrite I1; destruct (0 <? gc s) eqn:E; zify_b; auto; lia).
      assert (Hh := b2z_handle s I3).
      rewrite bind_bind. eapply nres_bind; [apply repin_top; auto | apply repin_num; auto |].
      intros s1 (O1 & F1 & G1 & _) (N1 & N2). unfold bind, fst, snd, nres, NB.
      rewrite (phi_ext s1) by reflexivity. rewrite (pend_ext s1) by reflexivity.
      match goal with |- _ /\ gc ?x + _ + _ <= _ => change (gc x) with (gc s1) end. lia.
    + (* ReactivateAfter *)
      destruct (i <? length (live s))%nat eqn:Hi; [|discriminate].
      zify_b. unfold gstep. destruct (nth_error_lt _ i (live s) Hi) as [x ->].
      assert (Hg : 1 <= gc s) by (rewrite I2; unfold len; lia).
      assert (Hp : pinned s = true) by (rewrite I1; destruct (0 <? gc s) eqn:E; zify_b; auto; lia).
      assert (Hh := b2z_handle s I3).
      rewrite bind_bind. rewrite reactivate_after_eq.
      eapply nres_bind; [apply repin_top; auto | apply repin_num; auto |].
      intros s1 (O1 & F1 & G1 & _) (N1 & N2). unfold bind, fst, snd, nres, NB.
      rewrite (phi_ext s1) by reflexivity. rewrite (pend_ext s1) by reflexivity.
      match goal with |- _ /\ gc ?x + _ + _ <= _ => change (gc x) with (gc s1) end. lia.
    + (* Flush *)
      destruct (i <? length (live s))%nat eqn:Hi; [|discriminate].
      zify_b. unfold gstep. destruct (nth_error_lt _ i (live s) Hi) as [x ->].
      unfold bind, fst, snd, nres, NB. pose proof (phi_flush s).
      rewrite (phi_ext (flush s)) by reflexivity. rewrite (pend_ext (flush s)) by reflexivity.
      match goal with |- _ /\ gc ?x + _ + _ <= _ => change (gc x) with (gc (flush s)) end.
      rewrite (q_pend _ quiet_flush), (q_gc _ quiet_flush). lia.
    + (* Defer *)
      destruct (i <? length (live s))%nat eqn:Hi; [|discriminate].
      zify_b. unfold gstep. destruct (nth_error_lt _ i (live s) Hi) as [x ->].
      unfold bind, fst, snd, nres, NB. pose proof (phi_defer s (Clo id body) Hm).
      pose proof (deferlike_defer (Clo id body)) as Q. cbv beta in Q.
      set (t := defer_ s (Clo id body)) in *.
      rewrite (phi_ext t) by reflexivity. rewrite (pend_ext t) by reflexivity.
      match goal with |- _ /\ gc ?x + _ + _ <= _ => change (gc x) with (gc t) end.
      unfold t. rewrite (d_pend _ _ Q), (d_gc _ _ Q), wsum_app. fold t.
      rewrite wsum_cons. unfold wsum at 2. cbn [sum_with]. unfold cw in *. cbn [cbody] in *.
      fold (bsize body) in *. pose proof (bsize_nonneg body). lia.
    + (* DropHandle *)
      destruct (handle_alive s) eqn:Ha; [|discriminate].
      simpl in I3. unfold release_handle_with.
      change (gc (set_handle_alive false s)) with (gc s).
      change (hc (set_handle_alive false s)) with (hc s). rewrite I3.
      change (1 =? 1) with true. rewrite andb_true_r.
      set (s0 := set_hc (1 - 1) (set_handle_alive false s)).
      destruct (gc s =? 0) eqn:E0; zify_b.
      * rewrite (finalize_eq unpin s0 u_ok_unpin); [|exact E0 | exact Oc | apply I4; exact E0].
        destruct (phi_finalize_nf s0) as (A & B).
        destruct (finalize_nf_fields s0) as (_ & A2 & _).
        unfold nres, NB. rewrite B, A2.
        rewrite (phi_ext s s0) in A by reflexivity. rewrite (pend_ext s s0) by reflexivity.
        change (gc s0) with (gc s). lia.
      * unfold nres, NB.
        rewrite (phi_ext s s0) by reflexivity. rewrite (pend_ext s s0) by reflexivity.
        change (gc s0) with (gc s). lia.
    + discriminate.
    + discriminate.
Qed.

(* ------------------------------------------------------------------------------------------ *)
(* Whole programs                                                                             *)
(* ------------------------------------------------------------------------------------------ *)
Lemma run_total : forall K, K <= KMAX -> forall p q s a a', good a s -> abs_run a p = Some a' ->
  2 <= maxobj s -> NB K s (p ++ q) ->
  good a' (run s p) /\ NB K (run s p) q /\ maxobj (run s p) = maxobj s.
Proof.
  intros K HK. induction p as [|o r IH]; intros q s a a' Gd W Hm Nb.
  - simpl in *. inversion W; subst. auto.
  - simpl in W. destruct (wf_op a o) as [a1|] eqn:W1; [|discriminate].
    pose proof Gd as (E & I & I2 & A). subst a.
    simpl app in Nb.
    destruct (both _ _ _ _ (step_res_inv s o a1 I W1) (step_num K s o (r ++ q) a1 I W1 Hm HK Nb))
      as (s1 & Hs & (I1 & A1 & Post) & Nb1).
    assert (Hstep : fst (step s o) = s1).
    { unfold step. rewrite E. simpl. rewrite Hs. reflexivity. }
    simpl run. rewrite Hstep.
    destruct Post as (_ & Pm & Pe & _).
    assert (G1 : good a1 s1).
    { destruct (step_good s o (abs_of s) a1 Gd W1) as [G1 | (Al & _)].
      - rewrite Hstep in G1. exact G1.
      - rewrite Hstep in Al. apply allowed_nonzero in Al. lia. }
    destruct (IH q s1 a1 a' G1 W) as (R1 & R2 & R3); auto; [lia|].
    split; [exact R1 | split; [exact R2 | lia]].
Qed.

Lemma NB_init : forall mo p, NB (bsize p) (init_state mo) p.
Proof. intros. unfold NB, phi, pend, len, wsum. simpl. lia. Qed.

(* A well-formed program of at most 2^18 operations (closure bodies included), run with
   MAX_OBJECTS >= 2, never gets stuck: no ill-formedness outcome, no guard_count overflow, and
   neither fuel of the model is ever exhausted -- every `while must_collect` loop terminates. *)
Theorem C20_no_stuck : forall mo p, wf_prog p = true -> 2 <= mo -> bsize p <= 262144 ->
  err (run (init_state mo) p) = 0.
Proof.
  intros mo p W Hm Hb. apply wf_from_abs_run in W. destruct W as [a' W].
  pose proof (NB_init mo p) as Nb. rewrite <- (app_nil_r p) in Nb at 2.
  destruct (run_total (bsize p) Hb p [] (init_state mo) abs0 a' (good_init mo) W Hm Nb) as ((E & _) & _).
  exact E.
Qed.

(* ... and every single step of such a run returns a proper state *)
Theorem C20_no_stuck_step : forall mo p o q, wf_prog (p ++ o :: q) = true -> 2 <= mo ->
  bsize (p ++ o :: q) <= 262144 ->
  err (run (init_state mo) p) = 0 /\ exists s', step_res (run (init_state mo) p) o = Ok s'.
Proof.
  intros mo p o q W Hm Hb. apply wf_from_abs_run in W. destruct W as [a' W].
  unfold wf_prog in W. rewrite abs_run_app in W.
  destruct (abs_run (mkAbs 0 true true) p) as [a|] eqn:Wp; [|discriminate].
  simpl in W. destruct (wf_op a o) as [a1|] eqn:W1; [|discriminate].
  pose proof (NB_init mo (p ++ o :: q)) as Nb.
  destruct (run_total _ Hb p (o :: q) (init_state mo) abs0 a (good_init mo) Wp Hm Nb) as (Gd & Nb1 & Mx).
  pose proof Gd as (E & I & I2 & A). subst a. split; [exact E|].
  assert (Hm1 : 2 <= maxobj (run (init_state mo) p)) by (rewrite Mx; exact Hm).
  destruct (both _ _ _ _ (step_res_inv _ o a1 I W1) (step_num _ _ o q a1 I W1 Hm1 Hb Nb1))
    as (s1 & Hs & _). eauto.
Qed.
