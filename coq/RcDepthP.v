(* C07 (model part): the recursion of dispose_general_node is bounded by DEPTH_CAP on every thread, for
   every program, schedule and oracle.  Purely about the shape of the continuation stacks of Rc.v. *)
From Coq Require Import ZArith List Bool Lia Sorted.
Import ListNotations.
Require Import Params StateW DisposeW Rc.
Local Open Scope Z_scope.

(* the depth argument of a frame of dispose_general_node *)
Definition disp_depth (f : frame) : option Z :=
  match f with
  | FDispEnter _ d | FDisp115 _ d | FDisp116 _ d _ | FDisp130 _ d _ _ | FDispDo _ d _ _
  | FDisp117 _ d _ _ _ | FKids d _ _ _ | FKid118 _ d _ _ _ | FKid119 _ _ _ d _ _ _ => Some d
  | _ => None
  end.

Fixpoint depths (fs : list frame) : list Z :=
  match fs with
  | [] => []
  | f :: r => match disp_depth f with Some d => d :: depths r | None => depths r end
  end.

(* from the top of the stack down, the depths strictly decrease (each recursive call sits above its
   caller's FKids frame), are non-negative, and only an FDispEnter at the very top may carry DEPTH_CAP *)
Fixpoint decreasing (l : list Z) : Prop :=
  match l with
  | [] => True
  | a :: r => 0 <= a /\ match r with [] => True | b :: _ => b < a end /\ decreasing r
  end.

Definition entered (f : frame) : bool := match f with FDispEnter _ _ => true | _ => false end.

Definition stack_ok (fs : list frame) : Prop :=
  decreasing (depths fs) /\
  (forall f d, In f fs -> disp_depth f = Some d -> entered f = false -> d < DEPTH_CAP) /\
  (forall f d, In f fs -> disp_depth f = Some d -> d <= DEPTH_CAP).

(* a thread outside a deferred function has no dispose frame at all; try_destruct frames sit directly on
   dispose-free stacks *)
Definition no_disp (fs : list frame) : Prop := depths fs = [].

Fixpoint td_clean (fs : list frame) : Prop :=
  match fs with
  | [] => True
  | f :: r => match f with
              | FTD113 _ | FTD114 _ _ | FAwait | FMay | FOp | FStart => no_disp r
              | _ => True
              end /\ td_clean r
  end.

Definition thr_ok (x : thr) : Prop := stack_ok (frames x) /\ td_clean (frames x).
Definition DInv (s : state) : Prop := forall t x, gett s t = Some x -> thr_ok x.

Lemma DEPTH_CAP_pos : 0 < DEPTH_CAP.
Proof. reflexivity. Qed.

Lemma decreasing_lt a r : decreasing (a :: r) -> forall b, In b r -> b < a.
Proof.
  revert a. induction r as [|c r IH]; intros a Hd b Hb; [contradiction|].
  destruct Hd as (Ha & Hca & Hd). destruct Hb as [->|Hb]; [exact Hca|].
  pose proof (IH c Hd b Hb). lia.
Qed.

Lemma decreasing_len l : decreasing l -> forall m, (forall a, In a l -> a < m) -> Z.of_nat (length l) <= Z.max 0 m.
Proof.
  induction l as [|a r IH]; intros Hd m Hb; [cbn; lia|].
  pose proof (decreasing_lt a r Hd) as Hlt. destruct Hd as (Ha & _ & Hd).
  cbn [length]. rewrite Nat2Z.inj_succ.
  assert (a < m) by (apply Hb; left; reflexivity).
  specialize (IH Hd a Hlt). lia.
Qed.

Lemma decreasing_bound l : decreasing l -> (forall a, In a l -> a < DEPTH_CAP) -> Z.of_nat (length l) <= DEPTH_CAP.
Proof. intros Hd Hb. pose proof (decreasing_len l Hd DEPTH_CAP Hb). pose proof DEPTH_CAP_pos. lia. Qed.

(* ---- stack lemmas *)
Lemma depths_app a b : depths (a ++ b) = depths a ++ depths b.
Proof. induction a as [|f a IH]; cbn; auto. destruct (disp_depth f); cbn; rewrite IH; auto. Qed.

Lemma td_clean_tail f k : td_clean (f :: k) -> td_clean k.
Proof. intros [_ H]. exact H. Qed.

Lemma stack_ok_tail f k : stack_ok (f :: k) -> stack_ok k.
Proof.
  intros (Hd & Hc & Hc2). split; [|split].
  - cbn in Hd. destruct (disp_depth f); [destruct Hd as (_ & _ & Hd)|]; exact Hd.
  - intros g d Hin. apply Hc. right; exact Hin.
  - intros g d Hin. apply Hc2. right; exact Hin.
Qed.

Lemma stack_ok_nil : stack_ok [].
Proof. split; [exact I|split; intros f d []]. Qed.

(* pushing frames that are not dispose frames *)
Lemma stack_ok_quiet f k : disp_depth f = None -> stack_ok k -> stack_ok (f :: k).
Proof.
  intros Hf (Hd & Hc & Hc2). split; [|split].
  - cbn. rewrite Hf. exact Hd.
  - intros g d [<-|Hin] Hg; [congruence | eapply Hc; eauto].
  - intros g d [<-|Hin] Hg; [congruence | eapply Hc2; eauto].
Qed.

Lemma stack_ok_quiet_app fs k : Forall (fun f => disp_depth f = None) fs -> stack_ok k -> stack_ok (fs ++ k).
Proof. induction 1; cbn; auto. intros Hk. apply stack_ok_quiet; auto. Qed.

(* replacing the top dispose frame by another one of the same depth *)
Lemma stack_ok_same f f' d k :
  stack_ok (f :: k) -> disp_depth f = Some d -> disp_depth f' = Some d -> (entered f' = false -> d < DEPTH_CAP) ->
  stack_ok (f' :: k).
Proof.
  intros (Hd & Hc & Hc2) Hf Hf' Hcap. split; [|split].
  - cbn in *. rewrite Hf in Hd. rewrite Hf'. exact Hd.
  - intros g e [<-|Hin] Hg He; [rewrite Hf' in Hg; inversion Hg; subst; auto | eapply Hc; eauto; right; auto].
  - intros g e [<-|Hin] Hg; [rewrite Hf' in Hg; inversion Hg; subst; eapply (Hc2 f); eauto; left; auto | eapply Hc2; eauto; right; auto].
Qed.

(* the recursive call: an entry frame of depth d+1 above the caller's frame of depth d *)
Lemma stack_ok_call f d o k :
  stack_ok (f :: k) -> disp_depth f = Some d -> entered f = false -> stack_ok (FDispEnter o (d + 1) :: f :: k).
Proof.
  intros H Hf He. pose proof H as (Hd & Hc & Hc2).
  assert (d < DEPTH_CAP) by (eapply (Hc f); eauto; left; auto).
  split; [|split].
  - cbn in *. rewrite Hf in *. destruct Hd as (D0 & D1 & D2). repeat split; auto; lia.
  - intros g e [<-|Hin] Hg Hen; [cbn in Hen; discriminate | eapply Hc; eauto].
  - intros g e [<-|Hin] Hg; [cbn in Hg; inversion Hg; subst; lia | eapply Hc2; eauto].
Qed.

Lemma stack_ok_root o k : no_disp k -> stack_ok k -> stack_ok (FDispEnter o 0 :: k).
Proof.
  intros Hn (Hd & Hc & Hc2). split; [|split].
  - cbn. unfold no_disp in Hn. rewrite Hn. repeat split; auto; lia.
  - intros g e [<-|Hin] Hg Hen; [cbn in Hen; discriminate | eapply Hc; eauto].
  - intros g e [<-|Hin] Hg; [cbn in Hg; inversion Hg; subst; pose proof DEPTH_CAP_pos; lia | eapply Hc2; eauto].
Qed.

Lemma no_disp_quiet f k : disp_depth f = None -> no_disp k -> no_disp (f :: k).
Proof. unfold no_disp. cbn. intros ->. auto. Qed.
Lemma no_disp_tail f k : no_disp (f :: k) -> no_disp k.
Proof. unfold no_disp. cbn. destruct (disp_depth f); [discriminate | auto]. Qed.
Lemma no_disp_app fs k : Forall (fun f => disp_depth f = None) fs -> no_disp k -> no_disp (fs ++ k).
Proof. induction 1; cbn; auto. intros Hk. apply no_disp_quiet; auto. Qed.

(* frames that need a dispose-free stack below them *)
Definition needs_clean (f : frame) : bool :=
  match f with FTD113 _ | FTD114 _ _ | FAwait | FMay | FOp | FStart => true | _ => false end.

Lemma td_clean_cons f k : (needs_clean f = true -> no_disp k) -> td_clean k -> td_clean (f :: k).
Proof. intros Hn Hk. split; [|exact Hk]. destruct f; try exact I; apply Hn; reflexivity. Qed.

Lemma td_clean_head f k : td_clean (f :: k) -> needs_clean f = true -> no_disp k.
Proof. intros [H _] Hn. destruct f; try discriminate; exact H. Qed.

Lemma td_clean_free_app fs k : Forall (fun f => needs_clean f = false) fs -> td_clean k -> td_clean (fs ++ k).
Proof. induction 1; cbn [app]; auto. intros Hk. apply td_clean_cons; auto. intros; congruence. Qed.

(* the frames an operation starts with are neither dispose frames nor frames that need a clean stack *)
Definition plain (f : frame) : Prop := disp_depth f = None /\ needs_clean f = false.

Lemma plain_app fs k : Forall plain fs -> stack_ok k -> td_clean k -> stack_ok (fs ++ k) /\ td_clean (fs ++ k).
Proof.
  intros Hp Hs Ht. split.
  - apply stack_ok_quiet_app; auto. eapply Forall_impl; [|exact Hp]. intros f [H _]; auto.
  - apply td_clean_free_app; auto. eapply Forall_impl; [|exact Hp]. intros f [_ H]; auto.
Qed.

Lemma start_op_plain s x rec op s1 x1 fs o : start_op s x rec op = (s1, x1, fs, o) -> Forall plain fs.
Proof.
  unfold start_op. intros H.
  destruct (negb (dst_free x op)); [inversion H; constructor|].
  repeat match type of H with
         | context [match ?c with _ => _ end] => destruct c eqn:?
         | context [if ?c then _ else _] => destruct c eqn:?
         end;
  inversion H; subst; clear H;
  unfold dec_frames, decw_frames, incs_frames, incw_frames;
  repeat match goal with |- context [match ?c with _ => _ end] => destruct c end;
  repeat constructor.
Qed.

(* ---- none of the state-update helpers touches the thread list *)
Lemma threads_seto s o x : threads (seto s o x) = threads s.
Proof. destruct o; reflexivity. Qed.
Lemma threads_set_err s e : threads (set_err s e) = threads s.
Proof. reflexivity. Qed.
Lemma threads_set_G s g : threads (set_G s g) = threads s.
Proof. reflexivity. Qed.
Lemma threads_set_pending s p : threads (set_pending s p) = threads s.
Proof. reflexivity. Qed.
Lemma threads_defer s k o : threads (defer s k o) = threads s.
Proof. reflexivity. Qed.
Lemma threads_advance_to fuel : forall s g, threads (advance_to fuel s g) = threads s.
Proof.
  induction fuel as [|n IH]; intros s g; cbn; auto.
  destruct (G s <? g); auto. rewrite IH. cbn. destruct (can_advance s); reflexivity.
Qed.
Lemma threads_see_epoch s g : threads (see_epoch s g) = threads s.
Proof. apply threads_advance_to. Qed.
Lemma threads_set_cell s c l : threads (set_cell s c l) = threads s.
Proof.
  unfold set_cell. destruct (c <? 1000); [reflexivity|].
  destruct (geto s _); [apply threads_seto | reflexivity].
Qed.
Lemma threads_alloc s n : threads (fst (alloc s n)) = threads s.
Proof. reflexivity. Qed.
#[export] Hint Rewrite threads_seto threads_set_err threads_set_G threads_set_pending threads_defer threads_see_epoch
  threads_set_cell : thr.

Lemma threads_start_op s x rec op s1 x1 fs o : start_op s x rec op = (s1, x1, fs, o) -> threads s1 = threads s.
Proof.
  unfold start_op. intros H.
  destruct (negb (dst_free x op)); [inversion H; reflexivity|].
  repeat match type of H with
         | context [match ?c with _ => _ end] => destruct c eqn:?
         | context [if ?c then _ else _] => destruct c eqn:?
         end;
  inversion H; subst; clear H;
  repeat match goal with Ha : alloc _ _ = (_, _) |- _ => unfold alloc in Ha; inversion Ha; subst; clear Ha end;
  autorewrite with thr; try reflexivity.
Qed.

Lemma nth_set_nth_same {A} (l : list A) n x y : nth_error l n = Some y -> nth_error (set_nth l n x) n = Some x.
Proof. revert n; induction l as [|a l IH]; intros [|n] H; cbn in *; try discriminate; auto. Qed.
Lemma nth_set_nth_other {A} (l : list A) n m x : n <> m -> nth_error (set_nth l n x) m = nth_error l m.
Proof. revert n m; induction l as [|a l IH]; intros [|n] [|m] H; cbn; auto; try congruence. Qed.

(* a transition that only replaces thread t by a thread with an acceptable stack preserves DInv *)
Lemma dinv_sett s s1 t x x' :
  DInv s -> gett s t = Some x -> threads s1 = threads s -> thr_ok x' -> DInv (sett s1 t x').
Proof.
  intros HI Ht Hth Hok q y Hq. unfold gett, sett in Hq; cbn in Hq. rewrite Hth in Hq.
  destruct (Nat.eq_dec t q) as [->|Hne].
  - unfold gett in Ht. rewrite (nth_set_nth_same _ _ _ _ Ht) in Hq. inversion Hq; subst. exact Hok.
  - rewrite nth_set_nth_other in Hq by auto. apply (HI q y Hq).
Qed.

Ltac plain_solve := repeat constructor.

(* replace the top frame by frames [fs]: what remains to be shown about the new stack *)
Ltac finish_with HI Ht :=
  eapply dinv_sett; [exact HI | exact Ht | autorewrite with thr; reflexivity | ].

Ltac solve_thr :=
  unfold thr_ok; cbn [frames with_frames with_res with_resw with_vars setv with_guard with_inclosure app];
  first
  [ split; assumption
  | split; [ repeat (apply stack_ok_quiet; [reflexivity|]); assumption
           | repeat (apply td_clean_cons; [discriminate|]); assumption ] ].

Lemma dec_frames_plain o n b : Forall plain (dec_frames o n b).
Proof. destruct o; cbn; repeat constructor. Qed.
Lemma decw_frames_plain o b : Forall plain (decw_frames o b).
Proof. destruct o; cbn; repeat constructor. Qed.

Ltac push_plain Hsk Hck :=
  unfold thr_ok; cbn [frames with_frames with_res with_resw with_vars setv with_guard with_inclosure];
  apply plain_app; [ first [apply dec_frames_plain | apply decw_frames_plain | solve [repeat constructor]] | exact Hsk | exact Hck ].

Ltac split_matches Hm :=
  repeat match type of Hm with
         | context [match geto ?a ?b with _ => _ end] => destruct (geto a b) eqn:?
         | context [match get_cell ?a ?b with _ => _ end] => destruct (get_cell a b) eqn:?
         | context [if ?c then _ else _] => destruct c eqn:?
         | context [match take_pending ?a ?b ?c with _ => _ end] => destruct (take_pending a b c) as [[? ?]|]
         | context [match ?r with _ => _ end] => is_var r; destruct r
         end.
Ltac solve_thr2 Hc Hsk Hck :=
  let Hnd := fresh "Hnd" in
  pose proof (td_clean_head _ _ Hc eq_refl) as Hnd;
  unfold thr_ok; cbn [frames with_frames with_res with_resw with_vars setv with_guard with_inclosure app];
  split; [ repeat (apply stack_ok_quiet; [reflexivity|]); exact Hsk
         | repeat (apply td_clean_cons;
                   [ first [ discriminate
                           | intros _; repeat (apply no_disp_quiet; [reflexivity|]); exact Hnd ] |]); exact Hck ].
Ltac cap_lt Hs :=
  first [ apply (proj1 (proj2 Hs) _ _ (or_introl eq_refl) eq_refl eq_refl)
        | match goal with H : (?d >=? DEPTH_CAP) = false |- ?d < DEPTH_CAP =>
            rewrite Z.geb_leb in H; apply Z.leb_gt in H; exact H end ].
Ltac same_case Hs Hck :=
  unfold thr_ok; cbn [frames with_frames with_res with_resw with_vars setv with_guard with_inclosure app];
  split; [ eapply stack_ok_same; [exact Hs | reflexivity | reflexivity | intros _; cap_lt Hs]
         | apply td_clean_cons; [discriminate | exact Hck] ].
Ltac same_under Hs Hck :=
  unfold thr_ok; cbn [frames with_frames with_res with_resw with_vars setv with_guard with_inclosure app];
  match goal with |- stack_ok (?g :: ?f' :: ?k) /\ _ =>
    change (g :: f' :: k) with ([g] ++ f' :: k); apply plain_app;
    [ solve [repeat constructor]
    | eapply stack_ok_same; [exact Hs | reflexivity | reflexivity | intros _; cap_lt Hs]
    | apply td_clean_cons; [discriminate | exact Hck] ] end.
Ltac auto_case Hm HI Ht Hs Hc Hsk Hck :=
  split_matches Hm;
  try (inversion Hm; subst; clear Hm; finish_with HI Ht; first [ solve_thr | solve_thr2 Hc Hsk Hck | same_case Hs Hck | same_under Hs Hck | push_plain Hsk Hck ]).

Theorem micro_dinv s t rec s' obs : DInv s -> micro s t rec = Some (s', obs) -> DInv s'.
Proof.
  intros HI Hm. unfold micro in Hm.
  destruct (gett s t) as [x|] eqn:Ht; [|discriminate].
  destruct (frames x) as [|f k] eqn:Hf; [discriminate|].
  pose proof (HI t x Ht) as [Hs Hc]. rewrite Hf in Hs, Hc.
  pose proof (stack_ok_tail _ _ Hs) as Hsk. pose proof (td_clean_tail _ _ Hc) as Hck.
  assert (Hpop : thr_ok x -> forall x1, frames x1 = k -> thr_ok x1).
  { intros _ x1 E. unfold thr_ok. rewrite E. split; auto. }
  destruct f; [ | | try (auto_case Hm HI Ht Hs Hc Hsk Hck) .. ].
  - (* FStart *) inversion Hm; subst. finish_with HI Ht. apply Hpop; auto. apply (HI t x Ht).
  - (* FOp *)
    destruct (prog x) as [|op rest].
    + inversion Hm; subst. finish_with HI Ht. split; cbn; [apply stack_ok_nil | exact I].
    + destruct (start_op s _ rec op) as [[[s1 x1] fs] o] eqn:Hso. inversion Hm; subst.
      pose proof (start_op_plain _ _ _ _ _ _ _ _ Hso) as Hpl.
      pose proof (threads_start_op _ _ _ _ _ _ _ _ Hso) as Hth.
      eapply dinv_sett; [exact HI | exact Ht | exact Hth | ].
      unfold thr_ok; cbn [frames with_frames].
      pose proof (td_clean_head _ _ Hc eq_refl) as Hnd.
      assert (Hrest : stack_ok (FMay :: FOpEnd (hd 0 op) :: FOp :: k) /\ td_clean (FMay :: FOpEnd (hd 0 op) :: FOp :: k)).
      { split.
        - repeat (apply stack_ok_quiet; [reflexivity|]). exact Hsk.
        - apply td_clean_cons; [intros _; repeat (apply no_disp_quiet; [reflexivity|]); exact Hnd|].
          apply td_clean_cons; [discriminate|]. apply td_clean_cons; [intros _; exact Hnd | exact Hck]. }
      destruct Hrest. apply plain_app; auto.
  - (* FTD114: the root call of the cascade *)
    inversion Hm; subst; clear Hm; finish_with HI Ht.
    pose proof (td_clean_head _ _ Hc eq_refl) as Hnd.
    unfold thr_ok; cbn [frames with_frames]. split.
    + apply stack_ok_root; assumption.
    + apply td_clean_cons; [discriminate | exact Hck].
  - (* FKid119: the count of the child reached zero -- the recursive call *)
    inversion Hm; subst; clear Hm; finish_with HI Ht.
    unfold thr_ok; cbn [frames with_frames].
    assert (Hs' : stack_ok (FKids depth ne curr outs :: k)).
    { eapply stack_ok_same; [exact Hs | reflexivity | reflexivity | intros _; cap_lt Hs]. }
    split.
    + apply stack_ok_call; [exact Hs' | reflexivity | reflexivity].
    + apply td_clean_cons; [discriminate|]. apply td_clean_cons; [discriminate | exact Hck].
Qed.

(* ---- lifted to scheduled steps, whole runs and the decoded initial states *)
Lemma run_local_dinv fuel : forall s t rec acc s' o b,
  DInv s -> run_local fuel s t rec acc = (s', o, b) -> DInv s'.
Proof.
  induction fuel as [|n IH]; intros s t rec acc s' o b HI H; cbn [run_local] in H.
  - inversion H; subst; exact HI.
  - destruct (gett s t) as [x|]; [|inversion H; subst; exact HI].
    destruct (frames x) as [|f k]; [inversion H; subst; exact HI|].
    destruct (is_yield f); [inversion H; subst; exact HI|].
    destruct (micro s t rec) as [[s1 o1]|] eqn:Hm; [|inversion H; subst; exact HI].
    eapply IH; [eapply micro_dinv; eauto | exact H].
Qed.

Theorem step_dinv s t rec s' obs : DInv s -> step s t rec = Some (s', obs) -> DInv s'.
Proof.
  intros HI H. unfold step in H.
  destruct (top_is_yield s t); [|discriminate].
  destruct (micro s t rec) as [[s1 o1]|] eqn:Hm1; [|discriminate].
  pose proof (micro_dinv _ _ _ _ _ HI Hm1) as HI1.
  destruct (top_is_await s t && top_is_yield s1 t).
  - destruct (micro s1 t rec) as [[s2 o2]|] eqn:Hm2; [|discriminate].
    pose proof (micro_dinv _ _ _ _ _ HI1 Hm2) as HI2.
    destruct (run_local 1000 s2 t rec (o1 ++ o2)) as [[s3 o3] b] eqn:Hr. destruct b; [|discriminate].
    inversion H; subst. eapply run_local_dinv; eauto.
  - destruct (run_local 1000 s1 t rec o1) as [[s3 o3] b] eqn:Hr. destruct b; [|discriminate].
    inversion H; subst. eapply run_local_dinv; eauto.
Qed.

Fixpoint mrun (s : state) (sched : list (nat * list Z)) : state :=
  match sched with
  | [] => s
  | (t, rec) :: r => match micro s t rec with Some (s', _) => mrun s' r | None => mrun s r end
  end.
Fixpoint srun (s : state) (sched : list (nat * list Z)) : state :=
  match sched with
  | [] => s
  | (t, rec) :: r => match step s t rec with Some (s', _) => srun s' r | None => srun s r end
  end.

Theorem mrun_dinv sched : forall s, DInv s -> DInv (mrun s sched).
Proof.
  induction sched as [|[t rec] r IH]; intros s HI; cbn [mrun]; [exact HI|].
  destruct (micro s t rec) as [[s1 o1]|] eqn:Hm; [apply IH; eapply micro_dinv; eauto | apply IH; exact HI].
Qed.
Theorem srun_dinv sched : forall s, DInv s -> DInv (srun s sched).
Proof.
  induction sched as [|[t rec] r IH]; intros s HI; cbn [srun]; [exact HI|].
  destruct (step s t rec) as [[s1 o1]|] eqn:Hm; [apply IH; eapply step_dinv; eauto | apply IH; exact HI].
Qed.

Lemma dec_threads_ok fuel : forall l, Forall thr_ok (dec_threads fuel l).
Proof.
  induction fuel as [|n IH]; intros l; cbn [dec_threads]; [constructor|].
  destruct l as [|a l]; [constructor|].
  destruct a as [|p|p]; try constructor. destruct p; try constructor.
  destruct l as [|nv l]; [constructor|].
  destruct (dec_vars (nat_of nv) l) as [v r1]. destruct r1 as [|nops r2]; [constructor|].
  destruct (dec_ops (nat_of nops) r2) as [ops r3]. constructor; [|apply IH].
  unfold thr_ok; cbn [frames]. split.
  - repeat (apply stack_ok_quiet; [reflexivity|]). apply stack_ok_nil.
  - cbn. unfold no_disp. cbn. auto.
Qed.

Theorem init_dinv prog : DInv (init prog).
Proof.
  intros t x Hx. unfold gett in Hx.
  assert (Forall thr_ok (threads (init prog))) as HF.
  { unfold init. destruct prog as [|g0 [|nc [|no r]]]; cbn [threads]; try constructor. apply dec_threads_ok. }
  rewrite Forall_forall in HF. apply HF. eapply nth_error_In; eauto.
Qed.

(* ---- C07: what the invariant says about the recursion of dispose_general_node *)
Definition disp_frames (fs : list frame) : nat := length (depths fs).

Lemma depths_in fs d : In d (depths fs) -> exists f, In f fs /\ disp_depth f = Some d.
Proof.
  induction fs as [|f r IH]; cbn; [intros []|].
  destruct (disp_depth f) eqn:E.
  - intros [<-|H]; [exists f; split; [left|]; auto|]. destruct (IH H) as (g & Hg & Hd). exists g; split; [right|]; auto.
  - intros H. destruct (IH H) as (g & Hg & Hd). exists g; split; [right|]; auto.
Qed.

Lemma decreasing_nonneg l : decreasing l -> forall a, In a l -> 0 <= a.
Proof. induction l as [|b r IH]; intros Hd a []; destruct Hd as (Hb & _ & Hr); subst; auto. Qed.

Lemma stack_ok_count fs : stack_ok fs -> Z.of_nat (disp_frames fs) <= DEPTH_CAP + 1.
Proof.
  intros (Hd & _ & Hc2). unfold disp_frames.
  pose proof (decreasing_len _ Hd (DEPTH_CAP + 1)) as H. pose proof DEPTH_CAP_pos.
  assert (forall a, In a (depths fs) -> a < DEPTH_CAP + 1).
  { intros a Ha. destruct (depths_in _ _ Ha) as (f & Hf & Hdf). pose proof (Hc2 f a Hf Hdf). lia. }
  specialize (H H1). lia.
Qed.

(* frames of dispose_general_node that passed the depth test *)
Fixpoint working_depths (fs : list frame) : list Z :=
  match fs with
  | [] => []
  | f :: r => match disp_depth f with
              | Some d => if entered f then working_depths r else d :: working_depths r
              | None => working_depths r
              end
  end.

Lemma working_sub fs d : In d (working_depths fs) -> exists f, In f fs /\ disp_depth f = Some d /\ entered f = false.
Proof.
  induction fs as [|f r IH]; cbn; [intros []|].
  destruct (disp_depth f) eqn:E; [destruct (entered f) eqn:E2|].
  - intros H. destruct (IH H) as (g & Hg & Hd). exists g; split; [right|]; auto.
  - intros [<-|H]; [exists f; split; [left|]; auto|]. destruct (IH H) as (g & Hg & Hd). exists g; split; [right|]; auto.
  - intros H. destruct (IH H) as (g & Hg & Hd). exists g; split; [right|]; auto.
Qed.

Lemma decreasing_drop a b r : decreasing (a :: b :: r) -> decreasing (a :: r).
Proof.
  intros (Ha & Hba & Hb & Hcb & Hr). split; [auto|]. split; [|exact Hr].
  destruct r as [|c r']; [exact I|]. lia.
Qed.

Lemma working_decreasing fs : decreasing (depths fs) -> decreasing (working_depths fs).
Proof.
  induction fs as [|f r IH]; cbn; [auto|].
  destruct (disp_depth f) eqn:E; [|exact IH].
  intros Hd. assert (Hr : decreasing (depths r)) by (destruct Hd as (_ & _ & H); exact H).
  destruct (entered f); [apply IH; exact Hr|].
  specialize (IH Hr). destruct Hd as (Hz & Hnext & _). split; [exact Hz|]. split; [|exact IH].
  destruct (working_depths r) as [|b w] eqn:Ew; [exact I|].
  (* b occurs in depths r, hence is below the head *)
  assert (In b (depths r)).
  { assert (In b (working_depths r)) as Hb by (rewrite Ew; left; reflexivity).
    clear - Hb. induction r as [|g r IH]; cbn in *; [contradiction|].
    destruct (disp_depth g); [destruct (entered g)|]; cbn; auto. destruct Hb; auto. }
  assert (decreasing (z :: depths r)) as Hzr.
  { split; [exact Hz|]. split; [exact Hnext | exact Hr]. }
  exact (decreasing_lt _ _ Hzr b H).
Qed.

Theorem stack_ok_working fs : stack_ok fs -> Z.of_nat (length (working_depths fs)) <= DEPTH_CAP.
Proof.
  intros (Hd & Hc & _). apply decreasing_bound; [apply working_decreasing; exact Hd|].
  intros a Ha. destruct (working_sub _ _ Ha) as (f & Hf & Hdf & He). eapply Hc; eauto.
Qed.

(* the statement of C07 over the model: along every run from every decoded program, under every schedule
   and every oracle, on every thread
   - at most DEPTH_CAP invocations of dispose_general_node are past their depth test,
   - at most one more has been entered (it is on top and will defer at once if its depth is DEPTH_CAP),
   - the depth arguments strictly decrease down the stack and lie in [0, DEPTH_CAP]. *)
Definition C07_statement : Prop :=
  forall prog sched t x, gett (srun (init prog) sched) t = Some x ->
    Z.of_nat (length (working_depths (frames x))) <= DEPTH_CAP /\
    Z.of_nat (disp_frames (frames x)) <= DEPTH_CAP + 1 /\
    decreasing (depths (frames x)) /\
    (forall f d, In f (frames x) -> disp_depth f = Some d -> 0 <= d <= DEPTH_CAP /\ (entered f = false -> d < DEPTH_CAP)).

Theorem C07_model : C07_statement.
Proof.
  intros prog sched t x Hx.
  pose proof (srun_dinv sched _ (init_dinv prog) t x Hx) as [Hs Hc].
  split; [apply stack_ok_working; exact Hs|]. split; [apply stack_ok_count; exact Hs|].
  destruct Hs as (Hd & Hc1 & Hc2). split; [exact Hd|].
  intros f d Hf Hdf. split; [split|].
  - destruct (In_nth_error _ _ Hf) as [n Hn]. clear Hn.
    assert (In d (depths (frames x))).
    { clear - Hf Hdf. induction (frames x) as [|g r IH]; cbn in *; [contradiction|].
      destruct Hf as [->|Hf]; [rewrite Hdf; left; reflexivity|].
      destruct (disp_depth g); [right|]; auto. }
    eapply decreasing_nonneg; eauto.
  - eapply Hc2; eauto.
  - intros He. eapply Hc1; eauto.
Qed.

Theorem depth_bound_runs :
  forall prog sched t x, gett (srun (init prog) sched) t = Some x ->
    Z.of_nat (length (working_depths (frames x))) <= DEPTH_CAP /\
    Z.of_nat (length (depths (frames x))) <= DEPTH_CAP + 1 /\
    decreasing (depths (frames x)) /\
    (forall f d, In f (frames x) -> disp_depth f = Some d -> 0 <= d <= DEPTH_CAP /\ (entered f = false -> d < DEPTH_CAP)).
Proof. exact C07_model. Qed.

Theorem depth_cap_value : DEPTH_CAP = 1024.
Proof. reflexivity. Qed.

(* a frame standing at the cap does not recurse: it defers the object and returns *)
Theorem enter_at_cap_defers s t rec x o d k :
  gett s t = Some x -> frames x = FDispEnter o d :: k -> DEPTH_CAP <= d ->
  exists obs, micro s t rec = Some (sett (defer s KDestruct o) t (with_frames x k), obs).
Proof.
  intros Ht Hf Hd. unfold micro. rewrite Ht, Hf.
  assert ((d >=? DEPTH_CAP) = true) as -> by (rewrite Z.geb_leb; apply Z.leb_le; exact Hd).
  eexists. reflexivity.
Qed.

(* non-vacuity: a state in which a cascade is at depth 2 satisfies the invariant *)
Example dinv_nonvacuous :
  stack_ok [FDispEnter 3 2; FKids 1 0 0 []; FKids 0 0 0 []; FEndClosure; FMay; FOpEnd 0; FOp] /\
  td_clean [FDispEnter 3 2; FKids 1 0 0 []; FKids 0 0 0 []; FEndClosure; FMay; FOpEnd 0; FOp].
Proof.
  split; [|cbn; unfold no_disp; cbn; tauto].
  split; [cbn; lia|]. split.
  - intros f d Hin Hd He. cbn in Hin. unfold DEPTH_CAP.
    repeat (destruct Hin as [<-|Hin]; [cbn in *; try discriminate; inversion Hd; subst; reflexivity|]). contradiction.
  - intros f d Hin Hd. cbn in Hin. unfold DEPTH_CAP.
    repeat (destruct Hin as [<-|Hin]; [cbn in *; try discriminate; inversion Hd; subst; cbv; discriminate|]). contradiction.
Qed.

