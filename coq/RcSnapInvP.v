(* C02 over the model Rc.v: every Snapshot taken in a critical section that is still active refers to an object that
   is not destructed.  The invariant [prot] (executable twin: RcSnapInv.v, evaluated on every micro state of the
   replayed traces) says why a reader's object cannot be destructed while the reader stays in its section.
   This file: definitions, the safety lemma (a protected object is never the one a destruction step fires on),
   the induction principle for stability, stability for the frame kinds proved so far, and the conditional theorem. *)
From Coq Require Import ZArith List Bool Lia.
Import ListNotations.
Require Import Params StateW ModularW DisposeW Bits StateP ModularP Rc RcSpec RcP RcWeakP RcDepthP RcEpochP RcStampP.
Local Open Scope Z_scope.
Arguments sumZ {A} f l : simpl never.

(* ---- definitions *)
(* [e] is the residue of an epoch [v] written no earlier than one epoch before x pinned, and not in the future
   (a stamp written at an epoch the writer read is at most G + 1: child_stamp clamps).  For a reader inside its
   section (G <= ann + 1) this is [ann x - 1 <= decode (G s) e <= G s + 1]. *)
Definition fresh (s : state) (x : thr) (e : Z) : Prop := exists v, v mod 16 = e mod 16 /\ ann x - 1 <= v <= G s + 1.

(* ordinary shares: not the link fields of nodes, not the outgoing edges a cascade holds *)
Definition ord_frame (o : nat) (f : frame) : Z :=
  match f with
  | FDisp117 _ _ _ _ _ | FKids _ _ _ _ | FKid118 _ _ _ _ _ | FKid119 _ _ _ _ _ _ _ => 0
  | _ => frame_strong o f
  end.
Definition ord_thr (o : nat) (x : thr) : Z := sumZ (handle_strong o) (vars x) + sumZ (ord_frame o) (frames x).
Definition ord (s : state) (o : nat) : Z := sumZ (ord_thr o) (threads s) + sumZ (is_o o) (cells s).

Definition pwitP (s : state) (t n o : nat) : Prop :=
  exists p, In p (pending s) /\ pk p = KDestruct /\ po p = o /\ In (t, n) (pwit p).

Definition casc_frame (s : state) (x : thr) (o : nat) (ob : obj) (f : frame) : Prop :=
  match f with
  | FDispEnter o' d | FDisp115 o' d => o' = o /\ 0 < d /\ fresh s x (epoch (word ob))
  | FDisp116 o' d w => o' = o /\ 0 < d /\ fresh s x (epoch w)
  | _ => False
  end.
Definition casc (s : state) (x : thr) (o : nat) (ob : obj) : Prop :=
  exists u y f, gett s u = Some y /\ In f (frames y) /\ casc_frame s x o ob f.

Definition flink (s : state) (x : thr) (o : nat) (l : link) : Prop := fst l = o /\ fresh s x (snd l).
Definition elink (s : state) (x : thr) (o : nat) : Prop :=
  exists P Pob l, geto s P = Some Pob /\ dropped Pob = false /\ In l (links Pob) /\ flink s x o l.
Definition outs_frame (s : state) (x : thr) (o : nat) (ob : obj) (f : frame) : Prop :=
  match f with
  | FDisp117 _ _ _ _ outs | FKids _ _ _ outs => exists l, In l outs /\ flink s x o l
  | FKid118 c _ _ _ outs => flink s x o c \/ exists l, In l outs /\ flink s x o l
  | FKid119 c wc nxt _ _ _ outs =>
      (flink s x o c /\ fresh s x (epoch nxt)) \/ exists l, In l outs /\ flink s x o l
  | _ => False
  end.
Definition eouts (s : state) (x : thr) (o : nat) (ob : obj) : Prop :=
  exists u y f, gett s u = Some y /\ In f (frames y) /\ outs_frame s x o ob f.

Definition base (s : state) (t : nat) (x : thr) (o : nat) : Prop :=
  exists ob, geto s o = Some ob /\ destructed (word ob) = false /\
    (0 < ord s o \/ (0 < strong (word ob) /\ fresh s x (epoch (word ob))) \/ pwitP s t (serial x) o \/
     casc s x o ob \/ elink s x o \/ eouts s x o ob).

Inductive prot (s : state) (t : nat) (x : thr) : nat -> Prop :=
| prot_base o : base s t x o -> prot s t x o
| prot_link P Pob l o ob : prot s t x P -> geto s P = Some Pob -> dropped Pob = false -> In l (links Pob) ->
    fst l = o -> geto s o = Some ob -> destructed (word ob) = false -> prot s t x o.

Lemma prot_live s t x o : prot s t x o -> exists ob, geto s o = Some ob /\ destructed (word ob) = false.
Proof. intros [o' (ob & Hg & Hd & _)|]; eauto. Qed.

(* ---- ordinary shares are owners *)
Lemma ord_frame_le n o f : frame_wf n f -> 0 <= ord_frame o f <= frame_strong o f.
Proof.
  intros H. pose proof (frame_strong_nonneg n o f H). destruct f; cbn [ord_frame]; lia.
Qed.
Lemma ord_thr_le o x : thr_wf x -> 0 <= ord_thr o x <= thr_strong o x.
Proof.
  intros (Hv & Hf & _). unfold ord_thr, thr_strong.
  assert (0 <= sumZ (handle_strong o) (vars x)).
  { apply sumZ_nonneg. intros a Ha. apply handle_strong_nonneg. rewrite Forall_forall in Hv. auto. }
  assert (0 <= sumZ (ord_frame o) (frames x) <= sumZ (frame_strong o) (frames x)).
  { clear H. induction (frames x) as [|f r IH]; [rewrite !sumZ_nil; lia|]. inversion Hf; subst. rewrite !sumZ_cons.
    pose proof (ord_frame_le _ o f H1). specialize (IH H2). lia. }
  lia.
Qed.
Lemma sumZ_le_pw {A} (f g : A -> Z) l : (forall a, In a l -> f a <= g a) -> sumZ f l <= sumZ g l.
Proof.
  induction l; intros H; [rewrite !sumZ_nil; lia|]. rewrite !sumZ_cons.
  pose proof (H a (or_introl eq_refl)). assert (sumZ f l <= sumZ g l) by (apply IHl; intros; apply H; right; auto). lia.
Qed.
Lemma ord_le_owners s o : all_wf s -> ord s o <= owners s o.
Proof.
  intros Hw. unfold ord, owners. pose proof (objs_links_nonneg s o).
  assert (sumZ (ord_thr o) (threads s) <= sumZ (thr_strong o) (threads s)).
  { apply sumZ_le_pw. intros x Hx. destruct (In_nth_error _ _ Hx) as (n & Hn). apply ord_thr_le. eapply Hw; eauto. }
  lia.
Qed.

(* a link field of a node that is not dropped is an owner *)
Lemma link_owner s P Pob l o : geto s P = Some Pob -> In l (links Pob) -> fst l = o -> all_wf s -> 1 <= owners s o.
Proof.
  intros Hg Hin Hl Hw. subst o. set (o := fst l). unfold owners.
  assert (0 <= sumZ (thr_strong o) (threads s)) by (apply sumZ_nonneg; apply threads_strong_nonneg; auto).
  pose proof (sumZ_is_o_nonneg o (cells s)).
  assert (1 <= sumZ (obj_links_strong o) (objs s)).
  { destruct P; cbn in Hg; [discriminate|].
    pose proof (sumZ_nth_le (obj_links_strong o) (objs s) P Pob (fun b _ => sumZ_is_o_nonneg o (links b)) Hg).
    assert (1 <= obj_links_strong o Pob).
    { unfold obj_links_strong. pose proof (sumZ_In_le (is_o o) (links Pob) l (fun b => proj1 (is_o_range o b)) Hin).
      unfold o in H2 at 1. rewrite is_o_eq in H2. exact H2. }
    lia. }
  lia.
Qed.

Lemma frame_owner s u y f o : all_wf s -> gett s u = Some y -> In f (frames y) -> frame_strong o f <= owners s o.
Proof.
  intros Hw Hy Hin. pose proof (owners_ge_thr s u y o Hw Hy). destruct (Hw _ _ Hy) as (Hv & Hf & _).
  unfold thr_strong in H.
  assert (0 <= sumZ (handle_strong o) (vars y)).
  { apply sumZ_nonneg. intros a Ha. apply handle_strong_nonneg. rewrite Forall_forall in Hv. auto. }
  assert (frame_strong o f <= sumZ (frame_strong o) (frames y)).
  { destruct (In_nth_error _ _ Hin) as (n & Hn). apply (sumZ_nth_le (frame_strong o) (frames y) n f); auto.
    intros b Hb. rewrite Forall_forall in Hf. eapply frame_strong_nonneg; eauto. }
  lia.
Qed.

Lemma In_is_o_sum o l outs : In l outs -> fst l = o -> 1 <= sumZ (is_o o) outs.
Proof.
  intros Hin Hl. pose proof (sumZ_In_le (is_o o) outs l (fun b => proj1 (is_o_range o b)) Hin).
  subst o. rewrite is_o_eq in H. exact H.
Qed.

Lemma eouts_owner s x o ob : all_wf s -> eouts s x o ob -> 1 <= owners s o.
Proof.
  intros Hw (u & y & f & Hy & Hin & Hf). pose proof (frame_owner s u y f o Hw Hy Hin) as H.
  assert (1 <= frame_strong o f); [|lia].
  destruct f; cbn in Hf; try contradiction; cbn [frame_strong].
  - destruct Hf as (l & Hl & Hfl & _). eapply In_is_o_sum; eauto.
  - destruct Hf as (l & Hl & Hfl & _). eapply In_is_o_sum; eauto.
  - pose proof (is_o_range o c). pose proof (sumZ_is_o_nonneg o outs).
    destruct Hf as [(Hc & _)|(l & Hl & Hfl & _)]; [subst o; rewrite is_o_eq; lia|].
    pose proof (In_is_o_sum o l outs Hl Hfl). lia.
  - pose proof (is_o_range o c). pose proof (sumZ_is_o_nonneg o outs).
    destruct Hf as [((Hc & _) & _)|(l & Hl & Hfl & _)]; [subst o; rewrite is_o_eq; lia|].
    pose proof (In_is_o_sum o l outs Hl Hfl). lia.
Qed.

(* what keeps a protected object alive is counted: a positive count, or a second attempt *)
Lemma prot_evidence s t x o : Inv' s -> prot s t x o ->
  exists ob, geto s o = Some ob /\ destructed (word ob) = false /\
    (0 < strong (word ob) \/ pwitP s t (serial x) o \/ casc s x o ob).
Proof.
  intros HI Hp. pose proof (Inv'_all_wf _ HI) as Hw. pose proof HI as (HA & _).
  assert (Hown : forall ob, geto s o = Some ob -> destructed (word ob) = false -> 1 <= owners s o -> 0 < strong (word ob)).
  { intros ob Hg Hd Ho. destruct (live_facts _ _ _ (HA _ _ Hg) Hd) as (J1 & _). pose proof (b2z_range (tok ob)). lia. }
  destruct Hp as [o (ob & Hg & Hd & Hb)|P Pob l o ob _ HgP _ Hin Hl Hg Hd].
  - exists ob. split; auto. split; auto.
    destruct Hb as [H|[H|[H|[H|[H|H]]]]]; [| | right; left; exact H | right; right; exact H | | ].
    + left. apply Hown; auto. pose proof (ord_le_owners s o Hw). lia.
    + left. apply H.
    + left. apply Hown; auto. destruct H as (P & Pob & l & HgP & _ & Hin & Hl & _). apply (link_owner s P Pob l o HgP Hin Hl Hw).
    + left. apply Hown; auto. apply (eouts_owner s x o ob Hw H).
  - exists ob. split; auto. split; auto. left. apply Hown; auto. apply (link_owner s P Pob l o HgP Hin Hl Hw).
Qed.

(* ---- the safety lemma: a destruction step never fires on a protected object *)
Lemma pend_attempt s o p : In p (pending s) -> pk p = KDestruct -> po p = o -> 1 <= sumZ (pend_is KDestruct o) (pending s).
Proof.
  intros Hin Hk Ho.
  pose proof (sumZ_In_le (pend_is KDestruct o) (pending s) p) as H.
  assert (Hn : forall b, 0 <= pend_is KDestruct o b) by (intros; unfold pend_is; destruct (_ && _); lia).
  specialize (H Hn Hin). unfold pend_is in H at 1. rewrite Hk, Ho, Nat.eqb_refl in H. cbn in H. exact H.
Qed.

Lemma casc_frame_attempt s x o ob f : casc_frame s x o ob f -> frame_attempt o f = 1.
Proof.
  destruct f; cbn; try contradiction; intros (-> & Hd & _); rewrite Nat.eqb_refl;
    destruct (Z.ltb_spec 0 depth); auto; lia.
Qed.

Lemma two_attempts s t x u y f k o ob :
  gett s u = Some y -> frames y = f :: k -> frame_attempt o f = 1 -> ~ casc_frame s x o ob f ->
  (pwitP s t (serial x) o \/ casc s x o ob) -> 2 <= attempts s o.
Proof.
  intros Hy Hf Hfa Hnc [(p & Hin & Hk & Ho & _)|(u' & y' & f' & Hy' & Hin' & Hc)].
  - pose proof (pend_attempt s o p Hin Hk Ho). unfold attempts.
    pose proof (sumZ_nth_le (thr_att o) (threads s) u y (fun b _ => thr_att_nonneg o b) Hy) as H1.
    rewrite (thr_att_top _ _ _ _ Hf) in H1.
    assert (0 <= sumZ (frame_attempt o) k) by (apply sumZ_nonneg; intros; apply frame_attempt_range).
    unfold thr_att in H1. lia.
  - pose proof (casc_frame_attempt _ _ _ _ _ Hc) as Hfa'.
    destruct (Nat.eq_dec u u') as [<-|Hne].
    + rewrite Hy in Hy'. inversion Hy'; subst y'. rewrite Hf in Hin'. destruct Hin' as [<-|Hin']; [contradiction|].
      pose proof (attempts_ge_thr s u y o Hy). rewrite (thr_att_top _ _ _ _ Hf) in H.
      pose proof (sumZ_In_le (frame_attempt o) k f' (fun b => proj1 (frame_attempt_range o b)) Hin'). lia.
    + pose proof (attempts_ge_thr2 s u u' y y' o Hne Hy Hy').
      pose proof (thr_att_In o y' f' Hin'). rewrite (thr_att_top _ _ _ _ Hf) in H.
      assert (0 <= sumZ (frame_attempt o) k) by (apply sumZ_nonneg; intros; apply frame_attempt_range). lia.
Qed.

Theorem prot_not_fired s t x u y f k o ob :
  Inv' s -> prot s t x o -> gett s u = Some y -> frames y = f :: k -> frame_attempt o f = 1 ->
  (forall ob', ~ casc_frame s x o ob' f) -> geto s o = Some ob -> strong (word ob) = 0 -> False.
Proof.
  intros HI Hp Hy Hf Hfa Hnc Hg Hz. destruct (prot_evidence s t x o HI Hp) as (ob' & Hg' & Hd & Hev).
  rewrite Hg in Hg'. inversion Hg'; subst ob'. destruct Hev as [H|H]; [lia|].
  pose proof (two_attempts s t x u y f k o ob Hy Hf Hfa (Hnc ob) H).
  destruct HI as (HA & _). destruct (live_facts _ _ _ (HA _ _ Hg) Hd) as (_ & J2 & _). lia.
Qed.

(* ---- stability: the induction principle *)
Definition same_sec (x x' : thr) : Prop :=
  incs x = true /\ incs x' = true /\ serial x' = serial x /\ ann x' = ann x.
Lemma same_sec_refl x : incs x = true -> same_sec x x.
Proof. intros H. repeat split; auto. Qed.

Lemma prot_stable s s' t x x' :
  (forall o, base s t x o -> prot s' t x' o) ->
  (forall P Pob l o ob, prot s t x P -> prot s' t x' P -> geto s P = Some Pob -> dropped Pob = false ->
     In l (links Pob) -> fst l = o -> geto s o = Some ob -> destructed (word ob) = false -> prot s' t x' o) ->
  forall o, prot s t x o -> prot s' t x' o.
Proof.
  intros Hb Hl o Hp. induction Hp as [o Hbase|P Pob l o ob HpP IH HgP HdP Hin Hfl Hg Hd]; [auto|].
  eapply Hl; eauto.
Qed.

(* what a step may do to the objects without disturbing the protection argument *)
Definition sview (ob ob' : obj) : Prop :=
  (0 < strong (word ob) -> 0 < strong (word ob')) /\ epoch (word ob') = epoch (word ob) /\
  destructed (word ob') = destructed (word ob) /\ links ob' = links ob /\ dropped ob' = dropped ob.
Definition sviews (s s' : state) : Prop :=
  forall o ob, geto s o = Some ob -> exists ob', geto s' o = Some ob' /\ sview ob ob'.
Lemma sview_refl ob : sview ob ob. Proof. repeat split; auto. Qed.
Lemma sviews_geto s s' : (forall o, geto s' o = geto s o) -> sviews s s'.
Proof. intros H o ob Hg. exists ob. rewrite H. split; auto. apply sview_refl. Qed.

Lemma fresh_mono s s' x x' e : G s <= G s' -> ann x' = ann x -> fresh s x e -> fresh s' x' e.
Proof. unfold fresh. intros HG Ha (v & E & H). exists v. rewrite Ha. split; auto. lia. Qed.

Lemma casc_frame_mono s s' x x' o ob ob' f :
  G s <= G s' -> ann x' = ann x -> epoch (word ob') = epoch (word ob) ->
  casc_frame s x o ob f -> casc_frame s' x' o ob' f.
Proof.
  intros HG Ha He. destruct f; cbn; auto; intros (E & Hd & Hf); repeat split; auto;
    rewrite ?He; eapply fresh_mono; eauto.
Qed.
Lemma flink_mono s s' x x' o l : G s <= G s' -> ann x' = ann x -> flink s x o l -> flink s' x' o l.
Proof. intros HG Ha (E & H). split; auto. eapply fresh_mono; eauto. Qed.
Lemma outs_frame_mono s s' x x' o ob ob' f :
  G s <= G s' -> ann x' = ann x ->
  outs_frame s x o ob f -> outs_frame s' x' o ob' f.
Proof.
  intros HG Ha. destruct f; cbn; auto.
  - intros (l & Hl & Hf). exists l. split; auto. eapply flink_mono; eauto.
  - intros (l & Hl & Hf). exists l. split; auto. eapply flink_mono; eauto.
  - intros [Hf|(l & Hl & Hf)]; [left; eapply flink_mono; eauto|right; exists l; split; auto; eapply flink_mono; eauto].
  - intros [(Hf & Hc)|(l & Hl & Hf)].
    + left. split; [eapply flink_mono; eauto|eapply fresh_mono; eauto].
    + right. exists l. split; auto. eapply flink_mono; eauto.
Qed.

Definition stable (s s' : state) : Prop :=
  forall t x x' o, gett s t = Some x -> gett s' t = Some x' -> same_sec x x' -> prot s t x o -> prot s' t x' o.

Lemma ord_sett s u y y' o : gett s u = Some y -> ord (sett s u y') o = ord s o - ord_thr o y + ord_thr o y'.
Proof. unfold gett, ord, sett; cbn [threads cells]. intros H. rewrite (sumZ_set_nth _ _ _ _ _ H). lia. Qed.
Lemma ord_thr_top o y f k : frames y = f :: k ->
  ord_thr o y = sumZ (handle_strong o) (vars y) + ord_frame o f + sumZ (ord_frame o) k.
Proof. intros H. unfold ord_thr. rewrite H, sumZ_cons. lia. Qed.

(* frames of the stepping thread: the top frame or one below; frames of the others *)
Lemma frame_cases s s1 u y y1 f k new u0 y0 f0 :
  gett s u = Some y -> frames y = f :: k -> threads s1 = threads s ->
  gett s u0 = Some y0 -> In f0 (frames y0) ->
  (u0 = u /\ f0 = f) \/
  (exists y0', gett (sett s1 u (with_frames y1 (new ++ k))) u0 = Some y0' /\ In f0 (frames y0')).
Proof.
  intros Hy Hf Hth Hy0 Hin. assert (Hy1 : gett s1 u = Some y) by (unfold gett in *; rewrite Hth; auto).
  destruct (Nat.eq_dec u u0) as [<-|Hne].
  - rewrite Hy in Hy0. inversion Hy0; subst y0. rewrite Hf in Hin. destruct Hin as [<-|Hin]; [left; auto|].
    right. exists (with_frames y1 (new ++ k)). split; [apply (gett_sett_eq _ _ _ _ Hy1)|].
    cbn [frames with_frames]. apply in_or_app. auto.
  - right. exists y0. split; auto. rewrite gett_sett_neq by auto. unfold gett in *. rewrite Hth. auto.
Qed.

Lemma stable_neutral_gen s s1 u y y1 f k new :
  gett s u = Some y -> frames y = f :: k -> threads s1 = threads s ->
  sviews s s1 ->
  (forall t x x' p, gett s t = Some x -> gett (sett s1 u (with_frames y1 (new ++ k))) t = Some x' -> same_sec x x' ->
     In p (pending s) -> In (t, serial x) (pwit p) -> In p (pending s1)) ->
  G s <= G s1 ->
  (forall o, o <> O -> 0 < ord s o -> 0 < ord (sett s1 u (with_frames y1 (new ++ k))) o) ->
  (forall t x x' o ob ob', gett s t = Some x -> geto s o = Some ob -> geto s1 o = Some ob' -> ann x' = ann x -> incs x = true ->
     epoch (word ob') = epoch (word ob) -> casc_frame s x o ob f ->
     (exists f', In f' new /\ casc_frame s1 x' o ob' f') \/ pwitP s1 t (serial x) o) ->
  (forall t x x' o ob ob', gett s t = Some x -> geto s o = Some ob -> geto s1 o = Some ob' -> ann x' = ann x -> incs x = true ->
     outs_frame s x o ob f -> exists f', In f' new /\ outs_frame s1 x' o ob' f') ->
  stable s (sett s1 u (with_frames y1 (new ++ k))).
Proof.
  intros Hy Hf Hth Hsv Hpe HG Hord Hcf Hof t x x' o Hx Hx' (Hi & Hi' & Hse & Han) Hp.
  set (s' := sett s1 u (with_frames y1 (new ++ k))) in *.
  assert (Hy1 : gett s1 u = Some y) by (unfold gett in *; rewrite Hth; auto).
  assert (HG' : G s <= G s') by exact HG.
  assert (Hgeto : forall o0, geto s' o0 = geto s1 o0) by reflexivity.
  revert o Hp. apply prot_stable.
  - intros o (ob & Hg & Hd & Hb). destruct (Hsv _ _ Hg) as (ob' & Hg' & Es & Ee & Ed & El & Edr).
    apply prot_base. exists ob'. rewrite Hgeto. split; auto. split; [congruence|].
    destruct Hb as [H|[H|[H|[H|[H|H]]]]].
    + left. apply Hord; auto. intros ->. discriminate.
    + right; left. rewrite Ee. destruct H. split; auto. eapply fresh_mono; eauto.
    + right; right; left. destruct H as (p & Hin & Hk & Ho & Hw). exists p. rewrite Hse. split; [apply (Hpe t x x' p Hx Hx'); auto; repeat split; auto|auto].
    + destruct H as (u0 & y0 & f0 & Hy0 & Hin & Hc).
      destruct (frame_cases s s1 u y y1 f k new u0 y0 f0 Hy Hf Hth Hy0 Hin) as [(-> & ->)|(y0' & Hy0' & Hin')].
      * destruct (Hcf t x x' o ob ob' Hx Hg Hg' Han Hi Ee Hc) as [(f' & Hin' & Hc')|Hpw].
        -- right; right; right; left. exists u, (with_frames y1 (new ++ k)), f'.
           split; [apply (gett_sett_eq _ _ _ _ Hy1)|]. split; [cbn [frames with_frames]; apply in_or_app; auto|exact Hc'].
        -- right; right; left. rewrite Hse. exact Hpw.
      * right; right; right; left. exists u0, y0', f0. split; auto. split; auto. eapply casc_frame_mono; eauto.
    + right; right; right; right; left. destruct H as (P & Pob & l & HgP & HdP & Hin & Hfl).
      destruct (Hsv _ _ HgP) as (Pob' & HgP' & _ & _ & _ & El' & Edr'). exists P, Pob', l. rewrite Hgeto.
      split; auto. split; [congruence|]. split; [rewrite El'; auto|]. eapply flink_mono; eauto.
    + right; right; right; right; right. destruct H as (u0 & y0 & f0 & Hy0 & Hin & Hc).
      destruct (frame_cases s s1 u y y1 f k new u0 y0 f0 Hy Hf Hth Hy0 Hin) as [(-> & ->)|(y0' & Hy0' & Hin')].
      * destruct (Hof t x x' o ob ob' Hx Hg Hg' Han Hi Hc) as (f' & Hin' & Hc'). exists u, (with_frames y1 (new ++ k)), f'.
        split; [apply (gett_sett_eq _ _ _ _ Hy1)|]. split; [cbn [frames with_frames]; apply in_or_app; auto|exact Hc'].
      * exists u0, y0', f0. split; auto. split; auto. eapply outs_frame_mono; eauto.
  - intros P Pob l o ob _ HpP' HgP HdP Hin Hl Hg Hd.
    destruct (Hsv _ _ HgP) as (Pob' & HgP' & _ & _ & _ & El' & Edr').
    destruct (Hsv _ _ Hg) as (ob' & Hg' & _ & _ & Ed' & _ & _).
    apply (prot_link s' t x' P Pob' l o ob'); auto; try congruence.
Qed.

Lemma stable_neutral_p s s1 u y y1 f k new :
  gett s u = Some y -> frames y = f :: k -> threads s1 = threads s ->
  sviews s s1 ->
  (forall t x x' p, gett s t = Some x -> gett (sett s1 u (with_frames y1 (new ++ k))) t = Some x' -> same_sec x x' ->
     In p (pending s) -> In (t, serial x) (pwit p) -> In p (pending s1)) ->
  cells s1 = cells s -> G s <= G s1 ->
  (forall o, sumZ (handle_strong o) (vars y) + ord_frame o f <= sumZ (handle_strong o) (vars y1) + sumZ (ord_frame o) new) ->
  (forall t x x' o ob ob', gett s t = Some x -> geto s o = Some ob -> geto s1 o = Some ob' -> ann x' = ann x -> incs x = true ->
     epoch (word ob') = epoch (word ob) -> casc_frame s x o ob f ->
     (exists f', In f' new /\ casc_frame s1 x' o ob' f') \/ pwitP s1 t (serial x) o) ->
  (forall t x x' o ob ob', gett s t = Some x -> geto s o = Some ob -> geto s1 o = Some ob' -> ann x' = ann x -> incs x = true ->
     outs_frame s x o ob f -> exists f', In f' new /\ outs_frame s1 x' o ob' f') ->
  stable s (sett s1 u (with_frames y1 (new ++ k))).
Proof.
  intros Hy Hf Hth Hsv Hpe Hce HG Hord Hcf Hof. apply (stable_neutral_gen s s1 u y y1 f k new); auto.
  intros o Ho H. assert (Hy1 : gett s1 u = Some y) by (unfold gett in *; rewrite Hth; auto).
  rewrite (ord_sett _ _ _ _ _ Hy1). unfold ord at 1. rewrite Hth, Hce. fold (ord s o).
  rewrite (ord_thr_top _ _ _ _ Hf). unfold ord_thr. cbn [vars frames with_frames]. rewrite sumZ_app. specialize (Hord o). lia.
Qed.

Lemma stable_neutral s s1 u y y1 f k new :
  gett s u = Some y -> frames y = f :: k -> threads s1 = threads s ->
  sviews s s1 -> incl (pending s) (pending s1) -> cells s1 = cells s -> G s <= G s1 ->
  (forall o, sumZ (handle_strong o) (vars y) + ord_frame o f <= sumZ (handle_strong o) (vars y1) + sumZ (ord_frame o) new) ->
  (forall t x x' o ob ob', gett s t = Some x -> geto s o = Some ob -> geto s1 o = Some ob' -> ann x' = ann x -> incs x = true ->
     epoch (word ob') = epoch (word ob) -> casc_frame s x o ob f ->
     (exists f', In f' new /\ casc_frame s1 x' o ob' f') \/ pwitP s1 t (serial x) o) ->
  (forall t x x' o ob ob', gett s t = Some x -> geto s o = Some ob -> geto s1 o = Some ob' -> ann x' = ann x -> incs x = true ->
     outs_frame s x o ob f -> exists f', In f' new /\ outs_frame s1 x' o ob' f') ->
  stable s (sett s1 u (with_frames y1 (new ++ k))).
Proof. intros Hy Hf Hth Hsv Hpe. apply stable_neutral_p; auto. Qed.

(* ---- neutral frames *)
(* ---- [sviews] of composite states *)
Lemma sviews_refl s : sviews s s. Proof. apply sviews_geto; auto. Qed.
Lemma sviews_trans a b c : sviews a b -> sviews b c -> sviews a c.
Proof.
  intros H1 H2 o ob Hg. destruct (H1 _ _ Hg) as (ob1 & Hg1 & E1). destruct (H2 _ _ Hg1) as (ob2 & Hg2 & E2).
  exists ob2. split; auto. destruct E1 as (?&?&?&?&?), E2 as (?&?&?&?&?). repeat split; try congruence. auto.
Qed.
Lemma sviews_seto s i ob X : geto s i = Some ob -> sview ob X -> sviews s (seto s i X).
Proof.
  intros Hg Hv o ob0 Hg0. destruct (Nat.eq_dec i o) as [<-|Hne].
  - rewrite (geto_seto_eq _ _ _ _ Hg). rewrite Hg in Hg0. inversion Hg0; subst. eauto.
  - rewrite geto_seto_neq by auto. exists ob0. split; auto. apply sview_refl.
Qed.
Lemma sviews_sett s S t X : sviews s S -> sviews s (sett S t X).
Proof. intros H. eapply sviews_trans; eauto. apply sviews_geto. auto. Qed.
Lemma sviews_defer s S k o : sviews s S -> sviews s (defer S k o).
Proof. intros H. eapply sviews_trans; eauto. apply sviews_geto. auto. Qed.
Lemma sviews_rc s S S' : rc_eq S S' -> sviews s S -> sviews s S'.
Proof. intros R H. eapply sviews_trans; eauto. apply sviews_geto. intros; apply geto_rc_eq; auto. Qed.
Lemma sviews_set_pending s S p : sviews s S -> sviews s (set_pending S p).
Proof. intros H. eapply sviews_trans; eauto. apply sviews_geto. auto. Qed.

Ltac sviews_solve :=
  repeat first
    [ apply sviews_refl
    | apply sviews_sett | apply sviews_defer | apply sviews_set_pending
    | eapply sviews_rc; [apply rc_eq_see_epoch|]
    | eapply sviews_rc; [apply rc_eq_set_err|] ].

Lemma G_rc_see s g : G s <= G (see_epoch s g). Proof. apply G_see_epoch. Qed.
Ltac G_solve :=
  cbn [G sett set_err set_pending defer]; rewrite ?G_seto;
  try lia; try (apply G_see_epoch); try (etransitivity; [|apply G_see_epoch]; cbn [G set_err set_pending]; lia).
Ltac pend_solve :=
  cbn [pending sett defer set_pending set_err]; rewrite ?pending_seto, ?(proj2 (tp_eq_rc _ _ (rc_eq_see_epoch _ _))); cbn [pending sett defer set_pending set_err];
  rewrite ?pending_seto; first [apply incl_refl | apply incl_appl; apply incl_refl].
Lemma cells_rc s s' : rc_eq s s' -> cells s' = cells s. Proof. intros (_&H&_). auto. Qed.
Ltac cells_solve :=
  cbn [cells sett defer set_pending set_err]; rewrite ?cells_seto, ?(cells_rc _ _ (rc_eq_see_epoch _ _)); cbn [cells sett defer set_pending set_err];
  rewrite ?cells_seto; reflexivity.
Ltac ord_solve :=
  intros; rewrite ?sumZ_app, ?sumZ_cons, ?sumZ_nil; cbn [ord_frame frame_strong handle_strong vars with_guard with_inclosure with_res with_resw]; try lia.
Ltac nocasc := intros; match goal with H : casc_frame _ _ _ _ _ |- _ => cbn in H; contradiction end.
Ltac noouts := intros; match goal with H : outs_frame _ _ _ _ _ |- _ => cbn in H; contradiction end.

Ltac sreshape k :=
  match goal with |- stable ?s (sett ?S ?T (with_frames ?X ?FS)) =>
    let p := prefix FS k in change FS with (p ++ k) end.
Ltac sneutral Hm Hx Hf k :=
  open_micro Hm Hx Hf; destruct_in Hm; inversion Hm; subst; clear Hm; sreshape k;
  eapply stable_neutral; try eassumption;
  try solve [threads_solve]; try solve [sviews_solve]; try solve [pend_solve]; try solve [cells_solve]; try solve [G_solve];
  try solve [ord_solve]; try solve [nocasc]; try solve [noouts].

Ltac sneutralB Hm Hx Hf k HB' :=
  open_micro Hm Hx Hf; destruct_in Hm; inversion Hm; subst; clear Hm; try solve [kill_err' HB']; sreshape k;
  eapply stable_neutral; try eassumption;
  try solve [threads_solve]; try solve [sviews_solve]; try solve [pend_solve]; try solve [cells_solve]; try solve [G_solve];
  try solve [ord_solve]; try solve [nocasc]; try solve [noouts].

Lemma stab_FStart s t rec s' obs x k :
  gett s t = Some x -> frames x = FStart :: k -> micro s t rec = Some (s', obs) -> stable s s'.
Proof. intros Hx Hf Hm. sneutral Hm Hx Hf k. Qed.
Lemma stab_FOpEnd s t rec s' obs x k opc :
  gett s t = Some x -> frames x = FOpEnd opc :: k -> micro s t rec = Some (s', obs) -> stable s s'.
Proof. intros Hx Hf Hm. sneutral Hm Hx Hf k. Qed.
Lemma stab_FMay s t rec s' obs x k :
  gett s t = Some x -> frames x = FMay :: k -> micro s t rec = Some (s', obs) -> stable s s'.
Proof. intros Hx Hf Hm. sneutral Hm Hx Hf k. Qed.

Lemma stab_FEndClosure s t rec s' obs x k :
  gett s t = Some x -> frames x = FEndClosure :: k -> micro s t rec = Some (s', obs) -> stable s s'.
Proof. intros Hx Hf Hm. sneutral Hm Hx Hf k. Qed.
Lemma stab_FUnpinTmp s t rec s' obs x k :
  gett s t = Some x -> frames x = FUnpinTmp :: k -> micro s t rec = Some (s', obs) -> stable s s'.
Proof. intros Hx Hf Hm. sneutral Hm Hx Hf k. Qed.
Lemma stab_FDecS110 s t rec s' obs x k o cnt tmp own :
  gett s t = Some x -> frames x = FDecS110 o cnt tmp own :: k -> micro s t rec = Some (s', obs) -> stable s s'.
Proof. intros Hx Hf Hm. sneutral Hm Hx Hf k. Qed.
Lemma stab_FDecS111 s t rec s' obs x k o cnt r tmp own :
  bounded s' -> gett s t = Some x -> frames x = FDecS111 o cnt r tmp own :: k -> micro s t rec = Some (s', obs) -> stable s s'.
Proof. intros HB' Hx Hf Hm. sneutralB Hm Hx Hf k HB'. Qed.
Lemma stab_FTD113 s t rec s' obs x k o :
  gett s t = Some x -> frames x = FTD113 o :: k -> micro s t rec = Some (s', obs) -> stable s s'.
Proof. intros Hx Hf Hm. sneutral Hm Hx Hf k. Qed.
Lemma stab_FIncW103 s t rec s' obs x k o cnt :
  gett s t = Some x -> frames x = FIncW103 o cnt :: k -> micro s t rec = Some (s', obs) -> stable s s'.
Proof. intros Hx Hf Hm. sneutral Hm Hx Hf k. Qed.
Lemma stab_FIsND108 s t rec s' obs x k o c :
  Inv' s -> bounded s' -> gett s t = Some x -> frames x = FIsND108 o c :: k -> micro s t rec = Some (s', obs) -> stable s s'.
Proof.
  intros HI HB' Hx Hf Hm. get_wf HI Hx Hf Hwf0 Hdn0. destruct Hwf0 as (_ & Hn1 & Hn2).
  sneutralB Hm Hx Hf k HB'.
  all: ord_solve; rewrite ?(proj1 (nostrong_strong _ _ Hn2)); lia.
Qed.
Lemma stab_FCas120 s t rec s' obs x k c e des src d :
  gett s t = Some x -> frames x = FCas120 c e des src d :: k -> micro s t rec = Some (s', obs) -> stable s s'.
Proof. intros Hx Hf Hm. sneutral Hm Hx Hf k. Qed.

(* ---- weak-side frames *)
(* ---- weak-side word updates leave strong, epoch and DESTRUCTED alone *)
Definition updE (w w' : Z) : Prop := strong w' = strong w /\ epoch w' = epoch w /\ destructed w' = destructed w.
Lemma updE_of_se w w' k wd : W w -> same_except w w' false k wd false false -> updE w w'.
Proof.
  intros Hw [Hw' S1 _ _ S4 S5]. unfold updE. rewrite !strong_spec, !epoch_spec, !destructed_spec by auto.
  rewrite S1, S4, S5; auto.
Qed.
Lemma updE_fsub_weak w : W w -> weak w < LIM -> weak (fsub w WEAK_COUNT) < LIM -> updE w (fsub w WEAK_COUNT).
Proof.
  intros Hw Hb Hb'. destruct (fsub_weak w Hw Hb Hb') as (_ & _ & H1). rewrite weak_spec in H1 by auto.
  destruct (fetch_sub_weak_indep w Hw H1) as (SE & _). unfold fsub. eapply updE_of_se; eauto.
Qed.
Lemma updE_fadd_weak w c : W w -> weak w < LIM -> 0 < c < LIM -> updE w (fadd w (wrap 64 (c * WEAK_COUNT))).
Proof.
  intros Hw Hb Hc. unfold fadd. rewrite weak_spec in Hb by auto. unfold LIM in *.
  assert (E1 : wrap 64 (c * WEAK_COUNT) = c * WEAK_COUNT) by (apply wrap_small; change WEAK_COUNT with (2 ^ 29); lia). rewrite E1.
  destruct (fetch_add_weak_indep w c Hw ltac:(lia) ltac:(lia)) as (SE & _). eapply updE_of_se; eauto.
Qed.
Lemma updE_fadd_weak1 w : W w -> weak w < LIM -> updE w (fadd w WEAK_COUNT).
Proof.
  intros Hw Hb. unfold fadd. rewrite weak_spec in Hb by auto. unfold LIM in *.
  destruct (fetch_add_weak_indep w 1 Hw ltac:(lia) ltac:(lia)) as (SE & _).
  replace (w + WEAK_COUNT) with (w + 1 * WEAK_COUNT) by lia. eapply updE_of_se; eauto.
Qed.
Lemma updE_add_weak w c : W w -> weak w < LIM -> 0 < c < LIM -> updE w (add_weak (with_weaked w true) c).
Proof.
  intros Hw Hb Hc. destruct (with_weaked_indep w true Hw) as ([Hw1 S1 S2 _ S4 S5] & S3).
  assert (Hb1 : f_weak (with_weaked w true) + c < 2 ^ 29).
  { rewrite S2 by auto. rewrite weak_spec in Hb by auto. unfold LIM in *. lia. }
  destruct (add_weak_indep (with_weaked w true) c Hw1 ltac:(lia) Hb1) as ([Hw2 T1 _ T3 T4 T5] & T2).
  unfold updE. rewrite !strong_spec, !epoch_spec, !destructed_spec by auto.
  rewrite T1, S1, T5, S5, T4, S4 by auto. auto.
Qed.

Ltac sv_seto Hg :=
  eapply sviews_seto; [exact Hg | repeat split; cbn [word links dropped with_word with_tok]; auto; try congruence; try lia].
Ltac sstep_obj Hg :=
  eapply stable_neutral; try eassumption;
  try solve [threads_solve];
  try solve [repeat first [ apply sviews_refl | apply sviews_sett | apply sviews_defer | sv_seto Hg ]];
  try solve [pend_solve]; try solve [cells_solve]; try solve [G_solve];
  try solve [ord_solve]; try solve [nocasc]; try solve [noouts].

Lemma stab_FDecW107 s t rec s' obs x k o tmp own :
  bounded s -> bounded s' -> gett s t = Some x -> frames x = FDecW107 o tmp own :: k ->
  micro s t rec = Some (s', obs) -> stable s s'.
Proof.
  intros HB HB' Hx Hf Hm. open_micro Hm Hx Hf.
  destruct (geto s o) as [ob|] eqn:Hg; [|inversion Hm; subst; kill_err' HB'].
  destruct (bounded_word _ _ _ HB Hg) as (Hw & Hs & Hwk).
  set (ob' := {| word := fsub (word ob) WEAK_COUNT; dropped := dropped ob; freed := freed ob; tok := tok ob;
                 wtok := if own then wtok ob else false; links := links ob |}) in *.
  assert (Hg' : geto s' o = Some ob').
  { destruct (weak (word ob) =? 1); inversion Hm; subst s'; cbn [geto sett objs defer set_pending];
      change (geto (seto s o ob') o = Some ob'); eapply geto_seto_eq; eauto. }
  destruct (bounded_word _ _ _ HB' Hg') as (_ & _ & Hwk'). cbn [word ob'] in Hwk'.
  destruct (updE_fsub_weak _ Hw Hwk Hwk') as (E1 & E2 & E3). clear Hg'. subst ob'.
  destruct (weak (word ob) =? 1); inversion Hm; subst s' obs; clear Hm; sreshape k; sstep_obj Hg.
Qed.

Lemma stab_FTDe102 s t rec s' obs x k o :
  bounded s' -> gett s t = Some x -> frames x = FTDe102 o :: k -> micro s t rec = Some (s', obs) -> stable s s'.
Proof.
  intros HB' Hx Hf Hm. open_micro Hm Hx Hf.
  destruct (geto s o) as [ob|] eqn:Hg; [|inversion Hm; subst; kill_err' HB'].
  destruct (0 <? weak (word ob)); inversion Hm; subst s' obs; clear Hm; sreshape k; sstep_obj Hg.
Qed.

Lemma stab_FIncW104 s t rec s' obs x k o cnt old :
  Inv' s -> bounded s -> bounded s' -> gett s t = Some x -> frames x = FIncW104 o cnt old :: k ->
  micro s t rec = Some (s', obs) -> stable s s'.
Proof.
  intros HI HB HB' Hx Hf Hm. get_wf HI Hx Hf Hwf0 Hdn0. destruct Hwf0 as (Hcnt & _). open_micro Hm Hx Hf.
  destruct (geto s o) as [ob|] eqn:Hg; [|inversion Hm; subst; kill_err' HB'].
  destruct (bounded_word _ _ _ HB Hg) as (Hw & Hs & Hwk).
  destruct (updE_add_weak (word ob) cnt Hw Hwk Hcnt) as (E1 & E2 & E3).
  destruct (Z.eqb_spec (word ob) old) as [<-|Hne]; [|destruct (weaked (word ob))];
    inversion Hm; subst s' obs; clear Hm; sreshape k; sstep_obj Hg.
Qed.

Lemma stab_FIncW105 s t rec s' obs x k o cnt :
  Inv' s -> bounded s -> bounded s' -> gett s t = Some x -> frames x = FIncW105 o cnt :: k ->
  micro s t rec = Some (s', obs) -> stable s s'.
Proof.
  intros HI HB HB' Hx Hf Hm. get_wf HI Hx Hf Hwf0 Hdn0. cbn [frame_wf] in Hwf0. open_micro Hm Hx Hf.
  destruct (geto s o) as [ob|] eqn:Hg; [|inversion Hm; subst; kill_err' HB'].
  destruct (bounded_word _ _ _ HB Hg) as (Hw & Hs & Hwk).
  destruct (updE_fadd_weak (word ob) cnt Hw Hwk Hwf0) as (E1 & E2 & E3).
  destruct (weak (word ob) =? 0); inversion Hm; subst s' obs; clear Hm; sreshape k; sstep_obj Hg.
Qed.

Lemma stab_FIncW106 s t rec s' obs x k o :
  bounded s -> bounded s' -> gett s t = Some x -> frames x = FIncW106 o :: k ->
  micro s t rec = Some (s', obs) -> stable s s'.
Proof.
  intros HB HB' Hx Hf Hm. open_micro Hm Hx Hf.
  destruct (geto s o) as [ob|] eqn:Hg; [|inversion Hm; subst; kill_err' HB'].
  destruct (bounded_word _ _ _ HB Hg) as (Hw & Hs & Hwk).
  destruct (updE_fadd_weak1 (word ob) Hw Hwk) as (E1 & E2 & E3).
  inversion Hm; subst s' obs; clear Hm; sreshape k; sstep_obj Hg.
Qed.

Lemma stab_FRet s t rec s' obs x k c b :
  Inv' s -> gett s t = Some x -> frames x = FRet c b :: k -> micro s t rec = Some (s', obs) -> stable s s'.
Proof.
  intros HI Hx Hf Hm. get_wf HI Hx Hf Hwf0 Hdn0. destruct Hwf0 as (Hcd & _). cbn in Hdn0.
  open_micro Hm Hx Hf. inversion Hm; subst s' obs; clear Hm. sreshape k.
  eapply stable_neutral; try eassumption; try solve [threads_solve]; try solve [sviews_solve]; try solve [pend_solve];
    try solve [cells_solve]; try solve [G_solve]; try solve [nocasc]; try solve [noouts].
  intros o. ord_solve. vars_norm. rewrite sumZ_setv_none by auto. lia.
Qed.

Lemma stab_FLoad121 s t rec s' obs x k c d :
  Inv' s -> bounded s' -> gett s t = Some x -> frames x = FLoad121 c d :: k -> micro s t rec = Some (s', obs) -> stable s s'.
Proof.
  intros HI HB' Hx Hf Hm. get_wf HI Hx Hf Hwf0 Hdn0. cbn in Hdn0.
  open_micro Hm Hx Hf. destruct_in Hm; inversion Hm; subst; clear Hm; try solve [kill_err' HB']. sreshape k.
  eapply stable_neutral; try eassumption; try solve [threads_solve]; try solve [sviews_solve]; try solve [pend_solve];
    try solve [cells_solve]; try solve [G_solve]; try solve [nocasc]; try solve [noouts].
  intros o. ord_solve. vars_norm. rewrite (sumZ_setv0 o x x) by auto. lia.
Qed.

Lemma stab_FDisp115 s t rec s' obs x k o d :
  bounded s' -> gett s t = Some x -> frames x = FDisp115 o d :: k -> micro s t rec = Some (s', obs) -> stable s s'.
Proof.
  intros HB' Hx Hf Hm. open_micro Hm Hx Hf.
  destruct (geto s o) as [ob|] eqn:Hg; inversion Hm; subst s' obs; clear Hm; [|kill_err' HB']. sreshape k.
  eapply stable_neutral; try eassumption; try solve [threads_solve]; try solve [sviews_solve]; try solve [pend_solve];
    try solve [cells_solve]; try solve [G_solve]; try solve [ord_solve]; try solve [noouts].
  intros t0 y y' o0 ob0 ob0' Hy0 Hg0 Hg0' Han Hi Ee (-> & Hd & Hfr). rewrite Hg in Hg0. inversion Hg0; subst ob0.
  left. eexists. split; [left; reflexivity|]. cbn. repeat split; auto. eapply fresh_mono; eauto. lia.
Qed.

(* ---- cascade bookkeeping frames *)
Lemma witnesses_from_intro ls : forall i t x, nth_error ls t = Some x -> incs x = true -> In ((i + t)%nat, serial x) (witnesses_from ls i).
Proof.
  induction ls as [|l r IH]; intros i [|t] x H Hi; cbn in H; try discriminate.
  - inversion H; subst. cbn [witnesses_from]. rewrite Hi. rewrite Nat.add_0_r. left. reflexivity.
  - cbn [witnesses_from]. apply in_or_app. right. replace (i + S t)%nat with (S i + t)%nat by lia. apply IH; auto.
Qed.
Lemma witnesses_intro s t x : gett s t = Some x -> incs x = true -> In (t, serial x) (witnesses s).
Proof. intros H Hi. apply (witnesses_from_intro (threads s) 0 t x H Hi). Qed.

Lemma pwit_defer s t x o : gett s t = Some x -> incs x = true -> pwitP (defer s KDestruct o) t (serial x) o.
Proof.
  intros H Hi. eexists. split; [cbn [pending defer set_pending]; apply in_or_app; right; left; reflexivity|].
  cbn [pk po pwit]. repeat split; auto. apply witnesses_intro; auto.
Qed.

Lemma stab_FDispEnter s t rec s' obs x k o d :
  gett s t = Some x -> frames x = FDispEnter o d :: k -> micro s t rec = Some (s', obs) -> stable s s'.
Proof.
  intros Hx Hf Hm. open_micro Hm Hx Hf.
  destruct (d >=? DEPTH_CAP); inversion Hm; subst s' obs; clear Hm; sreshape k.
  - eapply stable_neutral; try eassumption; try solve [threads_solve]; try solve [sviews_solve]; try solve [pend_solve];
      try solve [cells_solve]; try solve [G_solve]; try solve [ord_solve]; try solve [noouts].
    intros t0 y y' o0 ob0 ob0' Hy0 Hg0 Hg0' Han Hi Ee (-> & Hd & Hfr). right. apply pwit_defer; auto.
  - eapply stable_neutral; try eassumption; try solve [threads_solve]; try solve [sviews_solve]; try solve [pend_solve];
      try solve [cells_solve]; try solve [G_solve]; try solve [ord_solve]; try solve [noouts].
    intros t0 y y' o0 ob0 ob0' Hy0 Hg0 Hg0' Han Hi Ee (-> & Hd & Hfr).
    left. eexists. split; [left; reflexivity|]. cbn. repeat split; auto. rewrite Ee. eapply fresh_mono; eauto. lia.
Qed.

Lemma stab_FKids s t rec s' obs x k d ne c outs :
  gett s t = Some x -> frames x = FKids d ne c outs :: k -> micro s t rec = Some (s', obs) -> stable s s'.
Proof.
  intros Hx Hf Hm. open_micro Hm Hx Hf.
  destruct outs as [|l r]; [|destruct (fst l) eqn:Hl]; inversion Hm; subst s' obs; clear Hm; sreshape k;
    eapply stable_neutral; try eassumption; try solve [threads_solve]; try solve [sviews_solve]; try solve [pend_solve];
      try solve [cells_solve]; try solve [G_solve]; try solve [ord_solve]; try solve [nocasc].
  - intros t0 y y' o0 ob0 ob0' Hy0 Hg0 Hg0' Han Hi (l0 & [] & _).
  - intros t0 y y' o0 ob0 ob0' Hy0 Hg0 Hg0' Han Hi (l0 & [<-|Hin] & Hfl).
    + destruct Hfl as (E & _). rewrite Hl in E. subst o0. discriminate.
    + eexists. split; [left; reflexivity|]. cbn. exists l0. split; auto. eapply flink_mono; eauto. lia.
  - intros t0 y y' o0 ob0 ob0' Hy0 Hg0 Hg0' Han Hi (l0 & Hin & Hfl).
    eexists. split; [left; reflexivity|]. cbn.
    assert (Hfl' : flink (see_epoch s (oracle_epoch s rec 1132)) y' o0 l0) by (eapply flink_mono; eauto; apply G_see_epoch).
    destruct Hin as [<-|Hin]; [left; auto|right; exists l0; auto].
Qed.

Lemma stab_FDisp117 s t rec s' obs x k o d ne c outs :
  bounded s' -> gett s t = Some x -> frames x = FDisp117 o d ne c outs :: k -> micro s t rec = Some (s', obs) -> stable s s'.
Proof.
  intros HB' Hx Hf Hm. open_micro Hm Hx Hf.
  destruct (geto s o) as [ob|] eqn:Hg; [|inversion Hm; subst; kill_err' HB'].
  destruct (weaked (word ob)); inversion Hm; subst s' obs; clear Hm; sreshape k;
    eapply stable_neutral; try eassumption; try solve [threads_solve]; try solve [pend_solve];
      try solve [cells_solve]; try solve [G_solve]; try solve [ord_solve]; try solve [nocasc];
      try solve [repeat first [ apply sviews_refl | apply sviews_sett | sv_seto Hg ]].
  all: intros t0 y y' o0 ob0 ob0' Hy0 Hg0 Hg0' Han Hi (l0 & Hin & Hfl);
       exists (FKids d ne c outs); (split; [cbn; auto|]); cbn; exists l0; split; auto; eapply flink_mono; eauto; G_solve.
Qed.

(* ---- increment_strong *)
Lemma epoch_fadd_count w : W w -> strong w + 1 < 2 ^ 29 -> epoch (fadd w COUNT) = epoch w.
Proof.
  intros Hw Hs. rewrite strong_spec in Hs by auto.
  destruct (fetch_add_count_indep w 1 Hw ltac:(lia) Hs) as ([Hw' _ _ _ _ S5] & _).
  unfold fadd. replace (w + COUNT) with (w + 1 * COUNT) by lia. rewrite !epoch_spec by auto. auto.
Qed.

Lemma stab_FIncS s t rec s' obs x k o c f :
  f = FIncS100 o c \/ f = FIncS101 o c ->
  Inv' s -> scounted_ok s -> bounded s -> bounded s' -> gett s t = Some x -> frames x = f :: k ->
  micro s t rec = Some (s', obs) -> stable s s'.
Proof.
  intros Hff HI HC HB HB' Hx Hf Hm.
  pose proof (Inv'_thr_wf _ _ _ HI Hx) as (_ & Hfw & _). rewrite Hf in Hfw. apply Forall_inv in Hfw.
  assert (Hc : exists l, cok c = HRc l /\ fst l = o /\ (cign c = false -> cfail c = HNone)).
  { destruct Hff as [-> | ->]; destruct Hfw as (_ & l & E1 & E2 & E3); eauto. }
  destruct Hc as (l & Hok & Hl & Hfail).
  destruct Hff as [-> | ->]; open_micro Hm Hx Hf.
  all: destruct (geto s o) as [ob|] eqn:Hg; [|inversion Hm; subst; kill_err' HB'].
  all: destruct (bounded_word _ _ _ HB Hg) as (Hw & Hs & _); unfold LIM in Hs.
  all: destruct (upd_fadd_count _ Hw ltac:(lia)) as (_ & U1 & U2); pose proof (epoch_fadd_count _ Hw ltac:(lia)) as U3.
  all: assert (Hcf : destructed (word ob) = true -> forall o0, handle_strong o0 (cfail c) = 0).
  all: try (intros Hd o0; rewrite Hfail; [reflexivity|]; destruct (cign c) eqn:Hcg; auto;
       first [ rewrite (HC t x o c k ob Hx (or_introl Hf) Hcg Hg) in Hd | rewrite (HC t x o c k ob Hx (or_intror Hf) Hcg Hg) in Hd ]; discriminate).
  all: destruct (destructed (word ob)) eqn:Hd; [|destruct (strong (word ob) =? 0)]; inversion Hm; subst s' obs; clear Hm; sreshape k.
  all: sstep_obj Hg.
  all: ord_solve; rewrite ?Hok, ?Hcf by auto; cbn [handle_strong]; pose proof (is_o_range o0 l); lia.
Qed.

(* a step that rewrites the count word of object i (links and payload untouched) *)
Lemma stable_word s s1 u y y1 f k new i ob ob' :
  gett s u = Some y -> frames y = f :: k -> threads s1 = threads s ->
  geto s i = Some ob -> (forall o, geto s1 o = geto (seto s i ob') o) -> links ob' = links ob -> dropped ob' = dropped ob ->
  incl (pending s) (pending s1) -> cells s1 = cells s -> G s <= G s1 ->
  (forall o, o <> i -> sumZ (handle_strong o) (vars y) + ord_frame o f <= sumZ (handle_strong o) (vars y1) + sumZ (ord_frame o) new) ->
  (forall t x x' o ob0 ob0', o <> i -> gett s t = Some x -> geto s o = Some ob0 -> geto s1 o = Some ob0' -> ann x' = ann x -> incs x = true ->
     epoch (word ob0') = epoch (word ob0) -> casc_frame s x o ob0 f ->
     (exists f', In f' new /\ casc_frame s1 x' o ob0' f') \/ pwitP s1 t (serial x) o) ->
  (forall t x x' o ob0 ob0', o <> i -> gett s t = Some x -> geto s o = Some ob0 -> geto s1 o = Some ob0' -> ann x' = ann x -> incs x = true ->
     outs_frame s x o ob0 f -> exists f', In f' new /\ outs_frame s1 x' o ob0' f') ->
  (forall t x x', gett s t = Some x -> gett (sett s1 u (with_frames y1 (new ++ k))) t = Some x' -> same_sec x x' ->
     base s t x i -> prot (sett s1 u (with_frames y1 (new ++ k))) t x' i) ->
  (forall t x, gett s t = Some x -> incs x = true -> prot s t x i -> destructed (word ob') = false) ->
  stable s (sett s1 u (with_frames y1 (new ++ k))).
Proof.
  intros Hy Hf Hth Hgi Hgeto Eli Edi Hpe Hce HG Hord Hcf Hof Ubase Ulive t x x' o Hx Hx' Hsec Hp.
  pose proof Hsec as (Hi & Hi' & Hse & Han).
  set (s' := sett s1 u (with_frames y1 (new ++ k))) in *.
  assert (Hy1 : gett s1 u = Some y) by (unfold gett in *; rewrite Hth; auto).
  assert (Hg' : forall o0, geto s' o0 = geto (seto s i ob') o0) by (intros; unfold s'; rewrite geto_sett; auto).
  assert (Hsv : forall o0 ob0, o0 <> i -> geto s o0 = Some ob0 -> geto s' o0 = Some ob0).
  { intros o0 ob0 Hne Hg0. rewrite Hg', geto_seto_neq; auto. }
  assert (Hgi' : geto s' i = Some ob') by (rewrite Hg'; eapply geto_seto_eq; eauto).
  assert (Hlinks : forall P Pob, geto s P = Some Pob -> exists Pob', geto s' P = Some Pob' /\ links Pob' = links Pob /\ dropped Pob' = dropped Pob).
  { intros P Pob HgP. destruct (Nat.eq_dec P i) as [->|Hne].
    - rewrite Hgi in HgP. inversion HgP; subst. eauto.
    - exists Pob. rewrite (Hsv _ _ Hne HgP). auto. }
  revert o Hp. apply prot_stable.
  - intros o Hb. destruct (Nat.eq_dec o i) as [->|Hne]; [apply (Ubase t x x' Hx Hx' Hsec Hb)|].
    destruct Hb as (ob0 & Hg0 & Hd & Hb). pose proof (Hsv _ _ Hne Hg0) as Hg0'.
    assert (Hg01 : geto s1 o = Some ob0) by (rewrite Hgeto, geto_seto_neq; auto).
    apply prot_base. exists ob0. split; auto. split; auto.
    destruct Hb as [H|[H|[H|[H|[H|H]]]]].
    + left. unfold s'. rewrite (ord_sett _ _ _ _ _ Hy1). unfold ord at 1. rewrite Hth, Hce. fold (ord s o).
      rewrite (ord_thr_top _ _ _ _ Hf). unfold ord_thr. cbn [vars frames with_frames]. rewrite sumZ_app. specialize (Hord o Hne). lia.
    + right; left. destruct H. split; auto. eapply fresh_mono; eauto.
    + right; right; left. destruct H as (p & Hin & Hk & Ho & Hw). exists p. rewrite Hse. split; [apply Hpe; auto|auto].
    + destruct H as (u0 & y0 & f0 & Hy0 & Hin & Hc).
      destruct (frame_cases s s1 u y y1 f k new u0 y0 f0 Hy Hf Hth Hy0 Hin) as [(-> & ->)|(y0' & Hy0' & Hin')].
      * destruct (Hcf t x x' o ob0 ob0 Hne Hx Hg0 Hg01 Han Hi eq_refl Hc) as [(f' & Hin' & Hc')|Hpw].
        -- right; right; right; left. exists u, (with_frames y1 (new ++ k)), f'.
           split; [apply (gett_sett_eq _ _ _ _ Hy1)|]. split; [cbn [frames with_frames]; apply in_or_app; auto|exact Hc'].
        -- right; right; left. rewrite Hse. exact Hpw.
      * right; right; right; left. exists u0, y0', f0. split; auto. split; auto. eapply casc_frame_mono; eauto.
    + right; right; right; right; left. destruct H as (P & Pob & l & HgP & HdP & Hin & Hfl).
      destruct (Hlinks _ _ HgP) as (Pob' & HgP' & El' & Edr'). exists P, Pob', l.
      split; auto. split; [congruence|]. split; [rewrite El'; auto|]. eapply flink_mono; eauto.
    + right; right; right; right; right. destruct H as (u0 & y0 & f0 & Hy0 & Hin & Hc).
      destruct (frame_cases s s1 u y y1 f k new u0 y0 f0 Hy Hf Hth Hy0 Hin) as [(-> & ->)|(y0' & Hy0' & Hin')].
      * destruct (Hof t x x' o ob0 ob0 Hne Hx Hg0 Hg01 Han Hi Hc) as (f' & Hin' & Hc'). exists u, (with_frames y1 (new ++ k)), f'.
        split; [apply (gett_sett_eq _ _ _ _ Hy1)|]. split; [cbn [frames with_frames]; apply in_or_app; auto|exact Hc'].
      * exists u0, y0', f0. split; auto. split; auto. eapply outs_frame_mono; eauto.
  - intros P Pob l o ob0 HpP HpP' HgP HdP Hin Hl Hg0 Hd.
    destruct (Hlinks _ _ HgP) as (Pob' & HgP' & El' & Edr').
    destruct (Nat.eq_dec o i) as [->|Hne].
    + apply (prot_link s' t x' P Pob' l i ob'); auto; try congruence.
      apply (Ulive t x Hx Hi). eapply prot_link; eauto.
    + apply (prot_link s' t x' P Pob' l o ob0); auto; try congruence.
Qed.

(* ---- decrement_strong *)
Lemma eok_thr s t x : EOK s -> bounded s -> gett s t = Some x -> incs x = true -> ann x <= G s <= ann x + 1.
Proof. intros [He|[H1 _]] (_ & E & _) Hx Hi; [contradiction|]. apply (H1 t x Hx Hi). Qed.

Lemma f_epoch_with_epoch w e : W w -> f_epoch (with_epoch w e) = e mod 16.
Proof. intros Hw. rewrite with_epoch_spec' by auto. fields. lia. Qed.

Lemma epoch_dec_word cur r cnt : W cur -> 0 <= cnt <= strong cur -> epoch (sub_strong (with_epoch cur r) cnt) = r mod 16.
Proof.
  intros Hw Hc. destruct (upd_with_epoch cur r Hw) as (Hw1 & Hs1 & _).
  destruct (sub_strong_indep (with_epoch cur r) cnt Hw1) as ([Hw2 _ _ _ _ S5] & _).
  { rewrite <- strong_spec by auto. lia. }
  rewrite epoch_spec by auto. rewrite S5 by auto. apply f_epoch_with_epoch; auto.
Qed.

(* a stamp read at most one epoch ago is fresh for every reader *)
Lemma fresh_recent s x r : ann x <= G s -> G s - 1 <= r <= G s -> fresh s x (r mod 16).
Proof. intros Ha Hr. exists r. split; [rewrite Z.mod_mod by lia; auto|lia]. Qed.

Lemma witnesses_seto s i X : witnesses (seto s i X) = witnesses s.
Proof. unfold witnesses. rewrite threads_seto. auto. Qed.
Lemma pwit_defer_seto s i X t x o : gett s t = Some x -> incs x = true -> pwitP (defer (seto s i X) KDestruct o) t (serial x) o.
Proof. intros H Hi. apply pwit_defer; auto. rewrite gett_seto. auto. Qed.

(* ---- run hypothesis H2: an epoch that will be written as a stamp was read at most one epoch ago (the reading thread is
   pinned in the implementation; the model does not pin inside deferred functions), and a cascade that is one epoch
   behind does not meet a residue it would decode 16 too low *)
Definition frame_pinnedP (s : state) (f : frame) : Prop :=
  match f with
  | FDecS111 _ _ r _ _ | FDecS112 _ _ r _ _ _ | FIsND109 _ _ r _ => G s - 1 <= r <= G s
  | FKid118 _ _ _ curr _ | FKid119 _ _ _ _ _ curr _ => epoch_ok curr /\ G s - 1 <= curr <= G s
  | FCas123 _ _ desraw _ _ => fst desraw = O \/ exists g, G s - 1 <= g <= G s /\ snd desraw = g mod 16
  | _ => True
  end.
Definition pinned (s : state) : Prop := forall t x f, gett s t = Some x -> In f (frames x) -> frame_pinnedP s f.

Lemma stab_FDecS112 s t rec s' obs x k o cnt r cur tmp own :
  Inv' s -> EOK s -> pinned s -> bounded s -> bounded s' -> gett s t = Some x -> frames x = FDecS112 o cnt r cur tmp own :: k ->
  micro s t rec = Some (s', obs) -> stable s s'.
Proof.
  intros HI HE HP HB HB' Hx Hf Hm.
  pose proof (HP t x _ Hx ltac:(rewrite Hf; left; reflexivity)) as Hr. cbn in Hr.
  open_micro Hm Hx Hf.
  destruct (geto s o) as [ob|] eqn:Hg; [|inversion Hm; subst; kill_err' HB'].
  destruct (Z.eqb_spec (word ob) cur) as [<-|Hne].
  2:{ inversion Hm; subst s' obs; clear Hm. sreshape k. sstep_obj Hg. }
  destruct (bounded_word _ _ _ HB Hg) as (Hw & _).
  destruct (decs112_facts _ _ _ _ _ _ _ _ _ _ HI Hx Hf Hg) as (Hc & Hd).
  destruct (dec_word (word ob) r cnt Hw ltac:(lia)) as (Hw' & Hs' & Hd').
  pose proof (epoch_dec_word (word ob) r cnt Hw ltac:(lia)) as He'.
  set (w' := sub_strong (with_epoch (word ob) r) cnt) in *.
  destruct tmp; destruct (Z.eqb_spec (strong (word ob)) cnt) as [Hz|Hnz]; inversion Hm; subst s' obs; clear Hm; sreshape k.
  all: match goal with |- stable ?s0 (sett ?S ?T ?Y) =>
         eapply (stable_word s0 S T _ _ _ _ _ o ob _ Hx Hf); try exact Hg; try solve [threads_solve]; try (intros; reflexivity);
         try solve [pend_solve]; try solve [cells_solve]; try solve [G_solve]; try solve [nocasc]; try solve [noouts] end.
  all: try (intros o0 Hne0; ord_solve; destruct (Nat.eqb_spec o o0); [congruence|]; destruct own; lia).
  all: try (intros t0 x0 _ _ _; cbn [word]; congruence).
  (* the object itself *)
  all: intros t0 x0 x0' Hx0 Hx0' (Hi & Hi' & Hse & Han) _; apply prot_base; eexists;
       (split; [rewrite geto_sett; first [rewrite geto_defer|idtac]; eapply geto_seto_eq; eauto|]);
       (split; [cbn [word]; congruence|]).
  - (* count reached zero: deferred with the reader as witness *)
    right; right; left. rewrite Hse. apply pwit_defer_seto; auto.
  - right; left. cbn [word]. split; [lia|]. rewrite He'. destruct (eok_thr s t0 x0 HE HB Hx0 Hi).
    unfold fresh. rewrite Han. cbn [G sett seto]. rewrite G_seto. apply fresh_recent; lia.
  - right; right; left. rewrite Hse. apply pwit_defer_seto; auto.
  - right; left. cbn [word]. split; [lia|]. rewrite He'. destruct (eok_thr s t0 x0 HE HB Hx0 Hi).
    unfold fresh. rewrite Han. cbn [G sett seto]. rewrite G_seto. apply fresh_recent; lia.
Qed.

(* ---- is_not_destructed *)
Lemma stab_FIsND109 s t rec s' obs x k o old r c :
  Inv' s -> EOK s -> pinned s -> bounded s -> bounded s' -> gett s t = Some x -> frames x = FIsND109 o old r c :: k ->
  micro s t rec = Some (s', obs) -> stable s s'.
Proof.
  intros HI HE HP HB HB' Hx Hf Hm.
  pose proof (HP t x _ Hx ltac:(rewrite Hf; left; reflexivity)) as Hr. cbn in Hr.
  get_wf HI Hx Hf Hwf0 Hdn0. destruct Hwf0 as (_ & Hn1 & Hn2).
  open_micro Hm Hx Hf.
  destruct (geto s o) as [ob|] eqn:Hg; [|inversion Hm; subst; kill_err' HB'].
  destruct (bounded_word _ _ _ HB Hg) as (Hw & Hs & _). unfold LIM in Hs.
  destruct (Z.eqb_spec (word ob) old) as [<-|Hne].
  2:{ destruct (destructed (word ob)); inversion Hm; subst s' obs; clear Hm; sreshape k; sstep_obj Hg.
      all: ord_solve; rewrite ?(proj1 (nostrong_strong _ _ Hn2)); lia. }
  inversion Hm; subst s' obs; clear Hm. sreshape k.
  set (new := if strong (word ob) =? 0 then add_strong (word ob) 1 else word ob) in *.
  assert (Hnw : W new /\ 0 < strong new + 0 /\ destructed new = destructed (word ob)).
  { unfold new. destruct (Z.eqb_spec (strong (word ob)) 0) as [Hz|Hnz].
    - destruct (upd_add_strong (word ob) 1 Hw ltac:(lia) ltac:(lia)) as (A & B & C). split; [auto|split; [lia|auto]].
    - pose proof (strong_range _ Hw). split; [auto|split; [lia|auto]]. }
  destruct Hnw as (Hwn & Hsn & Hdn).
  destruct (upd_with_epoch new r Hwn) as (Hw' & Hs' & Hd').
  assert (He' : epoch (with_epoch new r) = r mod 16) by (rewrite epoch_spec by auto; apply f_epoch_with_epoch; auto).
  match goal with |- stable ?s0 (sett ?S ?T ?Y) =>
    eapply (stable_word s0 S T _ _ _ _ _ o ob _ Hx Hf); try exact Hg; try solve [threads_solve]; try (intros; reflexivity);
    try solve [pend_solve]; try solve [cells_solve]; try solve [G_solve]; try solve [nocasc]; try solve [noouts] end.
  - intros o0 Hne0. ord_solve. rewrite (proj1 (nostrong_strong _ _ Hn1)). lia.
  - intros t0 x0 x0' Hx0 Hx0' (Hi & Hi' & Hse & Han) (ob0 & Hg0 & Hd0 & _). rewrite Hg in Hg0. inversion Hg0; subst ob0.
    apply prot_base. eexists. split; [rewrite geto_sett; eapply geto_seto_eq; eauto|]. cbn [word].
    split; [congruence|]. right; left. split; [lia|]. rewrite He'. destruct (eok_thr s t0 x0 HE HB Hx0 Hi).
    unfold fresh. rewrite Han. cbn [G sett]. rewrite G_seto. apply fresh_recent; lia.
  - intros t0 x0 Hx0 Hi Hp. destruct (prot_live _ _ _ _ Hp) as (ob0 & Hg0 & Hd0). rewrite Hg in Hg0. inversion Hg0; subst ob0.
    cbn [word]. congruence.
Qed.

(* ---- try_destruct / cascade publication *)
Lemma stab_FTD114 s t rec s' obs x k o old :
  Inv' s -> bounded s -> bounded s' -> gett s t = Some x -> frames x = FTD114 o old :: k ->
  micro s t rec = Some (s', obs) -> stable s s'.
Proof.
  intros HI HB HB' Hx Hf Hm.
  get_wf HI Hx Hf Hwf0 Hdn0. cbn [frame_wf] in Hwf0.
  assert (Hfa : frame_attempt o (FTD114 o old) = 1) by (cbn; rewrite Nat.eqb_refl; auto).
  open_micro Hm Hx Hf.
  destruct (geto s o) as [ob|] eqn:Hg; [|inversion Hm; subst; kill_err' HB'].
  destruct (Z.eqb_spec (word ob) old) as [<-|Hne].
  2:{ destruct (0 <? strong (word ob)); inversion Hm; subst s' obs; clear Hm; sreshape k; sstep_obj Hg. }
  inversion Hm; subst s' obs; clear Hm. sreshape k.
  assert (Hno : forall t0 x0, prot s t0 x0 o -> False).
  { intros t0 x0 Hp. eapply (prot_not_fired s t0 x0 t x _ k o ob HI Hp Hx Hf Hfa); auto. }
  match goal with |- stable ?s0 (sett ?S ?T ?Y) =>
    eapply (stable_word s0 S T _ _ _ _ _ o ob _ Hx Hf); try exact Hg; try solve [threads_solve]; try (intros; reflexivity);
    try solve [pend_solve]; try solve [cells_solve]; try solve [G_solve]; try solve [nocasc]; try solve [noouts] end.
  all: try (intros t0 x0 x0' Hx0 Hx0' Hsec Hb; exfalso; apply (Hno t0 x0); apply prot_base; auto).
  all: try (intros t0 x0 Hx0 Hi Hp; exfalso; eauto).
Qed.

Lemma stab_FDisp130 s t rec s' obs x k o d w c :
  Inv' s -> bounded s -> bounded s' -> gett s t = Some x -> frames x = FDisp130 o d w c :: k ->
  micro s t rec = Some (s', obs) -> stable s s'.
Proof.
  intros HI HB HB' Hx Hf Hm.
  get_wf HI Hx Hf Hwf0 Hdn0. cbn [frame_wf] in Hwf0.
  assert (Hfa : frame_attempt o (FDisp130 o d w c) = 1).
  { cbn. rewrite Nat.eqb_refl. destruct (Z.ltb_spec 0 d); auto; lia. }
  open_micro Hm Hx Hf.
  destruct (geto s o) as [ob|] eqn:Hg; [|inversion Hm; subst; kill_err' HB'].
  destruct ((strong w =? 0) && (word ob =? w)) eqn:Hc; inversion Hm; subst s' obs; clear Hm; sreshape k.
  2:{ sstep_obj Hg. }
  apply andb_prop in Hc as (Hz & He). apply Z.eqb_eq in Hz, He. subst w.
  assert (Hno : forall t0 x0, prot s t0 x0 o -> False).
  { intros t0 x0 Hp. eapply (prot_not_fired s t0 x0 t x _ k o ob HI Hp Hx Hf Hfa); auto. }
  match goal with |- stable ?s0 (sett ?S ?T ?Y) =>
    eapply (stable_word s0 S T _ _ _ _ _ o ob _ Hx Hf); try exact Hg; try solve [threads_solve]; try (intros; reflexivity);
    try solve [pend_solve]; try solve [cells_solve]; try solve [G_solve]; try solve [nocasc]; try solve [noouts] end.
  all: try (intros t0 x0 x0' Hx0 Hx0' Hsec Hb; exfalso; apply (Hno t0 x0); apply prot_base; auto).
  all: try (intros t0 x0 Hx0 Hi Hp; exfalso; eauto).
Qed.

(* ---- cascade decision *)
Lemma land_bound' w M : 0 <= M -> 0 <= Z.land w M <= M.
Proof.
  intros HM. split; [apply Z.land_nonneg; auto|].
  destruct (Z.eq_dec M 0) as [->|Hne]; [rewrite Z.land_0_r; lia|].
  assert (Hsub : Z.ldiff (Z.land w M) M = 0).
  { apply Z.bits_inj'. intros n Hn. rewrite Z.ldiff_spec, Z.land_spec, Z.bits_0.
    destruct (Z.testbit w n); destruct (Z.testbit M n); reflexivity. }
  pose proof (Z.sub_nocarry_ldiff M (Z.land w M) Hsub) as H.
  assert (0 <= Z.ldiff M (Z.land w M)) by (apply Z.ldiff_nonneg; left; exact HM).
  lia.
Qed.
Lemma epoch_range w : 0 <= epoch w < 16.
Proof.
  unfold epoch. pose proof (land_bound' w EPOCH ltac:(vm_compute; congruence)) as H.
  change EPOCH_MASK_HEIGHT with 60. rewrite Z.shiftr_div_pow2 by lia.
  change EPOCH with (15 * 2 ^ 60) in *. set (v := Z.land w (15 * 2 ^ 60)) in *.
  assert (Hq : 0 <= v / 2 ^ 60 < 16).
  { split; [apply Z.div_pos; lia|apply Z.div_lt_upper_bound; lia]. }
  unfold wrap. rewrite Z.mod_small; lia.
Qed.

Lemma decode_unique c v a : c - 13 <= v <= c + 2 -> v mod 16 = a mod 16 -> decode c a = v.
Proof. intros Hv E. unfold decode. lia. Qed.

Lemma reclaim_now_future g e : epoch_ok g -> 0 <= e < 16 -> g + 2 < e -> reclaim_now g e = false.
Proof.
  intros Hg He Hlt. unfold reclaim_now, m_le, m_trans, modu_max_of, epoch_ok in *.
  rewrite sext_small by (change (2 ^ (64 - 1)) with (2 ^ 63); lia).
  change (Z.shiftl 1 EPOCH_WIDTH) with 16.
  replace (g - 3 - (g + 1 + 1)) with (-5) by lia. change (Z.rem (-5) 16) with (-5).
  rewrite Z.rem_small by lia. apply Z.leb_gt. lia.
Qed.

(* a fresh stamp is not old enough for the cascade *)
Lemma fresh_not_reclaim s x g e : epoch_ok g -> 0 <= e < 16 -> incs x = true -> ann x <= G s -> G s <= g <= ann x + 1 ->
  fresh s x e -> reclaim_now g e = false.
Proof.
  intros Hg He Hi Ha HG (v & E & Hv).
  destruct (Z_le_gt_dec e (g + 2)) as [Hle|Hgt]; [|apply reclaim_now_future; auto; lia].
  rewrite reclaim_now_threshold by auto.
  rewrite (decode_unique g v e) by (auto; lia). unfold RECLAIM_AGE. apply Z.leb_gt. lia.
Qed.

Lemma stab_FDisp116 s t rec s' obs x k o d w :
  EOK s -> EOK s' -> bounded s -> bounded s' -> epoch_ok (G s') ->
  gett s t = Some x -> frames x = FDisp116 o d w :: k -> micro s t rec = Some (s', obs) -> stable s s'.
Proof.
  intros HE HE' HB HB' HG' Hx Hf Hm. open_micro Hm Hx Hf.
  set (s1 := see_epoch s (oracle_epoch s rec 1016)) in *.
  assert (HG1 : G s <= G s1) by apply G_see_epoch.
  destruct (dispose_here d (G s1) (epoch w)) eqn:Hdh.
  - destruct (Z.ltb_spec 0 d) as [Hd|Hd]; inversion Hm; subst s' obs; clear Hm; sreshape k; unfold s1 at 1;
      eapply stable_neutral; try eassumption; try solve [threads_solve]; try solve [sviews_solve]; try solve [pend_solve];
        try solve [cells_solve]; try solve [G_solve]; try solve [ord_solve]; try solve [noouts].
    + (* reclaim_now said "old", so no active reader sees the stamp as fresh *)
      intros t0 y y' o0 ob0 ob0' Hy0 Hg0 Hg0' Han Hi Ee (E & _ & Hfr). subst o0. exfalso.
      unfold dispose_here in Hdh. assert (Hz : (d =? 0) = false) by (apply Z.eqb_neq; lia).
      rewrite Hz, andb_false_r, orb_false_l in Hdh.
      destruct (eok_thr s t0 y HE HB Hy0 Hi) as (A1 & A2).
      assert (Hy1 : gett (sett s1 t (with_frames x ([FDisp130 o d w (G s1)] ++ k))) t0 = gett (sett s1 t (with_frames x ([FDisp130 o d w (G s1)] ++ k))) t0) by auto.
      (* the reader is still pinned in s1: G s1 <= ann + 1 *)
      assert (A3 : G s1 <= ann y + 1).
      { destruct (Nat.eq_dec t t0) as [<-|Hne].
        - rewrite Hx in Hy0. inversion Hy0; subst y.
          assert (Hg1 : gett (sett s1 t (with_frames x ([FDisp130 o d w (G s1)] ++ k))) t = Some (with_frames x ([FDisp130 o d w (G s1)] ++ k))).
          { apply (gett_sett_eq _ _ x). unfold s1. rewrite (gett_rc_eq _ _ _ (rc_eq_see_epoch _ _)). auto. }
          pose proof (eok_thr _ _ _ HE' HB' Hg1 Hi). cbn [G sett ann with_frames] in H. lia.
        - assert (Hg1 : gett (sett s1 t (with_frames x ([FDisp130 o d w (G s1)] ++ k))) t0 = Some y).
          { rewrite gett_sett_neq by auto. unfold s1. rewrite (gett_rc_eq _ _ _ (rc_eq_see_epoch _ _)). auto. }
          pose proof (eok_thr _ _ _ HE' HB' Hg1 Hi). cbn [G sett] in H. lia. }
      pose proof (fresh_not_reclaim s y (G s1) (epoch w) HG' (epoch_range w) Hi A1 ltac:(lia) Hfr). congruence.
    + intros t0 y y' o0 ob0 ob0' Hy0 Hg0 Hg0' Han Hi Ee (_ & Hd0 & _). lia.
  - inversion Hm; subst s' obs; clear Hm. sreshape k. unfold s1 at 1.
    eapply stable_neutral; try eassumption; try solve [threads_solve]; try solve [sviews_solve]; try solve [pend_solve];
      try solve [cells_solve]; try solve [G_solve]; try solve [ord_solve]; try solve [noouts].
    intros t0 y y' o0 ob0 ob0' Hy0 Hg0 Hg0' Han Hi Ee (E & _ & Hfr). subst o0. right.
    apply pwit_defer; auto. rewrite (gett_rc_eq _ _ _ (rc_eq_see_epoch _ _)). auto.
Qed.

Lemma decode_succ c a : a mod 16 <> (c + 3) mod 16 -> decode (c + 1) a = decode c a.
Proof. unfold decode. intros H. lia. Qed.

Lemma fresh_nxt s x curr ne ts own wc :
  epoch_ok curr -> 0 <= ne < 16 -> 0 <= ts < 16 -> 0 <= own < 16 -> ne <= curr + 2 -> ts <= curr + 2 -> own <= curr + 2 ->
  G s - 1 <= curr <= G s -> ann x <= G s <= ann x + 1 -> W wc -> 1 <= strong wc ->
  (fresh s x own \/ fresh s x ts) ->
  fresh s x (epoch (with_epoch (sub_strong wc 1) (wrap 64 (child_stamp curr ne ts own)))).
Proof.
  intros Hc Hne Hts How L1 L2 L3 HG Hann Hw Hs Hfr.
  destruct (upd_sub_strong wc 1 Hw ltac:(lia)) as (Hw1 & _).
  assert (E : epoch (with_epoch (sub_strong wc 1) (wrap 64 (child_stamp curr ne ts own))) = child_stamp curr ne ts own mod 16).
  { destruct (upd_with_epoch (sub_strong wc 1) (wrap 64 (child_stamp curr ne ts own)) Hw1) as (Hw2 & _).
    rewrite epoch_spec by auto. apply stored_stamp; auto. }
  rewrite E.
  pose proof (merged_decode curr ne ts own Hc Hne Hts How L1 L2 L3) as Hd.
  destruct (child_stamp_spec curr ne ts own Hc eq_refl Hne Hts How L1 L2 L3) as (S1 & S2).
  pose proof (decode_window curr (merged curr ne ts own mod 16)) as Hwin.
  (* the written residue decodes, at the writer's epoch, to min (curr+1) (max ...) *)
  assert (Hcs : decode curr (child_stamp curr ne ts own mod 16) = Z.min (curr + 1) (Z.max (decode curr ne) (Z.max (decode curr ts) (decode curr own)))).
  { destruct (Z_le_gt_dec (decode curr (merged curr ne ts own mod 16)) (curr + 1)) as [Hle|Hgt].
    - rewrite (S1 Hle), Hd. lia.
    - assert (He : decode curr (merged curr ne ts own mod 16) = curr + 2) by lia.
      rewrite (S2 He). rewrite decode_exact by lia. lia. }
  exists (decode curr (child_stamp curr ne ts own mod 16)). split; [apply decode_cong|].
  rewrite Hcs.
  destruct Hfr as [(v & Ev & Hv)|(v & Ev & Hv)].
  - rewrite (decode_unique curr v own) by (auto; lia). lia.
  - rewrite (decode_unique curr v ts) by (auto; lia). lia.
Qed.

(* ---- the residues stored in the state are not ahead of the epoch (bites only during the first 14 epochs): this
   discharges the residue clauses of H2 *)
Definition rokG (g r : Z) : Prop := 0 <= r < 16 /\ (g < 14 -> r <= g + 1).
Definition lrokG (g : Z) (l : link) : Prop := fst l <> O -> rokG g (snd l).
Definition obj_rokG (g : Z) (ob : obj) : Prop := rokG g (epoch (word ob)) /\ Forall (lrokG g) (links ob).
Definition frame_rokG (g : Z) (f : frame) : Prop :=
  match f with
  | FDisp116 _ _ w | FDisp130 _ _ w _ | FDispDo _ _ w _ => rokG g (epoch w)
  | FDisp117 _ _ ne _ outs | FKids _ ne _ outs => rokG g ne /\ Forall (lrokG g) outs
  | FKid118 c _ ne _ outs => rokG g ne /\ lrokG g c /\ Forall (lrokG g) outs
  | FKid119 c wc _ _ ne _ outs => rokG g ne /\ lrokG g c /\ rokG g (epoch wc) /\ Forall (lrokG g) outs
  | FDecS111 _ _ r _ _ | FDecS112 _ _ r _ _ _ | FIsND109 _ _ r _ => 0 <= r <= g
  | FCas123 _ _ desraw _ _ => lrokG g desraw
  | _ => True
  end.
Definition RInv (s : state) : Prop :=
  (forall o ob, geto s o = Some ob -> obj_rokG (G s) ob) /\
  (forall t x, gett s t = Some x -> Forall (frame_rokG (G s)) (frames x)).

Lemma rokG_mono g g' r : g <= g' -> rokG g r -> rokG g' r.
Proof. intros Hg (H1 & H2). split; auto. intros H. lia. Qed.
Lemma lrokG_mono g g' l : g <= g' -> lrokG g l -> lrokG g' l.
Proof. intros Hg H Hl. eapply rokG_mono; eauto. Qed.
Lemma Forall_lrokG_mono g g' ls : g <= g' -> Forall (lrokG g) ls -> Forall (lrokG g') ls.
Proof. intros Hg H. eapply Forall_impl; [|exact H]. intros a. apply lrokG_mono; auto. Qed.
Lemma obj_rokG_mono g g' ob : g <= g' -> obj_rokG g ob -> obj_rokG g' ob.
Proof. intros Hg (H1 & H2). split; [eapply rokG_mono|eapply Forall_lrokG_mono]; eauto. Qed.
Lemma frame_rokG_mono g g' f : g <= g' -> frame_rokG g f -> frame_rokG g' f.
Proof.
  intros Hg. destruct f; cbn [frame_rokG]; auto; try (intros; lia); intros H;
    repeat match goal with H : _ /\ _ |- _ => destruct H end; repeat match goal with |- _ /\ _ => split end;
    eauto using rokG_mono, lrokG_mono, Forall_lrokG_mono.
Qed.
Lemma rokG_recent g r : 0 <= r <= g -> rokG g (r mod 16).
Proof. intros H. split; [apply Z.mod_pos_bound; lia|]. intros Hs. rewrite Z.mod_small by lia. lia. Qed.
Lemma rokG_zero g : 0 <= g -> rokG g 0.
Proof. intros H. split; lia. Qed.
Lemma lrokG_null g : lrokG g null_link.
Proof. intros H. cbn in H. contradiction. Qed.

Lemma rokG_le g curr r : g - 1 <= curr <= g -> rokG g r -> 0 <= r < 16 /\ r <= curr + 2.
Proof. intros Hc (H1 & H2). split; auto. destruct (Z_lt_ge_dec g 14); [specialize (H2 l)|]; lia. Qed.

Lemma kid118_facts s t x k c depth ne curr outs ob :
  Inv' s -> gett s t = Some x -> frames x = FKid118 c depth ne curr outs :: k -> geto s (fst c) = Some ob ->
  1 <= strong (word ob) /\ destructed (word ob) = false.
Proof.
  intros HI Hx Hf Hg. pose proof HI as (HA & _). pose proof (HA _ _ Hg) as Hinv.
  pose proof (owners_ge_top s t x (fst c) _ _ (Inv'_all_wf _ HI) Hx Hf) as Hown. cbn [frame_strong] in Hown.
  rewrite is_o_eq in Hown. pose proof (sumZ_is_o_nonneg (fst c) outs).
  assert (Hd : destructed (word ob) = false).
  { destruct (destructed (word ob)) eqn:E; auto. destruct (j_dead _ _ _ Hinv E). lia. }
  destruct (live_facts _ _ _ Hinv Hd) as (J1 & _). pose proof (b2z_range (tok ob)). split; auto. lia.
Qed.

Lemma pinned_top s t x f k : pinned s -> gett s t = Some x -> frames x = f :: k -> frame_pinnedP s f.
Proof. intros HP Hx Hf. apply (HP t x f Hx). rewrite Hf. left. auto. Qed.

Lemma stab_FKid118 s t rec s' obs x k c d ne curr outs :
  Inv' s -> EOK s -> pinned s -> RInv s -> bounded s -> bounded s' ->
  gett s t = Some x -> frames x = FKid118 c d ne curr outs :: k -> micro s t rec = Some (s', obs) -> stable s s'.
Proof.
  intros HI HE HP HR HB HB' Hx Hf Hm.
  pose proof (pinned_top _ _ _ _ _ HP Hx Hf) as Hp9. cbn [frame_pinnedP] in Hp9. destruct Hp9 as (Hc & HG).
  pose proof (proj2 HR _ _ Hx) as Hfr0. rewrite Hf in Hfr0. apply Forall_inv in Hfr0. cbn [frame_rokG] in Hfr0.
  destruct Hfr0 as (Rne & Rc & _).
  open_micro Hm Hx Hf.
  destruct (geto s (fst c)) as [ob|] eqn:Hg; inversion Hm; subst s' obs; clear Hm; [|kill_err' HB'].
  destruct (bounded_word _ _ _ HB Hg) as (Hw & _).
  destruct (kid118_facts _ _ _ _ _ _ _ _ _ _ HI Hx Hf Hg) as (Hs1 & Hd1).
  assert (Hfc : fst c <> O) by (intros E; rewrite E in Hg; discriminate).
  destruct (rokG_le _ _ _ HG Rne) as (Hne & Lne). destruct (rokG_le _ _ _ HG (Rc Hfc)) as (Hts & Lts).
  destruct (rokG_le _ _ _ HG (proj1 (proj1 HR _ _ Hg))) as (_ & Low).
  sreshape k.
  eapply stable_neutral; try eassumption; try solve [threads_solve]; try solve [sviews_solve]; try solve [pend_solve];
    try solve [cells_solve]; try solve [G_solve]; try solve [ord_solve]; try solve [nocasc].
  intros t0 y y' o0 ob0 ob0' Hy0 Hg0 Hg0' Han Hi Hout. cbn in Hout.
  eexists. split; [left; reflexivity|]. cbn.
  destruct Hout as [Hfl|(l & Hl & Hfl)]; [left|right; exists l; split; auto; eapply flink_mono; eauto; lia].
  split; [eapply flink_mono; eauto; lia|].
  destruct Hfl as (E & Hfr).
  assert (Hfr' : fresh s y' (snd c)) by (eapply fresh_mono; eauto; lia).
  pose proof (eok_thr s t0 y HE HB Hy0 Hi) as A1.
  apply fresh_nxt; auto using epoch_range. lia.
Qed.

(* ---- cascade edges *)
Lemma stab_FKid119 s t rec s' obs x k c wc nxt d ne curr outs :
  Inv' s -> EOK s -> pinned s -> RInv s -> bounded s -> bounded s' ->
  gett s t = Some x -> frames x = FKid119 c wc nxt d ne curr outs :: k -> micro s t rec = Some (s', obs) -> stable s s'.
Proof.
  intros HI HE HP HR HB HB' Hx Hf Hm.
  pose proof (pinned_top _ _ _ _ _ HP Hx Hf) as Hp9. cbn [frame_pinnedP] in Hp9.
  destruct Hp9 as (Hc & HG).
  pose proof (proj2 HR _ _ Hx) as Hfr0. rewrite Hf in Hfr0. apply Forall_inv in Hfr0. cbn [frame_rokG] in Hfr0.
  destruct Hfr0 as (Rne & Rc & Rwc & _).
  get_wf HI Hx Hf Hwf0 Hdn0. destruct Hwf0 as (Hd0 & _ & Hnxt).
  open_micro Hm Hx Hf.
  destruct (geto s (fst c)) as [ob|] eqn:Hg; [|inversion Hm; subst; kill_err' HB'].
  assert (Hfc : fst c <> O) by (intros E; rewrite E in Hg; discriminate).
  destruct (rokG_le _ _ _ HG Rne) as (Hne & Lne). destruct (rokG_le _ _ _ HG (Rc Hfc)) as (Hts & Lts).
  destruct (rokG_le _ _ _ HG Rwc) as (_ & Low).
  destruct (Z.eqb_spec (word ob) wc) as [<-|Hne'].
  2:{ inversion Hm; subst s' obs; clear Hm. sreshape k.
      eapply stable_neutral; try eassumption; try solve [threads_solve]; try solve [sviews_solve]; try solve [pend_solve];
        try solve [cells_solve]; try solve [G_solve]; try solve [ord_solve]; try solve [nocasc].
      intros t0 y y' o0 ob0 ob0' Hy0 Hg0 Hg0' Han Hi Hout. cbn in Hout. eexists. split; [left; reflexivity|]. cbn.
      destruct Hout as [(Hfl & _)|(l & Hl & Hfl)]; [left; eapply flink_mono; eauto; lia|right; exists l; split; auto; eapply flink_mono; eauto; lia]. }
  destruct (bounded_word _ _ _ HB Hg) as (Hw & _).
  destruct (kid119_facts _ _ _ _ _ _ _ _ _ _ _ HI Hx Hf Hg) as (Hs1 & _).
  destruct (kid_word (word ob) (wrap 64 (child_stamp curr ne (snd c) (epoch (word ob)))) Hw Hs1) as (Hw' & Hs' & Hd'). rewrite <- Hnxt in *.
  assert (Hdl : destructed (word ob) = false).
  { pose proof HI as (HA & _). destruct (destructed (word ob)) eqn:E; auto. destruct (j_dead _ _ _ (HA _ _ Hg) E).
    pose proof (owners_ge_top s t x (fst c) _ _ (Inv'_all_wf _ HI) Hx Hf) as Hown. cbn [frame_strong] in Hown.
    rewrite is_o_eq in Hown. pose proof (sumZ_is_o_nonneg (fst c) outs). lia. }
  (* a fresh own stamp or a fresh link timestamp makes the new stamp fresh *)
  assert (Hfn : forall y, ann y <= G s <= ann y + 1 -> fresh s y (epoch (word ob)) \/ fresh s y (snd c) -> fresh s y (epoch nxt)).
  { intros y Hay Hy. rewrite Hnxt. apply fresh_nxt; auto using epoch_range. }
  destruct (Z.eqb_spec (strong nxt) 0) as [Hz|Hnz]; inversion Hm; subst s' obs; clear Hm; sreshape k.
  all: match goal with |- stable ?s0 (sett ?S ?T ?Y) =>
    eapply (stable_word s0 S T _ _ _ _ _ (fst c) ob _ Hx Hf); try exact Hg; try solve [threads_solve]; try (intros; reflexivity);
    try solve [pend_solve]; try solve [cells_solve]; try solve [G_solve]; try solve [ord_solve]; try solve [nocasc] end.
  all: try (intros t0 x0 _ _ _; cbn [word with_word]; congruence).
  all: try (intros t0 y y' o0 ob0 ob0' Hne0 Hy0 Hg0 Hg0' Han Hi Hout; cbn in Hout;
            destruct Hout as [((E & _) & _)|(l & Hl & Hfl)]; [congruence|];
            exists (FKids d ne curr outs); split; [cbn; auto|]; cbn; exists l; split; auto; eapply flink_mono; eauto; G_solve).
  all: intros t0 x0 x0' Hx0 Hx0' (Hi & Hi' & Hse & Han) (ob0 & Hg0 & _ & Hb); rewrite Hg in Hg0; inversion Hg0; subst ob0; clear Hg0.
  all: pose proof (eok_thr s t0 x0 HE HB Hx0 Hi) as HA0.
  all: match goal with |- prot ?S' _ _ _ => set (s' := S') in * end.
  all: assert (Hgi' : geto s' (fst c) = Some (with_word ob nxt)) by (unfold s'; rewrite geto_sett; eapply geto_seto_eq; eauto).
  all: assert (Hgo : forall o0 ob0, geto s o0 = Some ob0 -> exists ob0', geto s' o0 = Some ob0' /\ links ob0' = links ob0 /\ dropped ob0' = dropped ob0)
         by (intros o0 ob0 Hg0; unfold s'; rewrite geto_sett; destruct (Nat.eq_dec (fst c) o0) as [<-|Hn0];
             [rewrite (geto_seto_eq _ _ _ _ Hg); rewrite Hg in Hg0; inversion Hg0; subst; eauto | rewrite geto_seto_neq by auto; eauto]).
  all: assert (Hx1 : gett (seto s (fst c) (with_word ob nxt)) t = Some x) by (rewrite gett_seto; auto).
  all: assert (HGs : G s' = G s) by (unfold s'; cbn [G sett]; apply G_seto).
  all: assert (Hmono : forall e, fresh s x0 e -> fresh s' x0' e) by (intros e He; eapply fresh_mono; eauto; lia).
  (* the generic finishing move: the new stamp is fresh *)
  all: assert (Hfin : fresh s x0 (epoch nxt) -> prot s' t0 x0' (fst c)).
  1:{ intros Hfr. apply prot_base. eexists. split; [exact Hgi'|]. cbn [word with_word]. split; [congruence|].
      right; right; right; left. exists t, (with_frames x ([FDispEnter (fst c) (d + 1); FKids d ne curr outs] ++ k)), (FDispEnter (fst c) (d + 1)).
      split; [unfold s'; apply (gett_sett_eq _ _ x); auto|]. split; [cbn; auto|]. cbn. repeat split; auto; try lia. }
  2:{ intros Hfr. apply prot_base. eexists. split; [exact Hgi'|]. cbn [word with_word]. split; [congruence|].
      right; left. pose proof (strong_range _ Hw'). split; [lia|auto]. }
  all: destruct Hb as [H|[H|[H|[H|[H|H]]]]].
  all: try (apply Hfin; apply Hfn; [exact HA0|left; apply H]).
  (* (a) ordinary shares are untouched *)
  1,6: apply prot_base; eexists; (split; [exact Hgi'|]); cbn [word with_word]; (split; [congruence|]); left;
       unfold s'; rewrite (ord_sett _ _ _ _ _ Hx1); unfold ord at 1; rewrite threads_seto, cells_seto; fold (ord s (fst c));
       rewrite (ord_thr_top _ _ _ _ Hf); unfold ord_thr; cbn [vars frames with_frames]; rewrite sumZ_app, ?sumZ_cons, ?sumZ_nil;
       cbn [ord_frame frame_strong]; lia.
  (* (c) the pending entry stays *)
  1,5: apply prot_base; eexists; (split; [exact Hgi'|]); cbn [word with_word]; (split; [congruence|]); right; right; left;
       destruct H as (p & Hin & Hk & Ho & Hwt); exists p; rewrite Hse; split; [unfold s'; cbn [pending sett]; rewrite pending_seto; auto|auto].
  (* (f) another cascade frame is deciding about the child *)
  1,4: destruct H as (u0 & y0 & f0 & Hy0 & Hin & Hcf);
       (destruct f0; cbn in Hcf; try contradiction);
       try (destruct Hcf as (_ & _ & Hfr0); apply Hfin; apply Hfn; [exact HA0|left; exact Hfr0]);
       (* FDisp116: it looks at the stamp it read *)
       (apply prot_base; eexists; (split; [exact Hgi'|]); cbn [word with_word]; (split; [congruence|]); right; right; right; left;
        subst s';
        match goal with |- casc (sett ?S1 ?T (with_frames ?X (?NEW ++ ?K))) _ _ _ =>
          destruct (frame_cases s S1 T X X _ K NEW u0 y0 _ Hx Hf (threads_seto _ _ _) Hy0 Hin) as [(_ & E0)|(y0' & Hy0' & Hin')];
          [discriminate E0|exists u0, y0', (FDisp116 o depth w); split; [exact Hy0'|split; [exact Hin'|]]] end;
        destruct Hcf as (E1 & E2 & E3); cbn; repeat split; auto; apply Hmono; auto).
  (* (e) link fields are untouched *)
  1,3: apply prot_base; eexists; (split; [exact Hgi'|]); cbn [word with_word]; (split; [congruence|]); right; right; right; right; left;
       destruct H as (P & Pob & l & HgP & HdP & Hin & Hfl); destruct (Hgo _ _ HgP) as (Pob' & HgP' & El & Ed);
       exists P, Pob', l; (split; [exact HgP'|]); (split; [congruence|]); (split; [rewrite El; auto|]);
       destruct Hfl; split; auto.
  (* (e') a share travelling in a cascade: this frame's c (then the new stamp is fresh) or another edge *)
  all: destruct H as (u0 & y0 & f0 & Hy0 & Hin & Hcf); subst s';
       match goal with |- prot (sett ?S1 ?T (with_frames ?X (?NEW ++ ?K))) _ _ _ =>
         destruct (frame_cases s S1 T X X _ K NEW u0 y0 _ Hx Hf (threads_seto _ _ _) Hy0 Hin) as [(_ & E0)|(y0' & Hy0' & Hin')] end.
  1,3: subst f0; cbn in Hcf; destruct Hcf as [(_ & Hfr0)|(l & Hl & Hfl)]; [apply Hfin; exact Hfr0|];
       apply prot_base; eexists; (split; [exact Hgi'|]); cbn [word with_word]; (split; [congruence|]);
       right; right; right; right; right;
       match goal with |- eouts (sett ?S1 ?T (with_frames ?X (?NEW ++ ?K))) _ _ _ =>
         exists T, (with_frames X (NEW ++ K)), (FKids d ne curr outs); split; [apply (gett_sett_eq _ _ x); auto|split; [cbn; auto|]] end;
       cbn; exists l; split; auto; destruct Hfl; split; auto.
  all: apply prot_base; eexists; (split; [exact Hgi'|]); cbn [word with_word]; (split; [congruence|]);
       right; right; right; right; right; exists u0, y0', f0; split; [exact Hy0'|split; [exact Hin'|]];
       eapply outs_frame_mono; eauto; lia.
Qed.

(* ---- pop_edges *)
Lemma stab_FDispDo s t rec s' obs x k o d w c :
  Inv' s -> bounded s' -> gett s t = Some x -> frames x = FDispDo o d w c :: k -> micro s t rec = Some (s', obs) -> stable s s'.
Proof.
  intros HI HB' Hx Hf Hm.
  pose proof HI as (_ & _ & HIT). destruct (HIT _ _ Hx) as (_ & Stx). rewrite Hf in Stx. apply Forall_inv in Stx. cbn in Stx.
  destruct Stx as (ob & Hg & Hd).
  open_micro Hm Hx Hf. rewrite Hg in Hm. inversion Hm; subst s' obs; clear Hm. sreshape k.
  set (ob' := {| word := word ob; dropped := true; freed := freed ob; tok := tok ob; wtok := wtok ob;
                 links := map (fun _ : link => null_link) (links ob) |}) in *.
  set (s' := sett (seto s o ob') t (with_frames x ([FDisp117 o d (epoch w) c (links ob)] ++ k))).
  assert (Hx1 : gett (seto s o ob') t = Some x) by (rewrite gett_seto; auto).
  assert (Hsv : forall o0 ob0, o0 <> o -> geto s o0 = Some ob0 -> geto s' o0 = Some ob0).
  { intros o0 ob0 Hne Hg0. unfold s'. rewrite geto_sett, geto_seto_neq; auto. }
  assert (HGs : G s' = G s) by (unfold s'; cbn [G sett]; apply G_seto).
  intros t0 x0 x0' o0 Hx0 Hx0' (Hi & Hi' & Hse & Han) Hp.
  assert (Hlive : forall o1 ob1, geto s o1 = Some ob1 -> destructed (word ob1) = false -> o1 <> o).
  { intros o1 ob1 Hg1 Hd1 ->. rewrite Hg in Hg1. inversion Hg1; subst. congruence. }
  revert o0 Hp. apply prot_stable.
  - intros o0 (ob0 & Hg0 & Hd0 & Hb). pose proof (Hlive _ _ Hg0 Hd0) as Hne. pose proof (Hsv _ _ Hne Hg0) as Hg0'.
    apply prot_base. exists ob0. split; auto. split; auto.
    destruct Hb as [H|[H|[H|[H|[H|H]]]]].
    + left. unfold s'. rewrite (ord_sett _ _ _ _ _ Hx1). unfold ord at 1. rewrite threads_seto, cells_seto. fold (ord s o0).
      rewrite (ord_thr_top _ _ _ _ Hf). unfold ord_thr. cbn [vars frames with_frames]. rewrite sumZ_app, sumZ_cons, sumZ_nil.
      cbn [ord_frame frame_strong]. lia.
    + right; left. destruct H. split; auto. eapply fresh_mono; eauto. lia.
    + right; right; left. destruct H as (p & Hin & Hk & Ho & Hw). exists p. rewrite Hse. split; auto.
      unfold s'. cbn [pending sett]. rewrite pending_seto. auto.
    + right; right; right; left. destruct H as (u0 & y0 & f0 & Hy0 & Hin & Hc).
      destruct (frame_cases s (seto s o ob') t x x _ k [FDisp117 o d (epoch w) c (links ob)] u0 y0 f0 Hx Hf (threads_seto _ _ _) Hy0 Hin)
        as [(_ & ->)|(y0' & Hy0' & Hin')]; [cbn in Hc; contradiction|].
      exists u0, y0', f0. split; auto. split; auto. eapply casc_frame_mono; eauto. lia.
    + destruct H as (P & Pob & l & HgP & HdP & Hin & Hfl).
      destruct (Nat.eq_dec P o) as [->|HneP].
      * rewrite Hg in HgP. inversion HgP; subst Pob.
        right; right; right; right; right. exists t, (with_frames x ([FDisp117 o d (epoch w) c (links ob)] ++ k)), (FDisp117 o d (epoch w) c (links ob)).
        split; [unfold s'; apply (gett_sett_eq _ _ x); auto|]. split; [cbn; auto|]. cbn. exists l. split; auto. eapply flink_mono; eauto. lia.
      * right; right; right; right; left. exists P, Pob, l. rewrite (Hsv _ _ HneP HgP). repeat split; auto; try apply Hfl.
        destruct Hfl as (_ & Hfr). eapply fresh_mono; eauto. lia.
    + right; right; right; right; right. destruct H as (u0 & y0 & f0 & Hy0 & Hin & Hc).
      destruct (frame_cases s (seto s o ob') t x x _ k [FDisp117 o d (epoch w) c (links ob)] u0 y0 f0 Hx Hf (threads_seto _ _ _) Hy0 Hin)
        as [(_ & ->)|(y0' & Hy0' & Hin')]; [cbn in Hc; contradiction|].
      exists u0, y0', f0. split; auto. split; auto. eapply outs_frame_mono; eauto. lia.
  - intros P Pob l o1 ob1 HpP HpP' HgP HdP Hin Hl Hg1 Hd1.
    destruct (prot_live _ _ _ _ HpP) as (Pob0 & HgP0 & HdP0). pose proof (Hlive _ _ HgP0 HdP0) as HneP.
    pose proof (Hlive _ _ Hg1 Hd1) as Hne1.
    apply (prot_link s' t0 x0' P Pob l o1 ob1); auto.
Qed.

(* ---- deferred function start *)
Lemma take_pending_other l kd o p rest q : take_pending l kd o = Some (p, rest) -> In q l -> q = p \/ In q rest.
Proof.
  revert p rest; induction l as [|a l IH]; intros p rest H Hin; cbn in H; [discriminate|].
  destruct (pkind_eqb (pk a) kd && Nat.eqb (po a) o).
  - inversion H; subst. destruct Hin; auto.
  - destruct (take_pending l kd o) as [[p' r']|] eqn:E; [|discriminate]. inversion H; subst.
    destruct Hin as [<-|Hin]; [right; left; auto|]. destruct (IH _ _ eq_refl Hin); auto. right; right; auto.
Qed.

Lemma stab_FAwait s t rec s' obs x k :
  EOK s -> bounded s' -> gett s t = Some x -> frames x = FAwait :: k -> micro s t rec = Some (s', obs) -> stable s s'.
Proof.
  intros HE HB' Hx Hf Hm.
  destruct (closure_grace s t rec x k s' obs HE Hx Hf Hm (proj1 (proj2 HB'))) as (kd0 & o0 & p0 & rest0 & Htp0 & Hpe0 & _ & Hgr).
  assert (Hkeep : forall t0 x0 x0' p, gett s t0 = Some x0 -> gett s' t0 = Some x0' -> same_sec x0 x0' ->
            In p (pending s) -> In (t0, serial x0) (pwit p) -> In p (pending s')).
  { intros t0 x0 x0' p Hx0 Hx0' (Hi & Hi' & Hse & Han) Hin Hw. rewrite Hpe0.
    destruct (take_pending_other _ _ _ _ _ p Htp0 Hin) as [->|H]; auto.
    exfalso. apply (Hgr t0 (serial x0) x0' Hw Hx0' Hi'). auto. }
  clear Htp0 Hpe0 Hgr.
  open_micro Hm Hx Hf.
  destruct rec as [|z [|oz r]].
  all: try (inversion Hm; subst; kill_err' HB').
  all: destruct z as [|p|p]; try (inversion Hm; subst; kill_err' HB').
  all: repeat (destruct p as [p|p|]; try (inversion Hm; subst; kill_err' HB')).
  - destruct (take_pending (pending s) KDestruct (nat_of oz)) as [[p rest]|] eqn:Htp;
      inversion Hm; subst s' obs; clear Hm; [|kill_err' HB'].
    change (FTD113 (nat_of oz) :: FEndClosure :: k) with ([FTD113 (nat_of oz); FEndClosure] ++ k) in *.
    eapply stable_neutral_p; try eassumption; try solve [threads_solve]; try solve [sviews_solve];
      try solve [cells_solve]; try solve [G_solve]; try solve [ord_solve]; try solve [nocasc]; try solve [noouts].
  - destruct (take_pending (pending s) KDealloc (nat_of oz)) as [[p rest]|] eqn:Htp;
      inversion Hm; subst s' obs; clear Hm; [|kill_err' HB'].
    change (FTDe102 (nat_of oz) :: FEndClosure :: k) with ([FTDe102 (nat_of oz); FEndClosure] ++ k) in *.
    eapply stable_neutral_p; try eassumption; try solve [threads_solve]; try solve [sviews_solve];
      try solve [cells_solve]; try solve [G_solve]; try solve [ord_solve]; try solve [nocasc]; try solve [noouts].
Qed.

(* ---- cells and link fields *)
Lemma set_cell_shape s c l old : get_cell s c = Some old ->
  ((c <? 1000) = true /\ nth_error (cells s) (nat_of c) = Some old /\ objs (set_cell s c l) = objs s /\
   cells (set_cell s c l) = set_nth (cells s) (nat_of c) l) \/
  ((c <? 1000) = false /\ exists Pob, geto s (nat_of ((c - 1000) / 2)) = Some Pob /\
     nth_error (links Pob) (nat_of ((c - 1000) mod 2)) = Some old /\ cells (set_cell s c l) = cells s /\
     set_cell s c l = seto s (nat_of ((c - 1000) / 2)) (with_links Pob (set_nth (links Pob) (nat_of ((c - 1000) mod 2)) l))).
Proof.
  unfold get_cell, set_cell. destruct (c <? 1000).
  - intros H. left. auto.
  - destruct (geto s (nat_of ((c - 1000) / 2))) as [Pob|] eqn:Hg; [|discriminate]. intros H. right. split; auto.
    exists Pob. repeat split; auto. apply cells_seto.
Qed.

Lemma In_set_nth {A} (l : list A) j a b x : nth_error l j = Some a -> In x l -> x = a \/ In x (set_nth l j b).
Proof.
  revert j; induction l as [|c l IH]; intros [|j] H Hin; cbn in *; try discriminate.
  - inversion H; subst. destruct Hin; auto.
  - destruct Hin as [<-|Hin]; auto. destruct (IH _ H Hin); auto.
Qed.
Lemma In_set_nth_new {A} (l : list A) j a b : nth_error l j = Some a -> In b (set_nth l j b).
Proof. revert j; induction l as [|c l IH]; intros [|j] H; cbn in *; try discriminate; auto. Qed.
Lemma In_set_nth_inv {A} (l : list A) j b x : In x (set_nth l j b) -> x = b \/ In x l.
Proof.
  revert j; induction l as [|c l IH]; intros [|j] Hin; cbn in *; auto.
  - destruct Hin; auto.
  - destruct Hin as [<-|Hin]; auto. destruct (IH _ Hin); auto.
Qed.


Lemma ord_thr_nonneg o x : thr_wf x -> 0 <= ord_thr o x.
Proof. intros H. apply (ord_thr_le o x H). Qed.
Lemma ord_ge_thr s u y o : all_wf s -> gett s u = Some y -> ord_thr o y <= ord s o.
Proof.
  intros Hw Hy. unfold ord.
  pose proof (sumZ_nth_le (ord_thr o) (threads s) u y) as H.
  assert (forall b, In b (threads s) -> 0 <= ord_thr o b).
  { intros b Hb. destruct (In_nth_error _ _ Hb) as (n & Hn). apply ord_thr_nonneg. eapply Hw; eauto. }
  specialize (H H0 Hy). pose proof (sumZ_is_o_nonneg o (cells s)). lia.
Qed.

(* a cell or link field is overwritten: the thread gives the share [l] (freshly timestamped) and takes [old] *)
Lemma stable_cell s s0 u y y1 f k new c l old :
  Inv' s -> EOK s -> bounded s ->
  gett s u = Some y -> frames y = f :: k -> rc_eq s s0 -> G s <= G s0 -> get_cell s c = Some old ->
  ((c <? 1000) = true \/ exists Pob, geto s (nat_of ((c - 1000) / 2)) = Some Pob /\ dropped Pob = false) ->
  (fst l = O \/ exists g, G s0 - 1 <= g <= G s0 /\ snd l = g mod 16) ->
  (forall o, o <> O -> sumZ (handle_strong o) (vars y1) + sumZ (ord_frame o) new =
                       sumZ (handle_strong o) (vars y) + ord_frame o f - is_o o l + is_o o old) ->
  (forall o, o <> O -> is_o o l <= sumZ (handle_strong o) (vars y) + ord_frame o f) ->
  (forall s2 x o ob, ~ casc_frame s2 x o ob f) -> (forall s2 x o ob, ~ outs_frame s2 x o ob f) ->
  stable s (sett (set_cell s0 c l) u (with_frames y1 (new ++ k))).
Proof.
  intros HI HE HB Hy Hf Hrc HG0 Hc Hlive Hts Hcr Hhold Hnc Hno.
  assert (Hc0 : get_cell s0 c = Some old) by (rewrite (get_cell_rc_eq _ _ _ Hrc); auto).
  destruct (set_cell_spec s0 c l old Hc0) as (Hth & Hpe & _ & _ & _).
  assert (Hth' : threads (set_cell s0 c l) = threads s) by (rewrite Hth; apply Hrc).
  assert (Hy1 : gett (set_cell s0 c l) u = Some y) by (unfold gett in *; rewrite Hth'; auto).
  destruct (set_cell_shape s0 c l old Hc0) as [(Hlt & Hn & Ho & Hcl)|(Hge & Pob & HgP & Hnj & Hcl & Hseto)].
  - (* root cell: no object changes *)
    apply (stable_neutral_gen s (set_cell s0 c l) u y y1 f k new); auto.
    + apply sviews_geto. intros o. unfold geto. rewrite Ho. destruct Hrc as (E & _). rewrite E. auto.
    + intros t x x' p _ _ _ Hin _. rewrite Hpe. destruct Hrc as (_&_&_&E). rewrite E. auto.
    + rewrite G_set_cell. auto.
    + intros o Hno0 H. rewrite (ord_sett _ _ _ _ _ Hy1). unfold ord at 1. rewrite Hth', Hcl.
      rewrite (sumZ_set_nth _ _ _ _ _ Hn). destruct Hrc as (_ & Ecl & _). rewrite Ecl. unfold ord in H.
      assert (E1 : ord_thr o (with_frames y1 (new ++ k)) = ord_thr o y - is_o o l + is_o o old).
      { rewrite (ord_thr_top _ _ _ _ Hf). unfold ord_thr. cbn [vars frames with_frames]. rewrite sumZ_app. specialize (Hcr o Hno0). lia. }
      rewrite E1. lia.
    + intros t x x' o ob ob' _ _ _ _ _ _ H. exfalso. eapply Hnc; eauto.
    + intros t x x' o ob ob' _ _ _ _ _ H. exfalso. eapply Hno; eauto.
  - (* a link field of node P *)
    set (P := nat_of ((c - 1000) / 2)) in *. set (j := nat_of ((c - 1000) mod 2)) in *.
    rewrite (geto_rc_eq _ _ _ Hrc) in HgP.
    assert (HdP : dropped Pob = false).
    { destruct Hlive as [H|(Pob0 & H1 & H2)]; [congruence|]. rewrite HgP in H1. inversion H1; subst; auto. }
    set (Pob' := with_links Pob (set_nth (links Pob) j l)) in *.
    intros t x x' o Hx Hx' (Hi & Hi' & Hse & Han) Hp.
    set (s' := sett (set_cell s0 c l) u (with_frames y1 (new ++ k))) in *.
    assert (Hgeto : forall o0, geto s' o0 = geto (seto s P Pob') o0).
    { intros o0. unfold s'. rewrite geto_sett, Hseto. destruct (Nat.eq_dec P o0) as [<-|Hne].
      - rewrite (geto_seto_eq s0 P Pob Pob'), (geto_seto_eq s P Pob Pob'); auto. rewrite (geto_rc_eq _ _ _ Hrc); auto.
      - rewrite !geto_seto_neq by auto. apply geto_rc_eq; auto. }
    assert (HgP' : geto s' P = Some Pob') by (rewrite Hgeto; eapply geto_seto_eq; eauto).
    assert (Hoth : forall o0 ob0, o0 <> P -> geto s o0 = Some ob0 -> geto s' o0 = Some ob0) by (intros; rewrite Hgeto, geto_seto_neq; auto).
    assert (Hobj : forall o0 ob0, geto s o0 = Some ob0 -> exists ob0', geto s' o0 = Some ob0' /\ word ob0' = word ob0 /\ dropped ob0' = dropped ob0).
    { intros o0 ob0 Hg0. destruct (Nat.eq_dec o0 P) as [->|Hne]; [rewrite HgP in Hg0; inversion Hg0; subst; exists Pob'; auto|].
      exists ob0. rewrite (Hoth _ _ Hne Hg0). auto. }
    assert (HG : G s <= G s') by (unfold s'; cbn [G sett]; rewrite G_set_cell; auto).
    assert (Hpend : pending s' = pending s) by (unfold s'; cbn [pending sett]; rewrite Hpe; apply Hrc).
    destruct (eok_thr s t x HE HB Hx Hi) as (A1 & A2).
    assert (Hfl : fst l <> O -> fresh s' x' (snd l)).
    { intros Hn. destruct Hts as [H|(g & Hg1 & ->)]; [contradiction|]. unfold fresh. rewrite Han.
      unfold s'. cbn [G sett]. rewrite G_set_cell. apply fresh_recent; lia. }
    assert (Hord : forall o0, o0 <> O -> ord s' o0 = ord s o0 - is_o o0 l + is_o o0 old).
    { intros o0 Ho0. unfold s'. rewrite (ord_sett _ _ _ _ _ Hy1). unfold ord at 1. rewrite Hth', Hcl.
      destruct Hrc as (_ & Ecl & _). rewrite Ecl. fold (ord s o0).
      assert (E1 : ord_thr o0 (with_frames y1 (new ++ k)) = ord_thr o0 y - is_o o0 l + is_o o0 old).
      { rewrite (ord_thr_top _ _ _ _ Hf). unfold ord_thr. cbn [vars frames with_frames]. rewrite sumZ_app. specialize (Hcr o0 Ho0). lia. }
      rewrite E1. lia. }
    assert (Hheld : forall o0, o0 <> O -> is_o o0 l <= ord s o0).
    { intros o0 Ho0. pose proof (ord_ge_thr s u y o0 (Inv'_all_wf _ HI) Hy). rewrite (ord_thr_top _ _ _ _ Hf) in H.
      specialize (Hhold o0 Ho0). destruct (Inv'_thr_wf _ _ _ HI Hy) as (_ & Hfw & _). rewrite Hf in Hfw. inversion Hfw; subst.
      assert (0 <= sumZ (ord_frame o0) k).
      { apply sumZ_nonneg. intros a Ha. rewrite Forall_forall in H3. apply (ord_frame_le _ o0 a (H3 a Ha)). }
      lia. }
    assert (Hold : fst old <> O -> forall ob0, geto s' (fst old) = Some ob0 -> destructed (word ob0) = false -> base s' t x' (fst old)).
    { intros Hn ob0 Hg0 Hd0. exists ob0. split; auto. split; auto. left. rewrite Hord by auto. rewrite is_o_eq.
      pose proof (Hheld (fst old) Hn). lia. }
    assert (Hlinks : forall P2 Pob2 l2, geto s P2 = Some Pob2 -> In l2 (links Pob2) ->
              (P2 = P /\ l2 = old) \/ exists Pob2', geto s' P2 = Some Pob2' /\ In l2 (links Pob2') /\ dropped Pob2' = dropped Pob2).
    { intros P2 Pob2 l2 Hg2 Hin2. destruct (Nat.eq_dec P2 P) as [->|Hne].
      - rewrite HgP in Hg2. inversion Hg2; subst Pob2.
        destruct (In_set_nth (links Pob) j old l l2 Hnj Hin2) as [->|Hin']; [left; auto|right; exists Pob'; auto].
      - right. exists Pob2. rewrite (Hoth _ _ Hne Hg2). auto. }
    revert o Hp. apply prot_stable.
    + intros o (ob0 & Hg0 & Hd0 & Hb). assert (Hno0 : o <> O) by (intros ->; discriminate).
      destruct (Hobj _ _ Hg0) as (ob0' & Hg0' & Ew & Edr).
      destruct Hb as [H|[H|[H|[H|[H|H]]]]].
      * destruct (Nat.eq_dec (fst l) o) as [El|Hnl].
        -- apply prot_base. exists ob0'. split; auto. split; [congruence|]. right; right; right; right; left.
           exists P, Pob', l. repeat split; auto. cbn [links Pob' with_links]. eapply In_set_nth_new; eauto. apply Hfl. congruence.
        -- apply prot_base. exists ob0'. split; auto. split; [congruence|]. left. rewrite Hord by auto.
           rewrite (is_o_neq o l) by auto. pose proof (is_o_range o old). lia.
      * apply prot_base. exists ob0'. split; auto. split; [congruence|]. right; left. rewrite Ew. destruct H. split; auto. eapply fresh_mono; eauto.
      * apply prot_base. exists ob0'. split; auto. split; [congruence|]. right; right; left.
        destruct H as (p & Hin & Hk & Ho & Hw). exists p. rewrite Hse, Hpend. auto.
      * apply prot_base. exists ob0'. split; auto. split; [congruence|]. right; right; right; left.
        destruct H as (u0 & y0 & f0 & Hy0 & Hin & Hcf).
        destruct (frame_cases s (set_cell s0 c l) u y y1 f k new u0 y0 f0 Hy Hf Hth' Hy0 Hin) as [(_ & ->)|(y0' & Hy0' & Hin')];
          [exfalso; eapply Hnc; eauto|].
        exists u0, y0', f0. split; auto. split; auto. apply (casc_frame_mono s s' x x' o ob0 ob0' f0 HG Han); [rewrite Ew; auto|exact Hcf].
      * destruct H as (P2 & Pob2 & l2 & Hg2 & Hd2 & Hin2 & Hfl2).
        destruct (Hlinks _ _ _ Hg2 Hin2) as [(-> & ->)|(Pob2' & Hg2' & Hin2' & Ed2)].
        -- destruct Hfl2 as (E & _). apply prot_base. rewrite <- E in *. apply (Hold Hno0 ob0'); auto. congruence.
        -- apply prot_base. exists ob0'. split; auto. split; [congruence|]. right; right; right; right; left.
           exists P2, Pob2', l2. repeat split; auto; try congruence; try apply Hfl2. destruct Hfl2 as (_ & Hfr). eapply fresh_mono; eauto.
      * apply prot_base. exists ob0'. split; auto. split; [congruence|]. right; right; right; right; right.
        destruct H as (u0 & y0 & f0 & Hy0 & Hin & Hcf).
        destruct (frame_cases s (set_cell s0 c l) u y y1 f k new u0 y0 f0 Hy Hf Hth' Hy0 Hin) as [(_ & ->)|(y0' & Hy0' & Hin')];
          [exfalso; eapply Hno; eauto|].
        exists u0, y0', f0. split; auto. split; auto. eapply outs_frame_mono; eauto.
    + intros P2 Pob2 l2 o ob0 HpP HpP' Hg2 Hd2 Hin2 Hl2 Hg0 Hd0. assert (Hno0 : o <> O) by (intros ->; discriminate).
      destruct (Hobj _ _ Hg0) as (ob0' & Hg0' & Ew & Edr).
      destruct (Hlinks _ _ _ Hg2 Hin2) as [(-> & ->)|(Pob2' & Hg2' & Hin2' & Ed2)].
      * apply prot_base. rewrite <- Hl2 in *. apply (Hold Hno0 ob0'); auto. congruence.
      * apply (prot_link s' t x' P2 Pob2' l2 o ob0'); auto; congruence.
Qed.

Definition cell_live (s : state) (c : Z) : Prop :=
  (c <? 1000) = true \/ exists Pob, geto s (nat_of ((c - 1000) / 2)) = Some Pob /\ dropped Pob = false.

Lemma no_casc_swap s2 x o ob c new d : ~ casc_frame s2 x o ob (FSwap122 c new d) /\ ~ casc_frame s2 x o ob (FSwap120 c new d).
Proof. split; intros H; exact H. Qed.

Lemma ord_dec_frames o o' cnt tmp : sumZ (ord_frame o) (dec_frames o' cnt tmp) = sumZ (frame_strong o) (dec_frames o' cnt tmp).
Proof. destruct o'; reflexivity. Qed.

Lemma stab_FSwap122 s t rec s' obs x k c new d :
  Inv' s -> EOK s -> bounded s -> bounded s' -> cell_live s c ->
  gett s t = Some x -> frames x = FSwap122 c new d :: k -> micro s t rec = Some (s', obs) -> stable s s'.
Proof.
  intros HI HE HB HB' Hlive Hx Hf Hm. get_wf HI Hx Hf Hwf0 Hdn0.
  open_micro Hm Hx Hf. destruct (fst new) eqn:Hn.
  2:{ inversion Hm; subst s' obs; clear Hm. sreshape k.
      eapply stable_neutral; try eassumption; try solve [threads_solve]; try solve [sviews_solve]; try solve [pend_solve];
        try solve [cells_solve]; try solve [G_solve]; try solve [ord_solve]; try solve [nocasc]; try solve [noouts]. }
  destruct (get_cell s c) as [old|] eqn:Hc; [|inversion Hm; subst; kill_err' HB'].
  assert (Hnew : forall o, o <> O -> is_o o new = 0) by (intros; apply is_o_neq; lia).
  destruct d as [dd|]; inversion Hm; subst s' obs; clear Hm.
  - cbn in Hdn0, Hwf0. change (with_frames ?X k) with (with_frames X ([] ++ k)).
    eapply (stable_cell s s t x _ _ k [] c new old HI HE HB Hx Hf (rc_eq_refl s)); auto; try lia.
    + intros o Ho. vars_norm. rewrite sumZ_setv_none by auto. rewrite sumZ_nil. cbn [handle_strong ord_frame frame_strong]. lia.
    + intros o Ho. cbn [ord_frame frame_strong]. pose proof (sumZ_nonneg (handle_strong o) (vars x)). rewrite Hnew by auto.
      destruct (Inv'_thr_wf _ _ _ HI Hx) as (Hv & _).
      assert (0 <= sumZ (handle_strong o) (vars x)) by (apply sumZ_nonneg; intros a Ha; apply handle_strong_nonneg; rewrite Forall_forall in Hv; auto). lia.
  - destruct (dec_frames_gen (length (vars x)) (fst old) 1 false ltac:(lia)) as (D1 & D2 & D3 & D4 & D5 & D6 & D7 & D8).
    eapply (stable_cell s s t x _ _ k _ c new old HI HE HB Hx Hf (rc_eq_refl s)); auto; try lia.
    + intros o Ho. rewrite ord_dec_frames, D7 by auto. cbn [ord_frame frame_strong]. unfold is_o. lia.
    + intros o Ho. cbn [ord_frame frame_strong]. rewrite Hnew by auto.
      destruct (Inv'_thr_wf _ _ _ HI Hx) as (Hv & _).
      assert (0 <= sumZ (handle_strong o) (vars x)) by (apply sumZ_nonneg; intros a Ha; apply handle_strong_nonneg; rewrite Forall_forall in Hv; auto). lia.
Qed.

Lemma vars_nonneg s t x o : Inv' s -> gett s t = Some x -> 0 <= sumZ (handle_strong o) (vars x).
Proof.
  intros HI Hx. destruct (Inv'_thr_wf _ _ _ HI Hx) as (Hv & _).
  apply sumZ_nonneg; intros a Ha; apply handle_strong_nonneg; rewrite Forall_forall in Hv; auto.
Qed.

Lemma stab_FSwap120 s t rec s' obs x k c new d :
  Inv' s -> EOK s -> bounded s -> bounded s' -> cell_live s c ->
  gett s t = Some x -> frames x = FSwap120 c new d :: k -> micro s t rec = Some (s', obs) -> stable s s'.
Proof.
  intros HI HE HB HB' Hlive Hx Hf Hm. get_wf HI Hx Hf Hwf0 Hdn0.
  open_micro Hm Hx Hf.
  destruct (get_cell s c) as [old|] eqn:Hc; [|inversion Hm; subst; kill_err' HB'].
  set (s0 := see_epoch s (oracle_epoch s rec 1120)) in *.
  assert (Hrc : rc_eq s s0) by apply rc_eq_see_epoch. assert (HG0 : G s <= G s0) by apply G_see_epoch.
  set (l := (fst new, G s0 mod 16)) in *.
  assert (Hl : forall o, is_o o l = is_o o new) by reflexivity.
  pose proof (vars_nonneg s t x) as Hvn.
  destruct d as [dd|]; inversion Hm; subst s' obs; clear Hm.
  - cbn in Hdn0, Hwf0. change (with_frames ?X k) with (with_frames X ([] ++ k)).
    eapply (stable_cell s s0 t x _ _ k [] c l old HI HE HB Hx Hf Hrc HG0); auto.
    + right. exists (G s0). split; [lia|reflexivity].
    + intros o Ho. vars_norm. rewrite sumZ_setv_none by auto. rewrite sumZ_nil, Hl. cbn [handle_strong ord_frame frame_strong]. lia.
    + intros o Ho. rewrite Hl. cbn [ord_frame frame_strong]. specialize (Hvn o HI Hx). lia.
  - destruct (dec_frames_gen (length (vars x)) (fst old) 1 false ltac:(lia)) as (D1 & D2 & D3 & D4 & D5 & D6 & D7 & D8).
    eapply (stable_cell s s0 t x _ _ k _ c l old HI HE HB Hx Hf Hrc HG0); auto.
    + right. exists (G s0). split; [lia|reflexivity].
    + intros o Ho. rewrite ord_dec_frames, D7, Hl by auto. cbn [ord_frame frame_strong]. unfold is_o. lia.
    + intros o Ho. rewrite Hl. cbn [ord_frame frame_strong]. specialize (Hvn o HI Hx). lia.
Qed.

Lemma stab_FCas123 s t rec s' obs x k c e desraw src d :
  Inv' s -> EOK s -> pinned s -> bounded s -> bounded s' -> cell_live s c ->
  gett s t = Some x -> frames x = FCas123 c e desraw src d :: k -> micro s t rec = Some (s', obs) -> stable s s'.
Proof.
  intros HI HE HP HB HB' Hlive Hx Hf Hm. get_wf HI Hx Hf Hwf0 Hdn0. cbn in Hdn0. destruct Hwf0 as (Hsrc & Hd & Hne).
  pose proof (Inv'_thr_wf _ _ _ HI Hx) as (_ & _ & Htop & _). unfold top_ok in Htop. rewrite Hf in Htop. destruct Htop as (ts & Htop).
  pose proof (pinned_top _ _ _ _ _ HP Hx Hf) as Hp9. cbn [frame_pinnedP] in Hp9.
  open_micro Hm Hx Hf.
  destruct (get_cell s c) as [cur|] eqn:Hc; [|inversion Hm; subst; kill_err' HB'].
  destruct (Nat.eqb_spec (fst cur) (fst e)) as [He|Hne'];
    [destruct (Z.eqb_spec (snd cur) (snd e))|]; cbn [andb] in Hm; inversion Hm; subst s' obs; clear Hm.
  - change (with_frames ?X k) with (with_frames X ([] ++ k)).
    pose proof (getv_nth x src Hsrc) as E1. rewrite Htop in E1.
    assert (E2 : nth_error (set_nth (vars x) src HNone) d = Some HNone).
    { rewrite nth_error_set_nth_neq by auto. rewrite (getv_nth x d Hd), Hdn0. auto. }
    eapply (stable_cell s s t x _ _ k [] c desraw cur HI HE HB Hx Hf (rc_eq_refl s)); auto; try lia.
    + intros o Ho. vars_norm. rewrite (sumZ_set_nth _ _ _ _ _ E2), (sumZ_set_nth _ _ _ _ _ E1), sumZ_nil.
      cbn [handle_strong ord_frame frame_strong]. unfold is_o. cbn [fst]. rewrite He. lia.
    + intros o Ho. cbn [ord_frame frame_strong].
      pose proof (sumZ_nth_le (handle_strong o) (vars x) src _ (fun b Hb => handle_strong_nonneg o b
                    (proj1 (Forall_forall _ _) (proj1 (Inv'_thr_wf _ _ _ HI Hx)) b Hb)) E1) as H.
      cbn [handle_strong] in H. unfold is_o in *. cbn [fst] in H. lia.
  - match goal with |- stable ?s0 (sett ?S ?T (with_frames ?X (?F :: ?K))) => change (F :: K) with ([F] ++ K) end.
    eapply stable_neutral; try eassumption; try solve [threads_solve]; try solve [sviews_solve]; try solve [pend_solve];
      try solve [cells_solve]; try solve [G_solve]; try solve [ord_solve]; try solve [nocasc]; try solve [noouts].
  - change (with_frames ?X k) with (with_frames X ([] ++ k)).
    eapply stable_neutral; try eassumption; try solve [threads_solve]; try solve [sviews_solve]; try solve [pend_solve];
      try solve [cells_solve]; try solve [G_solve]; try solve [nocasc]; try solve [noouts].
    intros o. ord_solve. vars_norm. rewrite (sumZ_setv0 o x x) by auto. lia.
Qed.

(* ---- operation start *)
Definition st_ext (s s1 : state) : Prop :=
  (forall o ob, geto s o = Some ob -> geto s1 o = Some ob) /\ pending s1 = pending s /\ cells s1 = cells s /\
  (forall o, o <> O -> sumZ (obj_links_strong o) (objs s1) = sumZ (obj_links_strong o) (objs s)).
Lemma st_ext_refl s : st_ext s s. Proof. repeat split; auto. Qed.
Lemma st_ext_rc s s1 : rc_eq s s1 -> st_ext s s1.
Proof.
  intros (E1 & E2 & E3 & E4). repeat split; auto.
  - intros o ob H. unfold geto in *. rewrite E1. auto.
  - intros. rewrite E1. auto.
Qed.
Lemma st_ext_alloc s n : st_ext s (fst (alloc s n)).
Proof.
  repeat split; auto.
  - intros o ob Hg. rewrite geto_alloc_old; auto. intros ->. rewrite geto_alloc_none in Hg. discriminate.
  - intros o Ho. cbn [alloc fst objs]. rewrite sumZ_app, sumZ_cons, sumZ_nil. unfold obj_links_strong at 2. cbn [links].
    rewrite !sumZ_cons, sumZ_nil. rewrite (is_o_neq o null_link) by (cbn; auto). lia.
Qed.

Ltac ext_leaf :=
  cbn [fst snd];
  first [ apply st_ext_refl | apply st_ext_alloc
        | apply st_ext_rc; apply rc_eq_see_epoch | apply st_ext_rc; apply rc_eq_set_err ].

Lemma start_op_ext s x rec op : st_ext s (fst (fst (fst (start_op s x rec op)))).
Proof.
  destruct (known_shape op) eqn:Hk.
  - apply known_shape_true in Hk. destruct Hk; unfold start_op; cbv beta iota zeta; destruct_matches; ext_leaf.
  - rewrite start_op_unknown by auto. ext_leaf.
Qed.

Lemma sumZ_plus {A} (f g : A -> Z) l : sumZ (fun a => f a + g a) l = sumZ f l + sumZ g l.
Proof. induction l; [rewrite !sumZ_nil; lia|]. rewrite !sumZ_cons. lia. Qed.

Definition xo_frame (o : nat) (f : frame) : Z := frame_strong o f - ord_frame o f.
Definition xo_thr (o : nat) (x : thr) : Z := sumZ (xo_frame o) (frames x).
Lemma thr_strong_split o x : thr_strong o x = ord_thr o x + xo_thr o x.
Proof.
  unfold thr_strong, ord_thr, xo_thr.
  assert (sumZ (frame_strong o) (frames x) = sumZ (ord_frame o) (frames x) + sumZ (xo_frame o) (frames x)).
  { rewrite <- sumZ_plus. apply sumZ_ext. intros a _. unfold xo_frame. lia. }
  lia.
Qed.
Lemma owners_split s o : owners s o = ord s o + sumZ (xo_thr o) (threads s) + sumZ (obj_links_strong o) (objs s).
Proof.
  unfold owners, ord.
  assert (sumZ (thr_strong o) (threads s) = sumZ (ord_thr o) (threads s) + sumZ (xo_thr o) (threads s)).
  { rewrite <- sumZ_plus. apply sumZ_ext. intros a _. apply thr_strong_split. }
  lia.
Qed.

Lemma plain_xo o f : disp_depth f = None -> xo_frame o f = 0.
Proof. intros H. unfold xo_frame. destruct f; cbn in H; try discriminate; cbn [ord_frame]; lia. Qed.

Lemma stab_FOp s t rec s' obs x k :
  Inv' s -> Inv' s' -> gett s t = Some x -> frames x = FOp :: k -> micro s t rec = Some (s', obs) -> stable s s'.
Proof.
  intros HI HI' Hx Hf Hm. pose proof (Inv'_thr_wf _ _ _ HI Hx) as Wx.
  pose proof (FOp_bottom _ _ Wx Hf) as ->. open_micro Hm Hx Hf.
  destruct (prog x) as [|op rest] eqn:Hp.
  - inversion Hm; subst s' obs; clear Hm. change (with_frames x []) with (with_frames x ([] ++ [])).
    eapply stable_neutral; try eassumption; try solve [threads_solve]; try solve [sviews_solve]; try solve [pend_solve];
      try solve [cells_solve]; try solve [G_solve]; try solve [ord_solve]; try solve [nocasc]; try solve [noouts].
  - match type of Hm with context [start_op s ?X0 rec op] => set (x0 := X0) in * end.
    pose proof (start_op_ext s x0 rec op) as Hext. pose proof (start_op_G s x0 rec op) as HG.
    pose proof (threads_start_op s x0 rec op) as Hth. pose proof (start_op_plain s x0 rec op) as Hpl.
    destruct (start_op s x0 rec op) as [[[s1 x1] fs] o] eqn:Hs. cbn [fst] in Hext.
    specialize (HG _ _ _ _ eq_refl). specialize (Hth _ _ _ _ eq_refl). specialize (Hpl _ _ _ _ eq_refl).
    destruct Hext as (Hobj & Hpend & Hcells & Hlnk).
    inversion Hm; subst s' obs; clear Hm.
    change (fs ++ FMay :: FOpEnd (hd 0 op) :: [FOp]) with (fs ++ op_tail (hd 0 op)) in *.
    set (tl := op_tail (hd 0 op)) in *.
    assert (Hpl' : Forall (fun f => disp_depth f = None) (fs ++ tl)).
    { apply Forall_app. split; [eapply Forall_impl; [|exact Hpl]; intros a (H & _); auto|]. unfold tl, op_tail. repeat constructor. }
    replace (fs ++ tl) with ((fs ++ tl) ++ []) in * by apply app_nil_r.
    set (s' := sett s1 t (with_frames x1 ((fs ++ tl) ++ []))) in *.
    assert (Hx1 : gett s1 t = Some x) by (unfold gett in *; rewrite Hth; auto).
    apply (stable_neutral_gen s s1 t x x1 FOp [] (fs ++ tl)); auto.
    + intros o0 ob0 Hg0. exists ob0. split; auto. apply sview_refl.
    + intros t0 y y' p _ _ _ Hin _. rewrite Hpend. auto.
    + (* ordinary shares: the count words did not move, so neither did the owners *)
      intros o0 Ho0 Hpos. fold s'.
      destruct (geto s o0) as [ob0|] eqn:Hg0.
      2:{ exfalso. pose proof HI as (_ & HN & _). destruct (HN o0 Ho0 Hg0) as (H0 & _).
          pose proof (ord_le_owners s o0 (Inv'_all_wf _ HI)). lia. }
      destruct (destructed (word ob0)) eqn:Hd0.
      { exfalso. pose proof HI as (HA & _). destruct (j_dead _ _ _ (HA _ _ Hg0) Hd0) as (H0 & _).
        pose proof (ord_le_owners s o0 (Inv'_all_wf _ HI)). lia. }
      assert (Hg0' : geto s' o0 = Some ob0) by (unfold s'; rewrite geto_sett; auto).
      pose proof HI as (HA & _). pose proof HI' as (HA' & _).
      destruct (live_facts _ _ _ (HA _ _ Hg0) Hd0) as (J1 & _). destruct (live_facts _ _ _ (HA' _ _ Hg0') Hd0) as (J1' & _).
      assert (Eown : owners s' o0 = owners s o0) by lia.
      rewrite (owners_split s' o0), (owners_split s o0) in Eown.
      assert (Ex : sumZ (xo_thr o0) (threads s') = sumZ (xo_thr o0) (threads s)).
      { unfold s'. cbn [threads sett]. unfold gett in Hx1. rewrite (sumZ_set_nth _ _ _ _ _ Hx1), Hth.
        unfold xo_thr at 2 3. cbn [frames with_frames]. rewrite Hf, sumZ_cons, sumZ_nil.
        rewrite (sumZ_zero (xo_frame o0) ((fs ++ tl) ++ [])).
        - cbn. lia.
        - intros a Ha. apply plain_xo. rewrite Forall_forall in Hpl'. auto. }
      assert (El : sumZ (obj_links_strong o0) (objs s') = sumZ (obj_links_strong o0) (objs s)) by (unfold s'; cbn [objs sett]; auto).
      lia.
    + intros t0 y y' o0 ob0 ob0' _ _ _ _ _ _ H. cbn in H. contradiction.
    + intros t0 y y' o0 ob0 ob0' _ _ _ _ _ H. cbn in H. contradiction.
Qed.

(* ---- every micro transition keeps protected objects protected *)
Definition cells_live (s : state) : Prop :=
  forall t x f k c, gett s t = Some x -> frames x = f :: k ->
    (match f with FSwap122 c' _ _ | FSwap120 c' _ _ | FCas123 c' _ _ _ _ => c' = c | _ => False end) -> cell_live s c.

Theorem micro_stable s t rec s' obs :
  Inv' s -> Inv' s' -> EOK s -> EOK s' -> pinned s -> RInv s -> bounded s -> bounded s' -> epoch_ok (G s') ->
  scounted_ok s -> cells_live s -> micro s t rec = Some (s', obs) -> stable s s'.
Proof.
  intros HI HI' HE HE' HP HR HB HB' HG' HC HL Hm. destruct (micro_top _ _ _ _ _ Hm) as (x & f & k & Hx & Hf).
  destruct f.
  - eapply stab_FStart; eauto.
  - eapply stab_FOp; eauto.
  - eapply stab_FOpEnd; eauto.
  - eapply stab_FRet; eauto.
  - eapply stab_FMay; eauto.
  - eapply stab_FAwait; eauto.
  - eapply stab_FEndClosure; eauto.
  - eapply stab_FUnpinTmp; eauto.
  - eapply (stab_FIncS s t rec s' obs x k o k0 _ (or_introl eq_refl)); eauto.
  - eapply (stab_FIncS s t rec s' obs x k o k0 _ (or_intror eq_refl)); eauto.
  - eapply stab_FDecS110; eauto.
  - eapply stab_FDecS111; eauto.
  - eapply stab_FDecS112; eauto.
  - eapply stab_FTD113; eauto.
  - eapply stab_FTD114; eauto.
  - eapply stab_FDispEnter; eauto.
  - eapply stab_FDisp115; eauto.
  - eapply stab_FDisp116; eauto.
  - eapply stab_FDisp130; eauto.
  - eapply stab_FDispDo; eauto.
  - eapply stab_FDisp117; eauto.
  - eapply stab_FKids; eauto.
  - eapply stab_FKid118; eauto.
  - eapply stab_FKid119; eauto.
  - eapply stab_FDecW107; eauto.
  - eapply stab_FTDe102; eauto.
  - eapply stab_FIncW103; eauto.
  - eapply stab_FIncW104; eauto.
  - eapply stab_FIncW105; eauto.
  - eapply stab_FIncW106; eauto.
  - eapply stab_FIsND108; eauto.
  - eapply stab_FIsND109; eauto.
  - eapply stab_FLoad121; eauto.
  - eapply stab_FSwap122; eauto. eapply HL; eauto. reflexivity.
  - eapply stab_FSwap120; eauto. eapply HL; eauto. reflexivity.
  - eapply stab_FCas120; eauto.
  - eapply stab_FCas123; eauto. eapply HL; eauto. reflexivity.
Qed.

(* ---- the snapshot invariant *)
Definition held (s : state) (t : nat) (x : thr) (o : nat) : Prop := o = O \/ prot s t x o.
Definition snap_h (s : state) (t : nat) (x : thr) (h : handle) : Prop :=
  match h with HSnap l n => n = serial x -> held s t x (fst l) | _ => True end.
Definition nosnap (h : handle) : Prop := match h with HSnap _ _ => False | _ => True end.
(* the handles a frame may still deliver *)
Definition frame_conts (s : state) (t : nat) (x : thr) (f : frame) : Prop :=
  match f with
  | FRet c b => snap_h s t x (if b then cok c else cfail c)
  | FIsND108 o c | FIsND109 o _ _ c => nosnap (cfail c) /\ (forall l n, cok c = HSnap l n -> fst l = o)
  | FIncS100 _ c | FIncS101 _ c => nosnap (cfail c)
  | _ => True
  end.
(* the thread keeps o alive by itself: through an Rc it holds, or because o is protected for its critical section *)
Definition hold (s : state) (t : nat) (x : thr) (o : nat) : Prop :=
  0 < sumZ (handle_strong o) (vars x) \/ (incs x = true /\ prot s t x o).
Definition node_of (c : Z) : nat := nat_of ((c - 1000) / 2).
Definition top_hold (s : state) (t : nat) (x : thr) (f : frame) : Prop :=
  match f with
  | FIncS100 o c | FIncS101 o c => cign c = true -> hold s t x o
  | FLoad121 c _ | FSwap122 c _ _ | FSwap120 c _ _ | FCas120 c _ _ _ _ | FCas123 c _ _ _ _ => c < 1000 \/ (node_of c <> O /\ hold s t x (node_of c))
  | _ => True
  end.
Definition calm (f : frame) : Prop :=
  match f with
  | FIncS100 _ _ | FIncS101 _ _ | FLoad121 _ _ | FSwap122 _ _ _ | FSwap120 _ _ _ | FCas120 _ _ _ _ _ | FCas123 _ _ _ _ _ => False
  | _ => True
  end.
(* the word is_not_destructed is about to CAS on was seen not destructed *)
Definition nd109 (f : frame) : Prop := match f with FIsND109 _ old _ _ => destructed old = false | _ => True end.
Definition thr_snap (s : state) (t : nat) (x : thr) : Prop :=
  (incs x = true -> Forall (snap_h s t x) (vars x) /\ Forall (frame_conts s t x) (frames x)) /\
  Forall calm (tl (frames x)) /\ top_hold s t x (hd FOp (frames x)) /\ Forall nd109 (frames x).
Definition SnapInv (s : state) : Prop := forall t x, gett s t = Some x -> thr_snap s t x.

(* H3: Snapshots belong to the critical section they were taken in (Rust lifetimes: a Snapshot borrows the guard) *)
Definition scoped_h (x : thr) (h : handle) : Prop :=
  match h with HSnap _ n => incs x = true /\ n = serial x | _ => True end.
Definition scoped_f (x : thr) (f : frame) : Prop :=
  match f with
  | FRet c _ | FIsND108 _ c | FIsND109 _ _ _ c | FIncS100 _ c | FIncS101 _ c => scoped_h x (cok c) /\ scoped_h x (cfail c)
  | _ => True
  end.
Definition scoped (s : state) : Prop :=
  forall t x, gett s t = Some x -> Forall (scoped_h x) (vars x) /\ Forall (scoped_f x) (frames x).

Lemma nosnap_snap_h s t x h : nosnap h -> snap_h s t x h.
Proof. destruct h; cbn; tauto. Qed.
Lemma calm_top_hold s t x f : calm f -> top_hold s t x f.
Proof. destruct f; cbn; tauto. Qed.

Lemma held_tr s s' t x x' o : stable s s' -> gett s t = Some x -> gett s' t = Some x' -> same_sec x x' ->
  held s t x o -> held s' t x' o.
Proof. intros Hst Hx Hx' Hs [H|H]; [left; auto|right; eapply Hst; eauto]. Qed.
Lemma snap_h_tr s s' t x x' h : stable s s' -> gett s t = Some x -> gett s' t = Some x' -> same_sec x x' ->
  snap_h s t x h -> snap_h s' t x' h.
Proof.
  intros Hst Hx Hx' Hs. destruct h; cbn; auto. intros H E. pose proof Hs as (_ & _ & Hse & _).
  eapply held_tr; eauto. apply H. congruence.
Qed.
Lemma frame_conts_tr s s' t x x' f : stable s s' -> gett s t = Some x -> gett s' t = Some x' -> same_sec x x' ->
  frame_conts s t x f -> frame_conts s' t x' f.
Proof. intros Hst Hx Hx' Hs. destruct f; cbn; auto. eapply snap_h_tr; eauto. Qed.
Lemma hold_tr s s' t x o : stable s s' -> gett s t = Some x -> gett s' t = Some x -> hold s t x o -> hold s' t x o.
Proof.
  intros Hst Hx Hx' [H|(Hi & H)]; [left; auto|right; split; auto]. eapply Hst; eauto. apply same_sec_refl; auto.
Qed.
Lemma top_hold_tr s s' t x f : stable s s' -> gett s t = Some x -> gett s' t = Some x -> top_hold s t x f -> top_hold s' t x f.
Proof.
  intros Hst Hx Hx'. destruct f; cbn; auto; try (intros H Hc; eapply hold_tr; eauto);
    intros [H|(H0 & H)]; auto; right; split; auto; eapply hold_tr; eauto.
Qed.
Lemma thr_snap_tr s s' t x : stable s s' -> gett s t = Some x -> gett s' t = Some x -> thr_snap s t x -> thr_snap s' t x.
Proof.
  intros Hst Hx Hx' (H1 & H2 & H3 & H4). split; [|split; auto; split; auto; eapply top_hold_tr; eauto].
  intros Hi. destruct (H1 Hi) as (Hv & Hf). pose proof (same_sec_refl x Hi) as Hs.
  split; (eapply Forall_impl; [|eassumption]); intros a Ha; [eapply snap_h_tr|eapply frame_conts_tr]; eauto.
Qed.

(* a step of thread t: what has to be shown about its new handles and frames *)
Lemma snap_step s s1 t x x' f k new :
  SnapInv s -> stable s (sett s1 t x') -> threads s1 = threads s -> gett s t = Some x -> frames x = f :: k -> frames x' = new ++ k ->
  (incs x' = true -> same_sec x x') ->
  (incs x' = true -> forall h, In h (vars x') -> In h (vars x) \/ snap_h (sett s1 t x') t x' h) ->
  (incs x' = true -> Forall (frame_conts (sett s1 t x') t x') new) ->
  Forall calm (tl (new ++ k)) -> top_hold (sett s1 t x') t x' (hd FOp (new ++ k)) -> Forall nd109 new ->
  SnapInv (sett s1 t x').
Proof.
  intros HS Hst Hth Hx Hf Hf' Hsec Hv Hn Hc Ht Hnd t0 y Hy.
  assert (Hx1 : gett s1 t = Some x) by (unfold gett in *; rewrite Hth; auto).
  assert (Hx' : gett (sett s1 t x') t = Some x') by (eapply gett_sett_eq; eauto).
  destruct (Nat.eq_dec t t0) as [<-|Hne].
  - rewrite Hx' in Hy. inversion Hy; subst y; clear Hy.
    destruct (HS t x Hx) as (H1 & H2 & H3 & H4). split; [|rewrite Hf'; split; auto; split; auto; apply Forall_app; split; auto;
      rewrite Hf in H4; eapply Forall_inv_tail; eauto].
    intros Hi. pose proof (Hsec Hi) as Hs. pose proof Hs as (Hi0 & _). destruct (H1 Hi0) as (Hv0 & Hf0).
    rewrite Forall_forall in Hv0, Hf0. split.
    + apply Forall_forall. intros h Hin. destruct (Hv Hi h Hin) as [Hin0|]; auto.
      eapply snap_h_tr; eauto.
    + rewrite Hf'. apply Forall_app. split; auto. apply Forall_forall. intros g Hg.
      eapply frame_conts_tr; eauto. apply Hf0. rewrite Hf. right. auto.
  - rewrite gett_sett_neq in Hy by auto. assert (Hy0 : gett s t0 = Some y) by (unfold gett in *; rewrite <- Hth; auto).
    eapply thr_snap_tr; eauto. rewrite gett_sett_neq by auto. auto.
Qed.

Definition quietf (f : frame) : Prop :=
  match f with
  | FRet _ _ | FIsND108 _ _ | FIsND109 _ _ _ _ => False
  | _ => calm f
  end.
Lemma quietf_calm f : quietf f -> calm f.
Proof. destruct f; cbn; tauto. Qed.
Lemma quietf_conts s t x f : quietf f -> frame_conts s t x f.
Proof. destruct f; cbn; tauto. Qed.

Lemma snap_quiet s s1 t x x' f k new :
  SnapInv s -> stable s (sett s1 t x') -> threads s1 = threads s -> gett s t = Some x -> frames x = f :: k -> frames x' = new ++ k ->
  (incs x' = true -> same_sec x x') ->
  (incs x' = true -> forall h, In h (vars x') -> In h (vars x) \/ snap_h (sett s1 t x') t x' h) ->
  Forall quietf new ->
  SnapInv (sett s1 t x').
Proof.
  intros HS Hst Hth Hx Hf Hf' Hsec Hv Hq. destruct (HS t x Hx) as (_ & Hc & _). rewrite Hf in Hc. cbn [tl] in Hc.
  eapply snap_step; eauto.
  - intros _. eapply Forall_impl; [|exact Hq]. intros a. apply quietf_conts.
  - destruct new as [|a new]; cbn [app tl].
    + destruct k; cbn [tl]; auto. inversion Hc; auto.
    + inversion Hq; subst. apply Forall_app. split; auto. eapply Forall_impl; [|eassumption]. apply quietf_calm.
  - apply calm_top_hold. destruct new as [|a new]; cbn [app hd].
    + destruct k; cbn [hd]; [exact I|]. inversion Hc; auto.
    + inversion Hq; subst. apply quietf_calm; auto.
  - eapply Forall_impl; [|exact Hq]. intros a. destruct a; cbn; tauto.
Qed.

(* ---- preservation of the snapshot invariant, frame by frame *)
Ltac snreshape k :=
  match goal with |- SnapInv (sett ?S ?T (with_frames ?X ?FS)) =>
    let p := prefix FS k in change FS with (p ++ k) end.
Ltac sec_tac :=
  unfold same_sec, incs, setv; cbn [gdepth serial ann with_frames with_vars with_res with_resw with_inclosure with_guard];
  intros ?Hi; repeat split; auto.
Ltac vars_tac :=
  intros _ ?h ?Hin; unfold setv in *; cbn [vars with_frames with_vars with_res with_resw with_inclosure with_guard] in *;
  repeat match goal with H : In _ (set_nth _ _ _) |- _ => apply In_set_nth_inv in H; destruct H as [->|H] end;
  first [ left; assumption | right; exact I ].
Ltac snap_q Hm Hx Hf k :=
  open_micro Hm Hx Hf; destruct_in Hm; inversion Hm; subst; clear Hm; snreshape k;
  (eapply snap_quiet; [eassumption | eassumption | threads_solve | eassumption | eassumption | reflexivity | sec_tac | vars_tac
                     | repeat constructor ]).

Lemma snap_FRet s t rec s' obs x k c b :
  SnapInv s -> stable s s' -> gett s t = Some x -> frames x = FRet c b :: k -> micro s t rec = Some (s', obs) -> SnapInv s'.
Proof.
  intros HS Hst Hx Hf Hm. destruct (HS t x Hx) as (H1 & _).
  open_micro Hm Hx Hf. inversion Hm; subst; clear Hm. snreshape k.
  eapply snap_quiet; [eassumption | eassumption | threads_solve | eassumption | eassumption | reflexivity | sec_tac | | constructor].
  intros Hi h Hin. unfold setv in *; cbn [vars with_frames with_vars with_res incs gdepth] in *.
  apply In_set_nth_inv in Hin. destruct Hin as [->|Hin]; [right|left; auto].
  destruct (H1 Hi) as (_ & Hfc). rewrite Hf in Hfc. apply Forall_inv in Hfc. cbn [frame_conts] in Hfc.
  eapply snap_h_tr; eauto.
  - eapply gett_sett_eq; eauto.
  - repeat split; auto.
Qed.

Lemma snap_FUnpinTmp s t rec s' obs x k :
  SnapInv s -> stable s s' -> gett s t = Some x -> frames x = FUnpinTmp :: k -> micro s t rec = Some (s', obs) -> SnapInv s'.
Proof.
  intros HS Hst Hx Hf Hm.
  open_micro Hm Hx Hf. inversion Hm; subst; clear Hm. snreshape k.
  eapply snap_quiet; [eassumption | eassumption | threads_solve | eassumption | eassumption | reflexivity | | vars_tac | constructor].
  unfold same_sec, incs; cbn [gdepth serial ann with_frames with_guard]. intros Hi. repeat split; auto.
  destruct (gdepth x); cbn in *; auto.
Qed.

(* the thread was outside a critical section: under H3 it has no Snapshot at all *)
Lemma snap_newsec s s1 t x x' f k new :
  SnapInv s -> scoped s -> stable s (sett s1 t x') -> threads s1 = threads s -> gett s t = Some x -> frames x = f :: k ->
  frames x' = new ++ k -> incs x = false -> vars x' = vars x -> Forall quietf new ->
  SnapInv (sett s1 t x').
Proof.
  intros HS Hsc Hst Hth Hx Hf Hf' Hi Hv Hq t0 y Hy.
  assert (Hx1 : gett s1 t = Some x) by (unfold gett in *; rewrite Hth; auto).
  assert (Hx' : gett (sett s1 t x') t = Some x') by (eapply gett_sett_eq; eauto).
  destruct (Nat.eq_dec t t0) as [<-|Hne].
  - rewrite Hx' in Hy. inversion Hy; subst y; clear Hy.
    destruct (HS t x Hx) as (_ & Hc & _ & Hnd). destruct (Hsc t x Hx) as (Sv & Sf). rewrite Hf in Hc, Sf, Hnd. cbn [tl] in Hc.
    apply Forall_inv_tail in Sf. rewrite Forall_forall in Sv, Sf.
    assert (Hno : forall h, scoped_h x h -> nosnap h) by (intros [] H; cbn in *; auto; destruct H; congruence).
    split; [|split; [|split]].
    + intros _. split.
      * rewrite Hv. apply Forall_forall. intros h Hin. apply nosnap_snap_h. apply Hno. auto.
      * rewrite Hf'. apply Forall_app. split; [eapply Forall_impl; [|exact Hq]; intros a; apply quietf_conts|].
        apply Forall_forall. intros g Hg. specialize (Sf g Hg).
        destruct g; cbn [frame_conts scoped_f] in *; auto; destruct Sf as (S1 & S2).
        -- apply nosnap_snap_h. destruct b; auto.
        -- auto.
        -- auto.
        -- split; auto. intros l n E. rewrite E in S1. destruct S1; congruence.
        -- split; auto. intros l n E. rewrite E in S1. destruct S1; congruence.
    + rewrite Hf'. destruct new as [|a new]; cbn [app tl].
      * destruct k; cbn [tl]; auto. inversion Hc; auto.
      * inversion Hq; subst. apply Forall_app. split; auto. eapply Forall_impl; [|eassumption]. apply quietf_calm.
    + rewrite Hf'. apply calm_top_hold. destruct new as [|a new]; cbn [app hd].
      * destruct k; cbn [hd]; [exact I|]. inversion Hc; auto.
      * inversion Hq; subst. apply quietf_calm; auto.
    + rewrite Hf'. apply Forall_app. split; [|eapply Forall_inv_tail; eauto].
      eapply Forall_impl; [|exact Hq]. intros a. destruct a; cbn; tauto.
  - rewrite gett_sett_neq in Hy by auto. assert (Hy0 : gett s t0 = Some y) by (unfold gett in *; rewrite <- Hth; auto).
    eapply thr_snap_tr; eauto. rewrite gett_sett_neq by auto. auto.
Qed.

Lemma snap_FDecS110 s t rec s' obs x k o cnt tmp own :
  SnapInv s -> scoped s -> stable s s' -> gett s t = Some x -> frames x = FDecS110 o cnt tmp own :: k ->
  micro s t rec = Some (s', obs) -> SnapInv s'.
Proof.
  intros HS Hsc Hst Hx Hf Hm. open_micro Hm Hx Hf.
  destruct (tmp && negb (inclosure x)) eqn:Hpin; [destruct (gdepth x) eqn:Hg|]; inversion Hm; subst; clear Hm; snreshape k.
  - eapply snap_newsec; [eassumption | eassumption | eassumption | threads_solve | eassumption | eassumption | reflexivity | | reflexivity | repeat constructor].
    unfold incs. rewrite Hg. reflexivity.
  - eapply snap_quiet; [eassumption | eassumption | threads_solve | eassumption | eassumption | reflexivity | | vars_tac | repeat constructor].
    unfold same_sec, incs; cbn [gdepth serial ann with_frames with_guard]. rewrite Hg. intros _. repeat split; auto.
  - eapply snap_quiet; [eassumption | eassumption | threads_solve | eassumption | eassumption | reflexivity | sec_tac | vars_tac | repeat constructor].
Qed.

Lemma hold_tr' s s' t x x' o : stable s s' -> gett s t = Some x -> gett s' t = Some x' -> vars x' = vars x ->
  gdepth x' = gdepth x -> serial x' = serial x -> ann x' = ann x -> hold s t x o -> hold s' t x' o.
Proof.
  intros Hst Hx Hx' Hv Hg Hse Ha [H|(Hi & H)]; [left; rewrite Hv; auto|right].
  assert (Hi' : incs x' = true) by (unfold incs in *; rewrite Hg; auto).
  split; auto. eapply Hst; eauto. repeat split; auto.
Qed.

Lemma snap_FIncS s t rec s' obs x k o c f :
  f = FIncS100 o c \/ f = FIncS101 o c ->
  Inv' s -> SnapInv s -> stable s s' -> gett s t = Some x -> frames x = f :: k -> micro s t rec = Some (s', obs) -> SnapInv s'.
Proof.
  intros Hff HI HS Hst Hx Hf Hm. destruct (HS t x Hx) as (H1 & Hc & Hth & _). rewrite Hf in Hc, Hth. cbn [tl hd] in Hc, Hth.
  pose proof (Inv'_thr_wf _ _ _ HI Hx) as (_ & Hfw & _). rewrite Hf in Hfw. apply Forall_inv in Hfw.
  assert (Hcok : exists l, cok c = HRc l) by (destruct Hff as [-> | ->]; destruct Hfw as (_ & l & E1 & _); eauto).
  destruct Hcok as (l & Hok).
  assert (Hcf : incs x = true -> nosnap (cfail c)).
  { intros Hi. destruct (H1 Hi) as (_ & Hfc). rewrite Hf in Hfc. apply Forall_inv in Hfc. destruct Hff as [-> | ->]; exact Hfc. }
  assert (Hho : cign c = true -> hold s t x o) by (destruct Hff as [-> | ->]; exact Hth).
  destruct Hff as [-> | ->]; open_micro Hm Hx Hf.
  all: destruct_in Hm; inversion Hm; subst; clear Hm; snreshape k.
  all: try solve [eapply snap_quiet; [eassumption | eassumption | threads_solve | eassumption | eassumption | reflexivity | sec_tac | vars_tac | repeat constructor]].
  all: eapply snap_step; [eassumption | eassumption | threads_solve | eassumption | eassumption | reflexivity | sec_tac | vars_tac | | | | repeat constructor].
  all: try solve [cbn [app tl]; auto].
  all: try (intros Hi; assert (Hi0 : incs x = true) by exact Hi; repeat constructor; cbn [frame_conts]; try rewrite Hok;
            first [exact I | apply Hcf; exact Hi0 | apply nosnap_snap_h; apply Hcf; exact Hi0]).
  all: cbn [app hd top_hold]; try exact I.
  all: intros Hcg; eapply hold_tr'; eauto; try reflexivity; eapply gett_sett_eq; rewrite ?gett_seto; eauto.
Qed.

Lemma snap_FIsND108 s t rec s' obs x k o c :
  SnapInv s -> stable s s' -> gett s t = Some x -> frames x = FIsND108 o c :: k -> micro s t rec = Some (s', obs) -> SnapInv s'.
Proof.
  intros HS Hst Hx Hf Hm. destruct (HS t x Hx) as (H1 & Hc & _ & _). rewrite Hf in Hc. cbn [tl] in Hc.
  assert (Hcf : incs x = true -> nosnap (cfail c) /\ (forall l n, cok c = HSnap l n -> fst l = o)).
  { intros Hi. destruct (H1 Hi) as (_ & Hfc). rewrite Hf in Hfc. apply Forall_inv in Hfc. exact Hfc. }
  open_micro Hm Hx Hf. destruct_in Hm; inversion Hm; subst; clear Hm; snreshape k.
  all: try solve [eapply snap_quiet; [eassumption | eassumption | threads_solve | eassumption | eassumption | reflexivity | sec_tac | vars_tac | repeat constructor]].
  all: eapply snap_step; [eassumption | eassumption | threads_solve | eassumption | eassumption | reflexivity | sec_tac | vars_tac | | | | ].
  all: try solve [cbn [app tl]; auto]; try solve [cbn [app hd top_hold]; exact I].
  all: try solve [repeat constructor; cbn [nd109]; auto].
  all: intros Hi; assert (Hi0 : incs x = true) by exact Hi; repeat constructor; cbn [frame_conts];
       first [apply nosnap_snap_h; apply Hcf; exact Hi0 | apply Hcf; exact Hi0].
Qed.

Lemma snap_FIsND109 s t rec s' obs x k o old r c :
  EOK s -> pinned s -> bounded s ->
  SnapInv s -> stable s s' -> gett s t = Some x -> frames x = FIsND109 o old r c :: k -> micro s t rec = Some (s', obs) -> SnapInv s'.
Proof.
  intros HE HP HB HS Hst Hx Hf Hm. destruct (HS t x Hx) as (H1 & Hc & _ & Hnd). rewrite Hf in Hc, Hnd. cbn [tl] in Hc.
  pose proof (Forall_inv Hnd) as Hold. cbn [nd109] in Hold.
  pose proof (HP t x _ Hx ltac:(rewrite Hf; left; reflexivity)) as Hr. cbn in Hr.
  assert (Hcf : incs x = true -> nosnap (cfail c) /\ (forall l n, cok c = HSnap l n -> fst l = o)).
  { intros Hi. destruct (H1 Hi) as (_ & Hfc). rewrite Hf in Hfc. apply Forall_inv in Hfc. exact Hfc. }
  open_micro Hm Hx Hf.
  destruct (geto s o) as [ob|] eqn:Hg.
  2:{ inversion Hm; subst; clear Hm; snreshape k.
      eapply snap_quiet; [eassumption | eassumption | threads_solve | eassumption | eassumption | reflexivity | sec_tac | vars_tac | repeat constructor]. }
  destruct (Z.eqb_spec (word ob) old) as [E|Hne].
  2:{ destruct (destructed (word ob)) eqn:Hd; inversion Hm; subst; clear Hm; snreshape k.
      all: eapply snap_step; [eassumption | eassumption | threads_solve | eassumption | eassumption | reflexivity | sec_tac | vars_tac | | | | ].
      all: try solve [cbn [app tl]; auto]; try solve [cbn [app hd top_hold]; exact I].
      all: try solve [repeat constructor; cbn [nd109]; auto].
      all: intros Hi; assert (Hi0 : incs x = true) by exact Hi; repeat constructor; cbn [frame_conts];
           first [apply nosnap_snap_h; apply Hcf; exact Hi0 | apply Hcf; exact Hi0]. }
  inversion Hm; subst s' obs; clear Hm. snreshape k.
  eapply snap_step; [eassumption | eassumption | threads_solve | eassumption | eassumption | reflexivity | sec_tac | vars_tac | | | | ].
  all: try solve [cbn [app tl]; auto]; try solve [cbn [app hd top_hold]; exact I]; try solve [repeat constructor].
  intros Hi. assert (Hi0 : incs x = true) by exact Hi. repeat constructor. cbn [frame_conts].
  destruct (cok c) as [| | | l n | |] eqn:Hok; cbn [snap_h]; auto. intros _.
  destruct (Hcf Hi0) as (_ & Hl). rewrite (Hl l n eq_refl). right.
  destruct (bounded_word _ _ _ HB Hg) as (Hw & Hs & _). unfold LIM in Hs.
  set (new := if strong old =? 0 then add_strong old 1 else old) in *.
  assert (Hnw : W new /\ 0 < strong new /\ destructed new = false).
  { unfold new. rewrite <- E in *. destruct (Z.eqb_spec (strong (word ob)) 0) as [Hz|Hnz].
    - destruct (upd_add_strong (word ob) 1 Hw ltac:(lia) ltac:(lia)) as (A & B & C). split; [auto|split; [lia|congruence]].
    - pose proof (strong_range _ Hw). split; [auto|split; [lia|auto]]. }
  destruct Hnw as (Hwn & Hsn & Hdn).
  destruct (upd_with_epoch new r Hwn) as (Hw' & Hs' & Hd').
  assert (He' : epoch (with_epoch new r) = r mod 16) by (rewrite epoch_spec by auto; apply f_epoch_with_epoch; auto).
  apply prot_base. eexists. split; [rewrite geto_sett; eapply geto_seto_eq; eauto|]. cbn [word].
  split; [congruence|]. right; left. split; [lia|]. rewrite He'. destruct (eok_thr s t x HE HB Hx Hi0).
  apply (fresh_mono s _ x); [cbn [G sett]; rewrite G_seto; lia|reflexivity|]. apply fresh_recent; lia.
Qed.

(* ---- snapshot creation *)
Lemma owners_live s o : Inv' s -> o <> O -> 1 <= owners s o -> exists ob, geto s o = Some ob /\ destructed (word ob) = false.
Proof.
  intros HI Ho Hown. destruct (geto s o) as [ob|] eqn:Hg.
  - exists ob. split; auto. destruct (destructed (word ob)) eqn:Hd; auto.
    pose proof HI as (HA & _). destruct (j_dead _ _ _ (HA _ _ Hg) Hd). lia.
  - pose proof HI as (_ & HN & _). destruct (HN o Ho Hg). lia.
Qed.
Lemma ord_prot s t x o : Inv' s -> o <> O -> 0 < ord s o -> prot s t x o.
Proof.
  intros HI Ho Hord. pose proof (ord_le_owners s o (Inv'_all_wf _ HI)).
  destruct (owners_live s o HI Ho ltac:(lia)) as (ob & Hg & Hd).
  apply prot_base. exists ob. auto.
Qed.
Lemma sumZ_ord_frame_nonneg n o fs : Forall (frame_wf n) fs -> 0 <= sumZ (ord_frame o) fs.
Proof. intros H. apply sumZ_nonneg. intros a Ha. rewrite Forall_forall in H. apply (ord_frame_le n o a (H a Ha)). Qed.
Lemma hold_prot s t x o : Inv' s -> gett s t = Some x -> o <> O -> hold s t x o -> prot s t x o.
Proof.
  intros HI Hx Ho [H|(_ & H)]; auto. apply ord_prot; auto.
  pose proof (ord_ge_thr s t x o (Inv'_all_wf _ HI) Hx). unfold ord_thr in H0.
  pose proof (Inv'_thr_wf _ _ _ HI Hx) as (_ & Hfw & _). pose proof (sumZ_ord_frame_nonneg _ o _ Hfw). lia.
Qed.
Lemma geto_O s : geto s O = None.
Proof. reflexivity. Qed.
Lemma In_is_o o l ls : In l ls -> fst l = o -> 1 <= sumZ (is_o o) ls.
Proof.
  induction ls as [|a r IH]; intros Hin E; [destruct Hin|]. rewrite sumZ_cons. pose proof (is_o_range o a).
  destruct Hin as [->|Hin]; [subst o; rewrite is_o_eq; pose proof (sumZ_is_o_nonneg (fst l) r); lia|specialize (IH Hin E); lia].
Qed.
(* what a load through a held cell returns is protected *)
Lemma cell_prot s t x c l : Inv' s -> gett s t = Some x -> (c < 1000 \/ (node_of c <> O /\ hold s t x (node_of c))) ->
  get_cell s c = Some l -> fst l <> O -> prot s t x (fst l).
Proof.
  intros HI Hx Hh Hc Hl. unfold get_cell in Hc. destruct (Z.ltb_spec c 1000) as [Hlt|Hge].
  - apply ord_prot; auto. unfold ord.
    assert (0 <= sumZ (ord_thr (fst l)) (threads s)).
    { apply sumZ_nonneg. intros b Hb. destruct (In_nth_error _ _ Hb) as (n & Hn). apply ord_thr_nonneg. eapply Inv'_all_wf; eauto. }
    pose proof (In_is_o (fst l) l (cells s) (nth_error_In _ _ Hc) eq_refl). lia.
  - destruct Hh as [Hh|(_ & Hh)]; [lia|]. fold (node_of c) in Hc.
    destruct (geto s (node_of c)) as [Pob|] eqn:HgP; [|discriminate].
    assert (HP : node_of c <> O) by (intros E; rewrite E in HgP; discriminate).
    pose proof (hold_prot s t x _ HI Hx HP Hh) as Hp.
    destruct (prot_live _ _ _ _ Hp) as (Pob' & HgP' & HdP). rewrite HgP in HgP'. inversion HgP'; subst Pob'.
    pose proof HI as (HA & _).
    assert (Hdr : dropped Pob = false).
    { destruct (dropped Pob) eqn:E; auto. rewrite (j_dropped _ _ _ (HA _ _ HgP) E) in HdP. discriminate. }
    pose proof (link_owner s _ Pob l (fst l) HgP (nth_error_In _ _ Hc) eq_refl (Inv'_all_wf _ HI)) as Hown.
    destruct (owners_live s (fst l) HI Hl Hown) as (ob & Hg & Hd).
    eapply prot_link; eauto. eapply nth_error_In; eauto.
Qed.

Lemma snap_FLoad121 s t rec s' obs x k c d :
  Inv' s -> SnapInv s -> stable s s' -> gett s t = Some x -> frames x = FLoad121 c d :: k -> micro s t rec = Some (s', obs) -> SnapInv s'.
Proof.
  intros HI HS Hst Hx Hf Hm. destruct (HS t x Hx) as (_ & _ & Hth & _). rewrite Hf in Hth. cbn [hd top_hold] in Hth.
  open_micro Hm Hx Hf. destruct (get_cell s c) as [l|] eqn:Hc; inversion Hm; subst; clear Hm; snreshape k.
  2:{ eapply snap_quiet; [eassumption | eassumption | threads_solve | eassumption | eassumption | reflexivity | sec_tac | vars_tac | repeat constructor]. }
  eapply snap_quiet; [eassumption | eassumption | threads_solve | eassumption | eassumption | reflexivity | sec_tac | | repeat constructor].
  intros Hi h Hin. assert (Hi0 : incs x = true) by exact Hi.
  unfold setv in *; cbn [vars with_frames with_vars with_resw] in *.
  apply In_set_nth_inv in Hin. destruct Hin as [->|Hin]; [right|left; auto].
  cbn [snap_h]. intros _. destruct (Nat.eq_dec (fst l) O) as [E|Hne]; [left; auto|right].
  eapply Hst; [exact Hx | eapply gett_sett_eq; eauto | repeat split; auto |].
  eapply cell_prot; eauto.
Qed.

Lemma quietf_dec o cnt tmp : Forall quietf (dec_frames o cnt tmp).
Proof. destruct o; repeat constructor. Qed.

Ltac snap_quiet_tac :=
  eapply snap_quiet; [eassumption | eassumption | threads_solve | eassumption | eassumption | reflexivity | sec_tac | vars_tac
                     | first [apply quietf_dec | repeat constructor] ].

Lemma snap_FSwap s t rec s' obs x k c new d f :
  f = FSwap122 c new d \/ f = FSwap120 c new d ->
  SnapInv s -> stable s s' -> gett s t = Some x -> frames x = f :: k -> micro s t rec = Some (s', obs) -> SnapInv s'.
Proof.
  intros Hff HS Hst Hx Hf Hm. destruct (HS t x Hx) as (_ & Hc & Hth & _). rewrite Hf in Hc, Hth. cbn [tl hd] in Hc, Hth.
  assert (Hho : c < 1000 \/ (node_of c <> O /\ hold s t x (node_of c))) by (destruct Hff as [-> | ->]; exact Hth).
  destruct Hff as [-> | ->]; open_micro Hm Hx Hf.
  all: destruct_in Hm; inversion Hm; subst; clear Hm; snreshape k.
  all: try solve [snap_quiet_tac].
  eapply snap_step; [eassumption | eassumption | threads_solve | eassumption | eassumption | reflexivity | sec_tac | vars_tac | | | | repeat constructor].
  - intros _. repeat constructor.
  - cbn [app tl]; auto.
  - cbn [app hd top_hold]. destruct Hho as [H|(H0 & H)]; auto. right. split; auto.
    eapply hold_tr'; eauto; try reflexivity. eapply gett_sett_eq; eauto.
Qed.

Lemma snap_FCas120 s t rec s' obs x k c e des src d :
  SnapInv s -> stable s s' -> gett s t = Some x -> frames x = FCas120 c e des src d :: k -> micro s t rec = Some (s', obs) -> SnapInv s'.
Proof.
  intros HS Hst Hx Hf Hm. destruct (HS t x Hx) as (_ & Hc & Hth & _). rewrite Hf in Hc, Hth. cbn [tl hd top_hold] in Hc, Hth.
  open_micro Hm Hx Hf. inversion Hm; subst; clear Hm; snreshape k.
  eapply snap_step; [eassumption | eassumption | threads_solve | eassumption | eassumption | reflexivity | sec_tac | vars_tac | | | | repeat constructor].
  - intros _. repeat constructor.
  - cbn [app tl]; auto.
  - cbn [app hd top_hold]. destruct Hth as [H|(H0 & H)]; auto. right. split; auto.
    eapply hold_tr'; eauto; try reflexivity. eapply gett_sett_eq; rewrite ?(gett_rc_eq _ _ _ (rc_eq_see_epoch _ _)); eauto.
Qed.

Lemma snap_FCas123 s t rec s' obs x k c e desraw src d :
  Inv' s -> SnapInv s -> stable s s' -> gett s t = Some x -> frames x = FCas123 c e desraw src d :: k ->
  micro s t rec = Some (s', obs) -> SnapInv s'.
Proof.
  intros HI HS Hst Hx Hf Hm. destruct (HS t x Hx) as (_ & Hc & Hth & _). rewrite Hf in Hc, Hth. cbn [tl hd top_hold] in Hc, Hth.
  open_micro Hm Hx Hf. destruct (get_cell s c) as [cur|] eqn:Hcell; [|inversion Hm; subst; clear Hm; snreshape k; snap_quiet_tac].
  destruct (Nat.eqb (fst cur) (fst e) && (snd cur =? snd e)); [inversion Hm; subst; clear Hm; snreshape k; snap_quiet_tac|].
  destruct (Nat.eqb (fst cur) (fst e)); inversion Hm; subst; clear Hm; snreshape k.
  - eapply snap_step; [eassumption | eassumption | threads_solve | eassumption | eassumption | reflexivity | sec_tac | vars_tac | | | | repeat constructor].
    + intros _. repeat constructor.
    + cbn [app tl]; auto.
    + cbn [app hd top_hold]. destruct Hth as [H|(H0 & H)]; auto. right. split; auto.
      eapply hold_tr'; eauto; try reflexivity. eapply gett_sett_eq; eauto.
  - eapply snap_quiet; [eassumption | eassumption | threads_solve | eassumption | eassumption | reflexivity | sec_tac | | repeat constructor].
    intros Hi h Hin. assert (Hi0 : incs x = true) by exact Hi.
    unfold setv in *; cbn [vars with_frames with_vars with_resw with_res] in *.
    apply In_set_nth_inv in Hin. destruct Hin as [->|Hin]; [right|left; auto].
    cbn [snap_h]. intros _. destruct (Nat.eq_dec (fst cur) O) as [E|Hne]; [left; auto|right].
    eapply Hst; [exact Hx | eapply gett_sett_eq; eauto | repeat split; auto |].
    eapply cell_prot; eauto.
Qed.

(* ---- operations *)
Lemma quietf_decw o tmp : Forall quietf (decw_frames o tmp).
Proof. destruct o; repeat constructor. Qed.
Ltac quiet_list := repeat first [apply Forall_app; split | apply quietf_dec | apply quietf_decw | apply Forall_nil | apply Forall_cons | exact I].
Ltac snap_quiet_op :=
  eapply snap_quiet; [eassumption | eassumption | try reflexivity; threads_solve | eassumption | eassumption | reflexivity | sec_tac | vars_tac
                     | solve [quiet_list] ].

Lemma In_set_range_inv v d m h a : In a (set_range v d m h) -> a = h \/ In a v.
Proof.
  revert v d. induction m as [|m IH]; intros v d Hin; cbn in Hin; auto.
  destruct (IH _ _ Hin) as [->|H]; auto. apply In_set_nth_inv in H. destruct H; auto.
Qed.
Lemma getv_In x i h : getv x i = h -> h <> HNone -> In h (vars x).
Proof.
  intros E Hn. pose proof (getv_some_lt x i h E Hn) as Hlt. pose proof (getv_nth x i Hlt) as H. rewrite E in H.
  eapply nth_error_In; eauto.
Qed.
Lemma In_hrc_strong v l : Forall handle_wf v -> In (HRc l) v -> 0 < sumZ (handle_strong (fst l)) v.
Proof.
  intros Hw Hin. induction v as [|a r IH]; [destruct Hin|]. rewrite sumZ_cons. inversion Hw; subst.
  pose proof (handle_strong_nonneg (fst l) a H1).
  assert (0 <= sumZ (handle_strong (fst l)) r) by (apply sumZ_nonneg; intros b Hb; apply handle_strong_nonneg; rewrite Forall_forall in H2; auto).
  destruct Hin as [->|Hin]; [cbn [handle_strong]; rewrite is_o_eq; lia|specialize (IH H2 Hin); lia].
Qed.
Lemma node_of_field o b : 0 <= b < 2 -> node_of (1000 + 2 * zo o + b) = o.
Proof.
  intros Hb. unfold node_of, nat_of, zo. replace (1000 + 2 * Z.of_nat o + b - 1000) with (b + Z.of_nat o * 2) by lia.
  rewrite Z.div_add by lia. rewrite Z.div_small by lia. rewrite Z.add_0_l. apply Nat2Z.id.
Qed.
(* H6: the operations on AtomicRc cells designate a root cell, or one of the two link fields of a node *)
Definition cellop_ok (op : list Z) : Prop :=
  match op with
  | opc :: ck :: a :: b :: _ => 30 <= opc <= 33 -> (ck = 0 -> a < 1000) /\ (ck <> 0 -> 0 <= b < 2)
  | _ => True
  end.
Definition cellops_ok (s : state) : Prop := forall t x, gett s t = Some x -> Forall cellop_ok (prog x).

Ltac list_tac := repeat first [apply Forall_app; split | apply Forall_cons | apply Forall_nil].
Ltac snap_step_op :=
  eapply snap_step; [eassumption | eassumption | try reflexivity; threads_solve | eassumption | eassumption | reflexivity
                    | try solve [sec_tac] | try solve [vars_tac]
                    | try solve [intros _; list_tac; cbn; auto]
                    | try solve [cbn [app tl]; list_tac; cbn; auto]
                    | try solve [cbn; auto | cbn; intros; discriminate]
                    | try solve [list_tac; cbn; auto] ].
Lemma var_hold_rc s t x l : thr_wf x -> In (HRc l) (vars x) -> hold s t x (fst l).
Proof. intros (Hw & _) Hin. left. apply In_hrc_strong; auto. Qed.
Lemma var_hold_snap s t x l n : SnapInv s -> scoped s -> gett s t = Some x -> In (HSnap l n) (vars x) -> fst l <> O -> hold s t x (fst l).
Proof.
  intros HS Hsc Hx Hin Hl. destruct (Hsc t x Hx) as (Sv & _). rewrite Forall_forall in Sv. destruct (Sv _ Hin) as (Hi & Hn).
  destruct (HS t x Hx) as (H1 & _). destruct (H1 Hi) as (Hv & _). rewrite Forall_forall in Hv.
  destruct (Hv _ Hin Hn) as [H|H]; [contradiction|]. right. auto.
Qed.
Lemma cell_code_hold s t x x0 ck a b :
  Inv' s -> SnapInv s -> scoped s -> gett s t = Some x -> vars x0 = vars x -> cell_ok x0 ck a = true ->
  (ck = 0 -> a < 1000) -> (ck <> 0 -> 0 <= b < 2) ->
  cell_code x0 ck a b < 1000 \/
  (1000 <= cell_code x0 ck a b /\ node_of (cell_code x0 ck a b) <> O /\ hold s t x (node_of (cell_code x0 ck a b))).
Proof.
  intros HI HS Hsc Hx Hv Hok H0 H1. unfold cell_code, cell_ok in *. destruct (Z.eqb_spec ck 0) as [E|E]; [left; auto|right].
  specialize (H1 E). rewrite (getv_vars x0 x _ Hv) in *.
  destruct (getv x (nat_of a)) as [| |l|l n| |] eqn:Hg; try discriminate; cbn [hlink].
  - rewrite node_of_field by auto. apply negb_true_iff, Nat.eqb_neq in Hok. split; [unfold zo; lia|]. split; auto.
    apply var_hold_rc; [eapply Inv'_thr_wf; eauto|]. eapply getv_In; eauto. discriminate.
  - rewrite node_of_field by auto. apply negb_true_iff, Nat.eqb_neq in Hok. split; [unfold zo; lia|]. split; auto.
    eapply var_hold_snap; eauto. eapply getv_In; eauto. discriminate.
Qed.
Lemma hold_store s s' t x x' c src l' :
  stable s s' -> thr_wf x -> gett s t = Some x -> gett s' t = Some x' -> vars x' = set_nth (vars x) src HNone ->
  getv x src = HRc l' -> store_ok c l' = true -> 1000 <= c -> node_of c <> O ->
  gdepth x' = gdepth x -> serial x' = serial x -> ann x' = ann x -> hold s t x (node_of c) -> hold s' t x' (node_of c).
Proof.
  intros Hst Wx Hx Hx' Hv Hg Hso Hc HP Hgd Hse Ha [H|(Hi & H)]; [left|right].
  - rewrite Hv. pose proof (getv_some_lt x src _ Hg ltac:(discriminate)) as Hlt.
    rewrite (sumZ_set_nth _ _ _ _ _ (getv_nth x src Hlt)). rewrite Hg. cbn [handle_strong].
    assert (is_o (node_of c) l' = 0); [|lia].
    unfold store_ok in Hso. destruct (Z.ltb_spec c 1000); [lia|]. cbn [orb] in Hso.
    unfold is_o. destruct (Nat.eqb_spec (fst l') (node_of c)) as [E|E]; auto. exfalso.
    apply orb_true_iff in Hso. destruct Hso as [Hso|Hso].
    + apply Nat.eqb_eq in Hso. congruence.
    + apply Z.ltb_lt in Hso. rewrite E in Hso. unfold node_of, nat_of, zo in Hso. rewrite Z2Nat.id in Hso; [lia|]. apply Z.div_pos; lia.
  - assert (Hi' : incs x' = true) by (unfold incs in *; rewrite Hgd; auto).
    split; auto. eapply Hst; eauto. repeat split; auto.
Qed.
Lemma snap_FOp s t rec s' obs x k :
  Inv' s -> scoped s -> cellops_ok s -> SnapInv s -> stable s s' -> gett s t = Some x -> frames x = FOp :: k -> micro s t rec = Some (s', obs) -> SnapInv s'.
Proof.
  intros HI Hsc HK HS Hst Hx Hf Hm. pose proof (Inv'_thr_wf _ _ _ HI Hx) as Wx.
  pose proof (FOp_bottom _ _ Wx Hf) as ->. open_micro Hm Hx Hf.
  destruct (prog x) as [|op rest] eqn:Hp.
  - inversion Hm; subst s' obs; clear Hm. change (with_frames x []) with (with_frames x ([] ++ [])). snap_quiet_op.
  - assert (Hcop : cellop_ok op) by (pose proof (HK t x Hx) as Hk; rewrite Hp in Hk; apply Forall_inv in Hk; exact Hk).
    match type of Hm with context [start_op s ?X0 rec op] => set (x0 := X0) in * end.
    destruct (start_op s x0 rec op) as [[[s1 x1] fs] o] eqn:Hs.
    inversion Hm; subst s' obs; clear Hm.
    replace (fs ++ FMay :: FOpEnd (hd 0 op) :: [FOp]) with ((fs ++ [FMay; FOpEnd (hd 0 op); FOp]) ++ []) in * by apply app_nil_r.
    unfold start_op in Hs.
    destruct (negb (dst_free x0 op)); [inversion Hs; subst; snap_quiet_op|].
    repeat match type of Hs with
         | context [match ?r with _ => _ end] => is_var r; destruct r
         end; try (inversion Hs; subst; snap_quiet_op; fail).
    all: repeat match type of Hs with
         | context [match fst ?l with O => _ | S _ => _ end] => destruct (fst l) eqn:?
         | context [match gdepth ?a with O => _ | S _ => _ end] => destruct (gdepth a) eqn:?
         | context [let (_, _) := alloc ?a ?b in _] => unfold alloc in Hs
         | context [match getv ?a ?b with _ => _ end] => destruct (getv a b) eqn:?
         | context [match get_cell ?a ?b with _ => _ end] => destruct (get_cell a b) eqn:?
         | context [if ?c then _ else _] => destruct c eqn:?
         | context [match ?r with _ => _ end] => is_var r; destruct r
         end; try (inversion Hs; subst; snap_quiet_op; fail).
    all: inversion Hs; subst; clear Hs.
    all: subst x0.
    all: try (match goal with |- SnapInv (sett _ _ (with_frames _ ((incw_frames (fst ?L) _ _ ++ _) ++ _))) => destruct (fst L); cbn [incw_frames]; snap_step_op end; fail).
    all: try (match goal with |- SnapInv (sett _ _ (with_frames (with_vars _ (set_range _ _ _ _)) _)) =>
       eapply snap_quiet; [eassumption|eassumption|try reflexivity; threads_solve|eassumption|eassumption|reflexivity|sec_tac| |solve [quiet_list]];
       intros _ h Hin; cbn [vars with_frames with_vars] in Hin; apply In_set_range_inv in Hin; destruct Hin as [->|Hin]; [right; exact I|left; exact Hin] end; fail).
    all: repeat match goal with H : gdepth _ = _ |- _ => cbn [gdepth] in H; revert H end; intros.
    (* drop(guard) *)
    all: try (match goal with |- SnapInv (sett _ _ (with_frames (with_guard (with_vars _ _) O _ _) _)) =>
       eapply snap_quiet; [eassumption|eassumption|try reflexivity; threads_solve|eassumption|eassumption|reflexivity
                          |intros Hi; discriminate Hi|intros Hi; discriminate Hi|solve [quiet_list]] end; fail).
    all: try (match goal with Hg : gdepth ?X = _ |- SnapInv (sett _ _ (with_frames (with_guard _ (S _) (ann ?X) (serial ?X)) _)) =>
       eapply snap_quiet; [eassumption|eassumption|try reflexivity; threads_solve|eassumption|eassumption|reflexivity
                          |unfold same_sec, incs; cbn [gdepth serial ann with_frames with_guard with_vars]; rewrite Hg; intros _; repeat split; auto
                          |intros _ h Hin; left; exact Hin|solve [quiet_list]] end; fail).
    (* cs() from outside *)
    all: try (match goal with Hg : gdepth _ = O |- _ =>
       eapply snap_newsec; [eassumption|eassumption|eassumption|try reflexivity; threads_solve|eassumption|eassumption|reflexivity
                           |unfold incs; rewrite Hg; reflexivity|reflexivity|solve [quiet_list]] end; fail).
    (* Weak::upgrade, WeakSnapshot::upgrade *)
    all: try (match goal with |- SnapInv (sett _ _ (with_frames _ ((incs_frames (fst ?L) {| cdst := _; cok := _; cfail := HNone; cign := false |} ++ _) ++ _))) =>
       destruct (fst L); cbn [incs_frames]; snap_step_op end; fail).
    all: try (match goal with |- SnapInv (sett _ _ (with_frames _ (([FRet (KSET _ (HSnap _ _)) true] ++ _) ++ _))) =>
       snap_step_op; intros _; list_tac; cbn; auto; intros _; left; assumption end; fail).
    all: try (match goal with |- SnapInv (sett _ _ (with_frames _ (([FIsND108 _ _] ++ _) ++ _))) =>
       snap_step_op; intros _; list_tac; cbn; auto; split; auto; intros ? ? E; inversion E; subst; assumption end; fail).
    (* Rc::clone, Snapshot::counted *)
    all: try (match goal with Hg : getv _ _ = _ |- SnapInv (sett _ _ (with_frames _ ((incs_frames (fst ?L) (KSET _ (HRc ?L)) ++ _) ++ _))) =>
       destruct (fst L) eqn:Efl; cbn [incs_frames]; snap_step_op;
       cbn [app hd top_hold]; intros _;
       (eapply hold_tr'; [exact Hst | exact Hx | eapply gett_sett_eq; eauto | reflexivity | reflexivity | reflexivity | reflexivity | rewrite <- Efl]);
       first [ apply var_hold_rc; [exact Wx | exact (getv_In _ _ _ Hg ltac:(discriminate))]
             | eapply var_hold_snap; [eassumption|eassumption|eassumption|exact (getv_In _ _ _ Hg ltac:(discriminate)) | rewrite Efl; discriminate] ] end; fail).
    (* Rc::snapshot *)
    all: try (match goal with Hg : getv _ _ = HRc ?L |- SnapInv (sett _ _ (with_frames (setv _ _ (HSnap ?L _)) _)) =>
       (eapply snap_quiet; [eassumption|eassumption|try reflexivity; threads_solve|eassumption|eassumption|reflexivity|sec_tac| |solve [quiet_list]]);
       intros Hi h Hin; unfold setv in Hin; cbn [vars with_frames with_vars] in Hin; apply In_set_nth_inv in Hin;
       destruct Hin as [->|Hin]; [right|left; exact Hin];
       cbn [snap_h]; intros _; destruct (Nat.eq_dec (fst L) O) as [E|Hne]; [left; auto|right];
       (eapply Hst; [exact Hx | eapply gett_sett_eq; eauto | repeat split; auto |]);
       (eapply hold_prot; [exact HI|exact Hx|exact Hne|]); apply var_hold_rc; [exact Wx|exact (getv_In _ _ _ Hg ltac:(discriminate))] end; fail).
    (* AtomicRc operations *)
    all: cbn [cellop_ok] in Hcop; try (destruct (Hcop ltac:(lia)) as (Hc0 & Hc1)).
    all: try (match goal with Hok : cell_ok ?X0 ?CK ?A = true |- SnapInv (sett _ _ (with_frames ?X1 (([?F] ++ _) ++ _))) =>
       match F with context [cell_code X0 CK A ?B] =>
         destruct (cell_code_hold _ _ _ X0 CK A B HI HS Hsc Hx eq_refl Hok Hc0 Hc1) as [Hlt|(Hge & HP & Hh)];
         snap_step_op; cbn [app hd top_hold]; right; (split; [exact HP|]);
         first [ eapply hold_tr'; [exact Hst | exact Hx | eapply gett_sett_eq; eauto | reflexivity | reflexivity | reflexivity | reflexivity | exact Hh]
               | match goal with Hg : getv _ _ = HRc _, Hso : store_ok _ _ = true |- _ =>
                   eapply (hold_store _ _ _ _ _ _ _ _ Hst Wx Hx); [eapply gett_sett_eq; eauto | reflexivity | exact Hg | exact Hso | exact Hge | exact HP
                                                                   | reflexivity | reflexivity | reflexivity | exact Hh] end ]
       end end; fail).
Qed.

(* ---- every micro transition preserves the snapshot invariant *)
Ltac snap_q2 Hm Hx Hf k :=
  open_micro Hm Hx Hf; destruct_in Hm; inversion Hm; subst; clear Hm; snreshape k; snap_quiet_tac.

Theorem micro_snap s t rec s' obs :
  Inv' s -> EOK s -> pinned s -> bounded s -> scoped s -> cellops_ok s ->
  SnapInv s -> stable s s' -> micro s t rec = Some (s', obs) -> SnapInv s'.
Proof.
  intros HI HE HP HB Hsc HK HS Hst Hm. destruct (micro_top _ _ _ _ _ Hm) as (x & f & k & Hx & Hf).
  destruct f; try solve [snap_q2 Hm Hx Hf k].
  - eapply snap_FOp; eauto.
  - eapply snap_FRet; eauto.
  - eapply snap_FUnpinTmp; eauto.
  - eapply (snap_FIncS s t rec s' obs x k o k0 _ (or_introl eq_refl)); eauto.
  - eapply (snap_FIncS s t rec s' obs x k o k0 _ (or_intror eq_refl)); eauto.
  - eapply snap_FDecS110; eauto.
  - eapply snap_FIsND108; eauto.
  - eapply snap_FIsND109; eauto.
  - eapply snap_FLoad121; eauto.
  - exact (snap_FSwap s t rec s' obs x k _ _ _ _ (or_introl eq_refl) HS Hst Hx Hf Hm).
  - eapply snap_FCas120; eauto.
  - eapply snap_FCas123; eauto.
Qed.

(* ---- what the snapshot invariant gives back to the count invariant *)
Lemma snap_scounted s : Inv' s -> SnapInv s -> scounted_ok s.
Proof.
  intros HI HS t x o c k ob Hx Hf Hcg Hg. destruct (HS t x Hx) as (_ & _ & Hth & _).
  assert (Ho : o <> O) by (intros ->; discriminate).
  assert (Hh : hold s t x o) by (destruct Hf as [Hf|Hf]; rewrite Hf in Hth; exact (Hth Hcg)).
  destruct (prot_live _ _ _ _ (hold_prot s t x o HI Hx Ho Hh)) as (ob' & Hg' & Hd). congruence.
Qed.
Lemma snap_cells_live s : Inv' s -> SnapInv s -> cells_live s.
Proof.
  intros HI HS t x f k c Hx Hf Hc. destruct (HS t x Hx) as (_ & _ & Hth & _). rewrite Hf in Hth. cbn [hd] in Hth.
  assert (Hh : c < 1000 \/ (node_of c <> O /\ hold s t x (node_of c))) by (destruct f; try contradiction; subst; exact Hth).
  destruct Hh as [H|(HP & Hh)]; [left; apply Z.ltb_lt; auto|right].
  destruct (prot_live _ _ _ _ (hold_prot s t x _ HI Hx HP Hh)) as (Pob & Hg & Hd). exists Pob. split; auto.
  pose proof HI as (HA & _). destruct (dropped Pob) eqn:E; auto. rewrite (j_dropped _ _ _ (HA _ _ Hg) E) in Hd. discriminate.
Qed.

(* ---- the property: Snapshots of the current critical section refer to live objects *)
Definition snap_valid' (s : state) : Prop :=
  forall t x o ts n, gett s t = Some x -> In (HSnap (o, ts) n) (vars x) -> incs x = true -> n = serial x -> o <> O ->
    exists ob, geto s o = Some ob /\ destructed (word ob) = false.
Lemma snap_valid_of s : SnapInv s -> snap_valid' s.
Proof.
  intros HS t x o ts n Hx Hin Hi Hn Ho. destruct (HS t x Hx) as (H1 & _). destruct (H1 Hi) as (Hv & _).
  rewrite Forall_forall in Hv. destruct (Hv _ Hin Hn) as [H|H]; [contradiction|]. eapply prot_live; eauto.
Qed.


(* ---- H6 is static: it holds along the run as soon as it holds initially *)
Lemma start_op_prog s x rec op s1 x1 fs o : start_op s x rec op = (s1, x1, fs, o) -> prog x1 = prog x.
Proof.
  intros H. unfold start_op in H.
  destruct (negb (dst_free x op)); [inversion H; subst; reflexivity|].
  repeat match type of H with
         | context [match ?r with _ => _ end] => is_var r; destruct r
         end; try (inversion H; subst; reflexivity).
  all: repeat match type of H with
         | context [match gdepth ?a with O => _ | S _ => _ end] => destruct (gdepth a)
         | context [let (_, _) := alloc ?a ?b in _] => unfold alloc in H
         | context [match getv ?a ?b with _ => _ end] => destruct (getv a b)
         | context [match get_cell ?a ?b with _ => _ end] => destruct (get_cell a b)
         | context [if ?c then _ else _] => destruct c
         | context [match ?r with _ => _ end] => is_var r; destruct r
         end; try (inversion H; subst; reflexivity).
Qed.
Lemma cellops_sett s S t x x' : cellops_ok s -> threads S = threads s -> gett s t = Some x ->
  (prog x' = prog x \/ exists op, prog x = op :: prog x') -> cellops_ok (sett S t x').
Proof.
  intros HK Hth Hx Hp t' y Hy. unfold gett, sett in Hy. cbn [threads] in Hy.
  destruct (nth_set_nth_inv _ _ _ _ _ Hy) as [(-> & ->)|(Hne & Hy')].
  - pose proof (HK _ _ Hx) as H. destruct Hp as [->|(op & E)]; auto. rewrite E in H. inversion H; auto.
  - rewrite Hth in Hy'. apply (HK t' y Hy').
Qed.
Theorem micro_cellops s t rec s' obs : cellops_ok s -> micro s t rec = Some (s', obs) -> cellops_ok s'.
Proof.
  intros HK Hm. destruct (micro_top _ _ _ _ _ Hm) as (x & f & k & Hx & Hf).
  destruct f; [ | | try (open_micro Hm Hx Hf; destruct_in Hm; inversion Hm; subst; clear Hm;
                        (eapply cellops_sett; [eassumption | threads_solve | eassumption | left; reflexivity])) .. ].
  - open_micro Hm Hx Hf. inversion Hm; subst; clear Hm. eapply cellops_sett; [eassumption | threads_solve | eassumption | left; reflexivity].
  - open_micro Hm Hx Hf. destruct (prog x) as [|op rest] eqn:Hp.
    + inversion Hm; subst; clear Hm. eapply cellops_sett; [eassumption | threads_solve | eassumption | left; reflexivity].
    + match type of Hm with context [start_op s ?X0 rec op] => set (x0 := X0) in * end.
      pose proof (threads_start_op s x0 rec op) as Hth. pose proof (start_op_prog s x0 rec op) as Hpr.
      destruct (start_op s x0 rec op) as [[[s1 x1] fs] o] eqn:Hs. specialize (Hth _ _ _ _ eq_refl). specialize (Hpr _ _ _ _ eq_refl).
      inversion Hm; subst; clear Hm. eapply cellops_sett; [eassumption | exact Hth | eassumption |].
      right. exists op. cbn [prog with_frames]. rewrite Hpr, Hp. reflexivity.
Qed.

(* ---- the residue invariant is preserved *)
Definition oviews (g : Z) (s s1 : state) : Prop :=
  forall o ob', geto s1 o = Some ob' ->
    obj_rokG g ob' \/ exists ob, geto s o = Some ob /\ epoch (word ob') = epoch (word ob) /\ links ob' = links ob.
Lemma oviews_geto g s s1 : (forall o, geto s1 o = geto s o) -> oviews g s s1.
Proof. intros H o ob' Hg. right. exists ob'. rewrite <- H. auto. Qed.
Lemma oviews_refl g s : oviews g s s. Proof. apply oviews_geto; auto. Qed.
Lemma oviews_r g s s1 s2 : (forall o, geto s2 o = geto s1 o) -> oviews g s s1 -> oviews g s s2.
Proof. intros H H1 o ob' Hg. rewrite H in Hg. auto. Qed.
Lemma oviews_sett g s S t X : oviews g s S -> oviews g s (sett S t X).
Proof. apply oviews_r. auto. Qed.
Lemma oviews_defer g s S k o : oviews g s S -> oviews g s (defer S k o).
Proof. apply oviews_r. auto. Qed.
Lemma oviews_set_pending g s S p : oviews g s S -> oviews g s (set_pending S p).
Proof. apply oviews_r. auto. Qed.
Lemma oviews_rc g s S S' : rc_eq S S' -> oviews g s S -> oviews g s S'.
Proof. intros R. apply oviews_r. intros; apply geto_rc_eq; auto. Qed.
Lemma oviews_seto g s i ob X : geto s i = Some ob ->
  (obj_rokG g X \/ (epoch (word X) = epoch (word ob) /\ links X = links ob)) -> oviews g s (seto s i X).
Proof.
  intros Hg Hv o ob' Hg'. destruct (Nat.eq_dec i o) as [<-|Hne].
  - rewrite (geto_seto_eq _ _ _ _ Hg) in Hg'. inversion Hg'; subst. destruct Hv as [H|(H1 & H2)]; [left; auto|right; eauto].
  - rewrite geto_seto_neq in Hg' by auto. right. eauto.
Qed.

Lemma rinv_step s s1 u y y1 f k new :
  RInv s -> gett s u = Some y -> frames y = f :: k -> threads s1 = threads s -> G s <= G s1 ->
  oviews (G s1) s s1 -> Forall (frame_rokG (G s1)) new ->
  RInv (sett s1 u (with_frames y1 (new ++ k))).
Proof.
  intros (HO & HF) Hy Hf Hth HG Hov Hn. split.
  - intros o ob' Hg. rewrite geto_sett in Hg. cbn [G sett]. destruct (Hov o ob' Hg) as [H|(ob & Hg0 & E1 & E2)]; auto.
    destruct (HO _ _ Hg0) as (H1 & H2). split; [rewrite E1; eapply rokG_mono; eauto|rewrite E2; eapply Forall_lrokG_mono; eauto].
  - intros t x Hx. cbn [G sett]. unfold gett, sett in Hx. cbn [threads] in Hx.
    destruct (nth_set_nth_inv _ _ _ _ _ Hx) as [(-> & ->)|(Hne & Hx')].
    + cbn [frames with_frames]. apply Forall_app. split; auto. pose proof (HF _ _ Hy) as H. rewrite Hf in H.
      apply Forall_inv_tail in H. eapply Forall_impl; [|exact H]. intros a. apply frame_rokG_mono; auto.
    + rewrite Hth in Hx'. eapply Forall_impl; [|exact (HF _ _ Hx')]. intros a. apply frame_rokG_mono; auto.
Qed.

Ltac oviews_solve :=
  repeat first [ apply oviews_refl | apply oviews_sett | apply oviews_defer | apply oviews_set_pending
               | eapply oviews_rc; [apply rc_eq_see_epoch|] | eapply oviews_rc; [apply rc_eq_set_err|] ].
Ltac rreshape k :=
  match goal with |- RInv (sett ?S ?T (with_frames ?X ?FS)) => let p := prefix FS k in change FS with (p ++ k) end.
Ltac frames_rok HG01 Hfr0 :=
  list_tac; first [ solve [cbn [frame_rokG]; auto; lia]
                  | solve [(eapply frame_rokG_mono; [exact HG01|]); cbn [frame_rokG]; first [exact Hfr0 | tauto]] ].
Ltac rinv_q s HR Hm Hx Hf k :=
  let Hfr0 := fresh "Hfr0" in
  pose proof (proj2 HR _ _ Hx) as Hfr0; rewrite Hf in Hfr0; apply Forall_inv in Hfr0; cbn [frame_rokG] in Hfr0;
  open_micro Hm Hx Hf; destruct_in Hm; inversion Hm; subst; clear Hm; rreshape k;
  match goal with |- RInv (sett ?S1 _ _) =>
    let HG01 := fresh "HG01" in
    assert (HG01 : G s <= G S1) by G_solve;
    (eapply rinv_step; [eassumption|eassumption|eassumption|threads_solve|exact HG01|solve [oviews_solve]|frames_rok HG01 Hfr0])
  end.
Lemma epoch_with_destructed w b : W w -> epoch (with_destructed w b) = epoch w.
Proof. intros Hw. destruct (with_destructed_indep w b Hw) as ([Hw' _ _ _ _ S5] & _). rewrite !epoch_spec by auto. auto. Qed.

(* a step that rewrites one object, keeping its stamp and links *)
Ltac ov_seto Hg :=
  repeat first [ apply oviews_sett | apply oviews_defer | apply oviews_set_pending ];
  eapply oviews_seto; [exact Hg | right; split; cbn [word links with_word with_tok with_links]; auto; try congruence].
Ltac rinv_obj s HR Hx Hf k Hg :=
  let Hfr0 := fresh "Hfr0" in
  pose proof (proj2 HR _ _ Hx) as Hfr0; rewrite Hf in Hfr0; apply Forall_inv in Hfr0; cbn [frame_rokG] in Hfr0;
  rreshape k;
  match goal with |- RInv (sett ?S1 _ _) =>
    let HG01 := fresh "HG01" in
    assert (HG01 : G s <= G S1) by G_solve;
    (eapply rinv_step; [eassumption|eassumption|eassumption|threads_solve|exact HG01|first [solve [oviews_solve] | solve [ov_seto Hg]]|frames_rok HG01 Hfr0])
  end.

Lemma rinv_FIncS s t rec s' obs x k o c f :
  f = FIncS100 o c \/ f = FIncS101 o c ->
  bounded s -> RInv s -> gett s t = Some x -> frames x = f :: k -> micro s t rec = Some (s', obs) -> RInv s'.
Proof.
  intros Hff HB HR Hx Hf Hm. destruct Hff as [-> | ->]; open_micro Hm Hx Hf.
  all: destruct (geto s o) as [ob|] eqn:Hg; [|inversion Hm; subst; clear Hm; rinv_obj s HR Hx Hf k Hg].
  all: destruct (bounded_word _ _ _ HB Hg) as (Hw & Hs & _); unfold LIM in Hs.
  all: pose proof (epoch_fadd_count _ Hw ltac:(lia)) as U3.
  all: destruct (destructed (word ob)); [|destruct (strong (word ob) =? 0)]; inversion Hm; subst s' obs; clear Hm; rinv_obj s HR Hx Hf k Hg.
Qed.
Lemma rinv_FTD114 s t rec s' obs x k o old :
  bounded s -> RInv s -> gett s t = Some x -> frames x = FTD114 o old :: k -> micro s t rec = Some (s', obs) -> RInv s'.
Proof.
  intros HB HR Hx Hf Hm. open_micro Hm Hx Hf.
  destruct (geto s o) as [ob|] eqn:Hg; [|inversion Hm; subst; clear Hm; rinv_obj s HR Hx Hf k Hg].
  destruct (bounded_word _ _ _ HB Hg) as (Hw & _).
  destruct (Z.eqb_spec (word ob) old) as [<-|Hne]; [|destruct (0 <? strong (word ob))]; inversion Hm; subst s' obs; clear Hm.
  - pose proof (epoch_with_destructed (word ob) true Hw) as U3. rinv_obj s HR Hx Hf k Hg.
  - rinv_obj s HR Hx Hf k Hg.
  - rinv_obj s HR Hx Hf k Hg.
Qed.
Lemma rinv_FDisp130 s t rec s' obs x k o d w c :
  bounded s -> RInv s -> gett s t = Some x -> frames x = FDisp130 o d w c :: k -> micro s t rec = Some (s', obs) -> RInv s'.
Proof.
  intros HB HR Hx Hf Hm. open_micro Hm Hx Hf.
  destruct (geto s o) as [ob|] eqn:Hg; [|inversion Hm; subst; clear Hm; rinv_obj s HR Hx Hf k Hg].
  destruct (bounded_word _ _ _ HB Hg) as (Hw & _).
  destruct ((strong w =? 0) && (word ob =? w)) eqn:Hc; inversion Hm; subst s' obs; clear Hm.
  - apply andb_prop in Hc as (_ & Hc). apply Z.eqb_eq in Hc. subst w.
    pose proof (epoch_with_destructed (word ob) true Hw) as U3. rinv_obj s HR Hx Hf k Hg.
  - rinv_obj s HR Hx Hf k Hg.
Qed.
Lemma rinv_FDecW107 s t rec s' obs x k o tmp own :
  bounded s -> bounded s' -> RInv s -> gett s t = Some x -> frames x = FDecW107 o tmp own :: k ->
  micro s t rec = Some (s', obs) -> RInv s'.
Proof.
  intros HB HB' HR Hx Hf Hm. open_micro Hm Hx Hf.
  destruct (geto s o) as [ob|] eqn:Hg; [|inversion Hm; subst; clear Hm; rinv_obj s HR Hx Hf k Hg].
  destruct (bounded_word _ _ _ HB Hg) as (Hw & Hs & Hwk).
  set (ob' := {| word := fsub (word ob) WEAK_COUNT; dropped := dropped ob; freed := freed ob; tok := tok ob;
                 wtok := if own then wtok ob else false; links := links ob |}) in *.
  assert (Hg' : geto s' o = Some ob').
  { destruct (weak (word ob) =? 1); inversion Hm; subst s'; cbn [geto sett objs defer set_pending];
      change (geto (seto s o ob') o = Some ob'); eapply geto_seto_eq; eauto. }
  destruct (bounded_word _ _ _ HB' Hg') as (_ & _ & Hwk'). cbn [word ob'] in Hwk'.
  destruct (updE_fsub_weak _ Hw Hwk Hwk') as (E1 & E2 & E3). clear Hg'. subst ob'.
  destruct (weak (word ob) =? 1); inversion Hm; subst s' obs; clear Hm; rinv_obj s HR Hx Hf k Hg.
Qed.
Lemma rinv_FIncW s t rec s' obs x k f :
  (exists o cnt old, f = FIncW104 o cnt old) \/ (exists o cnt, f = FIncW105 o cnt) \/ (exists o, f = FIncW106 o) ->
  Inv' s -> bounded s -> RInv s -> gett s t = Some x -> frames x = f :: k -> micro s t rec = Some (s', obs) -> RInv s'.
Proof.
  intros Hff HI HB HR Hx Hf Hm. get_wf HI Hx Hf Hwf0 Hdn0.
  destruct Hff as [(o & cnt & old & ->)|[(o & cnt & ->)|(o & ->)]]; cbn [frame_wf] in Hwf0; open_micro Hm Hx Hf.
  all: destruct (geto s o) as [ob|] eqn:Hg; [|inversion Hm; subst; clear Hm; rinv_obj s HR Hx Hf k Hg].
  all: destruct (bounded_word _ _ _ HB Hg) as (Hw & Hs & Hwk).
  - destruct Hwf0 as (Hcnt & _). destruct (updE_add_weak (word ob) cnt Hw Hwk Hcnt) as (E1 & E2 & E3).
    destruct (Z.eqb_spec (word ob) old) as [<-|Hne]; [|destruct (weaked (word ob))];
      inversion Hm; subst s' obs; clear Hm; rinv_obj s HR Hx Hf k Hg.
  - destruct (updE_fadd_weak (word ob) cnt Hw Hwk Hwf0) as (E1 & E2 & E3).
    destruct (weak (word ob) =? 0); inversion Hm; subst s' obs; clear Hm; rinv_obj s HR Hx Hf k Hg.
  - destruct (updE_fadd_weak1 (word ob) Hw Hwk) as (E1 & E2 & E3).
    inversion Hm; subst s' obs; clear Hm; rinv_obj s HR Hx Hf k Hg.
Qed.

Ltac rinv_pre s HR Hx Hf Hfr0 :=
  pose proof (proj2 HR _ _ Hx) as Hfr0; rewrite Hf in Hfr0; apply Forall_inv in Hfr0; cbn [frame_rokG] in Hfr0.
Ltac rinv_go s HR k Hov Hfr :=
  rreshape k;
  match goal with |- RInv (sett ?S1 _ _) =>
    let HG01 := fresh "HG01" in
    assert (HG01 : G s <= G S1) by G_solve;
    (eapply rinv_step; [eassumption|eassumption|eassumption|threads_solve|exact HG01|Hov HG01|Hfr HG01])
  end.

Lemma rinv_flags s t rec s' obs x k f :
  (exists o, f = FTDe102 o) \/ (exists o d ne c outs, f = FDisp117 o d ne c outs) ->
  RInv s -> gett s t = Some x -> frames x = f :: k -> micro s t rec = Some (s', obs) -> RInv s'.
Proof.
  intros Hff HR Hx Hf Hm. destruct Hff as [(o & ->)|(o & d & ne & c & outs & ->)]; open_micro Hm Hx Hf.
  all: destruct (geto s o) as [ob|] eqn:Hg; [|inversion Hm; subst; clear Hm; rinv_obj s HR Hx Hf k Hg].
  all: destruct_in Hm; inversion Hm; subst s' obs; clear Hm; rinv_obj s HR Hx Hf k Hg.
Qed.
Lemma rinv_FDisp115 s t rec s' obs x k o d :
  RInv s -> gett s t = Some x -> frames x = FDisp115 o d :: k -> micro s t rec = Some (s', obs) -> RInv s'.
Proof.
  intros HR Hx Hf Hm. open_micro Hm Hx Hf.
  destruct (geto s o) as [ob|] eqn:Hg; inversion Hm; subst; clear Hm; [|rinv_obj s HR Hx Hf k Hg].
  destruct (proj1 HR _ _ Hg) as (He & _). rreshape k.
  eapply rinv_step; [eassumption|eassumption|eassumption|threads_solve|lia|solve [oviews_solve]|].
  list_tac. exact He.
Qed.
Lemma Forall_lrokG_null g (ls : list link) : Forall (lrokG g) (map (fun _ => null_link) ls).
Proof. induction ls; cbn; constructor; auto. apply lrokG_null. Qed.
Lemma rinv_FDispDo s t rec s' obs x k o d w c :
  RInv s -> gett s t = Some x -> frames x = FDispDo o d w c :: k -> micro s t rec = Some (s', obs) -> RInv s'.
Proof.
  intros HR Hx Hf Hm. rinv_pre s HR Hx Hf Hfr0. open_micro Hm Hx Hf.
  destruct (geto s o) as [ob|] eqn:Hg; inversion Hm; subst; clear Hm; [|rinv_obj s HR Hx Hf k Hg].
  destruct (proj1 HR _ _ Hg) as (He & Hl). rreshape k.
  eapply rinv_step; [eassumption|eassumption|eassumption|threads_solve|cbn [G]; rewrite G_seto; lia| |].
  - eapply oviews_seto; [exact Hg|]. left. split; cbn [word links]; rewrite ?G_seto; auto.
    apply Forall_lrokG_null.
  - list_tac. cbn [frame_rokG G sett]. rewrite G_seto. split; auto.
Qed.
Lemma rinv_FKids s t rec s' obs x k d ne c outs :
  RInv s -> gett s t = Some x -> frames x = FKids d ne c outs :: k -> micro s t rec = Some (s', obs) -> RInv s'.
Proof.
  intros HR Hx Hf Hm. rinv_pre s HR Hx Hf Hfr0. destruct Hfr0 as (Hne & Ho). open_micro Hm Hx Hf.
  destruct outs as [|c0 r]; [|destruct (fst c0) eqn:Efc]; inversion Hm; subst; clear Hm; rreshape k.
  - eapply rinv_step; [eassumption|eassumption|eassumption|threads_solve|lia|solve [oviews_solve]|constructor].
  - inversion Ho; subst.
    eapply rinv_step; [eassumption|eassumption|eassumption|threads_solve|lia|solve [oviews_solve]|].
    list_tac. cbn [frame_rokG]. split; auto.
  - inversion Ho; subst. set (s1 := see_epoch s (oracle_epoch s rec 1132)) in *.
    assert (HG01 : G s <= G s1) by apply G_see_epoch.
    eapply rinv_step; [eassumption|eassumption|eassumption|unfold s1; threads_solve|exact HG01|unfold s1; solve [oviews_solve]|].
    list_tac. cbn [frame_rokG]. repeat match goal with |- _ /\ _ => split end; eauto using rokG_mono, lrokG_mono, Forall_lrokG_mono.
Qed.
Lemma rinv_FKid118 s t rec s' obs x k c d ne curr outs :
  RInv s -> gett s t = Some x -> frames x = FKid118 c d ne curr outs :: k -> micro s t rec = Some (s', obs) -> RInv s'.
Proof.
  intros HR Hx Hf Hm. rinv_pre s HR Hx Hf Hfr0. destruct Hfr0 as (Hne & Hc & Ho). open_micro Hm Hx Hf.
  destruct (geto s (fst c)) as [ob|] eqn:Hg; inversion Hm; subst; clear Hm; [|rinv_obj s HR Hx Hf k Hg].
  destruct (proj1 HR _ _ Hg) as (He & _). rreshape k.
  eapply rinv_step; [eassumption|eassumption|eassumption|threads_solve|lia|solve [oviews_solve]|].
  list_tac. cbn [frame_rokG]. repeat match goal with |- _ /\ _ => split end; auto.
Qed.


(* the stamp a cascade writes into a child is not ahead either (child_stamp clamps at curr + 1) *)
Lemma rok_child_stamp g curr ne ts own :
  epoch_ok curr -> g - 1 <= curr <= g -> rokG g ne -> rokG g ts -> rokG g own -> rokG g (child_stamp curr ne ts own mod 16).
Proof.
  intros Hc HG Hne Hts How. split; [apply Z.mod_pos_bound; lia|]. intros Hs.
  destruct (rokG_le g curr ne HG Hne) as (R1 & L1). destruct (rokG_le g curr ts HG Hts) as (R2 & L2).
  destruct (rokG_le g curr own HG How) as (R3 & L3).
  pose proof (merged_decode curr ne ts own Hc R1 R2 R3 L1 L2 L3) as Hd.
  destruct (child_stamp_spec curr ne ts own Hc eq_refl R1 R2 R3 L1 L2 L3) as (S1 & S2).
  pose proof (decode_window curr (merged curr ne ts own mod 16)) as Hwin.
  assert (Hcs : decode curr (child_stamp curr ne ts own mod 16) = Z.min (curr + 1) (Z.max (decode curr ne) (Z.max (decode curr ts) (decode curr own)))).
  { destruct (Z_le_gt_dec (decode curr (merged curr ne ts own mod 16)) (curr + 1)) as [Hle|Hgt].
    - rewrite (S1 Hle), Hd. lia.
    - assert (He : decode curr (merged curr ne ts own mod 16) = curr + 2) by lia.
      rewrite (S2 He). rewrite decode_exact by lia. lia. }
  unfold epoch_ok in Hc.
  assert (E1 : decode curr ne = ne) by (rewrite <- (Z.mod_small ne 16) at 1 by lia; apply decode_exact; lia).
  assert (E2 : decode curr ts = ts) by (rewrite <- (Z.mod_small ts 16) at 1 by lia; apply decode_exact; lia).
  assert (E3 : decode curr own = own) by (rewrite <- (Z.mod_small own 16) at 1 by lia; apply decode_exact; lia).
  rewrite E1, E2, E3 in Hcs.
  set (r := child_stamp curr ne ts own mod 16) in *. assert (Hr : 0 <= r < 16) by (apply Z.mod_pos_bound; lia).
  pose proof (decode_cong curr r) as Hcg. rewrite Hcs in Hcg.
  set (v := Z.min (curr + 1) (Z.max ne (Z.max ts own))) in *. assert (Hv : 0 <= v <= curr + 1) by lia.
  rewrite (Z.mod_small v 16), (Z.mod_small r 16) in Hcg by lia. lia.
Qed.
Lemma epoch_nxt wc v : W wc -> 1 <= strong wc -> epoch (with_epoch (sub_strong wc 1) (wrap 64 v)) = v mod 16.
Proof.
  intros Hw Hs. destruct (upd_sub_strong wc 1 Hw ltac:(lia)) as (Hw1 & _).
  destruct (upd_with_epoch (sub_strong wc 1) (wrap 64 v) Hw1) as (Hw2 & _).
  rewrite epoch_spec by auto. apply stored_stamp; auto.
Qed.

Lemma rinv_FDecS112 s t rec s' obs x k o cnt r cur tmp own :
  Inv' s -> bounded s -> RInv s -> gett s t = Some x -> frames x = FDecS112 o cnt r cur tmp own :: k ->
  micro s t rec = Some (s', obs) -> RInv s'.
Proof.
  intros HI HB HR Hx Hf Hm. rinv_pre s HR Hx Hf Hfr0. open_micro Hm Hx Hf.
  destruct (geto s o) as [ob|] eqn:Hg; [|inversion Hm; subst; clear Hm; rinv_obj s HR Hx Hf k Hg].
  destruct (Z.eqb_spec (word ob) cur) as [<-|Hne].
  2:{ inversion Hm; subst s' obs; clear Hm. rinv_obj s HR Hx Hf k Hg. }
  destruct (bounded_word _ _ _ HB Hg) as (Hw & _).
  destruct (decs112_facts _ _ _ _ _ _ _ _ _ _ HI Hx Hf Hg) as (Hc & Hd).
  pose proof (epoch_dec_word (word ob) r cnt Hw ltac:(lia)) as He'.
  destruct (proj1 HR _ _ Hg) as (_ & Hl).
  destruct tmp; destruct (strong (word ob) =? cnt); inversion Hm; subst s' obs; clear Hm; rreshape k.
  all: eapply rinv_step; [eassumption|eassumption|eassumption|threads_solve|G_solve| |list_tac; cbn [frame_rokG]; auto].
  all: repeat first [ apply oviews_sett | apply oviews_defer ]; (eapply oviews_seto; [exact Hg|]); left; split; cbn [word links].
  all: try (rewrite He'; cbn [G sett defer set_pending]; rewrite ?G_seto; apply rokG_recent; lia).
  all: cbn [G sett defer set_pending]; rewrite ?G_seto; auto.
Qed.

Lemma rinv_FIsND109 s t rec s' obs x k o old r c :
  bounded s -> RInv s -> gett s t = Some x -> frames x = FIsND109 o old r c :: k -> micro s t rec = Some (s', obs) -> RInv s'.
Proof.
  intros HB HR Hx Hf Hm. rinv_pre s HR Hx Hf Hfr0. open_micro Hm Hx Hf.
  destruct (geto s o) as [ob|] eqn:Hg; [|inversion Hm; subst; clear Hm; rinv_obj s HR Hx Hf k Hg].
  destruct (Z.eqb_spec (word ob) old) as [<-|Hne].
  2:{ destruct (destructed (word ob)); inversion Hm; subst s' obs; clear Hm; rinv_obj s HR Hx Hf k Hg. }
  inversion Hm; subst s' obs; clear Hm. rreshape k.
  destruct (bounded_word _ _ _ HB Hg) as (Hw & Hs & _). unfold LIM in Hs.
  set (new := if strong (word ob) =? 0 then add_strong (word ob) 1 else word ob) in *.
  assert (Hwn : W new).
  { unfold new. destruct (Z.eqb_spec (strong (word ob)) 0) as [Hz|Hnz]; auto.
    destruct (upd_add_strong (word ob) 1 Hw ltac:(lia) ltac:(lia)) as (A & _). auto. }
  destruct (upd_with_epoch new r Hwn) as (Hw' & _).
  assert (He' : epoch (with_epoch new r) = r mod 16) by (rewrite epoch_spec by auto; apply f_epoch_with_epoch; auto).
  destruct (proj1 HR _ _ Hg) as (_ & Hl).
  eapply rinv_step; [eassumption|eassumption|eassumption|threads_solve|G_solve| |list_tac; cbn [frame_rokG]; auto].
  eapply oviews_seto; [exact Hg|]. left. split; cbn [word links]; rewrite ?G_seto; auto.
  rewrite He'. apply rokG_recent; lia.
Qed.

Lemma rinv_FKid119 s t rec s' obs x k c wc nxt d ne curr outs :
  Inv' s -> bounded s -> epoch_ok curr -> G s - 1 <= curr <= G s ->
  RInv s -> gett s t = Some x -> frames x = FKid119 c wc nxt d ne curr outs :: k -> micro s t rec = Some (s', obs) -> RInv s'.
Proof.
  intros HI HB Hc HG HR Hx Hf Hm. rinv_pre s HR Hx Hf Hfr0. destruct Hfr0 as (Hne & Hlc & Hwc & Ho).
  get_wf HI Hx Hf Hwf0 Hdn0. destruct Hwf0 as (Hd0 & _ & Hnxt).
  open_micro Hm Hx Hf.
  destruct (geto s (fst c)) as [ob|] eqn:Hg; [|inversion Hm; subst; clear Hm; rinv_obj s HR Hx Hf k Hg].
  assert (Hfc : fst c <> O) by (intros E; rewrite E in Hg; discriminate).
  destruct (Z.eqb_spec (word ob) wc) as [<-|Hne'].
  2:{ inversion Hm; subst s' obs; clear Hm. rreshape k.
      eapply rinv_step; [eassumption|eassumption|eassumption|threads_solve|lia|solve [oviews_solve]|].
      list_tac. cbn [frame_rokG]. repeat match goal with |- _ /\ _ => split end; auto. }
  destruct (bounded_word _ _ _ HB Hg) as (Hw & _).
  destruct (kid119_facts _ _ _ _ _ _ _ _ _ _ _ HI Hx Hf Hg) as (Hs1 & _).
  assert (He' : rokG (G s) (epoch nxt)).
  { rewrite Hnxt, epoch_nxt by auto. apply rok_child_stamp; auto. }
  destruct (proj1 HR _ _ Hg) as (_ & Hl).
  destruct (strong nxt =? 0); inversion Hm; subst s' obs; clear Hm; rreshape k.
  all: eapply rinv_step; [eassumption|eassumption|eassumption|threads_solve|G_solve| |].
  all: try (eapply oviews_seto; [exact Hg|]; left; split; cbn [word links with_word]; rewrite ?G_seto; auto).
  all: list_tac; cbn [frame_rokG]; rewrite ?G_seto; auto.
Qed.

Lemma oviews_set_cell g s c l old :
  get_cell s c = Some old -> (forall o ob, geto s o = Some ob -> obj_rokG g ob) -> lrokG g l -> oviews g s (set_cell s c l).
Proof.
  intros Hc HO Hl. destruct (set_cell_shape s c l old Hc) as [(_ & _ & Eo & _)|(_ & Pob & HgP & _ & _ & E)].
  - apply oviews_geto. intros o. unfold geto. rewrite Eo. auto.
  - rewrite E. eapply oviews_seto; [exact HgP|]. left. destruct (HO _ _ HgP) as (H1 & H2).
    split; cbn [word links with_links]; auto. apply Forall_set_nth; auto.
Qed.
Lemma RInv_objs_mono s g : RInv s -> G s <= g -> forall o ob, geto s o = Some ob -> obj_rokG g ob.
Proof. intros (HO & _) Hg o ob H. eapply obj_rokG_mono; eauto. Qed.
Lemma frames_rok_dec g o cnt tmp : Forall (frame_rokG g) (dec_frames o cnt tmp).
Proof. destruct o; repeat constructor. Qed.

Lemma rinv_FSwap122 s t rec s' obs x k c new d :
  RInv s -> gett s t = Some x -> frames x = FSwap122 c new d :: k -> micro s t rec = Some (s', obs) -> RInv s'.
Proof.
  intros HR Hx Hf Hm. open_micro Hm Hx Hf.
  destruct (fst new) eqn:Efn.
  2:{ inversion Hm; subst; clear Hm. rreshape k.
      eapply rinv_step; [eassumption|eassumption|eassumption|threads_solve|lia|solve [oviews_solve]|repeat constructor]. }
  destruct (get_cell s c) as [old|] eqn:Hc.
  2:{ inversion Hm; subst; clear Hm. rreshape k.
      eapply rinv_step; [eassumption|eassumption|eassumption|threads_solve|cbn; lia|solve [oviews_solve]|repeat constructor]. }
  assert (Hl : lrokG (G s) new) by (intros H; contradiction).
  destruct d; inversion Hm; subst; clear Hm; rreshape k.
  all: eapply rinv_step; [eassumption|eassumption|eassumption|threads_solve|rewrite G_set_cell; lia| |].
  all: try (rewrite G_set_cell; eapply oviews_set_cell; [exact Hc|apply (RInv_objs_mono s); auto; lia|exact Hl]).
  - constructor.
  - apply frames_rok_dec.
Qed.

Lemma rinv_FSwap120 s t rec s' obs x k c new d :
  0 <= G s -> RInv s -> gett s t = Some x -> frames x = FSwap120 c new d :: k -> micro s t rec = Some (s', obs) -> RInv s'.
Proof.
  intros HG0 HR Hx Hf Hm. open_micro Hm Hx Hf.
  destruct (get_cell s c) as [old|] eqn:Hc.
  2:{ inversion Hm; subst; clear Hm. rreshape k.
      eapply rinv_step; [eassumption|eassumption|eassumption|threads_solve|cbn; lia|solve [oviews_solve]|repeat constructor]. }
  set (s0 := see_epoch s (oracle_epoch s rec 1120)) in *.
  assert (HG01 : G s <= G s0) by apply G_see_epoch.
  assert (Hc0 : get_cell s0 c = Some old) by (unfold s0; rewrite (get_cell_rc_eq _ _ _ (rc_eq_see_epoch _ _)); auto).
  assert (Hl : lrokG (G s0) (fst new, G s0 mod 16)) by (intros _; cbn [snd]; apply rokG_recent; lia).
  assert (HO0 : forall o ob, geto s0 o = Some ob -> obj_rokG (G s0) ob).
  { intros o ob Hg. unfold s0 in Hg. rewrite (geto_rc_eq _ _ _ (rc_eq_see_epoch _ _)) in Hg. eapply (RInv_objs_mono s); eauto. }
  assert (Hov : oviews (G s0) s (set_cell s0 c (fst new, G s0 mod 16))).
  { intros o ob' Hg. left. destruct (oviews_set_cell (G s0) s0 c _ old Hc0 HO0 Hl o ob' Hg) as [H|(ob & Hg0 & E1 & E2)]; auto.
    destruct (HO0 _ _ Hg0) as (A & B). split; [rewrite E1|rewrite E2]; auto. }
  destruct d; inversion Hm; subst; clear Hm; rreshape k.
  all: eapply rinv_step; [eassumption|eassumption|eassumption|unfold s0; threads_solve|rewrite G_set_cell; exact HG01|rewrite G_set_cell; exact Hov|].
  - constructor.
  - apply frames_rok_dec.
Qed.

Lemma rinv_FCas120 s t rec s' obs x k c e des src d :
  0 <= G s -> RInv s -> gett s t = Some x -> frames x = FCas120 c e des src d :: k -> micro s t rec = Some (s', obs) -> RInv s'.
Proof.
  intros HG0 HR Hx Hf Hm. open_micro Hm Hx Hf. inversion Hm; subst; clear Hm. rreshape k.
  set (s0 := see_epoch s (oracle_epoch s rec 1120)) in *.
  assert (HG01 : G s <= G s0) by apply G_see_epoch.
  eapply rinv_step; [eassumption|eassumption|eassumption|unfold s0; threads_solve|exact HG01|unfold s0; solve [oviews_solve]|].
  list_tac. cbn [frame_rokG]. intros _. cbn [snd]. apply rokG_recent; lia.
Qed.

Lemma rinv_FCas123 s t rec s' obs x k c e desraw src d :
  RInv s -> gett s t = Some x -> frames x = FCas123 c e desraw src d :: k -> micro s t rec = Some (s', obs) -> RInv s'.
Proof.
  intros HR Hx Hf Hm. rinv_pre s HR Hx Hf Hfr0. open_micro Hm Hx Hf.
  destruct (get_cell s c) as [cur|] eqn:Hc.
  2:{ inversion Hm; subst; clear Hm. rreshape k.
      eapply rinv_step; [eassumption|eassumption|eassumption|threads_solve|cbn; lia|solve [oviews_solve]|repeat constructor]. }
  destruct (Nat.eqb (fst cur) (fst e) && (snd cur =? snd e)); [|destruct (Nat.eqb (fst cur) (fst e))];
    inversion Hm; subst; clear Hm; rreshape k.
  - eapply rinv_step; [eassumption|eassumption|eassumption|threads_solve|rewrite G_set_cell; lia| |constructor].
    rewrite G_set_cell. eapply oviews_set_cell; [exact Hc|apply (RInv_objs_mono s); auto; lia|exact Hfr0].
  - eapply rinv_step; [eassumption|eassumption|eassumption|threads_solve|lia|solve [oviews_solve]|]. list_tac. exact Hfr0.
  - eapply rinv_step; [eassumption|eassumption|eassumption|threads_solve|lia|solve [oviews_solve]|constructor].
Qed.

Lemma oviews_alloc g s n : 0 <= g -> 0 <= n < LIM -> oviews g s (fst (alloc s n)).
Proof.
  intros Hg Hn o ob' Hgo. destruct (Nat.eq_dec o (snd (alloc s n))) as [->|Hne].
  - rewrite geto_alloc_new in Hgo. inversion Hgo; subst ob'; clear Hgo. left. split; cbn [word links].
    + unfold LIM in Hn. destruct (alloc_word_fields n ltac:(lia)) as (Hw & _ & _ & _ & _ & He).
      rewrite epoch_spec by auto. rewrite He. apply rokG_zero; auto.
    + list_tac; apply lrokG_null.
  - rewrite geto_alloc_old in Hgo by auto. right. eauto.
Qed.

Lemma start_op_rinv s x rec op s1 x1 fs o :
  0 <= G s -> op_ok (length (vars x)) op -> start_op s x rec op = (s1, x1, fs, o) ->
  oviews (G s1) s s1 /\ Forall (frame_rokG (G s1)) fs.
Proof.
  intros HG Hok H. unfold start_op in H.
  destruct (negb (dst_free x op)); [inversion H; subst; split; [apply oviews_refl|constructor]|].
  repeat match type of H with
         | context [match ?r with _ => _ end] => is_var r; destruct r
         end; try (inversion H; subst; split; [apply oviews_refl|constructor]).
  all: cbn [op_ok] in Hok.
  all: repeat match type of H with
         | context [match fst ?l with O => _ | S _ => _ end] => destruct (fst l) eqn:?
         | context [match gdepth ?a with O => _ | S _ => _ end] => destruct (gdepth a)
         | context [let (_, _) := alloc ?a ?b in _] => destruct (alloc a b) as [? ?] eqn:?
         | context [match getv ?a ?b with _ => _ end] => destruct (getv a b)
         | context [match get_cell ?a ?b with _ => _ end] => destruct (get_cell a b)
         | context [if ?c =? 0 then _ else _] => destruct (Z.eqb_spec c 0)
         | context [if ?c then _ else _] => destruct c
         | context [match ?r with _ => _ end] => is_var r; destruct r
         end; try (inversion H; subst; split; [apply oviews_refl|first [apply frames_rok_dec | constructor]]).
  all: inversion H; subst; clear H.
  all: try match goal with E : alloc ?S ?N = (?S1, _) |- _ =>
         assert (ES : S1 = fst (alloc S N)) by (rewrite E; reflexivity); rewrite ES;
         split; [apply oviews_alloc; [exact HG | unfold LIM in *; lia] | first [apply frames_rok_dec | constructor]] end.
  all: try (split; [solve [oviews_solve]|]).
  all: try (destruct (fst _); repeat constructor; fail).
  all: list_tac; cbn [frame_rokG]; auto; try (intros Hn; congruence).
Qed.

Lemma rinv_FOp s t rec s' obs x k :
  0 <= G s -> Inv' s -> bounded s -> RInv s -> gett s t = Some x -> frames x = FOp :: k -> micro s t rec = Some (s', obs) -> RInv s'.
Proof.
  intros HG0 HI HB HR Hx Hf Hm. pose proof (Inv'_thr_wf _ _ _ HI Hx) as Wx.
  pose proof (FOp_bottom _ _ Wx Hf) as ->. open_micro Hm Hx Hf.
  destruct (prog x) as [|op rest] eqn:Hp.
  - inversion Hm; subst s' obs; clear Hm. change (with_frames x []) with (with_frames x ([] ++ [])).
    eapply rinv_step; [eassumption|eassumption|eassumption|reflexivity|lia|apply oviews_refl|constructor].
  - assert (Hok : op_ok (length (vars x)) op).
    { destruct HB as (_ & _ & HP). pose proof (HP t x Hx) as H. rewrite Hp in H. inversion H; auto. }
    match type of Hm with context [start_op s ?X0 rec op] => set (x0 := X0) in * end.
    pose proof (threads_start_op s x0 rec op) as Hth. pose proof (start_op_G s x0 rec op) as HG.
    pose proof (start_op_rinv s x0 rec op) as Hri.
    destruct (start_op s x0 rec op) as [[[s1 x1] fs] o] eqn:Hs.
    specialize (Hth _ _ _ _ eq_refl). specialize (HG _ _ _ _ eq_refl). destruct (Hri _ _ _ _ HG0 Hok eq_refl) as (Hov & Hfs).
    inversion Hm; subst s' obs; clear Hm.
    replace (fs ++ FMay :: FOpEnd (hd 0 op) :: [FOp]) with ((fs ++ [FMay; FOpEnd (hd 0 op); FOp]) ++ []) by apply app_nil_r.
    eapply rinv_step; [eassumption|eassumption|eassumption|exact Hth|exact HG|exact Hov|].
    apply Forall_app. split; auto. repeat constructor.
Qed.

(* every micro transition preserves the residue invariant.  H2' : the epoch a cascade works with is recent *)
Definition kid_recent (s : state) : Prop :=
  forall t x c wc nxt d ne curr outs k, gett s t = Some x -> frames x = FKid119 c wc nxt d ne curr outs :: k ->
    epoch_ok curr /\ G s - 1 <= curr <= G s.
Theorem micro_rinv s t rec s' obs :
  0 <= G s -> Inv' s -> bounded s -> bounded s' -> kid_recent s -> RInv s -> micro s t rec = Some (s', obs) -> RInv s'.
Proof.
  intros HG0 HI HB HB' HKR HR Hm. destruct (micro_top _ _ _ _ _ Hm) as (x & f & k & Hx & Hf).
  destruct f; try solve [rinv_q s HR Hm Hx Hf k].
  - exact (rinv_FOp s t rec s' obs x k HG0 HI HB HR Hx Hf Hm).
  - exact (rinv_FIncS s t rec s' obs x k _ _ _ (or_introl eq_refl) HB HR Hx Hf Hm).
  - exact (rinv_FIncS s t rec s' obs x k _ _ _ (or_intror eq_refl) HB HR Hx Hf Hm).
  - exact (rinv_FDecS112 s t rec s' obs x k _ _ _ _ _ _ HI HB HR Hx Hf Hm).
  - exact (rinv_FTD114 s t rec s' obs x k _ _ HB HR Hx Hf Hm).
  - exact (rinv_FDisp115 s t rec s' obs x k _ _ HR Hx Hf Hm).
  - exact (rinv_FDisp130 s t rec s' obs x k _ _ _ _ HB HR Hx Hf Hm).
  - exact (rinv_FDispDo s t rec s' obs x k _ _ _ _ HR Hx Hf Hm).
  - exact (rinv_flags s t rec s' obs x k _ (or_intror (ex_intro _ o (ex_intro _ depth (ex_intro _ ne (ex_intro _ curr (ex_intro _ outs eq_refl)))))) HR Hx Hf Hm).
  - exact (rinv_FKids s t rec s' obs x k _ _ _ _ HR Hx Hf Hm).
  - exact (rinv_FKid118 s t rec s' obs x k _ _ _ _ _ HR Hx Hf Hm).
  - destruct (HKR _ _ _ _ _ _ _ _ _ _ Hx Hf) as (Hc & Hcg). exact (rinv_FKid119 s t rec s' obs x k _ _ _ _ _ _ _ HI HB Hc Hcg HR Hx Hf Hm).
  - exact (rinv_FDecW107 s t rec s' obs x k _ _ _ HB HB' HR Hx Hf Hm).
  - exact (rinv_flags s t rec s' obs x k _ (or_introl (ex_intro _ o eq_refl)) HR Hx Hf Hm).
  - exact (rinv_FIncW s t rec s' obs x k _ (or_introl (ex_intro _ o (ex_intro _ cnt (ex_intro _ old eq_refl)))) HI HB HR Hx Hf Hm).
  - exact (rinv_FIncW s t rec s' obs x k _ (or_intror (or_introl (ex_intro _ o (ex_intro _ cnt eq_refl)))) HI HB HR Hx Hf Hm).
  - exact (rinv_FIncW s t rec s' obs x k _ (or_intror (or_intror (ex_intro _ o eq_refl))) HI HB HR Hx Hf Hm).
  - exact (rinv_FIsND109 s t rec s' obs x k _ _ _ _ HB HR Hx Hf Hm).
  - exact (rinv_FSwap122 s t rec s' obs x k _ _ _ HR Hx Hf Hm).
  - exact (rinv_FSwap120 s t rec s' obs x k _ _ _ HG0 HR Hx Hf Hm).
  - exact (rinv_FCas120 s t rec s' obs x k _ _ _ _ _ HG0 HR Hx Hf Hm).
  - exact (rinv_FCas123 s t rec s' obs x k _ _ _ _ _ HR Hx Hf Hm).
Qed.
Lemma RInv_fresh s : fresh_start s -> RInv s.
Proof.
  intros (Ho & _ & _ & Ht). split.
  - intros o ob Hg. unfold geto in Hg. rewrite Ho in Hg. destruct o as [|[|o]]; discriminate.
  - intros t x Hx. rewrite Forall_forall in Ht. destruct (Ht x (nth_error_In _ _ Hx)) as (_ & Hf & _). rewrite Hf. repeat constructor.
Qed.

(* ---- runs.  What is assumed at every state of the run, besides [bounded]:
   H2 [pinned]     an epoch read for a stamp / a cascade's current epoch is at most one behind the global epoch (the
                   implementation is pinned there; the model does not pin inside deferred functions)
   H3 [scoped]     Snapshots belong to the critical section they were taken in (Rust lifetimes)
   [epoch_ok (G s)] the global epoch is below 2^62
   [wcounted_ok], [wlive_ok]: the weak-side run hypotheses of RcSpec.v (needed for the count invariant only: they give
                   [tde_ok] through the weak invariant)
   and, of the initial state only, H6 [cellops_ok] (static). *)
Definition c02_hyp (s : state) : Prop :=
  pinned s /\ scoped s /\ epoch_ok (G s) /\ wcounted_ok s /\ wlive_ok s.
Fixpoint c02_run (s : state) (sched : list (nat * list Z)) : Prop :=
  c02_hyp s /\
  match sched with
  | [] => True
  | (t, rec) :: r => match micro s t rec with Some (s', _) => c02_run s' r | None => c02_run s r end
  end.
Lemma c02_run_head s sched : c02_run s sched -> c02_hyp s.
Proof. destruct sched as [|[t rec] r]; cbn; tauto. Qed.

Definition CInv (s : state) : Prop := Inv' s /\ Winv s /\ EOK s /\ SnapInv s /\ cellops_ok s /\ RInv s.

Theorem micro_cinv s t rec s' obs :
  CInv s -> bounded s -> bounded s' -> c02_hyp s -> c02_hyp s' -> micro s t rec = Some (s', obs) -> CInv s'.
Proof.
  intros (HI & HW & HE & HS & HK & HR) HB HB' (HP & Hsc & HG & HWc & HWl) (HP' & _ & HG' & _) Hm.
  pose proof (snap_scounted s HI HS) as HC.
  assert (HCO : counted_ok s) by (split; [|split]; auto).
  assert (HI' : Inv' s') by exact (micro_inv s t rec s' obs HI (Winv_tde _ HW) HCO HB HB' Hm).
  assert (HW' : Winv s') by exact (wmicro_inv s t rec s' obs HW HI HCO HB HB' Hm).
  assert (HE' : EOK s') by exact (micro_eok s t rec s' obs HE Hm).
  assert (Hst : stable s s') by exact (micro_stable s t rec s' obs HI HI' HE HE' HP HR HB HB' HG' HC (snap_cells_live s HI HS) Hm).
  split; [|split; [|split; [|split; [|split]]]]; auto.
  - exact (micro_snap s t rec s' obs HI HE HP HB Hsc HK HS Hst Hm).
  - exact (micro_cellops s t rec s' obs HK Hm).
  - apply (micro_rinv s t rec s' obs); auto; [unfold epoch_ok in HG; lia|].
    intros t0 x0 c wc nxt d ne curr outs k0 Hx0 Hf0. apply (pinned_top _ _ _ _ _ HP Hx0 Hf0).
Qed.

Theorem mrun_cinv sched : forall s0, CInv s0 -> bounded_run s0 sched -> c02_run s0 sched -> CInv (mrun s0 sched).
Proof.
  induction sched as [|[t rec] r IH]; intros s0 HC HB HH; cbn [mrun]; auto.
  cbn [bounded_run c02_run] in HB, HH. destruct HB as (HB0 & HB), HH as (HH0 & HH).
  destruct (micro s0 t rec) as [[s' o]|] eqn:Hm; [|apply IH; auto].
  apply IH; auto. eapply micro_cinv; eauto using bounded_run_head, c02_run_head.
Qed.

Lemma EOK_fresh s : fresh_start s -> EOK s.
Proof.
  intros (_ & Hp & _ & Ht). right. split.
  - intros t x Hx Hi. rewrite Forall_forall in Ht. destruct (Ht x (nth_error_In _ _ Hx)) as (_ & _ & Hg & _).
    unfold incs in Hi. rewrite Hg in Hi. discriminate.
  - intros p Hin. rewrite Hp in Hin. destruct Hin.
Qed.
Lemma SnapInv_fresh s : fresh_start s -> SnapInv s.
Proof.
  intros (_ & _ & _ & Ht) t x Hx. rewrite Forall_forall in Ht. destruct (Ht x (nth_error_In _ _ Hx)) as (Hv & Hf & Hg & _).
  rewrite Forall_forall in Hv. unfold thr_snap. rewrite Hf. cbn [tl hd top_hold].
  split; [|split; [|split]]; try solve [repeat constructor].
  intros _. split; [|repeat constructor]. apply Forall_forall. intros h Hin. rewrite (Hv h Hin). exact I.
Qed.
Lemma CInv_fresh s : fresh_start s -> cellops_ok s -> CInv s.
Proof.
  intros H HK. split; [apply Inv_fresh|split; [apply Winv_fresh|split; [apply EOK_fresh|split; [apply SnapInv_fresh|split; [|apply RInv_fresh]]]]]; auto.
Qed.

(* C02 over the model: along every run from a fresh state whose programs are well-formed (bounded_run, cellops_ok) and
   that satisfies the named run hypotheses, every Snapshot of the still active critical section refers to an object
   that exists and is not destructed.  [scounted_ok] is not assumed: it is a consequence (below). *)
Definition C02_statement' : Prop :=
  forall s0 sched, fresh_start s0 -> cellops_ok s0 -> bounded_run s0 sched -> c02_run s0 sched -> snap_valid' (mrun s0 sched).
Theorem C02 : C02_statement'.
Proof. intros s0 sched HF HK HB HH. apply snap_valid_of. apply (mrun_cinv sched s0); auto using CInv_fresh. Qed.

(* the run hypothesis [scounted_ok] of the count theorems (RcSpec.v) holds along such runs *)
Theorem scounted_along_runs s0 sched :
  fresh_start s0 -> cellops_ok s0 -> bounded_run s0 sched -> c02_run s0 sched -> scounted_ok (mrun s0 sched).
Proof.
  intros HF HK HB HH. destruct (mrun_cinv sched s0 (CInv_fresh _ HF HK) HB HH) as (HI & _ & _ & HS & _ & _). apply snap_scounted; auto.
Qed.
Print Assumptions C02.
Print Assumptions scounted_along_runs.

(* ---- the same in the vocabulary of RcSnapP.v: the object is neither destructed, dropped nor freed *)
Require Import RcSnapCheck RcSnapP.
Theorem C02_snap_valid s0 sched :
  fresh_start s0 -> cellops_ok s0 -> bounded_run s0 sched -> c02_run s0 sched -> snap_valid (mrun s0 sched).
Proof.
  intros HF HK HB HH. destruct (mrun_cinv sched s0 (CInv_fresh _ HF HK) HB HH) as (HI & _ & _ & HS & _ & _).
  intros t x o ts n Hx Hin Hi Hn Ho. destruct (snap_valid_of _ HS t x o ts n Hx Hin Hi Hn Ho) as (ob & Hg & Hd).
  unfold obj_live. rewrite Hg, Hd. pose proof HI as (HA & _). pose proof (HA _ _ Hg) as J.
  destruct (dropped ob) eqn:Edr; [rewrite (j_dropped _ _ _ J Edr) in Hd; discriminate|].
  destruct (freed ob) eqn:Efr; [rewrite (j_freed _ _ _ J Efr) in Edr; discriminate|]. reflexivity.
Qed.
(* a Snapshot still to be delivered by a pending return is valid too *)
Theorem C02_pending_ret s0 sched t x c b k l n :
  fresh_start s0 -> cellops_ok s0 -> bounded_run s0 sched -> c02_run s0 sched ->
  gett (mrun s0 sched) t = Some x -> incs x = true -> In (FRet c b) (frames x) -> (if b then cok c else cfail c) = HSnap l n ->
  n = serial x -> fst l <> O -> k = fst l -> obj_live (mrun s0 sched) k = true.
Proof.
  intros HF HK HB HH Hx Hi Hin Hc Hn Hl ->. destruct (mrun_cinv sched s0 (CInv_fresh _ HF HK) HB HH) as (HI & _ & _ & HS & _ & _).
  destruct (HS t x Hx) as (H1 & _). destruct (H1 Hi) as (_ & Hfc). rewrite Forall_forall in Hfc. specialize (Hfc _ Hin).
  cbn [frame_conts] in Hfc. rewrite Hc in Hfc. destruct (Hfc Hn) as [H|H]; [contradiction|].
  destruct (prot_live _ _ _ _ H) as (ob & Hg & Hd).
  unfold obj_live. rewrite Hg, Hd. pose proof HI as (HA & _). pose proof (HA _ _ Hg) as J.
  destruct (dropped ob) eqn:Edr; [rewrite (j_dropped _ _ _ J Edr) in Hd; discriminate|].
  destruct (freed ob) eqn:Efr; [rewrite (j_freed _ _ _ J Efr) in Edr; discriminate|]. reflexivity.
Qed.
Print Assumptions C02_snap_valid.
