(* M2 -- the epoch-based reclamation core of ebr_impl/internal.rs as a small-step machine.

   Granularity: one [step] of thread t = the access at the yield site t is blocked at (hook sites
   10..23 of internal.rs, plus the harness' operation-start site 1 and the thread-start site)
   followed by the thread-local computation up to t's next yield site.  Thread-local work is a
   sequence of [micro] transitions over an explicit continuation stack ([frames]); every theorem is
   about [micro], so it holds at every intermediate point as well.

   Scope (what is modelled): pin with re-validation, nested guards, unpin with the collection loop,
   collect (try_advance + up to COLLECTS_TRIALS conditional pops, expiry after EXPIRE_AFTER epochs),
   try_advance with its participant scan and plain store, repin_without_collect (from the unpin
   loop and from schedule_collection while collecting), defer with bag overflow, push_bag, flush,
   Guard::reactivate, incr_advance (try_advance every COUNTS_BETWEEN_ADVANCE defers), closures with
   bodies (so API use inside a destructor that runs during collection is expressible).
   The global queue and the registry are atomic objects here (their own models: Queue.v, RegList.v);
   participants register in their start step and do not retire (thread exit: GuardSeq.v).
   Memory model: sequential consistency.  Constants come from the generated Gen/Params.v. *)
From Coq Require Import ZArith List Bool Lia.
Import ListNotations.
Require Import Params.
Local Open Scope Z_scope.

Inductive cmd :=
| CPin | CUnpin | CFlush | CRepin
| CDefer (id : Z) (body : list cmd).

(* a deferred function; [dG] and [wit] are ghost: the global epoch and the set of
   (participant, critical-section serial) active when it was deferred *)
Record def := { did : Z; dbody : list cmd; dG : Z; wit : list (nat * nat) }.

Inductive frame :=
| FStart                                   (* yield: thread start (registration) *)
| FOp                                      (* yield 1: operation boundary *)
| FOpEnd (opc : Z)                         (* local: operation result observation *)
| FCmds (cs : list cmd)                    (* local: rest of a closure body *)
| FPinStart                                (* local *)
| FPin10 | FPin11 (r : Z) | FPin12 (r : Z) | FPin13          (* yields 10..13 *)
| FUnpin0 | FUnpinLoop | FUnpinAfter | FUnpinFin              (* local *)
| FUnpin14                                 (* yield 14 *)
| FCollect0 | FCollectPop (i : nat)        (* local *)
| FCollect23 (i : nat)                     (* yield 23 *)
| FPopped (e : Z) (items : list def)       (* local: observation 1223, then run the bag *)
| FRunItems (items : list def)             (* local *)
| FAdv18                                   (* yield 18 *)
| FAdvScan (ge : Z) (rest : list nat)      (* local *)
| FAdv19 (ge : Z) (q : nat) (rest : list nat)   (* yield 19 *)
| FAdv20 (ge : Z)                          (* yield 20 *)
| FRepin16 | FRepin17 (g : Z)              (* yields 16, 17 *)
| FDefer (d : def) | FSched | FDeferIncr | FFlush0            (* local *)
| FPushBag21 (items : list def).           (* yield 21 *)

Definition is_yield (f : frame) : bool :=
  match f with
  | FStart | FOp | FPin10 | FPin11 _ | FPin12 _ | FPin13 | FUnpin14 | FCollect23 _
  | FAdv18 | FAdv19 _ _ _ | FAdv20 _ | FRepin16 | FRepin17 _ | FPushBag21 _ => true
  | _ => false
  end.

Record local := {
  ann : Z;                (* announced epoch value *)
  pinned : bool;          (* pinned bit of the announcement *)
  valid : bool;           (* ghost: the announcement passed pin's re-validation (until the unpin store) *)
  incs : bool;            (* ghost: inside a user critical section (outermost guard live, not yet being dropped) *)
  serial : nat;           (* ghost: number of the current / last user critical section *)
  gcnt : nat;             (* guard_count *)
  bag : list def;
  must_collect : bool;
  collecting : bool;
  advance_count : Z;
  prev_epoch : Z;         (* prev_epoch as a data word (2*value+1), 0 initially *)
  frames : list frame;
  prog : list cmd;
  registered : bool;
}.

Record state := {
  G : Z;                              (* global epoch value *)
  cap : nat;                          (* MAX_OBJECTS *)
  registry : list nat;                (* participants, most recently registered first *)
  sealed : list (Z * list def);       (* global queue of sealed bags, head first *)
  threads : list local;
  ran : list Z;                       (* ghost: ids of executed deferred functions, latest first *)
}.

Definition opcode (c : cmd) : Z * Z :=
  match c with
  | CPin => (0, 0) | CUnpin => (1, 0) | CFlush => (2, 0) | CDefer id _ => (3, id) | CRepin => (4, 0)
  end.

(* frames that execute one command (on top of a continuation) *)
Definition cmd_frames (me : nat) (c : cmd) : list frame :=
  match c with
  | CPin => [FPinStart]
  | CUnpin => [FUnpin0]
  | CFlush => [FFlush0]
  | CRepin => [FUnpin0; FPinStart]
  | CDefer id body => [FDefer {| did := id; dbody := body; dG := 0; wit := [] |}]
  end.

(* the queue node retired by a successful pop (Queue::pop_if_internal: guard.defer_destroy(head));
   it occupies a slot of the popping participant's bag and is invisible when it runs *)
Definition node_free : def := {| did := -1; dbody := []; dG := 0; wit := [] |}.

Definition getl (s : state) (t : nat) : option local := nth_error (threads s) t.

Fixpoint set_nth {A} (l : list A) (n : nat) (x : A) : list A :=
  match l, n with
  | [], _ => []
  | _ :: r, O => x :: r
  | a :: r, S m => a :: set_nth r m x
  end.

Definition setl (s : state) (t : nat) (l : local) : state :=
  {| G := G s; cap := cap s; registry := registry s; sealed := sealed s;
     threads := set_nth (threads s) t l; ran := ran s |}.

Definition with_frames (l : local) (fs : list frame) : local :=
  {| ann := ann l; pinned := pinned l; valid := valid l; incs := incs l; serial := serial l; gcnt := gcnt l;
     bag := bag l; must_collect := must_collect l; collecting := collecting l;
     advance_count := advance_count l; prev_epoch := prev_epoch l; frames := fs; prog := prog l;
     registered := registered l |}.

Definition edata (l : local) : Z := if pinned l then 2 * ann l + 1 else 0.

(* witnesses: every participant inside a user critical section, with its serial *)
Fixpoint witnesses_from (ls : list local) (i : nat) : list (nat * nat) :=
  match ls with
  | [] => []
  | l :: r => (if incs l then [(i, serial l)] else []) ++ witnesses_from r (S i)
  end.
Definition witnesses (s : state) : list (nat * nat) := witnesses_from (threads s) 0.

Definition expired (g e : Z) : bool := g - e >=? EXPIRE_AFTER.

(* One transition of the top frame of thread [t].  Returns the new state and the observations
   (flat triples).  [None]: thread does not exist / has finished. *)
Definition micro (s : state) (t : nat) : option (state * list Z) :=
  match getl s t with
  | None => None
  | Some l =>
    match frames l with
    | [] => None
    | f :: k =>
      let ret (l' : local) (fs : list frame) (o : list Z) := Some (setl s t (with_frames l' fs), o) in
      match f with
      | FStart =>
          let l' := {| ann := ann l; pinned := pinned l; valid := valid l; incs := incs l; serial := serial l;
                       gcnt := gcnt l; bag := bag l; must_collect := must_collect l; collecting := collecting l;
                       advance_count := advance_count l; prev_epoch := prev_epoch l; frames := k; prog := prog l;
                       registered := true |} in
          Some ({| G := G s; cap := cap s; registry := t :: registry s; sealed := sealed s;
                   threads := set_nth (threads s) t l'; ran := ran s |},
                [2020; Z.of_nat t; 0])
      | FOp =>
          match prog l with
          | [] => ret l [] [1; 9; 0]
          | c :: rest =>
              let l' := {| ann := ann l; pinned := pinned l; valid := valid l; incs := incs l; serial := serial l;
                           gcnt := gcnt l; bag := bag l; must_collect := must_collect l; collecting := collecting l;
                           advance_count := advance_count l; prev_epoch := prev_epoch l; frames := frames l;
                           prog := rest; registered := registered l |} in
              ret l' (cmd_frames t c ++ FOpEnd (fst (opcode c)) :: FOp :: k) [1; fst (opcode c); snd (opcode c)]
          end
      | FOpEnd opc => ret l k [2000; opc; 0]
      | FCmds cs =>
          match cs with
          | [] => ret l k []
          | c :: rest => ret l (cmd_frames t c ++ FCmds rest :: k) [2011; fst (opcode c); snd (opcode c)]
          end
      (* ---- pin *)
      | FPinStart =>
          let l' := {| ann := ann l; pinned := pinned l; valid := valid l; incs := incs l; serial := serial l;
                       gcnt := S (gcnt l); bag := bag l; must_collect := must_collect l; collecting := collecting l;
                       advance_count := advance_count l; prev_epoch := prev_epoch l; frames := frames l;
                       prog := prog l; registered := registered l |} in
          match gcnt l with
          | O => ret l' (FPin10 :: k) []
          | S _ => ret l' k []
          end
      | FPin10 => ret l (FPin11 (G s) :: k) [10; 0; 0; 1210; 2 * G s + 1; 0]
      | FPin11 r =>
          let l' := {| ann := r; pinned := true; valid := false; incs := false; serial := serial l;
                       gcnt := gcnt l; bag := bag l; must_collect := must_collect l; collecting := collecting l;
                       advance_count := advance_count l; prev_epoch := prev_epoch l; frames := frames l;
                       prog := prog l; registered := registered l |} in
          ret l' (FPin12 r :: k) [11; 0; 0]
      | FPin12 r =>
          if G s =? r then
            let newdata := 2 * r + 1 in
            let l' := {| ann := ann l; pinned := pinned l; valid := true;
                         incs := negb (collecting l);
                         serial := if collecting l then serial l else S (serial l);
                         gcnt := gcnt l; bag := bag l; must_collect := must_collect l; collecting := collecting l;
                         advance_count := if newdata =? prev_epoch l then advance_count l else 0;
                         prev_epoch := newdata; frames := frames l;
                         prog := prog l; registered := registered l |} in
            ret l' k [12; 0; 0]
          else ret l (FPin13 :: k) [12; 0; 0]
      | FPin13 =>
          let l' := {| ann := ann l; pinned := false; valid := false; incs := false; serial := serial l;
                       gcnt := gcnt l; bag := bag l; must_collect := must_collect l; collecting := collecting l;
                       advance_count := advance_count l; prev_epoch := prev_epoch l; frames := frames l;
                       prog := prog l; registered := registered l |} in
          ret l' (FPin10 :: k) [13; 0; 0]
      (* ---- unpin *)
      | FUnpin0 =>
          if (Nat.eqb (gcnt l) 1) && negb (collecting l) then
            let l' := {| ann := ann l; pinned := pinned l; valid := valid l; incs := false; serial := serial l;
                         gcnt := gcnt l; bag := bag l; must_collect := must_collect l; collecting := true;
                         advance_count := advance_count l; prev_epoch := prev_epoch l; frames := frames l;
                         prog := prog l; registered := registered l |} in
            ret l' (FUnpinLoop :: k) []
          else ret l (FUnpinFin :: k) []
      | FUnpinLoop =>
          if must_collect l then
            let l' := {| ann := ann l; pinned := pinned l; valid := valid l; incs := incs l; serial := serial l;
                         gcnt := gcnt l; bag := bag l; must_collect := false; collecting := collecting l;
                         advance_count := advance_count l; prev_epoch := prev_epoch l; frames := frames l;
                         prog := prog l; registered := registered l |} in
            ret l' (FCollect0 :: FUnpinAfter :: k) []
          else
            let l' := {| ann := ann l; pinned := pinned l; valid := valid l; incs := incs l; serial := serial l;
                         gcnt := gcnt l; bag := bag l; must_collect := must_collect l; collecting := false;
                         advance_count := advance_count l; prev_epoch := prev_epoch l; frames := frames l;
                         prog := prog l; registered := registered l |} in
            ret l' (FUnpinFin :: k) []
      | FUnpinAfter => ret l (FRepin16 :: FUnpinLoop :: k) []
      | FUnpinFin =>
          let l' := {| ann := ann l; pinned := pinned l; valid := valid l; incs := incs l; serial := serial l;
                       gcnt := pred (gcnt l); bag := bag l; must_collect := must_collect l; collecting := collecting l;
                       advance_count := advance_count l; prev_epoch := prev_epoch l; frames := frames l;
                       prog := prog l; registered := registered l |} in
          if Nat.eqb (gcnt l) 1 then ret l' (FUnpin14 :: k) [] else ret l' k []
      | FUnpin14 =>
          let l' := {| ann := ann l; pinned := false; valid := false; incs := false; serial := serial l;
                       gcnt := gcnt l; bag := bag l; must_collect := must_collect l; collecting := collecting l;
                       advance_count := advance_count l; prev_epoch := prev_epoch l; frames := frames l;
                       prog := prog l; registered := registered l |} in
          ret l' k [14; 0; 0]
      (* ---- collect *)
      | FCollect0 => ret l (FAdv18 :: FCollectPop 0 :: k) []
      | FCollectPop i =>
          if Nat.ltb i (Z.to_nat COLLECTS_TRIALS) then ret l (FCollect23 i :: k) [] else ret l k []
      | FCollect23 i =>
          match sealed s with
          | (e, items) :: rest =>
              if expired (G s) e then
                Some ({| G := G s; cap := cap s; registry := registry s; sealed := rest;
                         threads := set_nth (threads s) t
                                      (with_frames l (FDefer node_free :: FPopped e items :: FCollectPop (S i) :: k));
                         ran := ran s |},
                      [23; 0; 0])
              else ret l k [23; 0; 0]
          | [] => ret l k [23; 0; 0]
          end
      | FPopped e items => ret l (FRunItems items :: k) [1223; 2 * e; 0]
      | FRunItems items =>
          match items with
          | [] => ret l k []
          | d :: rest =>
              if did d <? 0 then ret l (FRunItems rest :: k) [] else
              Some ({| G := G s; cap := cap s; registry := registry s; sealed := sealed s;
                       threads := set_nth (threads s) t (with_frames l (FCmds (dbody d) :: FRunItems rest :: k));
                       ran := did d :: ran s |},
                    [2010; did d; 0])
          end
      (* ---- try_advance *)
      | FAdv18 =>
          (* try_advance takes a &Guard: the caller is pinned and validated *)
          if valid l then ret l (FAdvScan (G s) (registry s) :: k) [18; 0; 0; 1218; 2 * G s; 0] else None
      | FAdvScan ge rest =>
          match rest with
          | [] => ret l (FAdv20 ge :: k) []
          | q :: rest' => ret l (FAdv19 ge q rest' :: k) []
          end
      | FAdv19 ge q rest =>
          match getl s q with
          | None => None
          | Some lq =>
              let o := [19; Z.of_nat q; 0; 1219; Z.of_nat q; edata lq] in
              if pinned lq && negb (ann lq =? ge) then ret l k o
              else ret l (FAdvScan ge rest :: k) o
          end
      | FAdv20 ge =>
          Some ({| G := ge + 1; cap := cap s; registry := registry s; sealed := sealed s;
                   threads := set_nth (threads s) t (with_frames l k); ran := ran s |},
                [20; 2 * (ge + 1); 0])
      (* ---- repin_without_collect *)
      | FRepin16 =>
          (* repin_without_collect is only reached while collecting: pinned, validated, and no longer
             inside the user's critical section (the outermost guard is being dropped) *)
          let o := [16; 0; 0; 1216; 2 * G s + 1; 0] in
          if valid l && negb (incs l) then
            if edata l =? 2 * G s + 1 then ret l k o else ret l (FRepin17 (G s) :: k) o
          else None
      | FRepin17 g =>
          let l' := {| ann := g; pinned := true; valid := valid l; incs := incs l; serial := serial l;
                       gcnt := gcnt l; bag := bag l; must_collect := must_collect l; collecting := collecting l;
                       advance_count := advance_count l; prev_epoch := prev_epoch l; frames := frames l;
                       prog := prog l; registered := registered l |} in
          ret l' k [17; 0; 0]
      (* ---- defer / flush *)
      | FDefer d =>
          if Nat.ltb (length (bag l)) (cap s) then
            let d' := {| did := did d; dbody := dbody d; dG := G s; wit := witnesses s |} in
            let l' := {| ann := ann l; pinned := pinned l; valid := valid l; incs := incs l; serial := serial l;
                         gcnt := gcnt l; bag := bag l ++ [d']; must_collect := must_collect l; collecting := collecting l;
                         advance_count := advance_count l; prev_epoch := prev_epoch l; frames := frames l;
                         prog := prog l; registered := registered l |} in
            ret l' (FDeferIncr :: k) []
          else
            let l' := {| ann := ann l; pinned := pinned l; valid := valid l; incs := incs l; serial := serial l;
                         gcnt := gcnt l; bag := []; must_collect := must_collect l; collecting := collecting l;
                         advance_count := advance_count l; prev_epoch := prev_epoch l; frames := frames l;
                         prog := prog l; registered := registered l |} in
            ret l' (FPushBag21 (bag l) :: FSched :: FDefer d :: k) []
      | FPushBag21 items =>
          Some ({| G := G s; cap := cap s; registry := registry s; sealed := sealed s ++ [(G s, items)];
                   threads := set_nth (threads s) t (with_frames l k); ran := ran s |},
                [21; 0; 0; 1221; 2 * G s; 0])
      | FSched =>
          let l' := {| ann := ann l; pinned := pinned l; valid := valid l; incs := incs l; serial := serial l;
                       gcnt := gcnt l; bag := bag l; must_collect := true; collecting := collecting l;
                       advance_count := advance_count l; prev_epoch := prev_epoch l; frames := frames l;
                       prog := prog l; registered := registered l |} in
          (* re-pin only when the guard being dropped is the only one alive (D8 repair) *)
          if collecting l && Nat.eqb (gcnt l) 1 then ret l' (FRepin16 :: k) [] else ret l' k []
      | FDeferIncr =>
          let ac := (advance_count l + 1) mod 2 ^ 64 in
          let l' := {| ann := ann l; pinned := pinned l; valid := valid l; incs := incs l; serial := serial l;
                       gcnt := gcnt l; bag := bag l; must_collect := must_collect l; collecting := collecting l;
                       advance_count := ac; prev_epoch := prev_epoch l; frames := frames l;
                       prog := prog l; registered := registered l |} in
          if ac mod COUNTS_BETWEEN_ADVANCE =? 0 then ret l' (FAdv18 :: k) [] else ret l' k []
      | FFlush0 =>
          match bag l with
          | [] => ret l (FSched :: k) []
          | _ :: _ =>
              let l' := {| ann := ann l; pinned := pinned l; valid := valid l; incs := incs l; serial := serial l;
                           gcnt := gcnt l; bag := []; must_collect := must_collect l; collecting := collecting l;
                           advance_count := advance_count l; prev_epoch := prev_epoch l; frames := frames l;
                           prog := prog l; registered := registered l |} in
              ret l' (FPushBag21 (bag l) :: FSched :: k) []
          end
      end
    end
  end.

Definition top_is_yield (s : state) (t : nat) : bool :=
  match getl s t with
  | Some l => match frames l with f :: _ => is_yield f | [] => false end
  | None => false
  end.

(* run the local (non-yield) frames of thread t *)
Fixpoint run_local (fuel : nat) (s : state) (t : nat) (acc : list Z) : state * list Z * bool :=
  match fuel with
  | O => (s, acc, false)
  | S n =>
      match getl s t with
      | Some l =>
          match frames l with
          | [] => (s, acc, true)
          | f :: _ =>
              if is_yield f then (s, acc, true)
              else match micro s t with
                   | Some (s', o) => run_local n s' t (acc ++ o)
                   | None => (s, acc, false)
                   end
          end
      | None => (s, acc, false)
      end
  end.

Definition FUEL : nat := 20000.

(* one scheduled step: the yield frame on top, then the local frames *)
Definition step (s : state) (t : nat) : option (state * list Z) :=
  if top_is_yield s t then
    match micro s t with
    | Some (s1, o1) =>
        match run_local FUEL s1 t o1 with
        | (s2, o2, true) => Some (s2, o2)
        | (_, _, false) => None
        end
    | None => None
    end
  else None.

(* ---- program decoding: cap, then per thread `-1` followed by commands:
        0 pin | 1 unpin | 2 flush | 4 repin | 3 id nbody <nbody commands> defer *)
Fixpoint decode_cmds (fuel : nat) (l : list Z) (n : nat) : list cmd * list Z :=
  match fuel with
  | O => ([], l)
  | S f =>
      match n with
      | O => ([], l)
      | S n' =>
          match l with
          | [] => ([], [])
          | 0 :: r => let (cs, r') := decode_cmds f r n' in (CPin :: cs, r')
          | 1 :: r => let (cs, r') := decode_cmds f r n' in (CUnpin :: cs, r')
          | 2 :: r => let (cs, r') := decode_cmds f r n' in (CFlush :: cs, r')
          | 4 :: r => let (cs, r') := decode_cmds f r n' in (CRepin :: cs, r')
          | 3 :: id :: nb :: r =>
              let (body, r1) := decode_cmds f r (Z.to_nat nb) in
              let (cs, r2) := decode_cmds f r1 n' in (CDefer id body :: cs, r2)
          | _ => ([], [])
          end
      end
  end.

(* a thread's section: `-1 ncmds <cmds>` *)
Fixpoint decode_threads (fuel : nat) (l : list Z) : list (list cmd) :=
  match fuel with
  | O => []
  | S f =>
      match l with
      | (-1) :: n :: r =>
          let (cs, r') := decode_cmds (length l) r (Z.to_nat n) in cs :: decode_threads f r'
      | _ => []
      end
  end.

Definition init_local (p : list cmd) : local :=
  {| ann := 0; pinned := false; valid := false; incs := false; serial := 0; gcnt := 0; bag := [];
     must_collect := false; collecting := false; advance_count := 0; prev_epoch := 0;
     frames := [FStart; FOp]; prog := p; registered := false |}.

(* the harness' own participant (index = number of model threads): registered first, unpinned and
   idle during the case; it is what brought the epoch to g0 *)
Definition main_local : local :=
  {| ann := 0; pinned := false; valid := false; incs := false; serial := 0; gcnt := 0; bag := [];
     must_collect := false; collecting := false; advance_count := 0; prev_epoch := 0;
     frames := []; prog := []; registered := true |}.

Definition init_state (c : nat) (g0 : Z) (progs : list (list cmd)) : state :=
  {| G := g0; cap := c; registry := [length progs]; sealed := [];
     threads := map init_local progs ++ [main_local]; ran := [] |}.

(* input: cap :: g0 :: threads *)
Definition init (prog : list Z) : state :=
  match prog with
  | c :: g0 :: r => init_state (Z.to_nat c) g0 (decode_threads (length r) r)
  | _ => init_state 1 0 []
  end.

Fixpoint replay_from (s : state) (sched : list Z) : list (list Z) :=
  match sched with
  | [] => []
  | t :: r =>
      match step s (Z.to_nat t) with
      | Some (s', o) => o :: replay_from s' r
      | None => [-999] :: replay_from s r
      end
  end.

Definition ebr_replay (prog sched : list Z) : list (list Z) := replay_from (init prog) sched.
