(* Proofs about M2 (Ebr.v): C14 (monotone clock, skew <= 1), C13 (grace periods).
   Everything is an invariant of [micro], hence of [step] and of every schedule. *)
From Coq Require Import ZArith List Bool Lia Arith.
Import ListNotations.
Require Import Params Ebr.
Local Open Scope Z_scope.

(* ---- side conditions on the generated constants *)
Lemma expire_ge_2 : 2 <= EXPIRE_AFTER.
Proof. vm_compute. congruence. Qed.

(* ---- list plumbing *)
Lemma nth_set_nth_same {A} (l : list A) n x y : nth_error l n = Some y -> nth_error (set_nth l n x) n = Some x.
Proof. revert n; induction l as [|a l IH]; intros [|n] H; cbn in *; try discriminate; auto. Qed.
Lemma nth_set_nth_other {A} (l : list A) n m x : n <> m -> nth_error (set_nth l n x) m = nth_error l m.
Proof. revert n m; induction l as [|a l IH]; intros [|n] [|m] H; cbn; auto; try congruence. Qed.
Lemma set_nth_length {A} (l : list A) n x : length (set_nth l n x) = length l.
Proof. revert n; induction l as [|a l IH]; intros [|n]; cbn; auto. Qed.

(* ---- the invariant *)
Definition wit_ok (s : state) (d : def) : Prop :=
  forall q n lq, In (q, n) (wit d) -> nth_error (threads s) q = Some lq ->
    (n <= serial lq)%nat /\ (incs lq = true -> serial lq = n -> ann lq <= dG d).

Definition def_ok (s : state) (d : def) : Prop := dG d <= G s /\ wit_ok s d.
Definition run_ok (s : state) (d : def) : Prop := dG d + EXPIRE_AFTER <= G s /\ wit_ok s d.
Definition sealed_ok (s : state) (b : Z * list def) : Prop :=
  fst b <= G s /\ Forall (fun d => dG d <= fst b /\ wit_ok s d) (snd b).

Definition frame_ok (s : state) (f : frame) : Prop :=
  match f with
  | FRunItems items | FPopped _ items => Forall (run_ok s) items
  | FPushBag21 items => Forall (def_ok s) items
  | _ => True
  end.

Definition adv_ok (s : state) (l : local) (ge : Z) (pend : list nat) : Prop :=
  valid l = true /\ ann l <= ge /\ ge <= G s /\
  forall q lq, nth_error (threads s) q = Some lq -> ~ In q pend -> valid lq = true -> ge <= ann lq.

Definition top_ok (s : state) (l : local) : Prop :=
  match frames l with
  | FPin11 r :: _ => r <= G s
  | FPin12 r :: _ => r <= G s /\ ann l = r /\ pinned l = true
  | FAdvScan ge rest :: _ => adv_ok s l ge rest
  | FAdv19 ge q rest :: _ => adv_ok s l ge (q :: rest)
  | FAdv20 ge :: _ => adv_ok s l ge []
  | FRepin17 g :: _ => valid l = true /\ incs l = false /\ ann l <= g /\ g <= G s
  | _ => True
  end.

(* frames whose [top_ok] clause is non-trivial never have anything pushed above them *)
Definition quiet (f : frame) : Prop :=
  match f with
  | FPin11 _ | FPin12 _ | FAdvScan _ _ | FAdv19 _ _ _ | FAdv20 _ | FRepin17 _ => False
  | _ => True
  end.

Definition reg_ok (reg : list nat) (q : nat) (l : local) : Prop :=
  (registered l = true -> In q reg) /\ (registered l = false -> frames l = [FStart; FOp] /\ valid l = false).

Record thread_ok (s : state) (l : local) : Prop := {
  t_ann : pinned l = true -> ann l <= G s;
  t_valid : valid l = true -> pinned l = true /\ G s <= ann l + 1;
  t_incs : incs l = true -> valid l = true;
  t_frames : Forall (frame_ok s) (frames l);
  t_bag : Forall (def_ok s) (bag l);
  t_top : top_ok s l;
  t_quiet : Forall quiet (tl (frames l)) }.

Record Inv (s : state) : Prop := {
  i_threads : forall q lq, nth_error (threads s) q = Some lq -> thread_ok s lq;
  i_sealed : Forall (sealed_ok s) (sealed s);
  i_reg : forall q lq, nth_error (threads s) q = Some lq -> reg_ok (registry s) q lq }.

(* ---- how one thread's public ghost fields may evolve in one transition *)
Definition evo (l l' : local) : Prop :=
  (serial l <= serial l')%nat /\
  (incs l' = true -> serial l' = serial l -> incs l = true /\ ann l' = ann l).

Lemma evo_refl_fields l l' : serial l' = serial l -> incs l' = incs l -> ann l' = ann l -> evo l l'.
Proof. intros H1 H2 H3. split; [lia|]. intros Hi _. rewrite H2 in Hi. auto. Qed.

Lemma evo_leave l l' : (serial l <= serial l')%nat -> incs l' = false -> evo l l'.
Proof. intros H1 H2. split; auto. intros Hi. congruence. Qed.

Lemma evo_next l l' : serial l' = S (serial l) -> evo l l'.
Proof. intros H. split; [lia|]. intros _ Hs. lia. Qed.

(* all threads evolve by [evo] between s and s' *)
Definition evo_all (s s' : state) : Prop :=
  forall q lq', nth_error (threads s') q = Some lq' ->
    exists lq, nth_error (threads s) q = Some lq /\ evo lq lq'.

Lemma wit_ok_evo s s' d : evo_all s s' -> wit_ok s d -> wit_ok s' d.
Proof.
  intros He Hw q n lq' Hin Hq. destruct (He q lq' Hq) as (lq & Hlq & Hs & Hc).
  destruct (Hw q n lq Hin Hlq) as [Hn Ha]. split; [lia|].
  intros Hi Hser. assert (serial lq' = serial lq) by lia.
  destruct (Hc Hi H) as [Hi0 Hann]. rewrite Hann. apply Ha; auto. lia.
Qed.

Lemma def_ok_mono s s' d : evo_all s s' -> G s <= G s' -> def_ok s d -> def_ok s' d.
Proof. intros He Hg [H1 H2]. split; [lia | eapply wit_ok_evo; eauto]. Qed.
Lemma run_ok_mono s s' d : evo_all s s' -> G s <= G s' -> run_ok s d -> run_ok s' d.
Proof. intros He Hg [H1 H2]. split; [lia | eapply wit_ok_evo; eauto]. Qed.
Lemma sealed_ok_mono s s' b : evo_all s s' -> G s <= G s' -> sealed_ok s b -> sealed_ok s' b.
Proof.
  intros He Hg [H1 H2]. split; [lia|]. eapply Forall_impl; [|exact H2].
  intros d [Ha Hb]. split; auto. eapply wit_ok_evo; eauto.
Qed.
Lemma frame_ok_mono s s' f : evo_all s s' -> G s <= G s' -> frame_ok s f -> frame_ok s' f.
Proof.
  intros He Hg H. destruct f; cbn in *; auto;
    (eapply Forall_impl; [|exact H]; intros d Hd; first [eapply run_ok_mono; eauto | eapply def_ok_mono; eauto]).
Qed.

(* ---- a transition of thread t that replaces its local by l' (same G, registry, sealed, ran) *)
Lemma evo_all_set s t l l' :
  nth_error (threads s) t = Some l -> evo l l' -> evo_all s (setl s t l').
Proof.
  intros Hl He q lq' Hq. unfold setl in Hq; cbn in Hq.
  destruct (Nat.eq_dec t q) as [->|Hne].
  - rewrite (nth_set_nth_same _ _ _ _ Hl) in Hq. inversion Hq; subst. eauto.
  - rewrite nth_set_nth_other in Hq by auto. exists lq'. split; auto. apply evo_refl_fields; auto.
Qed.

(* what the other threads need from a step of t that changes t's public fields *)
Definition pub_safe (s : state) (t : nat) (l' : local) : Prop :=
  forall q lq ge pend, q <> t -> nth_error (threads s) q = Some lq ->
    match frames lq with
    | FAdvScan g r :: _ => ge = g /\ pend = r
    | FAdv19 g x r :: _ => ge = g /\ pend = x :: r
    | FAdv20 g :: _ => ge = g /\ pend = []
    | _ => False
    end -> ~ In t pend -> valid l' = true -> ge <= ann l'.

Lemma top_ok_other s s' t lq l' :
  G s <= G s' ->
  (forall q, q <> t -> nth_error (threads s') q = nth_error (threads s) q) ->
  nth_error (threads s') t = Some l' ->
  (forall ge pend, match frames lq with
    | FAdvScan g r :: _ => ge = g /\ pend = r
    | FAdv19 g x r :: _ => ge = g /\ pend = x :: r
    | FAdv20 g :: _ => ge = g /\ pend = []
    | _ => False
    end -> ~ In t pend -> valid l' = true -> ge <= ann l') ->
  top_ok s lq -> top_ok s' lq.
Proof.
  intros Hg Hoth Ht Hsafe H. unfold top_ok in *.
  destruct (frames lq) as [|f k]; auto.
  destruct f; auto; try lia.
  - destruct H as (?&?&?). repeat split; auto; lia.
  - destruct H as (Hv & Ha & Hge & Hsc). repeat split; auto; try lia.
    intros q lq0 Hq Hnin Hval. destruct (Nat.eq_dec q t) as [->|Hne].
    + rewrite Ht in Hq. inversion Hq; subst. eapply Hsafe; eauto.
    + rewrite Hoth in Hq by auto. eapply Hsc; eauto.
  - destruct H as (Hv & Ha & Hge & Hsc). repeat split; auto; try lia.
    intros q0 lq0 Hq Hnin Hval. destruct (Nat.eq_dec q0 t) as [->|Hne].
    + rewrite Ht in Hq. inversion Hq; subst. eapply Hsafe; eauto.
    + rewrite Hoth in Hq by auto. eapply Hsc; eauto.
  - destruct H as (Hv & Ha & Hge & Hsc). repeat split; auto; try lia.
    intros q lq0 Hq Hnin Hval. destruct (Nat.eq_dec q t) as [->|Hne].
    + rewrite Ht in Hq. inversion Hq; subst. eapply Hsafe; eauto.
    + rewrite Hoth in Hq by auto. eapply Hsc; eauto.
  - destruct H as (?&?&?&?). repeat split; auto; lia.
Qed.

Lemma thread_ok_other s s' t lq l' :
  evo_all s s' -> G s <= G s' ->
  (valid lq = true -> G s' <= ann lq + 1) ->
  (forall q, q <> t -> nth_error (threads s') q = nth_error (threads s) q) ->
  nth_error (threads s') t = Some l' ->
  (forall ge pend, match frames lq with
    | FAdvScan g r :: _ => ge = g /\ pend = r
    | FAdv19 g x r :: _ => ge = g /\ pend = x :: r
    | FAdv20 g :: _ => ge = g /\ pend = []
    | _ => False
    end -> ~ In t pend -> valid l' = true -> ge <= ann l') ->
  thread_ok s lq -> thread_ok s' lq.
Proof.
  intros He Hg Hsk Hoth Ht Hsafe [H1 H2 H3 H4 H5 H6 H7]. split; auto.
  - intros Hp. specialize (H1 Hp). lia.
  - intros Hv. destruct (H2 Hv). split; auto.
  - eapply Forall_impl; [|exact H4]. intros f. apply frame_ok_mono; auto.
  - eapply Forall_impl; [|exact H5]. intros d. apply def_ok_mono; auto.
  - eapply top_ok_other; eauto.
Qed.

(* ---- the general transition lemma *)
Definition mk (s : state) (g' : Z) (reg' : list nat) (sealed' : list (Z * list def)) (t : nat) (l' : local) (ran' : list Z) : state :=
  {| G := g'; cap := cap s; registry := reg'; sealed := sealed'; threads := set_nth (threads s) t l'; ran := ran' |}.

Lemma setl_mk s t l' : setl s t l' = mk s (G s) (registry s) (sealed s) t l' (ran s).
Proof. reflexivity. Qed.

Lemma evo_all_mk s t l l' g' reg' sealed' ran' :
  nth_error (threads s) t = Some l -> evo l l' -> evo_all s (mk s g' reg' sealed' t l' ran').
Proof.
  intros Hl He q lq' Hq. unfold mk in Hq; cbn in Hq.
  destruct (Nat.eq_dec t q) as [->|Hne].
  - rewrite (nth_set_nth_same _ _ _ _ Hl) in Hq. inversion Hq; subst. eauto.
  - rewrite nth_set_nth_other in Hq by auto. exists lq'. split; auto. apply evo_refl_fields; auto.
Qed.

Lemma step_gen s t l l' g' reg' sealed' ran' :
  Inv s -> nth_error (threads s) t = Some l -> evo l l' -> G s <= g' ->
  (forall q lq, q <> t -> nth_error (threads s) q = Some lq -> valid lq = true -> g' <= ann lq + 1) ->
  thread_ok (mk s g' reg' sealed' t l' ran') l' ->
  pub_safe s t l' ->
  Forall (sealed_ok (mk s g' reg' sealed' t l' ran')) sealed' ->
  incl (registry s) reg' -> reg_ok reg' t l' ->
  Inv (mk s g' reg' sealed' t l' ran').
Proof.
  intros HI Hl He Hg Hsk Hown Hsafe Hse Hincl Hreg.
  pose proof (evo_all_mk s t l l' g' reg' sealed' ran' Hl He) as Hea.
  split; [|exact Hse|].
  2:{ intros q lq Hq. cbn in Hq. cbn [registry mk].
      destruct (Nat.eq_dec t q) as [->|Hne].
      - rewrite (nth_set_nth_same _ _ _ _ Hl) in Hq. inversion Hq; subst. exact Hreg.
      - rewrite nth_set_nth_other in Hq by auto. destruct (i_reg s HI q lq Hq) as [R1 R2]. split; auto. }
  intros q lq Hq. cbn in Hq.
  destruct (Nat.eq_dec t q) as [->|Hne].
  - rewrite (nth_set_nth_same _ _ _ _ Hl) in Hq. inversion Hq; subst. exact Hown.
  - rewrite nth_set_nth_other in Hq by auto.
    apply (thread_ok_other s (mk s g' reg' sealed' t l' ran') t lq l').
    + exact Hea.
    + exact Hg.
    + intros Hv. eapply Hsk; eauto.
    + intros q0 Hq0. cbn. apply nth_set_nth_other; auto.
    + cbn. eapply nth_set_nth_same; eauto.
    + intros ge pend Hm Hnin Hv. eapply (Hsafe q lq ge pend); eauto.
    + apply (i_threads s HI q lq Hq).
Qed.

(* when t's public fields do not change, the other advancers' scan clauses about t survive *)
Lemma pub_safe_same s t l l' :
  Inv s -> nth_error (threads s) t = Some l -> ann l' = ann l -> valid l' = valid l -> pub_safe s t l'.
Proof.
  intros HI Hl Ha Hv q lq ge pend Hne Hq Hm Hnin Hval.
  pose proof (t_top s lq (i_threads s HI q lq Hq)) as Ht. unfold top_ok in Ht.
  rewrite Ha. rewrite Hv in Hval.
  destruct (frames lq) as [|f k]; [contradiction|].
  destruct f; try contradiction; destruct Hm as [-> ->]; destruct Ht as (_ & _ & _ & Hsc); eapply Hsc; eauto.
Qed.

(* a thread that is not validated constrains nobody *)
Lemma pub_safe_invalid s t l' : valid l' = false -> pub_safe s t l'.
Proof. intros Hv q lq ge pend _ _ _ _ Hval. congruence. Qed.

Lemma skew_others s t : Inv s ->
  forall q lq, q <> t -> nth_error (threads s) q = Some lq -> valid lq = true -> G s <= ann lq + 1.
Proof. intros HI q lq _ Hq Hv. destruct (t_valid s lq (i_threads s HI q lq Hq) Hv). auto. Qed.

(* the frequent case: same G / registry / sealed / ran, public fields of t unchanged *)
Lemma step_quiet s t l l' :
  Inv s -> nth_error (threads s) t = Some l ->
  ann l' = ann l -> pinned l' = pinned l -> valid l' = valid l -> incs l' = incs l -> serial l' = serial l ->
  registered l = true -> registered l' = true -> Forall quiet (tl (frames l')) ->
  Forall (frame_ok s) (frames l') -> Forall (def_ok s) (bag l') ->
  (forall s', G s' = G s -> (forall q, q <> t -> nth_error (threads s') q = nth_error (threads s) q) ->
              nth_error (threads s') t = Some l' -> top_ok s' l') ->
  Inv (setl s t l').
Proof.
  intros HI Hl Ha Hp Hv Hi Hs Hr Hr' Hq Hfr Hbag Htop. rewrite setl_mk.
  pose proof (i_threads s HI t l Hl) as [O1 O2 O3 O4 O5 O6 O7].
  assert (He : evo l l') by (apply evo_refl_fields; auto).
  pose proof (evo_all_mk s t l l' (G s) (registry s) (sealed s) (ran s) Hl He) as Hea.
  eapply step_gen; eauto; try lia.
  - apply skew_others; auto.
  - split; cbn.
    + rewrite Hp, Ha. auto.
    + rewrite Hv, Hp, Ha. auto.
    + rewrite Hi, Hv. auto.
    + eapply Forall_impl; [|exact Hfr]. intros f. apply frame_ok_mono; auto. cbn; lia.
    + eapply Forall_impl; [|exact Hbag]. intros d. apply def_ok_mono; auto. cbn; lia.
    + apply Htop; cbn; auto.
      * intros q Hq0. apply nth_set_nth_other; auto.
      * eapply nth_set_nth_same; eauto.
    + exact Hq.
  - eapply pub_safe_same; eauto.
  - eapply Forall_impl; [|exact (i_sealed s HI)]. intros b. apply sealed_ok_mono; auto. cbn; lia.
  - apply incl_refl.
  - split; [intros _; destruct (i_reg s HI t l Hl) as [R1 _]; auto | congruence].
Qed.


(* same G / registry / sealed / ran, but t's public fields may change *)
Lemma step_pub s t l l' :
  Inv s -> nth_error (threads s) t = Some l -> evo l l' ->
  registered l = true -> registered l' = true ->
  (pinned l' = true -> ann l' <= G s) ->
  (valid l' = true -> pinned l' = true /\ G s <= ann l' + 1) ->
  (incs l' = true -> valid l' = true) ->
  pub_safe s t l' ->
  Forall quiet (tl (frames l')) -> Forall (frame_ok s) (frames l') -> Forall (def_ok s) (bag l') ->
  (forall s', G s' = G s -> (forall q, q <> t -> nth_error (threads s') q = nth_error (threads s) q) ->
              nth_error (threads s') t = Some l' -> top_ok s' l') ->
  Inv (setl s t l').
Proof.
  intros HI Hl He Hr Hr' Ha Hv Hi Hps Hq Hfr Hbag Htop. rewrite setl_mk.
  pose proof (evo_all_mk s t l l' (G s) (registry s) (sealed s) (ran s) Hl He) as Hea.
  eapply step_gen; eauto; try lia.
  - apply skew_others; auto.
  - split; cbn; auto.
    + eapply Forall_impl; [|exact Hfr]. intros f. apply frame_ok_mono; auto. cbn; lia.
    + eapply Forall_impl; [|exact Hbag]. intros d. apply def_ok_mono; auto. cbn; lia.
    + apply Htop; cbn; auto.
      * intros q Hq0. apply nth_set_nth_other; auto.
      * eapply nth_set_nth_same; eauto.
  - eapply Forall_impl; [|exact (i_sealed s HI)]. intros b. apply sealed_ok_mono; auto. cbn; lia.
  - apply incl_refl.
  - split; [intros _; destruct (i_reg s HI t l Hl) as [R1 _]; auto | congruence].
Qed.

(* t (re)announces an epoch that is at least what every advancer that already passed it needs *)
Lemma pub_safe_atG s t l' : Inv s -> ann l' = G s -> pub_safe s t l'.
Proof.
  intros HI Ha q lq ge pend Hne Hq Hm Hnin Hval.
  pose proof (t_top s lq (i_threads s HI q lq Hq)) as Ht. unfold top_ok in Ht. rewrite Ha.
  destruct (frames lq) as [|f k]; [contradiction|].
  destruct f; try contradiction; destruct Hm as [-> ->]; destruct Ht as (_ & _ & Hge & _); exact Hge.
Qed.

Lemma pub_safe_up s t l l' :
  Inv s -> nth_error (threads s) t = Some l -> valid l = true -> ann l <= ann l' -> pub_safe s t l'.
Proof.
  intros HI Hl Hv Ha q lq ge pend Hne Hq Hm Hnin Hval.
  pose proof (t_top s lq (i_threads s HI q lq Hq)) as Ht. unfold top_ok in Ht.
  destruct (frames lq) as [|f k]; [contradiction|].
  destruct f; try contradiction; destruct Hm as [-> ->]; destruct Ht as (_ & _ & _ & Hsc);
    specialize (Hsc t l Hl Hnin Hv); lia.
Qed.

(* like step_quiet, but the global queue and the log of executed functions may change *)
Lemma step_quiet_gen s t l l' sealed' ran' :
  Inv s -> nth_error (threads s) t = Some l ->
  ann l' = ann l -> pinned l' = pinned l -> valid l' = valid l -> incs l' = incs l -> serial l' = serial l ->
  registered l = true -> registered l' = true -> Forall quiet (tl (frames l')) ->
  Forall (frame_ok s) (frames l') -> Forall (def_ok s) (bag l') ->
  (forall s', G s' = G s -> (forall q, q <> t -> nth_error (threads s') q = nth_error (threads s) q) ->
              nth_error (threads s') t = Some l' -> top_ok s' l') ->
  Forall (sealed_ok s) sealed' ->
  Inv (mk s (G s) (registry s) sealed' t l' ran').
Proof.
  intros HI Hl Ha Hp Hv Hi Hs Hr Hr' Hq Hfr Hbag Htop Hse.
  pose proof (i_threads s HI t l Hl) as [O1 O2 O3 O4 O5 O6 O7].
  assert (He : evo l l') by (apply evo_refl_fields; auto).
  pose proof (evo_all_mk s t l l' (G s) (registry s) sealed' ran' Hl He) as Hea.
  eapply step_gen; eauto; try lia.
  - apply skew_others; auto.
  - split; cbn.
    + rewrite Hp, Ha. auto.
    + rewrite Hv, Hp, Ha. auto.
    + rewrite Hi, Hv. auto.
    + eapply Forall_impl; [|exact Hfr]. intros f. apply frame_ok_mono; auto. cbn; lia.
    + eapply Forall_impl; [|exact Hbag]. intros d. apply def_ok_mono; auto. cbn; lia.
    + apply Htop; cbn; auto.
      * intros q Hq0. apply nth_set_nth_other; auto.
      * eapply nth_set_nth_same; eauto.
    + exact Hq.
  - eapply pub_safe_same; eauto.
  - eapply Forall_impl; [|exact Hse]. intros b. apply sealed_ok_mono; auto. cbn; lia.
  - apply incl_refl.
  - split; [intros _; destruct (i_reg s HI t l Hl) as [R1 _]; auto | congruence].
Qed.

Lemma adv_ok_transfer s s1 t l l' ge pend :
  G s1 = G s -> (forall q, q <> t -> nth_error (threads s1) q = nth_error (threads s) q) ->
  nth_error (threads s1) t = Some l' -> nth_error (threads s) t = Some l ->
  ann l' = ann l -> valid l' = valid l ->
  adv_ok s l ge pend -> adv_ok s1 l' ge pend.
Proof.
  intros Hg Hoth Ht1 Ht Ha Hv (A1 & A2 & A3 & A4). unfold adv_ok. rewrite Hv, Ha, Hg. repeat split; auto.
  intros q lq Hq Hnin Hvq. destruct (Nat.eq_dec q t) as [->|Hne].
  - rewrite Ht1 in Hq. inversion Hq; subst. rewrite Ha. apply (A4 t l Ht Hnin). congruence.
  - rewrite Hoth in Hq by auto. eapply A4; eauto.
Qed.

Lemma Forall_tl {A} (P : A -> Prop) a l : Forall P (a :: l) -> Forall P l.
Proof. intros H. inversion H; auto. Qed.

Lemma frame_ok_cmd s me c : Forall (frame_ok s) (cmd_frames me c).
Proof. destruct c; cbn; repeat constructor. Qed.

(* ---- the invariant is preserved by every transition *)
Ltac qframes := cbn; repeat (apply Forall_cons; [exact I|]); try assumption.

Lemma witnesses_from_spec ls i q n :
  In (q, n) (witnesses_from ls i) ->
  exists lq, nth_error ls (q - i) = Some lq /\ (i <= q)%nat /\ incs lq = true /\ serial lq = n.
Proof.
  revert i. induction ls as [|l ls IH]; intros i H; cbn in H; [contradiction|].
  apply in_app_or in H. destruct H as [H|H].
  - destruct (incs l) eqn:E; [|contradiction]. destruct H as [H|[]]. inversion H; subst.
    exists l. rewrite Nat.sub_diag. cbn. auto.
  - destruct (IH _ H) as (lq & Hn & Hle & Hi & Hs). exists lq. repeat split; auto; try lia.
    replace (q - i)%nat with (S (q - S i)) by lia. exact Hn.
Qed.

Lemma witnesses_spec s q n :
  In (q, n) (witnesses s) -> exists lq, nth_error (threads s) q = Some lq /\ incs lq = true /\ serial lq = n.
Proof.
  intros H. destruct (witnesses_from_spec _ _ _ _ H) as (lq & Hn & _ & Hi & Hs).
  rewrite Nat.sub_0_r in Hn. eauto.
Qed.

Ltac sframes :=
  cbn; repeat first [ exact I | assumption | apply Forall_nil | apply Forall_cons ].

(* after a pop the new top frame is the head of k, which is quiet *)
Ltac popk :=
  match goal with
  | O7 : Forall quiet ?k |- _ =>
      destruct k as [|f0 k0]; [exact I | inversion O7; subst; destruct f0; try exact I; contradiction]
  end.

Ltac qstep :=
  match goal with
  | HI : Inv ?s, Hl : nth_error (threads ?s) ?t = Some ?l, Hr : registered ?l = true |- Inv (setl ?s ?t ?l') =>
      apply (step_quiet s t l l' HI Hl);
      [ reflexivity | reflexivity | reflexivity | reflexivity | reflexivity | exact Hr | exact Hr
      | sframes | sframes | sframes
      | intros s1 Hg1 Hoth1 Hme1; unfold top_ok; cbn; try exact I ]
  end.

Theorem micro_inv s t s' o : Inv s -> micro s t = Some (s', o) -> Inv s'.
Proof.
  intros HI Hm. unfold micro in Hm.
  destruct (getl s t) as [l|] eqn:Hl; [|discriminate]. unfold getl in Hl.
  destruct (frames l) as [|f k] eqn:Hf; [discriminate|].
  pose proof (i_threads s HI t l Hl) as Hok.
  pose proof Hok as [O1 O2 O3 O4 O5 O6 O7].
  rewrite Hf in O4, O7. cbn [tl] in O7.
  pose proof (Forall_tl _ _ _ O4) as O4k.
  assert (Hqk : Forall quiet (tl k)) by (destruct k; [constructor | inversion O7; auto]).
  assert (Hreg : f <> FStart -> registered l = true).
  { intros Hne. destruct (registered l) eqn:E; auto.
    destruct (i_reg s HI t l Hl) as [_ R2]. destruct (R2 E) as [R _]. rewrite Hf in R. inversion R. congruence. }
  destruct f.
  all: try (assert (Hr : registered l = true) by (apply Hreg; discriminate)).
  - (* FStart *)
    inversion Hm; subst s' o; clear Hm.
    match goal with |- Inv {| G := _; cap := _; registry := ?r; sealed := _; threads := set_nth _ _ ?l'; ran := _ |} =>
      change (Inv (mk s (G s) r (sealed s) t l' (ran s))); set (l1 := l') end.
    assert (He : evo l l1) by (apply evo_refl_fields; reflexivity).
    pose proof (evo_all_mk s t l l1 (G s) (t :: registry s) (sealed s) (ran s) Hl He) as Hea.
    eapply step_gen; eauto; try lia.
    + apply skew_others; auto.
    + split; subst l1; cbn; auto.
      * eapply Forall_impl; [|exact O4k]. intros f. apply frame_ok_mono; auto. cbn; lia.
      * eapply Forall_impl; [|exact O5]. intros d. apply def_ok_mono; auto. cbn; lia.
      * destruct k as [|f k']; cbn; auto. inversion O7; subst. destruct f; cbn in *; auto; contradiction.
    + eapply pub_safe_same; eauto.
    + eapply Forall_impl; [|exact (i_sealed s HI)]. intros b. apply sealed_ok_mono; auto. cbn; lia.
    + intros x Hx. right. auto.
    + split; [intros _; left; auto | subst l1; cbn; congruence].
  - (* FOp *)
    destruct (prog l) as [|c rest] eqn:Hp; inversion Hm; subst s' o; clear Hm.
    + qstep.
    + qstep; destruct c; sframes.
  - (* FOpEnd *) inversion Hm; subst s' o; clear Hm. qstep. popk.
  - (* FCmds *)
    destruct cs as [|c rest]; inversion Hm; subst s' o; clear Hm.
    + qstep. popk.
    + qstep; destruct c; sframes.
  - (* FPinStart *)
    destruct (gcnt l); inversion Hm; subst s' o; clear Hm; qstep. popk.
  - (* FPin10 *) inversion Hm; subst s' o; clear Hm. qstep. lia.
  - (* FPin11 *)
    inversion Hm; subst s' o; clear Hm. unfold top_ok in O6; rewrite Hf in O6.
    apply (step_pub s t l _ HI Hl);
      [ apply evo_leave; cbn; auto | exact Hr | exact Hr | cbn; auto | cbn; congruence | cbn; congruence
      | apply pub_safe_invalid; reflexivity | sframes | sframes | sframes
      | intros s1 Hg1 _ _; unfold top_ok; cbn; rewrite Hg1; auto ].
  - (* FPin12 *)
    unfold top_ok in O6; rewrite Hf in O6. destruct O6 as (Hrg & Har & Hpin).
    destruct (Z.eqb_spec (G s) r) as [Heq|Hneq]; inversion Hm; subst s' o; clear Hm.
    + apply (step_pub s t l _ HI Hl);
        [ destruct (collecting l); [apply evo_leave; cbn; auto | apply evo_next; cbn; auto]
        | exact Hr | exact Hr | cbn; intros _; lia | cbn; intros _; split; auto; lia | cbn; auto
        | apply pub_safe_atG; auto; cbn; lia | sframes | sframes | sframes
        | intros s1 Hg1 _ _; unfold top_ok; cbn; popk ].
    + qstep.
  - (* FPin13 *)
    inversion Hm; subst s' o; clear Hm.
    apply (step_pub s t l _ HI Hl);
      [ apply evo_leave; cbn; auto | exact Hr | exact Hr | cbn; congruence | cbn; congruence | cbn; congruence
      | apply pub_safe_invalid; reflexivity | sframes | sframes | sframes
      | intros s1 Hg1 _ _; unfold top_ok; cbn; exact I ].
  - (* FUnpin0 *)
    destruct ((gcnt l =? 1)%nat && negb (collecting l)); inversion Hm; subst s' o; clear Hm.
    + apply (step_pub s t l _ HI Hl);
        [ apply evo_leave; cbn; auto | exact Hr | exact Hr | cbn; auto | cbn; auto | cbn; congruence
        | eapply pub_safe_same; eauto | sframes | sframes | sframes
        | intros s1 Hg1 _ _; unfold top_ok; cbn; exact I ].
    + qstep.
  - (* FUnpinLoop *)
    destruct (must_collect l); inversion Hm; subst s' o; clear Hm; qstep.
  - (* FUnpinAfter *) inversion Hm; subst s' o; clear Hm; qstep.
  - (* FUnpinFin *)
    destruct (gcnt l =? 1)%nat; inversion Hm; subst s' o; clear Hm; qstep. popk.
  - (* FUnpin14 *)
    inversion Hm; subst s' o; clear Hm.
    apply (step_pub s t l _ HI Hl);
      [ apply evo_leave; cbn; auto | exact Hr | exact Hr | cbn; congruence | cbn; congruence | cbn; congruence
      | apply pub_safe_invalid; reflexivity | sframes | sframes | sframes
      | intros s1 Hg1 _ _; unfold top_ok; cbn; popk ].
  - (* FCollect0 *) inversion Hm; subst s' o; clear Hm; qstep.
  - (* FCollectPop *)
    destruct (i <? Z.to_nat COLLECTS_TRIALS)%nat; inversion Hm; subst s' o; clear Hm; qstep. popk.
  - (* FCollect23 *)
    pose proof (i_sealed s HI) as Hse.
    destruct (sealed s) as [|[e items] rest] eqn:Hs.
    + inversion Hm; subst s' o; clear Hm; qstep. popk.
    + destruct (expired (G s) e) eqn:Hex; inversion Hm; subst s' o; clear Hm.
      * inversion Hse as [|b bs [He1 He2] Hrest]; subst. cbn in He1, He2.
        unfold expired in Hex. apply Z.geb_le in Hex.
        match goal with |- Inv {| G := _; cap := _; registry := _; sealed := ?se; threads := set_nth _ _ ?l'; ran := ?r |} =>
          change (Inv (mk s (G s) (registry s) se t l' r)) end.
        apply (step_quiet_gen s t l _ rest (ran s) HI Hl);
          [ reflexivity | reflexivity | reflexivity | reflexivity | reflexivity | exact Hr | exact Hr
          | sframes | | sframes | intros s1 Hg1 _ _; unfold top_ok; cbn; exact I | exact Hrest ].
        cbn. repeat (apply Forall_cons; [|]); try exact I; try assumption.
        eapply Forall_impl; [|exact He2]. intros d [Hd1 Hd2]. split; auto. lia.
      * qstep. popk.
  - (* FPopped *)
    inversion Hm; subst s' o; clear Hm. inversion O4; subst. qstep.
  - (* FRunItems *)
    inversion O4 as [|? ? Hitems _]; subst. cbn in Hitems.
    destruct items as [|d rest].
    + inversion Hm; subst s' o; clear Hm. qstep. popk.
    + inversion Hitems; subst.
      destruct (did d <? 0); inversion Hm; subst s' o; clear Hm.
      * qstep.
      * match goal with |- Inv {| G := _; cap := _; registry := _; sealed := ?se; threads := set_nth _ _ ?l'; ran := ?r |} =>
          change (Inv (mk s (G s) (registry s) se t l' r)) end.
        apply (step_quiet_gen s t l _ (sealed s) _ HI Hl);
          [ reflexivity | reflexivity | reflexivity | reflexivity | reflexivity | exact Hr | exact Hr
          | sframes | sframes | sframes | intros s1 Hg1 _ _; unfold top_ok; cbn; exact I | exact (i_sealed s HI) ].
  - (* FAdv18 *)
    destruct (valid l) eqn:Hv; [|discriminate]. inversion Hm; subst s' o; clear Hm.
    destruct (O2 eq_refl) as [Hpin Hsk].
    qstep. unfold adv_ok; cbn. repeat split; auto; try lia.
    intros q lq Hq Hnin Hvq.
    destruct (Nat.eq_dec q t) as [->|Hne].
    + exfalso. apply Hnin. destruct (i_reg s HI t l Hl) as [R1 _]. auto.
    + rewrite Hoth1 in Hq by auto. destruct (i_reg s HI q lq Hq) as [R1 R2].
      destruct (registered lq) eqn:E; [exfalso; apply Hnin; auto | destruct (R2 eq_refl); congruence].
  - (* FAdvScan *)
    unfold top_ok in O6; rewrite Hf in O6.
    destruct rest as [|q rest']; inversion Hm; subst s' o; clear Hm; qstep;
      eapply (adv_ok_transfer s s1 t l); eauto.
  - (* FAdv19 *)
    unfold top_ok in O6; rewrite Hf in O6.
    destruct (getl s q) as [lq|] eqn:Hq; [|discriminate]. unfold getl in Hq.
    destruct (pinned lq && negb (ann lq =? ge)) eqn:Hc; inversion Hm; subst s' o; clear Hm.
    + qstep. popk.
    + qstep. destruct O6 as (A1 & A2 & A3 & A4).
      eapply (adv_ok_transfer s s1 t l); eauto. repeat split; auto.
      intros q0 lq0 Hq0 Hnin Hv0. destruct (Nat.eq_dec q0 q) as [->|Hne].
      * rewrite Hq in Hq0. inversion Hq0; subst lq0.
        destruct (t_valid s lq (i_threads s HI q lq Hq) Hv0) as [Hp _]. rewrite Hp in Hc. cbn in Hc.
        apply negb_false_iff in Hc. apply Z.eqb_eq in Hc. lia.
      * apply (A4 q0 lq0 Hq0); auto. intros [H|H]; auto.
  - (* FAdv20 *)
    unfold top_ok in O6; rewrite Hf in O6. destruct O6 as (A1 & A2 & A3 & A4).
    inversion Hm; subst s' o; clear Hm.
    destruct (O2 A1) as [Hpin Hsk].
    pose proof (A4 t l Hl (fun x => x) A1) as Hself.
    match goal with |- Inv {| G := ?g; cap := _; registry := _; sealed := ?se; threads := set_nth _ _ ?l'; ran := ?r |} =>
      change (Inv (mk s g (registry s) se t l' r)); set (l1 := l') end.
    assert (He : evo l l1) by (apply evo_refl_fields; reflexivity).
    pose proof (evo_all_mk s t l l1 (ge + 1) (registry s) (sealed s) (ran s) Hl He) as Hea.
    apply (step_gen s t l l1 (ge + 1) (registry s) (sealed s) (ran s) HI Hl He); try lia.
    + intros q lq Hne Hq Hvq. pose proof (A4 q lq Hq (fun x => x) Hvq). lia.
    + split; subst l1; cbn; auto; try (intros; lia).
      * intros Hv. split; auto. lia.
      * eapply Forall_impl; [|exact O4k]. intros f. apply frame_ok_mono; auto. cbn; lia.
      * eapply Forall_impl; [|exact O5]. intros d. apply def_ok_mono; auto. cbn; lia.
      * unfold top_ok; cbn. popk.
    + eapply pub_safe_same; eauto.
    + eapply Forall_impl; [|exact (i_sealed s HI)]. intros b. apply sealed_ok_mono; auto. cbn; lia.
    + apply incl_refl.
    + split; [intros _; destruct (i_reg s HI t l Hl) as [R1 _]; auto | subst l1; cbn; congruence].
  - (* FRepin16 *)
    destruct (valid l) eqn:Hv; [|discriminate]. destruct (incs l) eqn:Hi; [discriminate|]. cbn [andb negb] in Hm.
    destruct (O2 eq_refl) as [Hpin Hsk].
    match type of Hm with context [if ?c then _ else _] => destruct c eqn:Hc end; inversion Hm; subst s' o; clear Hm.
    + qstep. popk.
    + qstep. repeat split; auto; lia.
  - (* FRepin17 *)
    unfold top_ok in O6; rewrite Hf in O6. destruct O6 as (Hv & Hi & Hag & HgG).
    destruct (O2 Hv) as [Hpin Hsk].
    inversion Hm; subst s' o; clear Hm.
    apply (step_pub s t l _ HI Hl);
      [ apply evo_leave; cbn; auto | exact Hr | exact Hr | cbn; auto | cbn; intros _; split; auto; lia | cbn; congruence
      | eapply pub_safe_up; eauto | sframes | sframes | sframes
      | intros s1 Hg1 _ _; unfold top_ok; cbn; popk ].
  - (* FDefer *)
    match type of Hm with context [if ?c then _ else _] => destruct c eqn:Hc end; inversion Hm; subst s' o; clear Hm.
    + qstep. apply Forall_app. split; auto. constructor; [|constructor].
      split; cbn; [lia|].
      intros q n lq Hin Hq. cbn in Hin. destruct (witnesses_spec s q n Hin) as (lq0 & Hq0 & Hi0 & Hs0).
      rewrite Hq in Hq0. inversion Hq0; subst lq0. split; [lia|]. intros _ _.
      pose proof (i_threads s HI q lq Hq) as [Q1 Q2 Q3 _ _ _ _].
      destruct (Q2 (Q3 Hi0)) as [Hp _]. auto.
    + qstep.
  - (* FSched *)
    destruct (collecting l && Nat.eqb (gcnt l) 1); inversion Hm; subst s' o; clear Hm; qstep. popk.
  - (* FDeferIncr *)
    match type of Hm with context [if ?c then _ else _] => destruct c eqn:Hc end; inversion Hm; subst s' o; clear Hm; qstep. popk.
  - (* FFlush0 *)
    destruct (bag l) eqn:Hb; inversion Hm; subst s' o; clear Hm.
    + qstep. rewrite Hb. constructor.
    + inversion O5; subst. qstep.
  - (* FPushBag21 *)
    inversion O4 as [|? ? Hitems _]; subst. cbn in Hitems.
    inversion Hm; subst s' o; clear Hm.
    match goal with |- Inv {| G := _; cap := _; registry := _; sealed := ?se; threads := set_nth _ _ ?l'; ran := ?r |} =>
      change (Inv (mk s (G s) (registry s) se t l' r)) end.
    apply (step_quiet_gen s t l _ _ (ran s) HI Hl);
      [ reflexivity | reflexivity | reflexivity | reflexivity | reflexivity | exact Hr | exact Hr
      | sframes | sframes | sframes | intros s1 Hg1 _ _; unfold top_ok; cbn; popk | ].
    apply Forall_app. split; [exact (i_sealed s HI)|]. constructor; [|constructor].
    split; cbn; [lia|]. eapply Forall_impl; [|exact Hitems]. intros d [Hd1 Hd2]. split; auto.
Qed.

Print Assumptions micro_inv.

(* ---- initial states *)
Lemma nth_error_map_app {A B} (f : A -> B) (l : list A) (x : B) q y :
  nth_error (map f l ++ [x]) q = Some y -> (exists a, nth_error l q = Some a /\ y = f a) \/ (q = length l /\ y = x).
Proof.
  revert q. induction l as [|a l IH]; intros [|q] H; cbn in *.
  - inversion H. right. auto.
  - destruct q; discriminate.
  - inversion H. left. eauto.
  - destruct (IH q H) as [(a0 & H1 & H2)|[H1 H2]]; [left; eauto | right; split; auto].
Qed.

Lemma init_inv c g0 progs : Inv (init_state c g0 progs).
Proof.
  split.
  - intros q lq Hq. cbn in Hq.
    destruct (nth_error_map_app _ _ _ _ _ Hq) as [(p & _ & ->)|[_ ->]];
      split; cbn; try discriminate; repeat constructor.
  - constructor.
  - intros q lq Hq. cbn in Hq. cbn [registry init_state].
    destruct (nth_error_map_app _ _ _ _ _ Hq) as [(p & _ & ->)|[-> ->]]; split; cbn; try discriminate; auto.
Qed.

(* ---- runs: every schedule, at micro granularity and at step granularity *)
Fixpoint mrun (s : state) (sched : list nat) : state :=
  match sched with
  | [] => s
  | t :: r => match micro s t with Some (s', _) => mrun s' r | None => mrun s r end
  end.

Theorem mrun_inv sched : forall s, Inv s -> Inv (mrun s sched).
Proof.
  induction sched as [|t r IH]; cbn; intros s HI; auto.
  destruct (micro s t) as [[s' o]|] eqn:E; auto. apply IH. eapply micro_inv; eauto.
Qed.

Lemma run_local_inv fuel : forall s t acc s' o b, Inv s -> run_local fuel s t acc = (s', o, b) -> Inv s'.
Proof.
  induction fuel as [|n IH]; cbn; intros s t acc s' o b HI H.
  - inversion H; subst; auto.
  - destruct (getl s t) as [l|]; [|inversion H; subst; auto].
    destruct (frames l) as [|f k]; [inversion H; subst; auto|].
    destruct (is_yield f); [inversion H; subst; auto|].
    destruct (micro s t) as [[s1 o1]|] eqn:E; [|inversion H; subst; auto].
    eapply IH; [|exact H]. eapply micro_inv; eauto.
Qed.

Theorem step_inv s t s' o : Inv s -> step s t = Some (s', o) -> Inv s'.
Proof.
  intros HI H. unfold step in H. destruct (top_is_yield s t); [|discriminate].
  destruct (micro s t) as [[s1 o1]|] eqn:E; [|discriminate].
  destruct (run_local FUEL s1 t o1) as [[s2 o2] b] eqn:E2. destruct b; [|discriminate].
  inversion H; subst. eapply run_local_inv; [|exact E2]. eapply micro_inv; eauto.
Qed.

Fixpoint srun (s : state) (sched : list nat) : state :=
  match sched with
  | [] => s
  | t :: r => match step s t with Some (s', _) => srun s' r | None => srun s r end
  end.

Theorem srun_inv sched : forall s, Inv s -> Inv (srun s sched).
Proof.
  induction sched as [|t r IH]; cbn; intros s HI; auto.
  destruct (step s t) as [[s' o]|] eqn:E; auto. apply IH. eapply step_inv; eauto.
Qed.

(* ---- C14: the clock is monotone, moves by single steps; a pinned (validated) participant is at most one behind *)
Theorem C14_skew_inv s q lq : Inv s -> nth_error (threads s) q = Some lq -> valid lq = true ->
  pinned lq = true /\ ann lq <= G s <= ann lq + 1.
Proof.
  intros HI Hq Hv. destruct (i_threads s HI q lq Hq) as [O1 O2 _ _ _ _ _].
  destruct (O2 Hv) as [Hp Hs]. specialize (O1 Hp). auto.
Qed.

Theorem C14_monotone_micro s t s' o : Inv s -> micro s t = Some (s', o) -> G s <= G s' <= G s + 1.
Proof.
  intros HI Hm. unfold micro in Hm.
  destruct (getl s t) as [l|] eqn:Hl; [|discriminate]. unfold getl in Hl.
  destruct (frames l) as [|f k] eqn:Hf; [discriminate|].
  pose proof (i_threads s HI t l Hl) as [O1 O2 O3 O4 O5 O6 O7].
  destruct f;
    repeat match type of Hm with
           | context [match ?c with _ => _ end] => destruct c
           | context [if ?c then _ else _] => destruct c
           end;
    try discriminate; try (inversion Hm; subst; cbn; lia).
  (* FAdv20 *)
  inversion Hm; subst; cbn. unfold top_ok in O6; rewrite Hf in O6. destruct O6 as (A1 & A2 & A3 & A4).
  destruct (O2 A1). lia.
Qed.

(* the announcement of a participant inside a user critical section does not move *)
Theorem C14_ann_stable_micro s t s' o q lq lq' : Inv s -> micro s t = Some (s', o) ->
  nth_error (threads s) q = Some lq -> nth_error (threads s') q = Some lq' ->
  incs lq' = true -> serial lq' = serial lq -> incs lq = true /\ ann lq' = ann lq.
Proof.
  intros HI Hm Hq Hq' Hi Hs.
  (* re-derive evo for this step from the proof structure: it is part of the invariant machinery *)
  unfold micro in Hm.
  destruct (getl s t) as [l|] eqn:Hl; [|discriminate]. unfold getl in Hl.
  destruct (frames l) as [|f k] eqn:Hf; [discriminate|].
  destruct (Nat.eq_dec q t) as [->|Hne].
  - rewrite Hl in Hq. inversion Hq; subst lq.
    destruct f;
      repeat match type of Hm with
             | context [match ?c with _ => _ end] => destruct c eqn:?
             | context [if ?c then _ else _] => destruct c eqn:?
             end;
      try discriminate; inversion Hm; subst; cbn in Hq';
      rewrite (nth_set_nth_same _ _ _ _ Hl) in Hq'; inversion Hq'; subst lq'; cbn in *; auto; try discriminate; try lia.
    (* FRepin17: not inside a user critical section *)
    exfalso. pose proof (t_top s l (i_threads s HI t l Hl)) as Ht. unfold top_ok in Ht. rewrite Hf in Ht.
    destruct Ht as (_ & Hi0 & _). congruence.
  - assert (nth_error (threads s') q = nth_error (threads s) q).
    { destruct f;
        repeat match type of Hm with
               | context [match ?c with _ => _ end] => destruct c
               | context [if ?c then _ else _] => destruct c
               end;
        try discriminate; inversion Hm; subst; cbn; apply nth_set_nth_other; auto. }
    rewrite H in Hq'. rewrite Hq in Hq'. inversion Hq'; subst. auto.
Qed.

(* ---- C13: a deferred function never runs while a critical section that was active when it was
        deferred is still active *)
Lemma witnesses_from_complete ls i q lq :
  nth_error ls q = Some lq -> incs lq = true -> In ((i + q)%nat, serial lq) (witnesses_from ls i).
Proof.
  revert i q. induction ls as [|l ls IH]; intros i [|q] H Hi; cbn in *; try discriminate.
  - inversion H; subst. rewrite Hi. cbn. left. f_equal. lia.
  - apply in_or_app. right. replace (i + S q)%nat with (S i + q)%nat by lia. apply IH; auto.
Qed.

(* [witnesses s] is exactly the set of (participant, serial) inside a user critical section *)
Theorem witnesses_iff s q n :
  In (q, n) (witnesses s) <-> exists lq, nth_error (threads s) q = Some lq /\ incs lq = true /\ serial lq = n.
Proof.
  split; [apply witnesses_spec|].
  intros (lq & Hq & Hi & <-). apply (witnesses_from_complete (threads s) 0 q lq Hq Hi).
Qed.

(* what Local::defer records: the deferred function enters the bag with the current epoch and witness set *)
Theorem defer_records s t l d k s' o :
  nth_error (threads s) t = Some l -> frames l = FDefer d :: k -> (length (bag l) < cap s)%nat ->
  micro s t = Some (s', o) ->
  exists l', nth_error (threads s') t = Some l' /\
             bag l' = bag l ++ [{| did := did d; dbody := dbody d; dG := G s; wit := witnesses s |}].
Proof.
  intros Hl Hf Hlt Hm. unfold micro, getl in Hm. rewrite Hl, Hf in Hm.
  apply Nat.ltb_lt in Hlt. rewrite Hlt in Hm. inversion Hm; subst. eexists. split.
  - cbn. eapply nth_set_nth_same; eauto.
  - reflexivity.
Qed.

Theorem C13_grace_micro s t l d rest k :
  Inv s -> nth_error (threads s) t = Some l -> frames l = FRunItems (d :: rest) :: k ->
  forall q n lq, In (q, n) (wit d) -> nth_error (threads s) q = Some lq ->
    ~ (incs lq = true /\ serial lq = n).
Proof.
  intros HI Hl Hf q n lq Hin Hq [Hi Hs].
  pose proof (i_threads s HI t l Hl) as [_ _ _ O4 _ _ _]. rewrite Hf in O4.
  inversion O4 as [|? ? Hitems _]; subst. cbn in Hitems. inversion Hitems as [|? ? [Hd Hw] _]; subst.
  destruct (Hw q (serial lq) lq Hin Hq) as [_ Hann]. specialize (Hann Hi eq_refl).
  destruct (C14_skew_inv s q lq HI Hq (t_incs s lq (i_threads s HI q lq Hq) Hi)) as [_ [_ Hsk]].
  pose proof expire_ge_2. lia.
Qed.

(* the log of executed functions changes only by running the head of a popped bag *)
Theorem ran_changes s t s' o :
  micro s t = Some (s', o) ->
  ran s' = ran s \/
  exists l d rest k, nth_error (threads s) t = Some l /\ frames l = FRunItems (d :: rest) :: k /\
                     0 <= did d /\ ran s' = did d :: ran s /\ o = [2010; did d; 0].
Proof.
  intros Hm. unfold micro in Hm.
  destruct (getl s t) as [l|] eqn:Hl; [|discriminate]. unfold getl in Hl.
  destruct (frames l) as [|f k] eqn:Hf; [discriminate|].
  destruct f;
    try (repeat match type of Hm with
           | context [match ?c with _ => _ end] => destruct c
           | context [if ?c then _ else _] => destruct c
           end; try discriminate; inversion Hm; subst; cbn; left; reflexivity).
  (* FRunItems *)
  destruct items as [|d rest]; [inversion Hm; subst; left; reflexivity|].
  destruct (did d <? 0) eqn:E; inversion Hm; subst; [left; reflexivity|].
  right. exists l, d, rest, k. apply Z.ltb_ge in E. repeat split; auto.
Qed.

(* over every schedule (micro granularity; [srun_inv] gives the same at step granularity) *)
Theorem C13_grace c g0 progs sched t l d rest k :
  let s := mrun (init_state c g0 progs) sched in
  nth_error (threads s) t = Some l -> frames l = FRunItems (d :: rest) :: k ->
  forall q n lq, In (q, n) (wit d) -> nth_error (threads s) q = Some lq ->
    ~ (incs lq = true /\ serial lq = n).
Proof. intros s. apply C13_grace_micro. apply mrun_inv. apply init_inv. Qed.

Theorem C14_skew c g0 progs sched q lq :
  let s := mrun (init_state c g0 progs) sched in
  nth_error (threads s) q = Some lq -> valid lq = true -> pinned lq = true /\ ann lq <= G s <= ann lq + 1.
Proof. intros s. apply C14_skew_inv. apply mrun_inv. apply init_inv. Qed.

Theorem C14_monotone c g0 progs sched t s' o :
  let s := mrun (init_state c g0 progs) sched in
  micro s t = Some (s', o) -> G s <= G s' <= G s + 1.
Proof. intros s. apply C14_monotone_micro. apply mrun_inv. apply init_inv. Qed.

(* non-vacuity: a concrete run in which a participant is validated-pinned while the epoch has advanced past it *)
Example skew_reachable :
  let s := srun (init_state 2 0 [[CPin; CUnpin]; [CPin; CFlush; CUnpin]])
                [0; 1; 0; 0; 0; 0; 1; 1; 1; 1; 1; 1; 1; 1; 1; 1; 1]%nat in
  exists lq, nth_error (threads s) 0 = Some lq /\ valid lq = true /\ G s = ann lq + 1.
Proof. cbv zeta. vm_compute. eexists. split; [reflexivity|]. split; reflexivity. Qed.

Print Assumptions C13_grace.
Print Assumptions C14_skew.
Print Assumptions C14_monotone.
