(* Deferred::new (src/ebr_impl/deferred.rs): a closure is written into the inline buffer only if it fits there.
   Gen/DeferredW.v is the decision as the source states it now; the statement is about every size and alignment
   (C15: a deferred function runs with its captured data intact - a closure larger than the buffer written inline
   overwrites what follows the buffer). *)
From Coq Require Import ZArith Bool Lia.
Require Import Params DeferredW.
Local Open Scope Z_scope.

Theorem inline_only_if_it_fits size align :
  0 <= size -> 0 < align -> stored_inline size align = true -> size <= 8 * DATA_WORDS /\ align <= 8.
Proof.
  unfold stored_inline. intros Hs Ha H.
  repeat match goal with
         | H : (_ && _) = true |- _ => apply andb_true_iff in H; destruct H
         | H : (_ <=? _) = true |- _ => apply Z.leb_le in H
         | H : (_ <? _) = true |- _ => apply Z.ltb_lt in H
         end.
  assert (0 < DATA_WORDS < 2 ^ 32) by (vm_compute; split; reflexivity).
  unfold wrap in *. rewrite ?Z.mod_small in * by lia. lia.
Qed.

(* and whatever fits is stored inline (no needless allocation while running deferred functions) *)
Theorem inline_if_it_fits size align :
  0 <= size <= 8 * DATA_WORDS -> 0 < align <= 8 -> stored_inline size align = true.
Proof.
  unfold stored_inline. intros Hs Ha.
  assert (0 < DATA_WORDS < 2 ^ 32) by (vm_compute; split; reflexivity).
  unfold wrap. rewrite ?Z.mod_small by lia.
  repeat match goal with
         | |- (_ && _) = true => apply andb_true_iff; split
         | |- (_ <=? _) = true => apply Z.leb_le
         | |- (_ <? _) = true => apply Z.ltb_lt
         end; lia.
Qed.
