(* Proofs about M7 (Cell.v): invariant, linearizability (forward simulation to the sequential cell
   with fixed linearisation points), CAS success criterion, ownership transfer, tag preservation.
   Everything is parametric in the cell kind (strong s = true: AtomicRc / C08, false: AtomicWeak /
   C09).  No axioms. *)
From Coq Require Import ZArith List Bool Lia.
Import ListNotations.
Require Import Params TaggedW Bits TaggedP Cell.
Local Open Scope Z_scope.

(* ------------------------------------------------------------------------------------------ *)
(* words: every word of the model is address | tag | timestamp built by the generated functions *)

Lemma Kok : align_ok K. Proof. unfold align_ok, K. lia. Qed.

Definition wfw (w : Z) : Prop := exists a tag ts, addr_ok K a /\ 0 <= ts /\ w = mk K a tag ts.

Lemma wfw_mk a tag ts : addr_ok K a -> 0 <= ts -> wfw (mk K a tag ts).
Proof. intros. exists a, tag, ts. auto. Qed.

Lemma wfw_0 : wfw 0.
Proof. exists 0, 0, 0. repeat split; try lia. Qed.

Lemma abs_mk a tag ts : addr_ok K a -> 0 <= ts -> abs_word (mk K a tag ts) = (a, tag mod 2 ^ K).
Proof.
  intros Ha Hts. destruct (C11_accessors K a tag ts Kok Ha Hts) as (H1 & H2 & _).
  unfold abs_word. rewrite H1, H2. reflexivity.
Qed.

Lemma wfw_with_tag w tag : wfw w ->
  wfw (t_with_tag K w tag) /\ abs_word (t_with_tag K w tag) = (t_as_raw K w, tag mod 2 ^ K).
Proof.
  intros (a & tg & ts & Ha & Hts & ->).
  rewrite (with_tag_is_mk K a tg ts Kok Ha Hts). split.
  - apply wfw_mk; assumption.
  - rewrite abs_mk by assumption. destruct (C11_accessors K a tg ts Kok Ha Hts) as (_ & -> & _). reflexivity.
Qed.

Lemma ptr_eq_abs p q : wfw p -> wfw q -> (t_ptr_eq K p q = true <-> abs_word p = abs_word q).
Proof.
  intros (a & tg & ts & Ha & Hts & ->) (a' & tg' & ts' & Ha' & Hts' & ->).
  rewrite (C11_ptr_eq_iff K a tg ts a' tg' ts' Kok Ha Ha' Hts Hts').
  rewrite !abs_mk by assumption. split.
  - intros [-> ->]. reflexivity.
  - intros H. inversion H. auto.
Qed.

Lemma ptr_eq_refl p : wfw p -> t_ptr_eq K p p = true.
Proof. intros H. apply ptr_eq_abs; auto. Qed.

Lemma ptr_eq_trans p q r : wfw p -> wfw q -> wfw r ->
  t_ptr_eq K p q = true -> t_ptr_eq K q r = true -> t_ptr_eq K p r = true.
Proof.
  intros Hp Hq Hr H1 H2. apply (ptr_eq_abs p q Hp Hq) in H1. apply (ptr_eq_abs q r Hq Hr) in H2.
  apply (ptr_eq_abs p r Hp Hr). congruence.
Qed.

Lemma ptr_eq_sym p q : wfw p -> wfw q -> t_ptr_eq K p q = true -> t_ptr_eq K q p = true.
Proof.
  intros Hp Hq H1. apply (ptr_eq_abs p q Hp Hq) in H1. apply (ptr_eq_abs q p Hq Hp). congruence.
Qed.

(* Tagged::with_timestamp / plain store: the address and the tag are untouched, only the epoch bits
   may change (C11_with_high_tag) *)
Lemma wfw_stamp k E w : 0 <= E -> wfw w ->
  wfw (stamp k E w) /\ abs_word (stamp k E w) = abs_word w.
Proof.
  intros HE Hw. unfold stamp. destruct k; [|auto].
  destruct (t_is_null K w); [auto|].
  destruct Hw as (a & tg & ts & Ha & Hts & ->).
  rewrite (with_high_tag_is_mk K a tg ts Kok Ha Hts E HE). split.
  - apply wfw_mk; assumption.
  - rewrite !abs_mk by assumption. reflexivity.
Qed.

Lemma stamp_weak E w : stamp false E w = w.
Proof. reflexivity. Qed.

Lemma stamp_strong_ts E a tag ts : 0 <= E -> addr_ok K a -> 0 <= ts -> a <> 0 ->
  stamp true E (mk K a tag ts) = mk K a tag E /\ t_high_tag K (stamp true E (mk K a tag ts)) = E mod 16.
Proof.
  intros HE Ha Hts Hn. unfold stamp.
  rewrite (is_null_iff K a tag ts Kok Ha Hts).
  destruct (Z.eqb_spec a 0); [contradiction|].
  rewrite (with_high_tag_is_mk K a tag ts Kok Ha Hts E HE). split; [reflexivity|].
  destruct (C11_accessors K a tag E Kok Ha HE) as (_ & _ & H & _). exact H.
Qed.

Lemma aval_eqb_eq x y : aval_eqb x y = true <-> x = y.
Proof.
  destruct x as [a b], y as [c d]. unfold aval_eqb. simpl.
  rewrite andb_true_iff, !Z.eqb_eq. split; [intros [-> ->]; reflexivity | intros H; inversion H; auto].
Qed.

Lemma own1_abs a p q : abs_word p = abs_word q -> own1 a p = own1 a q.
Proof. unfold abs_word, own1. intros H. inversion H. reflexivity. Qed.

Lemma own1_0 a : a <> 0 -> own1 a 0 = 0.
Proof. intros H. unfold own1. change (t_as_raw K 0) with 0. destruct (Z.eqb_spec 0 a); congruence. Qed.

Lemma wfw_mkw id tag ts : wfw (mkw id tag ts).
Proof.
  unfold mkw. change (t_with_high_tag K (t_with_tag K (8 * (id mod 2 ^ 57)) tag) (ts mod 16))
    with (mk K (8 * (id mod 2 ^ 57)) tag (ts mod 16)).
  apply wfw_mk.
  - unfold addr_ok, K. pose proof (Z.mod_pos_bound id (2 ^ 57) ltac:(lia)).
    change (2 ^ 60) with (8 * 2 ^ 57). split; [lia|].
    rewrite Z.mul_comm. apply Z.mod_mul. lia.
  - pose proof (Z.mod_pos_bound ts 16 ltac:(lia)). lia.
Qed.

(* ------------------------------------------------------------------------------------------ *)
(* lists *)

Lemma upd_length {A} (l : list A) i x : length (upd l i x) = length l.
Proof. revert i; induction l; intros [|i]; simpl; auto. Qed.

Lemma Forall_upd {A} (P : A -> Prop) l i x : Forall P l -> P x -> Forall P (upd l i x).
Proof.
  intros Hl Hx. revert i. induction Hl; intros [|i]; simpl; constructor; auto.
Qed.

Lemma Forall_nth0 (P : Z -> Prop) l i : Forall P l -> P 0 -> P (nth i l 0).
Proof.
  intros Hl H0. revert i. induction Hl; intros [|i]; simpl; auto.
Qed.

Lemma Forall_nth_error {A} (P : A -> Prop) l i x : Forall P l -> nth_error l i = Some x -> P x.
Proof.
  intros Hl. revert i. induction Hl as [|y l' Hy Hl' IH]; intros [|i]; simpl; intros Hn; try discriminate.
  - inversion Hn; subst; auto.
  - eauto.
Qed.

Lemma nth_error_upd_same {A} (l : list A) i x y : nth_error l i = Some y -> nth_error (upd l i x) i = Some x.
Proof. revert i; induction l; intros [|i]; simpl; intros H; try discriminate; auto. Qed.

Lemma nth_error_upd_other {A} (l : list A) i j x : i <> j -> nth_error (upd l i x) j = nth_error l j.
Proof.
  revert i j; induction l; intros [|i] [|j]; simpl; intros H; auto; try congruence.
Qed.

Lemma nth_upd_same (l : list Z) i x : (i < length l)%nat -> nth i (upd l i x) 0 = x.
Proof. revert i; induction l; intros [|i]; simpl; intros H; try lia; auto. apply IHl. lia. Qed.

Lemma hcount_upd a l i x : (i < length l)%nat ->
  hcount a (upd l i x) = hcount a l - own1 a (nth i l 0) + own1 a x.
Proof.
  revert i; induction l; intros [|i]; simpl; intros H; try lia.
  rewrite IHl by lia. lia.
Qed.

Lemma tcount_upd a l t th th' : nth_error l t = Some th ->
  tcount a (upd l t th') = tcount a l - hcount a (t_hv th) + hcount a (t_hv th').
Proof.
  revert t; induction l; intros [|t]; simpl; intros H; try discriminate.
  - inversion H; subst. lia.
  - rewrite (IHl _ H). lia.
Qed.

Lemma ltb_lt i n : Nat.ltb i n = true -> (i < n)%nat.
Proof. apply Nat.ltb_lt. Qed.

(* ------------------------------------------------------------------------------------------ *)
(* the invariant *)

(* KEY INVARIANT: inside a CAS retry loop (pc = PCas orig exp des) the current `expected_raw`
   is ptr_eq to the original `expected` argument, which still sits in the thread's snapshot
   variable; `des` is the (stamped) desired word computed before the loop. *)
Definition pc_ok (k : bool) (E : Z) (th : thread) : Prop :=
  match t_pc th with
  | PCas orig ex des =>
      wfw orig /\ wfw ex /\ wfw des /\ t_ptr_eq K ex orig = true /\
      match nth_error (t_prog th) (t_ip th) with
      | Some (Cas e h d) | Some (CasWeak e h d) => orig = sget th e /\ des = stamp k E (hget th h)
      | Some (CasTag e tag d) => orig = sget th e /\ des = stamp k E (t_with_tag K orig tag)
      | _ => True
      end
  | _ => True
  end.

Definition thread_ok (k : bool) (E : Z) (th : thread) : Prop :=
  Forall wfw (t_hv th) /\ Forall wfw (t_sv th) /\ pc_ok k E th.

Definition inv (s : state) : Prop :=
  0 <= ep s /\ wfw (cell s) /\ Forall (thread_ok (strong s) (ep s)) (threads s).

Ltac break_step H :=
  repeat match type of H with
  | None = Some _ => discriminate H
  | Some _ = Some _ => inversion H; subst; clear H
  | (match ?x with _ => _ end) = Some _ => let E := fresh "E" in destruct x eqn:E; simpl in H
  | (if ?x then _ else _) = Some _ => let E := fresh "E" in destruct x eqn:E; simpl in H
  | (let (_, _) := ?x in _) = Some _ => let E := fresh "E" in destruct x eqn:E; simpl in H
  end.

Lemma hget_wfw th i : Forall wfw (t_hv th) -> wfw (hget th i).
Proof. intros. unfold hget. apply Forall_nth0; auto using wfw_0. Qed.
Lemma sget_wfw th i : Forall wfw (t_sv th) -> wfw (sget th i).
Proof. intros. unfold sget. apply Forall_nth0; auto using wfw_0. Qed.

Lemma tstep_inv k E c th c' th' obs :
  0 <= E -> wfw c -> thread_ok k E th -> tstep k E c th = Some (c', th', obs) ->
  wfw c' /\ thread_ok k E th'.
Proof.
  intros HE Hc (Hhv & Hsv & Hpc) H. unfold tstep in H.
  pose proof (fun i => hget_wfw th i Hhv) as Hh. pose proof (fun i => sget_wfw th i Hsv) as Hs.
  unfold pc_ok in Hpc.
  destruct (t_pc th) eqn:Epc.
  - (* PStart *) break_step H. split; auto. repeat split; simpl; auto.
  - (* POp *)
    destruct (nth_error (t_prog th) (t_ip th)) as [o|] eqn:Eop.
    2:{ break_step H. split; auto. repeat split; simpl; auto. }
    destruct (negb (op_ok th o)) eqn:Eok; [discriminate|].
    destruct o; break_step H; (split; [assumption|]); unfold thread_ok, pc_ok; simpl; rewrite ?Eop;
      repeat split; auto using Forall_upd, ptr_eq_refl;
      try (apply wfw_stamp; auto); try (apply Forall_upd; auto); try (apply wfw_with_tag; auto).
  - (* PLoad *) break_step H. split; auto. repeat split; simpl; auto using Forall_upd.
  - (* PSwap *)
    break_step H; (split; [apply wfw_stamp; auto|]); repeat split; simpl; auto using Forall_upd, wfw_0.
  - (* PCas *)
    destruct Hpc as (Wo & We & Wd & Hpe & Hop).
    break_step H; try (split; [assumption|]); unfold thread_ok, pc_ok; simpl; rewrite ?E0;
      repeat split; auto using Forall_upd.
    all: try (apply ptr_eq_abs; auto; transitivity (abs_word ex); [apply ptr_eq_abs; auto | apply ptr_eq_abs; auto]).
    all: try tauto.
    all: eapply ptr_eq_trans; [| | |eassumption|eassumption]; assumption.
  - discriminate.
Qed.

Lemma step_inv s t s' obs : inv s -> step s t = Some (s', obs) -> inv s'.
Proof.
  intros (HE & Hc & Hth) H. unfold step in H.
  destruct (nth_error (threads s) t) as [th|] eqn:Et; [|discriminate].
  destruct (tstep (strong s) (ep s) (cell s) th) as [[[c' th'] o]|] eqn:Ets; [|discriminate].
  inversion H; subst; clear H.
  destruct (tstep_inv _ _ _ _ _ _ _ HE Hc (Forall_nth_error _ _ _ _ Hth Et) Ets) as [Hc' Hth'].
  repeat split; simpl; auto using Forall_upd.
Qed.

(* every decoded case starts in a state satisfying the invariant: for ALL program encodings *)
Lemma take_words_wfw n : forall l, Forall wfw (fst (take_words n l)).
Proof.
  induction n; intros l; simpl; [constructor|].
  destruct l as [|id [|tag [|ts r]]]; simpl; try constructor.
  specialize (IHn r). destruct (take_words n r) as [ws r']. simpl in *.
  constructor; auto using wfw_mkw.
Qed.

Lemma parse_thread_ok k E l : thread_ok k E (parse_thread l).
Proof.
  unfold parse_thread. destruct l as [|nh [|ns r]]; try (repeat split; simpl; constructor).
  pose proof (take_words_wfw (N nh) r) as H1.
  destruct (take_words (N nh) r) as [hv r1].
  pose proof (take_words_wfw (N ns) r1) as H2.
  destruct (take_words (N ns) r1) as [sv r2]. simpl in *.
  repeat split; simpl; auto.
Qed.

Lemma threads_ok k E ths : Forall (thread_ok k E) (map parse_thread ths).
Proof. induction ths; simpl; constructor; auto using parse_thread_ok. Qed.

Theorem init_inv prog : inv (init prog).
Proof.
  unfold init. destruct (segs prog) as [hd ths].
  destruct hd as [|k [|E [|id [|tag [|ts r]]]]]; repeat split; simpl; auto using threads_ok, wfw_0, wfw_mkw; lia.
Qed.

(* runs *)
Definition event : Type := (nat * aop * ares)%type.

Fixpoint exec (s : state) (sched : list nat) : option (state * list event) :=
  match sched with
  | [] => Some (s, [])
  | t :: r =>
      match step s t with
      | None => None
      | Some (s', _) =>
          match exec s' r with
          | None => None
          | Some (s'', evs) =>
              Some (s'', match lin s t with Some (o, res) => (t, o, res) :: evs | None => evs end)
          end
      end
  end.

Lemma exec_inv sched : forall s s' evs, inv s -> exec s sched = Some (s', evs) -> inv s'.
Proof.
  induction sched as [|t r IH]; simpl; intros s s' evs Hi H.
  - inversion H; subst; auto.
  - destruct (step s t) as [[s1 o]|] eqn:Es; [|discriminate].
    destruct (exec s1 r) as [[s2 ev2]|] eqn:Ee; [|discriminate].
    inversion H; subst. eapply IH; [eapply step_inv; eauto | eauto].
Qed.

Theorem reachable_inv prog sched s evs : exec (init prog) sched = Some (s, evs) -> inv s.
Proof. apply exec_inv, init_inv. Qed.

(* KEY INVARIANT, stated on reachable states *)
Theorem cas_loop_expected s t th orig ex des :
  inv s -> nth_error (threads s) t = Some th -> t_pc th = PCas orig ex des ->
  t_ptr_eq K ex orig = true /\
  (forall e h d, nth_error (t_prog th) (t_ip th) = Some (Cas e h d) \/
                 nth_error (t_prog th) (t_ip th) = Some (CasWeak e h d) ->
                 orig = sget th e /\ des = stamp (strong s) (ep s) (hget th h)) /\
  (forall e tag d, nth_error (t_prog th) (t_ip th) = Some (CasTag e tag d) ->
                 orig = sget th e /\ des = stamp (strong s) (ep s) (t_with_tag K orig tag)).
Proof.
  intros (HE & Hc & Hth) Et Epc.
  destruct (Forall_nth_error _ _ _ _ Hth Et) as (_ & _ & Hpc). unfold pc_ok in Hpc. rewrite Epc in Hpc.
  destruct Hpc as (_ & _ & _ & Hpe & Hop). split; [assumption|]. split.
  - intros e h d [H|H]; rewrite H in Hop; assumption.
  - intros e tag d H; rewrite H in Hop; assumption.
Qed.

(* ------------------------------------------------------------------------------------------ *)
(* forward simulation to the sequential cell: thread level *)

Lemma spec_cas_ok c e d : c = e -> spec c (ACas e d) = (d, ROk c).
Proof. intros ->. simpl. rewrite (proj2 (aval_eqb_eq e e) eq_refl). reflexivity. Qed.
Lemma spec_cas_err c e d : c <> e -> spec c (ACas e d) = (c, RErr c).
Proof.
  intros H. simpl. destruct (aval_eqb c e) eqn:Eq; [|reflexivity].
  apply aval_eqb_eq in Eq. contradiction.
Qed.
Lemma spec_castag_ok c e tag : c = e -> spec c (ACasTag e tag) = ((fst c, tag mod 2 ^ K), ROk c).
Proof. intros ->. simpl. rewrite (proj2 (aval_eqb_eq e e) eq_refl). reflexivity. Qed.
Lemma spec_castag_err c e tag : c <> e -> spec c (ACasTag e tag) = (c, RErr c).
Proof.
  intros H. simpl. destruct (aval_eqb c e) eqn:Eq; [|reflexivity].
  apply aval_eqb_eq in Eq. contradiction.
Qed.

Lemma abs_of_ptr_eq p q : wfw p -> wfw q -> t_ptr_eq K p q = true -> abs_word p = abs_word q.
Proof. intros Hp Hq. apply ptr_eq_abs; assumption. Qed.
Lemma abs_neq_of_ptr_neq c ex orig : wfw c -> wfw ex -> wfw orig ->
  t_ptr_eq K c ex = false -> t_ptr_eq K ex orig = true -> abs_word c <> abs_word orig.
Proof.
  intros Hc He Ho H1 H2 Habs. apply (ptr_eq_abs ex orig He Ho) in H2.
  assert (t_ptr_eq K c ex = true) by (apply ptr_eq_abs; auto; congruence). congruence.
Qed.

Lemma tsim k E c th c' th' obs :
  0 <= E -> wfw c -> thread_ok k E th -> tstep k E c th = Some (c', th', obs) ->
  match tlin c th with
  | None => c' = c
  | Some (o, r) => spec (abs_word c) o = (abs_word c', r)
  end.
Proof.
  intros HE Hc (Hhv & Hsv & Hpc) H. unfold tstep in H. unfold tlin.
  pose proof (fun i => hget_wfw th i Hhv) as Hh. pose proof (fun i => sget_wfw th i Hsv) as Hs.
  unfold pc_ok in Hpc.
  destruct (t_pc th) eqn:Epc.
  - break_step H. reflexivity.
  - break_step H; reflexivity.
  - break_step H. reflexivity.
  - break_step H; simpl; rewrite (proj2 (wfw_stamp k E (hget th h) HE (Hh h))); reflexivity.
  - destruct Hpc as (Wo & We & Wd & Hpe & Hop).
    break_step H.
    all: try reflexivity.
    all: try (apply spec_cas_err;
              match goal with Hn : t_ptr_eq K ?c ?x = false |- _ => apply (abs_neq_of_ptr_neq c x orig); assumption end).
    all: try (apply spec_castag_err;
              match goal with Hn : t_ptr_eq K ?c ?x = false |- _ => apply (abs_neq_of_ptr_neq c x orig); assumption end).
    all: match goal with Heq : (_ =? _) = true |- _ => apply Z.eqb_eq in Heq; subst c end.
    + destruct Hop as [_ ->]. rewrite spec_cas_ok by (apply abs_of_ptr_eq; auto).
      rewrite (proj2 (wfw_stamp k E (hget th h) HE (Hh h))). reflexivity.
    + destruct Hop as [_ ->]. rewrite spec_cas_ok by (apply abs_of_ptr_eq; auto).
      rewrite (proj2 (wfw_stamp k E (hget th h) HE (Hh h))). reflexivity.
    + destruct Hop as [_ ->]. pose proof (abs_of_ptr_eq _ _ We Wo Hpe) as Ha.
      rewrite spec_castag_ok by assumption.
      destruct (wfw_with_tag orig tag Wo) as [Wt At].
      rewrite (proj2 (wfw_stamp k E _ HE Wt)), At, Ha. reflexivity.
  - discriminate.
Qed.

(* ------------------------------------------------------------------------------------------ *)
(* ownership: thread level *)

Lemma own1_raw a p q : t_as_raw K p = t_as_raw K q -> own1 a p = own1 a q.
Proof. unfold own1. intros ->. reflexivity. Qed.

Lemma own1_stamp a k E w : 0 <= E -> wfw w -> own1 a (stamp k E w) = own1 a w.
Proof. intros HE Hw. apply own1_abs. apply wfw_stamp; assumption. Qed.

Lemma own1_with_tag a w tag : wfw w -> own1 a (t_with_tag K w tag) = own1 a w.
Proof. intros Hw. apply own1_raw. destruct (wfw_with_tag w tag Hw) as [_ H]. inversion H. reflexivity. Qed.

Lemma own1_fst a c : (if fst (abs_word c) =? a then -1 else 0) = - own1 a c.
Proof. unfold own1, abs_word. simpl. destruct (t_as_raw K c =? a); reflexivity. Qed.

Lemma own1_neg a c : (if t_as_raw K c =? a then -1 else 0) = - own1 a c.
Proof. unfold own1. destruct (t_as_raw K c =? a); reflexivity. Qed.

Ltac bools := unfold op_ok in *; repeat match goal with
  | H : negb _ = false |- _ => apply negb_false_iff in H
  | H : _ && _ = true |- _ => apply andb_true_iff in H; destruct H
  | H : hin _ _ = true |- _ => unfold hin in H; apply ltb_lt in H
  | H : sin _ _ = true |- _ => unfold sin in H; apply ltb_lt in H
  end.

Lemma town k E c th c' th' obs a :
  a <> 0 -> 0 <= E -> wfw c -> thread_ok k E th -> tstep k E c th = Some (c', th', obs) ->
  own1 a c' + hcount a (t_hv th') =
  own1 a c + hcount a (t_hv th) +
  match tlin c th with Some (o, _) => spec_owner_delta (abs_word c) o a | None => 0 end.
Proof.
  intros Ha HE Hc (Hhv & Hsv & Hpc) H. unfold tstep in H. unfold tlin.
  pose proof (fun i => hget_wfw th i Hhv) as Hh. pose proof (fun i => sget_wfw th i Hsv) as Hs.
  unfold pc_ok in Hpc.
  destruct (t_pc th) eqn:Epc.
  - break_step H. simpl. lia.
  - break_step H; simpl; try lia.
    bools. rewrite hcount_upd by assumption. fold (hget th h). rewrite own1_with_tag by auto. lia.
  - break_step H. simpl. lia.
  - break_step H; bools; simpl; rewrite hcount_upd by assumption; fold (hget th h);
      rewrite own1_stamp by auto; rewrite ?own1_fst, ?own1_neg, ?own1_0 by assumption; lia.
  - destruct Hpc as (Wo & We & Wd & Hpe & Hop).
    break_step H; bools; simpl; try lia.
    all: match goal with Heq : (_ =? _) = true |- _ => apply Z.eqb_eq in Heq; subst c end.
    + destruct Hop as [_ ->]. rewrite hcount_upd by assumption. fold (hget th h).
      rewrite own1_stamp by auto. lia.
    + destruct Hop as [_ ->]. rewrite hcount_upd by assumption. fold (hget th h).
      rewrite own1_stamp by auto. lia.
    + destruct Hop as [_ ->]. rewrite own1_stamp by (auto; apply wfw_with_tag; auto).
      rewrite own1_with_tag by auto.
      rewrite (own1_abs a exp orig) by (apply abs_of_ptr_eq; auto). lia.
  - discriminate.
Qed.

(* ------------------------------------------------------------------------------------------ *)
(* state level *)

Lemma step_unfold s t s' obs : step s t = Some (s', obs) ->
  exists th c' th', nth_error (threads s) t = Some th /\
    tstep (strong s) (ep s) (cell s) th = Some (c', th', obs) /\
    s' = mkState (strong s) (ep s) c' (upd (threads s) t th').
Proof.
  unfold step. intros H.
  destruct (nth_error (threads s) t) as [th|] eqn:Et; [|discriminate].
  destruct (tstep (strong s) (ep s) (cell s) th) as [[[c' th'] o]|] eqn:Ets; [|discriminate].
  inversion H; subst. eauto 10.
Qed.

(* FORWARD SIMULATION, one step: a step either leaves the cell word untouched (no linearisation
   point: operation start, thread-local operation, CAS iteration that only refreshes the timestamp)
   or is the linearisation point of exactly one abstract operation whose effect on the abstract
   cell and whose result are those of the sequential specification. *)
Theorem sim_step s t s' obs : inv s -> step s t = Some (s', obs) ->
  match lin s t with
  | None => cell s' = cell s
  | Some (o, r) => spec (abs_word (cell s)) o = (abs_word (cell s'), r)
  end.
Proof.
  intros (HE & Hc & Hth) H. destruct (step_unfold _ _ _ _ H) as (th & c' & th' & Et & Ets & ->).
  unfold lin. rewrite Et. simpl.
  exact (tsim _ _ _ _ _ _ _ HE Hc (Forall_nth_error _ _ _ _ Hth Et) Ets).
Qed.

Theorem own_step s t s' obs a : inv s -> step s t = Some (s', obs) -> a <> 0 ->
  owners s' a = owners s a +
    match lin s t with Some (o, _) => spec_owner_delta (abs_word (cell s)) o a | None => 0 end.
Proof.
  intros (HE & Hc & Hth) H Ha. destruct (step_unfold _ _ _ _ H) as (th & c' & th' & Et & Ets & ->).
  unfold lin, owners. rewrite Et. simpl.
  rewrite (tcount_upd a _ _ _ th' Et).
  pose proof (town _ _ _ _ _ _ _ a Ha HE Hc (Forall_nth_error _ _ _ _ Hth Et) Ets). lia.
Qed.

(* runs: the sequence of linearisation-point events is a legal sequential history of the cell *)
Fixpoint legal (c : aval) (evs : list event) (c' : aval) : Prop :=
  match evs with
  | [] => c = c'
  | (_, o, r) :: rest => exists c1, spec c o = (c1, r) /\ legal c1 rest c'
  end.

Fixpoint owner_deltas (c : aval) (evs : list event) (a : Z) : Z :=
  match evs with
  | [] => 0
  | (_, o, _) :: rest => spec_owner_delta c o a + owner_deltas (fst (spec c o)) rest a
  end.

Theorem sim_run sched : forall s s' evs, inv s -> exec s sched = Some (s', evs) ->
  legal (abs_word (cell s)) evs (abs_word (cell s')) /\
  forall a, a <> 0 -> owners s' a = owners s a + owner_deltas (abs_word (cell s)) evs a.
Proof.
  induction sched as [|t r IH]; simpl; intros s s' evs Hi H.
  - inversion H; subst. simpl. split; [reflexivity | intros; lia].
  - destruct (step s t) as [[s1 o]|] eqn:Es; [|discriminate].
    destruct (exec s1 r) as [[s2 ev2]|] eqn:Ee; [|discriminate].
    inversion H; subst; clear H.
    destruct (IH _ _ _ (step_inv _ _ _ _ Hi Es) Ee) as [IH1 IH2].
    pose proof (sim_step _ _ _ _ Hi Es) as Hs.
    pose proof (fun a => own_step _ _ _ _ a Hi Es) as Ho.
    destruct (lin s t) as [[op res]|].
    + simpl. split.
      * exists (abs_word (cell s1)). auto.
      * intros a Ha. rewrite Hs. simpl. rewrite IH2, Ho by assumption. lia.
    + rewrite Hs in *. split; [assumption|].
      intros a Ha. rewrite IH2, Ho by assumption. lia.
Qed.

Theorem linearizable prog sched s evs : exec (init prog) sched = Some (s, evs) ->
  legal (abs_word (cell (init prog))) evs (abs_word (cell s)) /\
  forall a, a <> 0 -> owners s a = owners (init prog) a + owner_deltas (abs_word (cell (init prog))) evs a.
Proof. apply sim_run, init_inv. Qed.

(* ------------------------------------------------------------------------------------------ *)
(* responses: the linearisation point lies inside the operation and the operation's response,
   emitted in the step of the linearisation point, is the specification's result *)

Inductive cres : Type :=
| CVal (w : Z) | CUnit | COld (w : Z) | COk (w : Z) | CErr (cur des : Z).

(* harness-side result observations (cell.rs) *)
Definition enc_res (r : cres) : list Z :=
  match r with
  | CVal w => [2000; 0; w]
  | CUnit => [2000; 1; 0]
  | COld w => [2000; 2; w]
  | COk w => [2001; 1; w]
  | CErr c d => [2001; 0; c; 2002; 0; d]
  end.

Definition abs_res (r : cres) : ares :=
  match r with
  | CVal w => RVal (abs_word w)
  | CUnit => RUnit
  | COld w => ROld (abs_word w)
  | COk w => ROk (abs_word w)
  | CErr c _ => RErr (abs_word c)
  end.

(* started (the step from POp logged `1 opcode arg`) and not yet returned *)
Definition in_op (p : pc) : bool :=
  match p with PLoad | PSwap | PCas _ _ _ => true | _ => false end.

Lemma tresp k E c th c' th' obs :
  tstep k E c th = Some (c', th', obs) ->
  match tlin c th with
  | Some (o, r) =>
      in_op (t_pc th) = true /\ t_pc th' = POp /\ t_ip th' = S (t_ip th) /\
      exists pre cr, obs = pre ++ enc_res cr /\ abs_res cr = r /\ (length pre = 3 \/ length pre = 6)%nat /\
        match cr with CVal w | COld w | COk w | CErr w _ => w = c | CUnit => True end
  | None =>
      in_op (t_pc th) = true ->
      in_op (t_pc th') = true /\ t_ip th' = t_ip th /\ t_hv th' = t_hv th /\ t_sv th' = t_sv th /\
      exists orig ex des, t_pc th = PCas orig ex des /\ t_pc th' = PCas orig c des /\
        obs = [site_cas k; 0; ex] /\ c <> ex /\ t_ptr_eq K c ex = true
  end.
Proof.
  intros H. unfold tstep in H. unfold tlin.
  destruct (t_pc th) eqn:Epc; try (break_step H; simpl; intros; discriminate).
  - break_step H. simpl. repeat split; auto.
    exists [site_load k; 0; 0], (CVal c'). simpl. auto.
  - break_step H; simpl; repeat split; auto.
    + exists [site_swap k; 0; hget th h; site_swap k + 900; 0; c], CUnit. simpl. auto.
    + exists [site_swap k; 0; hget th h; site_swap k + 900; 0; c], (COld c). simpl. auto.
  - break_step H; simpl; repeat split; auto.
    all: try match goal with Heq : (_ =? _) = true |- _ => apply Z.eqb_eq in Heq; subst end.
    all: try (eexists [_; _; _], (COk _); simpl; split; [reflexivity|auto]).
    all: try (eexists [_; _; _], (CErr _ _); simpl; split; [reflexivity|auto]).
    all: intros; repeat split; auto; exists orig, exp, des; repeat split; auto;
              match goal with Hne : (_ =? _) = false |- _ => apply Z.eqb_neq in Hne; exact Hne end.
Qed.

Lemma step_thread s t s' obs th : step s t = Some (s', obs) -> nth_error (threads s) t = Some th ->
  exists th', nth_error (threads s') t = Some th' /\
    tstep (strong s) (ep s) (cell s) th = Some (cell s', th', obs) /\
    strong s' = strong s /\ ep s' = ep s /\
    forall u, u <> t -> nth_error (threads s') u = nth_error (threads s) u.
Proof.
  intros H Et. destruct (step_unfold _ _ _ _ H) as (th0 & c' & th' & Et0 & Ets & ->).
  rewrite Et in Et0. inversion Et0; subst th0. exists th'. simpl.
  repeat split; auto.
  - eapply nth_error_upd_same; eauto.
  - intros u Hu. apply nth_error_upd_other. congruence.
Qed.

Theorem lp_response s t s' obs th : nth_error (threads s) t = Some th -> step s t = Some (s', obs) ->
  exists th', nth_error (threads s') t = Some th' /\
  match lin s t with
  | Some (o, r) =>
      in_op (t_pc th) = true /\ t_pc th' = POp /\ t_ip th' = S (t_ip th) /\
      exists pre cr, obs = pre ++ enc_res cr /\ abs_res cr = r /\ (length pre = 3 \/ length pre = 6)%nat /\
        match cr with CVal w | COld w | COk w | CErr w _ => w = cell s | CUnit => True end
  | None =>
      in_op (t_pc th) = true ->
      in_op (t_pc th') = true /\ t_ip th' = t_ip th /\ t_hv th' = t_hv th /\ t_sv th' = t_sv th /\
      exists orig ex des, t_pc th = PCas orig ex des /\ t_pc th' = PCas orig (cell s) des /\
        obs = [site_cas (strong s); 0; ex] /\ cell s <> ex /\ t_ptr_eq K (cell s) ex = true
  end.
Proof.
  intros Et H. destruct (step_thread _ _ _ _ _ H Et) as (th' & Et' & Ets & _).
  exists th'. split; [assumption|]. unfold lin. rewrite Et. exact (tresp _ _ _ _ _ _ _ Ets).
Qed.

(* ------------------------------------------------------------------------------------------ *)
(* the three outcomes of one iteration of a compare_exchange loop *)

Lemma tcas k E c th orig ex des e h d c' th' obs :
  t_pc th = PCas orig ex des ->
  nth_error (t_prog th) (t_ip th) = Some (Cas e h d) \/ nth_error (t_prog th) (t_ip th) = Some (CasWeak e h d) ->
  tstep k E c th = Some (c', th', obs) ->
  (c = ex /\ c' = des /\ obs = [site_cas k; 0; ex; 2001; 1; c] /\
   t_hv th' = upd (t_hv th) h c /\ t_sv th' = t_sv th /\ (h < length (t_hv th))%nat /\
   tlin c th = Some (ACas (abs_word orig) (abs_word (hget th h)), ROk (abs_word c)))
  \/ (c <> ex /\ t_ptr_eq K c ex = true /\ c' = c /\ obs = [site_cas k; 0; ex] /\
      th' = set_pc th (PCas orig c des) /\ tlin c th = None)
  \/ (t_ptr_eq K c ex = false /\ c' = c /\ obs = [site_cas k; 0; ex; 2001; 0; c; 2002; 0; hget th h] /\
      t_hv th' = t_hv th /\ t_sv th' = upd (t_sv th) d c /\
      tlin c th = Some (ACas (abs_word orig) (abs_word (hget th h)), RErr (abs_word c))).
Proof.
  intros Epc Eop H. unfold tstep in H. unfold tlin. rewrite Epc in *.
  destruct Eop as [Eop|Eop]; rewrite Eop in *; break_step H; bools.
  all: try match goal with Heq : (_ =? _) = true |- _ => apply Z.eqb_eq in Heq; subst end.
  all: try match goal with Hne : (_ =? _) = false |- _ => apply Z.eqb_neq in Hne end.
  all: try (left; repeat split; auto; fail).
  all: try (right; left; repeat split; auto; fail).
  all: right; right; repeat split; auto.
Qed.

Lemma tcastag k E c th orig ex des e tag d c' th' obs :
  t_pc th = PCas orig ex des ->
  nth_error (t_prog th) (t_ip th) = Some (CasTag e tag d) ->
  tstep k E c th = Some (c', th', obs) ->
  (c = ex /\ c' = des /\ obs = [site_cas k; 0; ex; 2001; 1; c] /\
   t_hv th' = t_hv th /\ t_sv th' = upd (t_sv th) d c /\
   tlin c th = Some (ACasTag (abs_word orig) tag, ROk (abs_word c)))
  \/ (c <> ex /\ t_ptr_eq K c ex = true /\ c' = c /\ obs = [site_cas k; 0; ex] /\
      th' = set_pc th (PCas orig c des) /\ tlin c th = None)
  \/ (t_ptr_eq K c ex = false /\ c' = c /\ obs = [site_cas k; 0; ex; 2001; 0; c; 2002; 0; des] /\
      t_hv th' = t_hv th /\ t_sv th' = upd (t_sv th) d c /\
      tlin c th = Some (ACasTag (abs_word orig) tag, RErr (abs_word c))).
Proof.
  intros Epc Eop H. unfold tstep in H. unfold tlin. rewrite Epc in *.
  rewrite Eop in *; break_step H; bools.
  all: try match goal with Heq : (_ =? _) = true |- _ => apply Z.eqb_eq in Heq; subst end.
  all: try match goal with Hne : (_ =? _) = false |- _ => apply Z.eqb_neq in Hne end.
  all: try (left; repeat split; auto; fail).
  all: try (right; left; repeat split; auto; fail).
  all: right; right; repeat split; auto.
Qed.

Lemma tswap k E c th c' th' obs :
  t_pc th = PSwap -> tstep k E c th = Some (c', th', obs) ->
  exists h, (h < length (t_hv th))%nat /\ c' = stamp k E (hget th h) /\ t_sv th' = t_sv th /\
   ((nth_error (t_prog th) (t_ip th) = Some (Store h) /\ t_hv th' = upd (t_hv th) h 0 /\
     obs = [site_swap k; 0; hget th h; site_swap k + 900; 0; c; 2000; 1; 0] /\
     tlin c th = Some (AStore (abs_word (hget th h)), RUnit))
    \/ (nth_error (t_prog th) (t_ip th) = Some (Swap h) /\ t_hv th' = upd (t_hv th) h c /\
     obs = [site_swap k; 0; hget th h; site_swap k + 900; 0; c; 2000; 2; c] /\
     tlin c th = Some (ASwap (abs_word (hget th h)), ROld (abs_word c)))).
Proof.
  intros Epc H. unfold tstep in H. unfold tlin. rewrite Epc in *.
  break_step H; bools; exists h; repeat split; auto.
Qed.

Lemma tload k E c th c' th' obs :
  t_pc th = PLoad -> tstep k E c th = Some (c', th', obs) ->
  exists d, nth_error (t_prog th) (t_ip th) = Some (Load d) /\ c' = c /\ t_hv th' = t_hv th /\
    t_sv th' = upd (t_sv th) d c /\ obs = [site_load k; 0; 0; 2000; 0; c] /\
    tlin c th = Some (ALoad, RVal (abs_word c)).
Proof.
  intros Epc H. unfold tstep in H. unfold tlin. rewrite Epc in *.
  break_step H; bools; exists d; repeat split; auto.
Qed.

(* ------------------------------------------------------------------------------------------ *)
(* CAS success criterion *)

Definition is_cas (th : thread) (e h d : nat) : Prop :=
  nth_error (t_prog th) (t_ip th) = Some (Cas e h d) \/ nth_error (t_prog th) (t_ip th) = Some (CasWeak e h d).

(* At the linearisation point of a compare_exchange(_weak) (the step is not a timestamp-refresh
   iteration) the operation answers Ok exactly when the cell's (address, tag) equal the (address,
   tag) of the `expected` argument sv[e]; the timestamps of cell, expected and desired play no role.
   Ok: desired (stamped for the strong kind) is now the cell content and the previous content is
   returned in hv[h]; Err: desired is back in hv[h] untouched, the current content is in sv[d]. *)
Theorem cas_iff s t th orig ex des e h d s' obs :
  inv s -> nth_error (threads s) t = Some th -> t_pc th = PCas orig ex des -> is_cas th e h d ->
  step s t = Some (s', obs) -> lin s t <> None ->
  orig = sget th e /\
  exists th', nth_error (threads s') t = Some th' /\
  ((obs = [site_cas (strong s); 0; ex; 2001; 1; cell s] /\
    abs_word (cell s) = abs_word (sget th e) /\
    cell s' = stamp (strong s) (ep s) (hget th h) /\ abs_word (cell s') = abs_word (hget th h) /\
    t_hv th' = upd (t_hv th) h (cell s) /\ t_sv th' = t_sv th)
   \/
   (obs = [site_cas (strong s); 0; ex; 2001; 0; cell s; 2002; 0; hget th h] /\
    abs_word (cell s) <> abs_word (sget th e) /\
    cell s' = cell s /\ t_hv th' = t_hv th /\ t_sv th' = upd (t_sv th) d (cell s))).
Proof.
  intros Hi Et Epc Hop H Hlp.
  destruct (cas_loop_expected _ _ _ _ _ _ Hi Et Epc) as (Hpe & Hcas & _).
  destruct (Hcas e h d Hop) as [Ho Hd].
  destruct Hi as (HE & Hc & Hth).
  destruct (Forall_nth_error _ _ _ _ Hth Et) as (Hhv & Hsv & Hpc).
  unfold pc_ok in Hpc. rewrite Epc in Hpc. destruct Hpc as (Wo & We & Wd & _ & _).
  destruct (step_thread _ _ _ _ _ H Et) as (th' & Et' & Ets & _).
  split; [assumption|]. exists th'. split; [assumption|].
  unfold lin in Hlp. rewrite Et in Hlp.
  destruct (tcas _ _ _ _ _ _ _ _ _ _ _ _ _ Epc Hop Ets)
    as [(H1 & H2 & H3 & H4 & H5 & H6 & H7) | [(H1 & H2 & H3 & H4 & H5 & H6) | (H1 & H2 & H3 & H4 & H5 & H6)]].
  - left. subst ex. repeat split; auto.
    + rewrite <- Ho. apply abs_of_ptr_eq; auto.
    + congruence.
    + rewrite H2, Hd. apply wfw_stamp; auto using hget_wfw.
  - congruence.
  - right. repeat split; auto. rewrite <- Ho. apply (abs_neq_of_ptr_neq (cell s) ex orig); auto.
Qed.

Definition responds_ok (obs : list Z) : Prop := exists pre w, obs = pre ++ [2001; 1; w].

Lemma app_inj_tail3 (pre pre' : list Z) a b c a' b' c' :
  pre ++ [a; b; c] = pre' ++ [a'; b'; c'] -> a = a' /\ b = b' /\ c = c'.
Proof.
  intros H.
  change (pre ++ [a; b; c]) with (pre ++ [a; b] ++ [c]) in H.
  change (pre' ++ [a'; b'; c']) with (pre' ++ [a'; b'] ++ [c']) in H.
  rewrite !app_assoc in H. apply app_inj_tail in H. destruct H as [H ->].
  change (pre ++ [a; b]) with (pre ++ [a] ++ [b]) in H.
  change (pre' ++ [a'; b']) with (pre' ++ [a'] ++ [b']) in H.
  rewrite !app_assoc in H. apply app_inj_tail in H. destruct H as [H ->].
  apply app_inj_tail in H. destruct H as [_ ->]. auto.
Qed.

Theorem cas_ok_iff s t th orig ex des e h d s' obs :
  inv s -> nth_error (threads s) t = Some th -> t_pc th = PCas orig ex des -> is_cas th e h d ->
  step s t = Some (s', obs) -> lin s t <> None ->
  (responds_ok obs <-> abs_word (cell s) = abs_word (sget th e)).
Proof.
  intros Hi Et Epc Hop H Hlp.
  destruct (cas_iff _ _ _ _ _ _ _ _ _ _ _ Hi Et Epc Hop H Hlp) as (_ & th' & _ & [C|C]).
  - destruct C as (Hobs & Habs & _). split; [auto|]. intros _.
    exists [site_cas (strong s); 0; ex], (cell s). rewrite Hobs. reflexivity.
  - destruct C as (Hobs & Habs & _). split; [|contradiction].
    intros (pre & w & Hw). rewrite Hobs in Hw.
    change [site_cas (strong s); 0; ex; 2001; 0; cell s; 2002; 0; hget th h]
      with ([site_cas (strong s); 0; ex; 2001; 0; cell s] ++ [2002; 0; hget th h]) in Hw.
    apply app_inj_tail3 in Hw. destruct Hw as (Hw & _). discriminate.
Qed.

(* the same, spelled out on address / tag / timestamp components: ANY timestamps *)
Corollary cas_ok_iff_components s t th orig ex des e h d s' obs a tag ts a' tag' ts' :
  inv s -> nth_error (threads s) t = Some th -> t_pc th = PCas orig ex des -> is_cas th e h d ->
  step s t = Some (s', obs) -> lin s t <> None ->
  addr_ok K a -> addr_ok K a' -> 0 <= ts -> 0 <= ts' ->
  cell s = mk K a tag ts -> sget th e = mk K a' tag' ts' ->
  (responds_ok obs <-> a = a' /\ tag mod 2 ^ K = tag' mod 2 ^ K).
Proof.
  intros Hi Et Epc Hop H Hlp Ha Ha' Hts Hts' Hc He.
  rewrite (cas_ok_iff _ _ _ _ _ _ _ _ _ _ _ Hi Et Epc Hop H Hlp).
  rewrite Hc, He, !abs_mk by assumption. split.
  - intros Heq. inversion Heq. auto.
  - intros [-> ->]. reflexivity.
Qed.

(* compare_exchange_tag *)
Theorem castag_iff s t th orig ex des e tag d s' obs :
  inv s -> nth_error (threads s) t = Some th -> t_pc th = PCas orig ex des ->
  nth_error (t_prog th) (t_ip th) = Some (CasTag e tag d) ->
  step s t = Some (s', obs) -> lin s t <> None ->
  orig = sget th e /\
  exists th', nth_error (threads s') t = Some th' /\ t_hv th' = t_hv th /\ t_sv th' = upd (t_sv th) d (cell s) /\
  ((obs = [site_cas (strong s); 0; ex; 2001; 1; cell s] /\
    abs_word (cell s) = abs_word (sget th e) /\
    abs_word (cell s') = (t_as_raw K (cell s), tag mod 2 ^ K))
   \/
   (obs = [site_cas (strong s); 0; ex; 2001; 0; cell s; 2002; 0; des] /\
    abs_word (cell s) <> abs_word (sget th e) /\ cell s' = cell s /\
    abs_word des = (t_as_raw K (sget th e), tag mod 2 ^ K))).
Proof.
  intros Hi Et Epc Hop H Hlp.
  destruct (cas_loop_expected _ _ _ _ _ _ Hi Et Epc) as (Hpe & _ & Hcas).
  destruct (Hcas e tag d Hop) as [Ho Hd].
  destruct Hi as (HE & Hc & Hth).
  destruct (Forall_nth_error _ _ _ _ Hth Et) as (Hhv & Hsv & Hpc).
  unfold pc_ok in Hpc. rewrite Epc in Hpc. destruct Hpc as (Wo & We & Wd & _ & _).
  destruct (step_thread _ _ _ _ _ H Et) as (th' & Et' & Ets & _).
  split; [assumption|]. exists th'. split; [assumption|].
  unfold lin in Hlp. rewrite Et in Hlp.
  destruct (wfw_with_tag orig tag Wo) as [Wt At].
  assert (Hdes : abs_word des = (t_as_raw K orig, tag mod 2 ^ K)).
  { rewrite Hd, (proj2 (wfw_stamp _ _ _ HE Wt)). exact At. }
  destruct (tcastag _ _ _ _ _ _ _ _ _ _ _ _ _ Epc Hop Ets)
    as [(H1 & H2 & H3 & H4 & H5 & H6) | [(H1 & H2 & H3 & H4 & H5 & H6) | (H1 & H2 & H3 & H4 & H5 & H6)]].
  - split; [assumption|]. split; [assumption|]. left. subst ex.
    pose proof (abs_of_ptr_eq _ _ We Wo Hpe) as Habs.
    repeat split; auto.
    + congruence.
    + rewrite H2, Hdes. unfold abs_word in Habs. inversion Habs. reflexivity.
  - congruence.
  - split; [assumption|]. split; [assumption|]. right. repeat split; auto.
    + rewrite <- Ho. apply (abs_neq_of_ptr_neq (cell s) ex orig); auto.
    + rewrite <- Ho. assumption.
Qed.

(* ------------------------------------------------------------------------------------------ *)
(* ownership transfer of store / swap, and tags *)

Theorem swap_transfer s t th s' obs :
  inv s -> nth_error (threads s) t = Some th -> t_pc th = PSwap -> step s t = Some (s', obs) ->
  exists th' h, nth_error (threads s') t = Some th' /\ (h < length (t_hv th))%nat /\
    cell s' = stamp (strong s) (ep s) (hget th h) /\ abs_word (cell s') = abs_word (hget th h) /\
    t_sv th' = t_sv th /\
    ((nth_error (t_prog th) (t_ip th) = Some (Store h) /\ t_hv th' = upd (t_hv th) h 0 /\
      lin s t = Some (AStore (abs_word (hget th h)), RUnit))
     \/ (nth_error (t_prog th) (t_ip th) = Some (Swap h) /\ t_hv th' = upd (t_hv th) h (cell s) /\
      lin s t = Some (ASwap (abs_word (hget th h)), ROld (abs_word (cell s))))).
Proof.
  intros (HE & Hc & Hth) Et Epc H.
  destruct (Forall_nth_error _ _ _ _ Hth Et) as (Hhv & Hsv & Hpc).
  destruct (step_thread _ _ _ _ _ H Et) as (th' & Et' & Ets & _).
  destruct (tswap _ _ _ _ _ _ _ Epc Ets) as (h & Hh & Hc' & Hsv' & Hcase).
  exists th', h. unfold lin. rewrite Et.
  repeat split; auto.
  - rewrite Hc'. apply wfw_stamp; auto using hget_wfw.
  - destruct Hcase as [(A & B & _ & D)|(A & B & _ & D)]; [left|right]; auto.
Qed.

(* word level: what a store / swap / successful CAS writes keeps address and tag of the handle word
   (tag reduced modulo 2^k), whatever the timestamps; compare_exchange_tag writes exactly
   tag mod 2^k and keeps the address *)
Lemma abs_proj p x y : abs_word p = (x, y) -> t_as_raw K p = x /\ t_tag K p = y.
Proof. unfold abs_word. intros H. injection H as H1 H2. auto. Qed.

Theorem stored_word k E a tag ts : 0 <= E -> addr_ok K a -> 0 <= ts ->
  t_as_raw K (stamp k E (mk K a tag ts)) = a /\ t_tag K (stamp k E (mk K a tag ts)) = tag mod 2 ^ K.
Proof.
  intros HE Ha Hts.
  pose proof (proj2 (wfw_stamp k E _ HE (wfw_mk a tag ts Ha Hts))) as H.
  rewrite abs_mk in H by assumption. apply abs_proj. exact H.
Qed.

Theorem retagged_word k E w tag : 0 <= E -> wfw w ->
  t_as_raw K (stamp k E (t_with_tag K w tag)) = t_as_raw K w /\
  t_tag K (stamp k E (t_with_tag K w tag)) = tag mod 2 ^ K.
Proof.
  intros HE Hw. destruct (wfw_with_tag w tag Hw) as [Wt At].
  pose proof (proj2 (wfw_stamp k E _ HE Wt)) as H. rewrite At in H.
  apply abs_proj. exact H.
Qed.

(* state level: how the (address, tag) content of the cell evolves *)
Theorem tag_step s t s' obs : inv s -> step s t = Some (s', obs) ->
  match lin s t with
  | Some (AStore v, _) | Some (ASwap v, _) => abs_word (cell s') = v
  | Some (ACas _ v, ROk _) => abs_word (cell s') = v
  | Some (ACasTag _ tag, ROk _) => abs_word (cell s') = (t_as_raw K (cell s), tag mod 2 ^ K)
  | Some (_, _) => abs_word (cell s') = abs_word (cell s)
  | None => cell s' = cell s
  end.
Proof.
  intros Hi H. pose proof (sim_step _ _ _ _ Hi H) as Hs.
  destruct (lin s t) as [[o r]|]; [|assumption].
  destruct o; simpl in Hs.
  - apply pair_equal_spec in Hs. destruct Hs as [H1 H2]. subst r. auto.
  - apply pair_equal_spec in Hs. destruct Hs as [H1 H2]. auto.
  - apply pair_equal_spec in Hs. destruct Hs as [H1 H2]. auto.
  - destruct (aval_eqb (abs_word (cell s)) expected); apply pair_equal_spec in Hs;
      destruct Hs as [H1 H2]; subst r; auto.
  - destruct (aval_eqb (abs_word (cell s)) expected); apply pair_equal_spec in Hs;
      destruct Hs as [H1 H2]; subst r; auto.
Qed.

(* an operation is entered only through its start step (site 1, `1 opcode arg`), which does not
   touch the cell: so every linearisation point comes after the operation's start *)
Lemma op_start k E c th c' th' obs :
  tstep k E c th = Some (c', th', obs) -> in_op (t_pc th) = false -> in_op (t_pc th') = true ->
  t_pc th = POp /\ c' = c /\ t_ip th' = t_ip th /\ t_hv th' = t_hv th /\ t_sv th' = t_sv th /\
  exists opcode arg, obs = [1; opcode; arg] /\ tlin c th = None.
Proof.
  intros H Hin Hin'. unfold tstep in H. unfold tlin.
  destruct (t_pc th) eqn:Epc; try discriminate; break_step H; simpl in *; try discriminate;
    repeat split; eauto.
Qed.


Theorem op_start_step s t s' obs th th' :
  nth_error (threads s) t = Some th -> step s t = Some (s', obs) ->
  nth_error (threads s') t = Some th' -> in_op (t_pc th) = false -> in_op (t_pc th') = true ->
  t_pc th = POp /\ cell s' = cell s /\ t_ip th' = t_ip th /\ t_hv th' = t_hv th /\ t_sv th' = t_sv th /\
  (exists opcode arg, obs = [1; opcode; arg]) /\ lin s t = None.
Proof.
  intros Et H Et' Hin Hin'. destruct (step_thread _ _ _ _ _ H Et) as (th1 & Et1 & Ets & _).
  rewrite Et' in Et1. inversion Et1; subst th1.
  destruct (op_start _ _ _ _ _ _ _ Ets Hin Hin') as (A & B & C & D & F & (oc & arg & G & L)).
  unfold lin. rewrite Et. repeat split; eauto.
Qed.

Lemma step_kind s t s' obs : step s t = Some (s', obs) -> strong s' = strong s /\ ep s' = ep s.
Proof. intros H. destruct (step_unfold _ _ _ _ H) as (th & c' & th' & _ & _ & ->). auto. Qed.

Lemma exec_kind sched : forall s s' evs, exec s sched = Some (s', evs) -> strong s' = strong s /\ ep s' = ep s.
Proof.
  induction sched as [|t r IH]; simpl; intros s s' evs H.
  - inversion H; subst; auto.
  - destruct (step s t) as [[s1 o]|] eqn:Es; [|discriminate].
    destruct (exec s1 r) as [[s2 ev2]|] eqn:Ee; [|discriminate].
    inversion H; subst. destruct (IH _ _ _ Ee) as [A B]. destruct (step_kind _ _ _ _ Es) as [C D].
    split; congruence.
Qed.

(* ------------------------------------------------------------------------------------------ *)
(* a concrete reachable scenario (AtomicRc, E = 5): the cell holds object 1 written at epoch 3;
   thread 0 compare_exchanges it against a snapshot of object 1 carrying timestamp 0, with desired =
   object 2 tagged 1; thread 1 loads and then swaps in a null. *)
Definition ex_prog : list Z :=
  [0; 5; 1; 0; 3;  -1; 1; 1;  2; 1; 0;  1; 0; 0;  3; 0; 0; 0;
                   -1; 1; 1;  0; 0; 0;  0; 0; 0;  0; 0;  2; 0].
Definition ex_sched1 : list nat := [0; 1; 0; 1; 0]%nat.
Definition ex_sched2 : list nat := [0; 0; 1; 1; 1; 1]%nat.


(* after ex_sched1 thread 0 is inside its retry loop: its first hardware CAS failed only because of
   the timestamp (3 in the cell, 0 in the snapshot), expected_raw was refreshed to the stored word,
   the original expected is still remembered, desired is object 2 / tag 1 stamped with E = 5 *)
Example ex_mid :
  exists s, exec (init ex_prog) ex_sched1 = Some (s, []) /\
    cell s = mkw 1 0 3 /\
    (exists th, nth_error (threads s) 0 = Some th /\
       t_pc th = PCas (mkw 1 0 0) (mkw 1 0 3) (mkw 2 1 5) /\ mkw 1 0 0 <> mkw 1 0 3 /\
       t_ptr_eq K (mkw 1 0 3) (mkw 1 0 0) = true /\ t_hv th = [mkw 2 1 0]) /\
    owners s 8 = 1 /\ owners s 16 = 1 /\ inv s.
Proof.
  eexists. split; [vm_compute; reflexivity|]. split; [reflexivity|]. split.
  - eexists. split; [reflexivity|]. vm_compute. repeat split; congruence.
  - split; [reflexivity|]. split; [reflexivity|].
    eapply (reachable_inv ex_prog ex_sched1). vm_compute. reflexivity.
Qed.

(* the complete run: one timestamp-refresh iteration, then the CAS succeeds although the
   timestamps of cell (3), expected (0) and desired (0) all differ; the tag 1 of desired is stored;
   the load sees it; the swap returns it as an owner; every object keeps exactly one owner *)
Example ex_full :
  exists s, exec (init ex_prog) (ex_sched1 ++ ex_sched2) =
      Some (s, [(0%nat, ACas (8, 0) (16, 1), ROk (8, 0)); (1%nat, ALoad, RVal (16, 1));
                (1%nat, ASwap (0, 0), ROld (16, 1))]) /\
    cell s = 0 /\
    (exists th0 th1, threads s = [th0; th1] /\ t_hv th0 = [mkw 1 0 3] /\ t_hv th1 = [mkw 2 1 5]) /\
    owners s 8 = 1 /\ owners s 16 = 1 /\ owners (init ex_prog) 8 = 1 /\ owners (init ex_prog) 16 = 1 /\
    replay ex_prog [0; 1; 0; 1; 0; 0; 0; 1; 1; 1; 1] =
      [[]; []; [1; 3; 0]; [1; 0; 0]; [123; 0; mkw 1 0 0]; [123; 0; mkw 1 0 3; 2001; 1; mkw 1 0 3];
       [1; 9; 0]; [121; 0; 0; 2000; 0; mkw 2 1 5]; [1; 2; 0];
       [122; 0; 0; 1022; 0; mkw 2 1 5; 2000; 2; mkw 2 1 5]; [1; 9; 0]].
Proof.
  eexists. split; [vm_compute; reflexivity|]. split; [reflexivity|]. split.
  - do 2 eexists. split; [reflexivity|]. split; reflexivity.
  - repeat split; vm_compute; reflexivity.
Qed.
